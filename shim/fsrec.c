// fsrec: LD_PRELOAD file-system recorder (and fault injector) for crash-consistency checks.
//
// Every file-system operation on a path below $FSREC_ROOT is performed, then appended to the binary
// log $FSREC_LOG together with its data, under one global lock, with a global ticket. The log lets
// lib/fsimage.py rebuild the directory as it was after any ticket, under two crash models.
//
// Record: "FSR1" u64 ticket  u32 op  i32 fd  i64 offset  i64 result  u32 tid  u32 len(path) u32 len(path2) u32 len(data)
//         path path2 data
// ops: 1 open(create flag in offset bit0, trunc bit1)  2 write/pwrite  3 fsync/fdatasync  4 rename  5 unlink
//      6 ftruncate(offset=len)  7 mkdir  8 rmdir  9 close  10 mark(data=text)  11 fault(injected failure; path=op name)
//
// Faults: FSREC_FAIL="<n>:<op>:<substr>:<errno|short=N>[:sticky]"  fails the n-th (1-based) matching call of
//         op in {write,fsync,rename,open,unlink,ftruncate} whose path contains <substr>.
// fsrec_mark(text) is exported for the driver (looked up with dlsym) to put logical events into the same order.
#define _GNU_SOURCE
#include <dlfcn.h>
#include <errno.h>
#include <fcntl.h>
#include <pthread.h>
#include <stdarg.h>
#include <stdint.h>
#include <stdio.h>
#include <stdlib.h>
#include <string.h>
#include <sys/stat.h>
#include <sys/syscall.h>
#include <sys/types.h>
#include <sys/uio.h>
#include <unistd.h>

#define MAXFD 65536
static char *fdpath[MAXFD];
static int fdappend[MAXFD];
static signed char fdneg[MAXFD];
static pthread_mutex_t mu = PTHREAD_MUTEX_INITIALIZER;
static int logfd = -1;
static uint64_t ticket = 0;
static char root[4096];
static size_t rootlen = 0;
static int inited = 0;

static int (*r_open64)(const char *, int, ...);
static int (*r_open)(const char *, int, ...);
static int (*r_openat)(int, const char *, int, ...);
static int (*r_openat64)(int, const char *, int, ...);
static int (*r_creat)(const char *, mode_t);
static ssize_t (*r_write)(int, const void *, size_t);
static ssize_t (*r_pwrite64)(int, const void *, size_t, off_t);
static ssize_t (*r_pwrite)(int, const void *, size_t, off_t);
static ssize_t (*r_writev)(int, const struct iovec *, int);
static int (*r_fsync)(int);
static int (*r_fdatasync)(int);
static int (*r_rename)(const char *, const char *);
static int (*r_unlink)(const char *);
static int (*r_ftruncate64)(int, off_t);
static int (*r_ftruncate)(int, off_t);
static int (*r_mkdir)(const char *, mode_t);
static int (*r_rmdir)(const char *);
static int (*r_close)(int);

// fault plan
static int f_n = 0, f_sticky = 0, f_errno = 0, f_count = 0;
static long f_short = -1;
static char f_op[32], f_sub[256];

static void init(void) {
	if (inited) return;
	inited = 1;
	r_open64 = dlsym(RTLD_NEXT, "open64");
	r_open = dlsym(RTLD_NEXT, "open");
	r_openat = dlsym(RTLD_NEXT, "openat");
	r_openat64 = dlsym(RTLD_NEXT, "openat64");
	r_creat = dlsym(RTLD_NEXT, "creat");
	r_write = dlsym(RTLD_NEXT, "write");
	r_pwrite64 = dlsym(RTLD_NEXT, "pwrite64");
	r_pwrite = dlsym(RTLD_NEXT, "pwrite");
	r_writev = dlsym(RTLD_NEXT, "writev");
	r_fsync = dlsym(RTLD_NEXT, "fsync");
	r_fdatasync = dlsym(RTLD_NEXT, "fdatasync");
	r_rename = dlsym(RTLD_NEXT, "rename");
	r_unlink = dlsym(RTLD_NEXT, "unlink");
	r_ftruncate64 = dlsym(RTLD_NEXT, "ftruncate64");
	r_ftruncate = dlsym(RTLD_NEXT, "ftruncate");
	r_mkdir = dlsym(RTLD_NEXT, "mkdir");
	r_rmdir = dlsym(RTLD_NEXT, "rmdir");
	r_close = dlsym(RTLD_NEXT, "close");
	const char *r = getenv("FSREC_ROOT");
	const char *l = getenv("FSREC_LOG");
	if (r && l) {
		if (!realpath(r, root)) strncpy(root, r, sizeof(root) - 1);
		rootlen = strlen(root);
		logfd = r_open64(l, O_WRONLY | O_CREAT | O_APPEND | O_CLOEXEC, 0644);
	}
	const char *f = getenv("FSREC_FAIL");
	if (f) {
		char buf[512];
		strncpy(buf, f, sizeof(buf) - 1);
		buf[sizeof(buf) - 1] = 0;
		char *save = NULL;
		char *p = strtok_r(buf, ":", &save);
		if (p) f_n = atoi(p);
		p = strtok_r(NULL, ":", &save);
		if (p) strncpy(f_op, p, sizeof(f_op) - 1);
		p = strtok_r(NULL, ":", &save);
		if (p) strncpy(f_sub, p, sizeof(f_sub) - 1);
		p = strtok_r(NULL, ":", &save);
		if (p) {
			if (!strncmp(p, "short=", 6)) f_short = atol(p + 6);
			else f_errno = atoi(p);
		}
		p = strtok_r(NULL, ":", &save);
		if (p && !strcmp(p, "sticky")) f_sticky = 1;
	}
}

static int under(const char *p) { return logfd >= 0 && p && rootlen && !strncmp(p, root, rootlen); }

static void rec(uint32_t op, int fd, int64_t off, int64_t res, const char *p1, const char *p2, const void *data, size_t n) {
	if (logfd < 0) return;
	uint32_t l1 = p1 ? strlen(p1) : 0, l2 = p2 ? strlen(p2) : 0, ln = (uint32_t)n;
	uint32_t tid = (uint32_t)syscall(SYS_gettid);
	uint64_t t = ++ticket;
	char hdr[4 + 8 + 4 + 4 + 8 + 8 + 4 + 4 + 4 + 4];
	char *h = hdr;
	memcpy(h, "FSR1", 4); h += 4;
	memcpy(h, &t, 8); h += 8;
	memcpy(h, &op, 4); h += 4;
	memcpy(h, &fd, 4); h += 4;
	memcpy(h, &off, 8); h += 8;
	memcpy(h, &res, 8); h += 8;
	memcpy(h, &tid, 4); h += 4;
	memcpy(h, &l1, 4); h += 4;
	memcpy(h, &l2, 4); h += 4;
	memcpy(h, &ln, 4); h += 4;
	struct iovec v[4] = {{hdr, sizeof(hdr)}, {(void *)p1, l1}, {(void *)p2, l2}, {(void *)data, ln}};
	r_writev(logfd, v, 4);
}

// returns 1 if this call must fail (errno set) or be shortened (*shortlen set)
static int fault(const char *op, const char *path, long *shortlen) {
	if (!f_n || strcmp(op, f_op) || !path || !strstr(path, f_sub)) return 0;
	f_count++;
	if (f_count == f_n || (f_sticky && f_count > f_n)) {
		rec(11, -1, f_count, f_short >= 0 ? f_short : -f_errno, op, path, NULL, 0);
		if (f_short >= 0) { *shortlen = f_short; return 2; }
		errno = f_errno ? f_errno : EIO;
		return 1;
	}
	return 0;
}

static char *absdup(const char *p) {
	char buf[4096];
	if (p[0] == '/') return strdup(p);
	if (!getcwd(buf, sizeof(buf))) return strdup(p);
	size_t l = strlen(buf);
	snprintf(buf + l, sizeof(buf) - l, "/%s", p);
	return strdup(buf);
}

static int do_open(int which, int dirfd, const char *path, int flags, mode_t mode) {
	init();
	char *ap = (which >= 2 && dirfd != AT_FDCWD && path[0] != '/') ? NULL : absdup(path);
	int track = ap && under(ap);
	if (!track) {
		free(ap);
		int ufd;
		switch (which) {
			case 0: ufd = r_open(path, flags, mode); break;
			case 1: ufd = r_open64(path, flags, mode); break;
			case 2: ufd = r_openat(dirfd, path, flags, mode); break;
			default: ufd = r_openat64(dirfd, path, flags, mode); break;
		}
		if (ufd >= 0 && ufd < MAXFD) fdneg[ufd] = 0;
		return ufd;
	}
	pthread_mutex_lock(&mu);
	long sl;
	if ((flags & (O_WRONLY | O_RDWR | O_CREAT)) && fault("open", ap, &sl) == 1) {
		pthread_mutex_unlock(&mu);
		free(ap);
		return -1;
	}
	struct stat st;
	int existed = stat(ap, &st) == 0;
	int fd;
	switch (which) {
		case 0: fd = r_open(path, flags, mode); break;
		case 1: fd = r_open64(path, flags, mode); break;
		case 2: fd = r_openat(dirfd, path, flags, mode); break;
		default: fd = r_openat64(dirfd, path, flags, mode); break;
	}
	if (fd >= 0 && fd < MAXFD) {
		free(fdpath[fd]);
		fdpath[fd] = ap;
		fdappend[fd] = (flags & O_APPEND) != 0;
		int created = !existed && (flags & O_CREAT);
		int trunc = existed && (flags & O_TRUNC) && (flags & (O_WRONLY | O_RDWR));
		if (created || trunc) rec(1, fd, (created ? 1 : 0) | (trunc ? 2 : 0), fd, ap, NULL, NULL, 0);
	} else {
		free(ap);
	}
	pthread_mutex_unlock(&mu);
	return fd;
}

int open(const char *path, int flags, ...) {
	mode_t m = 0;
	if (flags & (O_CREAT | O_TMPFILE)) { va_list a; va_start(a, flags); m = va_arg(a, mode_t); va_end(a); }
	return do_open(0, AT_FDCWD, path, flags, m);
}
int open64(const char *path, int flags, ...) {
	mode_t m = 0;
	if (flags & (O_CREAT | O_TMPFILE)) { va_list a; va_start(a, flags); m = va_arg(a, mode_t); va_end(a); }
	return do_open(1, AT_FDCWD, path, flags, m);
}
int openat(int dirfd, const char *path, int flags, ...) {
	mode_t m = 0;
	if (flags & (O_CREAT | O_TMPFILE)) { va_list a; va_start(a, flags); m = va_arg(a, mode_t); va_end(a); }
	return do_open(2, dirfd, path, flags, m);
}
int openat64(int dirfd, const char *path, int flags, ...) {
	mode_t m = 0;
	if (flags & (O_CREAT | O_TMPFILE)) { va_list a; va_start(a, flags); m = va_arg(a, mode_t); va_end(a); }
	return do_open(3, dirfd, path, flags, m);
}
int creat(const char *path, mode_t mode) { return do_open(1, AT_FDCWD, path, O_CREAT | O_WRONLY | O_TRUNC, mode); }

// fds we did not see being opened (dup / F_DUPFD_CLOEXEC clones such as the WAL's sync fd, inherited fds):
// resolve them through /proc once; negative answers are cached until the fd is closed.
static int tracked(int fd) {
	if (fd < 0 || fd >= MAXFD || logfd < 0 || fd == logfd) return 0;
	if (fdpath[fd]) return 1;
	if (fdneg[fd]) return 0;
	char link[64], buf[4096];
	snprintf(link, sizeof(link), "/proc/self/fd/%d", fd);
	ssize_t n = readlink(link, buf, sizeof(buf) - 1);
	if (n > 0) {
		buf[n] = 0;
		if (under(buf)) {
			pthread_mutex_lock(&mu);
			if (!fdpath[fd]) {
				fdpath[fd] = strdup(buf);
				int fl = fcntl(fd, F_GETFL);
				fdappend[fd] = fl >= 0 && (fl & O_APPEND);
			}
			pthread_mutex_unlock(&mu);
			return 1;
		}
	}
	fdneg[fd] = 1;
	return 0;
}

ssize_t write(int fd, const void *buf, size_t n) {
	init();
	if (!tracked(fd)) return r_write(fd, buf, n);
	pthread_mutex_lock(&mu);
	long sl = -1;
	int f = fault("write", fdpath[fd], &sl);
	if (f == 1) { pthread_mutex_unlock(&mu); return -1; }
	size_t want = (f == 2 && (size_t)sl < n) ? (size_t)sl : n;
	off_t off;
	if (fdappend[fd]) { struct stat st; fstat(fd, &st); off = st.st_size; } else off = lseek(fd, 0, SEEK_CUR);
	ssize_t r = want ? r_write(fd, buf, want) : 0;
	if (r > 0) rec(2, fd, off, r, fdpath[fd], NULL, buf, (size_t)r);
	if (f == 2) { if (r >= 0 && (size_t)r < n) { /* short write reported as such */ } }
	pthread_mutex_unlock(&mu);
	return r;
}

ssize_t writev(int fd, const struct iovec *iov, int cnt) {
	init();
	if (!tracked(fd)) return r_writev(fd, iov, cnt);
	// flatten (rare path)
	size_t tot = 0;
	for (int i = 0; i < cnt; i++) tot += iov[i].iov_len;
	char *b = malloc(tot ? tot : 1);
	size_t o = 0;
	for (int i = 0; i < cnt; i++) { memcpy(b + o, iov[i].iov_base, iov[i].iov_len); o += iov[i].iov_len; }
	ssize_t r = write(fd, b, tot);
	free(b);
	return r;
}

static ssize_t do_pwrite(int which, int fd, const void *buf, size_t n, off_t off) {
	init();
	if (!tracked(fd)) return which ? r_pwrite64(fd, buf, n, off) : r_pwrite(fd, buf, n, off);
	pthread_mutex_lock(&mu);
	long sl = -1;
	int f = fault("write", fdpath[fd], &sl);
	if (f == 1) { pthread_mutex_unlock(&mu); return -1; }
	size_t want = (f == 2 && (size_t)sl < n) ? (size_t)sl : n;
	ssize_t r = want ? (which ? r_pwrite64(fd, buf, want, off) : r_pwrite(fd, buf, want, off)) : 0;
	if (r > 0) rec(2, fd, off, r, fdpath[fd], NULL, buf, (size_t)r);
	pthread_mutex_unlock(&mu);
	return r;
}
ssize_t pwrite(int fd, const void *buf, size_t n, off_t off) { return do_pwrite(0, fd, buf, n, off); }
ssize_t pwrite64(int fd, const void *buf, size_t n, off_t off) { return do_pwrite(1, fd, buf, n, off); }

static int do_sync(int which, int fd) {
	init();
	if (!tracked(fd)) return which ? r_fdatasync(fd) : r_fsync(fd);
	pthread_mutex_lock(&mu);
	long sl;
	if (fault("fsync", fdpath[fd], &sl) == 1) { pthread_mutex_unlock(&mu); return -1; }
	int r = which ? r_fdatasync(fd) : r_fsync(fd);
	if (r == 0) rec(3, fd, which, r, fdpath[fd], NULL, NULL, 0);
	pthread_mutex_unlock(&mu);
	return r;
}
int fsync(int fd) { return do_sync(0, fd); }
int fdatasync(int fd) { return do_sync(1, fd); }

int rename(const char *a, const char *b) {
	init();
	char *pa = absdup(a), *pb = absdup(b);
	if (!under(pa) && !under(pb)) { free(pa); free(pb); return r_rename(a, b); }
	pthread_mutex_lock(&mu);
	long sl;
	if (fault("rename", pb, &sl) == 1) { pthread_mutex_unlock(&mu); free(pa); free(pb); return -1; }
	int r = r_rename(a, b);
	if (r == 0) {
		rec(4, -1, 0, r, pa, pb, NULL, 0);
		for (int i = 0; i < MAXFD; i++)
			if (fdpath[i] && !strcmp(fdpath[i], pa)) { free(fdpath[i]); fdpath[i] = strdup(pb); }
	}
	pthread_mutex_unlock(&mu);
	free(pa); free(pb);
	return r;
}

int unlink(const char *p) {
	init();
	char *ap = absdup(p);
	if (!under(ap)) { free(ap); return r_unlink(p); }
	pthread_mutex_lock(&mu);
	long sl;
	if (fault("unlink", ap, &sl) == 1) { pthread_mutex_unlock(&mu); free(ap); return -1; }
	int r = r_unlink(p);
	if (r == 0) rec(5, -1, 0, r, ap, NULL, NULL, 0);
	pthread_mutex_unlock(&mu);
	free(ap);
	return r;
}

static int do_trunc(int which, int fd, off_t len) {
	init();
	if (!tracked(fd)) return which ? r_ftruncate64(fd, len) : r_ftruncate(fd, len);
	pthread_mutex_lock(&mu);
	long sl;
	if (fault("ftruncate", fdpath[fd], &sl) == 1) { pthread_mutex_unlock(&mu); return -1; }
	int r = which ? r_ftruncate64(fd, len) : r_ftruncate(fd, len);
	if (r == 0) rec(6, fd, len, r, fdpath[fd], NULL, NULL, 0);
	pthread_mutex_unlock(&mu);
	return r;
}
int ftruncate(int fd, off_t len) { return do_trunc(0, fd, len); }
int ftruncate64(int fd, off_t len) { return do_trunc(1, fd, len); }

int mkdir(const char *p, mode_t m) {
	init();
	char *ap = absdup(p);
	if (!under(ap)) { free(ap); return r_mkdir(p, m); }
	pthread_mutex_lock(&mu);
	int r = r_mkdir(p, m);
	if (r == 0) rec(7, -1, 0, r, ap, NULL, NULL, 0);
	pthread_mutex_unlock(&mu);
	free(ap);
	return r;
}

int rmdir(const char *p) {
	init();
	char *ap = absdup(p);
	if (!under(ap)) { free(ap); return r_rmdir(p); }
	pthread_mutex_lock(&mu);
	int r = r_rmdir(p);
	if (r == 0) rec(8, -1, 0, r, ap, NULL, NULL, 0);
	pthread_mutex_unlock(&mu);
	free(ap);
	return r;
}

int close(int fd) {
	init();
	if (fd >= 0 && fd < MAXFD) fdneg[fd] = 0;
	if (!(fd >= 0 && fd < MAXFD && fdpath[fd] != NULL && logfd >= 0)) return r_close(fd);
	pthread_mutex_lock(&mu);
	free(fdpath[fd]);
	fdpath[fd] = NULL;
	int r = r_close(fd);
	pthread_mutex_unlock(&mu);
	return r;
}

// make std::fs::copy fall back to read()/write()
ssize_t copy_file_range(int a, off64_t *b, int c, off64_t *d, size_t e, unsigned f) {
	(void)a; (void)b; (void)c; (void)d; (void)e; (void)f;
	errno = ENOSYS;
	return -1;
}
ssize_t sendfile(int a, int b, off_t *c, size_t d) { (void)a; (void)b; (void)c; (void)d; errno = ENOSYS; return -1; }
ssize_t sendfile64(int a, int b, off64_t *c, size_t d) { (void)a; (void)b; (void)c; (void)d; errno = ENOSYS; return -1; }

// logical event from the driver, ordered with the file operations; returns the ticket
uint64_t fsrec_mark(const char *text) {
	init();
	if (logfd < 0) return 0;
	pthread_mutex_lock(&mu);
	rec(10, -1, 0, 0, NULL, NULL, text, strlen(text));
	uint64_t t = ticket;
	pthread_mutex_unlock(&mu);
	return t;
}
