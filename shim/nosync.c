/* LD_PRELOAD shim for the C16 damage sweep: durability plays no role in what is judged there
 * (every case works on a throw-away copy), so fsync & co. are turned into no-ops to keep the
 * sweep independent of the disk's sync latency.  Built by checks/c16.py into work/. */
#define _GNU_SOURCE
#include <sys/types.h>
int fsync(int fd) { (void)fd; return 0; }
int fdatasync(int fd) { (void)fd; return 0; }
int syncfs(int fd) { (void)fd; return 0; }
void sync(void) {}
int sync_file_range(int fd, off_t off, off_t n, unsigned int flags) { (void)fd; (void)off; (void)n; (void)flags; return 0; }
int msync(void *a, size_t l, int f) { (void)a; (void)l; (void)f; return 0; }
