---------------------------- MODULE IntegrityMC -----------------------------
(* Bounded instance of Integrity for exhaustive checking with TLC, and       *)
(* exporter of the (region, operation) obligations with the outcome the      *)
(* spec predicts, one line per finished behaviour (spec -> implementation:   *)
(* the harness discharges every obligation on real files, see               *)
(* harness/src/bin/damage_run.rs and checks/c16.py).                         *)
(*                                                                           *)
(* The instance: two tables (T1 newer, on level 0; T2 older), two or three   *)
(* data blocks each, one block per index partition; key ka has its newest    *)
(* version in T1 as a value-log pointer and an older inline version in T2;   *)
(* kb is deleted in T1 (tombstone) and alive in T2; kc exists in T2 only;    *)
(* kd is written by the commit log only.  The log has two segments           *)
(* <<c1, c2>> and <<c3>> (Deep: three segments).                             *)
EXTENDS Integrity, Json

CONSTANTS Deep     \* BOOLEAN: the larger instance

MCTables == IF Deep THEN <<"T1", "T2", "T3">> ELSE <<"T1", "T2">>
MCNBlocks == [t \in {"T1", "T2", "T3"} |-> IF t = "T2" THEN 3 ELSE 2]
(* T2: blocks 1,2 in partition 1, block 3 in partition 2 *)
MCPartOf == [t \in {"T1", "T2", "T3"} |-> [b \in 1..3 |-> IF t = "T2" THEN (IF b = 3 THEN 2 ELSE 1) ELSE b]]
MCKeys == IF Deep THEN {"ka", "kb", "kc", "kd", "ke"} ELSE {"ka", "kb", "kc", "kd"}
MCHome ==
    [t \in {"T1", "T2", "T3"} |->
        [k \in {"ka", "kb", "kc", "kd", "ke"} |->
            CASE t = "T1" /\ k = "ka" -> 1
              [] t = "T1" /\ k = "kb" -> 2
              [] t = "T2" /\ k = "ka" -> 1
              [] t = "T2" /\ k = "kb" -> 2
              [] t = "T2" /\ k = "kc" -> 3
              [] t = "T3" /\ k = "kb" -> 1
              [] t = "T3" /\ k = "ke" -> 2
              [] OTHER -> 0]]
E(kind, v, e) == [kind |-> kind, v |-> v, e |-> e]
MCEntry ==
    [t \in {"T1", "T2", "T3"} |->
        [k \in {"ka", "kb", "kc", "kd", "ke"} |->
            CASE t = "T1" /\ k = "ka" -> E("ptr", "a2", 1)
              [] t = "T1" /\ k = "kb" -> E("tomb", "", 0)
              [] t = "T2" /\ k = "ka" -> E("val", "a1", 0)
              [] t = "T2" /\ k = "kb" -> E("val", "b1", 0)
              [] t = "T2" /\ k = "kc" -> E("ptr", "c1", 2)
              [] t = "T3" /\ k = "kb" -> E("val", "b0", 0)
              [] t = "T3" /\ k = "ke" -> E("ptr", "e1", 3)
              [] OTHER -> E("none", "", 0)]]
MCVlogEntries == IF Deep THEN 1..4 ELSE 1..3        \* the last entry is referenced by no table
MCSegments == IF Deep THEN <<<<"c1", "c2">>, <<"c3">>, <<"c4", "c5">>>> ELSE <<<<"c1", "c2">>, <<"c3">>>>
MCCommitKey == [c \in {"c1", "c2", "c3", "c4", "c5"} |-> IF c \in {"c1", "c3", "c5"} THEN "kd" ELSE "kb"]
MCCommitVal == [c \in {"c1", "c2", "c3", "c4", "c5"} |-> "w" \o c]

(* ---- export: one line per behaviour that has ended ---------------------- *)
OpClass == IF op = "none" THEN "open" ELSE op
Export ==
    IF pc' = "done"
    THEN PrintT("REPLAY " \o ToJson(
            [file |-> fault'.f, region |-> fault'.k, how |-> fault'.how, table |-> fault'.t, seg |-> fault'.s,
             idx |-> fault'.i, mode |-> WalMode,
             open |-> openRes', op |-> op', key |-> key', res |-> opRes',
             log |-> (IF openRes' = "ok" THEN LogState' ELSE "none"),
             tainted |-> tainted', gap |-> Gap(fault'), dead |-> Dead(fault')]))
    ELSE TRUE
=============================================================================
