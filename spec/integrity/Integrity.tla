----------------------------- MODULE Integrity ------------------------------
(***************************************************************************)
(* C16 -- damaged files are detected, never served as data.                *)
(*                                                                         *)
(* What surrealkv does with the bytes of a table file (src/sstable),       *)
(* a commit-log segment (src/wal) and a value-log file (src/vlog.rs) when  *)
(* it opens a store and answers get / scan: which REGION of the on-disk    *)
(* format is read at which step, which check (if any) covers the region    *)
(* before its content is interpreted, and what the step does when the      *)
(* check fails.  One region instance is damaged (chosen in Init: the       *)
(* single-alteration fault model of the property); the machine then runs   *)
(* open -> one operation.                                                  *)
(*                                                                         *)
(* The module is implementation shaped: one action per code step that      *)
(* reads, checks or interprets a region, in the order of the code          *)
(* (Table::new: footer -> top-level index -> metaindex -> filter;          *)
(* Table::get: filter -> partition -> data block -> value log;             *)
(* wal Reader::next: header -> type dispatch -> length -> crc -> payload;  *)
(* replay_wal_with_repair: repair once, replay everything again).          *)
(* Three switches describe behaviour of today's code that a maintainer     *)
(* may change; the .cfg sets them to what the code does today:             *)
(*   VerifyFilter             read_filter_block verifies the block crc     *)
(*   CompressionRecordChecked a SetCompressionType record is crc-checked   *)
(*                            before it is obeyed                          *)
(*   RepairOnlyNewestSegment  damage in a segment that is not the newest   *)
(*                            one is an error instead of being "repaired"  *)
(*                                                                         *)
(* Ghost state states the property without reference to the format:        *)
(*   tainted  a damaged region was interpreted although no check that      *)
(*            covers it had passed                                         *)
(*   openRes / opRes: the answer compared with TruthAt (fault-free answer) *)
(*   applied  the commits replayed from the log, compared with AllCommits  *)
(* What the spec does NOT say: that a CRC-32 detects the alteration (it    *)
(* does for every single-byte change; the harness checks the bytes), nor   *)
(* anything about byte offsets -- the harness maps real offsets to the     *)
(* region names used here.                                                 *)
(***************************************************************************)
EXTENDS Naturals, Sequences, FiniteSets, TLC

CONSTANTS
    Tables,         \* sequence of table names in lookup order (newest first)
    NBlocks,        \* [table -> number of data blocks]
    PartOf,         \* [table -> [block -> partition number]]
    Keys,           \* set of user keys
    Home,           \* [table -> [key -> block number, 0 = key not in this table]]
    Entry,          \* [table -> [key -> [kind |-> "val"|"tomb"|"ptr", v |-> value, e |-> vlog entry]]]
    VlogEntries,    \* entry numbers 1..n of the one value-log file
    Segments,       \* sequence of log segments; a segment is a sequence of commit names
    CommitKey,      \* [commit -> key it writes]
    CommitVal,      \* [commit -> value it writes]
    Absent,         \* "no value"
    WalMode,        \* "repair" | "absolute"            Options::wal_recovery_mode
    VerifyFilter,               \* BOOLEAN, today FALSE  (table.rs read_filter_block)
    CompressionRecordChecked,   \* BOOLEAN, today FALSE  (wal/reader.rs SetCompressionType branch)
    RepairOnlyNewestSegment,    \* BOOLEAN, today FALSE  (lsm.rs replay_wal_with_repair)
    KnownGaps       \* names of the gaps the invariants tolerate (see Gap)

TableSet == {Tables[x] : x \in 1..Len(Tables)}
NParts(t) == LET ps == {PartOf[t][b] : b \in 1..NBlocks[t]} IN Cardinality(ps)

-----------------------------------------------------------------------------
(* Regions.  A block on disk is payload ++ compression-type byte ++ masked  *)
(* crc (table.rs write_block_at_offset); the crc covers payload and type.   *)
BlockParts(p) == {p \o ".payload", p \o ".type", p \o ".crc"}

R(f, t, s, k, i, how) == [f |-> f, t |-> t, s |-> s, k |-> k, i |-> i, how |-> how]
NoFault == R("none", "", 0, "none", 0, "changed")

SstFaults ==
    {R("sst", t, 0, k, 0, "changed") :
        t \in TableSet,
        k \in {"footer.format", "footer.padding", "footer.magic", "properties", "truncate"}
              \cup BlockParts("topindex") \cup BlockParts("metaindex") \cup BlockParts("filter")}
    \cup {R("sst", t, 0, "footer.handles", 0, h) : t \in TableSet, h \in {"changed", "same_value", "aliased"}}
    \cup UNION {{R("sst", t, 0, k, p, "changed") : p \in 1..NParts(t), k \in BlockParts("partition")} : t \in TableSet}
    \cup UNION {{R("sst", t, 0, k, b, "changed") : b \in 1..NBlocks[t], k \in BlockParts("data")} : t \in TableSet}

VlogFaults ==
    {R("vlog", "", 0, k, 0, "changed") : k \in {"header.magic", "header.version", "header.file_id", "header.other"}}
    \cup {R("vlog", "", 0, k, e, "changed") :
            e \in VlogEntries, k \in {"entry.klen", "entry.vlen", "entry.key", "entry.value", "entry.crc"}}

(* how a damaged record-type byte reads: not a type at all, Empty (0),      *)
(* another fragment type (First/Middle/Last/Full), SetCompressionType (9)   *)
TypeHows == {"invalid", "empty", "fragment", "compression"}
WalFaults ==
    UNION {{R("wal", "", s, k, n, "changed") : n \in 1..Len(Segments[s]), k \in {"hdr.crc", "hdr.len", "payload"}}
           : s \in 1..Len(Segments)}
    \cup UNION {{R("wal", "", s, "hdr.type", n, h) : n \in 1..Len(Segments[s]), h \in TypeHows}
                : s \in 1..Len(Segments)}
    \cup {R("wal", "", s, "padding", 0, "changed") : s \in 1..Len(Segments)}

Faults == SstFaults \cup VlogFaults \cup WalFaults

(* regions the code never interprets: the unused tail of the footer, the    *)
(* trailer of the filter block (never read), unvalidated value-log header   *)
(* fields, the < 7 bytes left at the end of a 32 KiB log block              *)
Dead(r) ==
    \/ r.k \in {"footer.padding", "header.version", "header.other", "padding"}
    \/ r.k \in {"filter.type", "filter.crc"} /\ ~VerifyFilter
    \/ r.k = "footer.handles" /\ r.how = "same_value"    \* non-canonical varint, same number

(* The gap in today's code that a fault can fall into.                      *)
Gap(r) ==
    IF r.f = "sst" /\ r.k = "filter.payload" THEN "sst.filter_used_unverified"
    ELSE IF r.f = "sst" /\ r.k = "footer.handles" /\ r.how = "aliased" THEN "sst.footer_handle_unverified"
    ELSE IF r.f = "wal" /\ r.k = "hdr.type" /\ r.how = "compression" THEN "wal.compression_record_unverified"
    ELSE IF r.f = "wal" THEN "wal.repair_in_the_middle_of_the_log"
    ELSE "none"

-----------------------------------------------------------------------------
AllCommits ==
    LET F[s \in 0..Len(Segments)] == IF s = 0 THEN <<>> ELSE F[s - 1] \o Segments[s]
    IN F[Len(Segments)]

IsPrefix(a, b) == Len(a) <= Len(b) /\ SubSeq(b, 1, Len(a)) = a

(* newest value of k among a sequence of applied commits, or "none"         *)
MemValue(cs, k) ==
    LET idx == {n \in 1..Len(cs) : CommitKey[cs[n]] = k}
    IN IF idx = {} THEN "none" ELSE CommitVal[cs[CHOOSE n \in idx : \A m \in idx : m <= n]]

(* what the tables answer for k when table lookups in `skip` are skipped    *)
TableAnswer(k, skip) ==
    LET cand == {x \in 1..Len(Tables) : Home[Tables[x]][k] # 0 /\ Tables[x] \notin skip}
    IN IF cand = {} THEN Absent
       ELSE LET t == Tables[CHOOSE x \in cand : \A y \in cand : x <= y]
            IN IF Entry[t][k].kind = "tomb" THEN Absent ELSE Entry[t][k].v

(* the fault-free answer for k given the commits that were replayed from the  *)
(* log (which commits may be replayed is the business of WalPrefixOrError)   *)
TruthAt(cs, k) == IF MemValue(cs, k) # "none" THEN MemValue(cs, k) ELSE TableAnswer(k, {})

-----------------------------------------------------------------------------
VARIABLES
    fault,        \* the damaged region instance (constant during a behaviour)
    pc,           \* control: "open_table" "open_vlog" "open_wal" "replay" "ready" "get" "scan" "done"
    ti,           \* index into Tables (open, get)
    sub,          \* step inside the current table / record
    misdirected,  \* "no" | "elsewhere": a damaged block handle was decoded and the next block read fetches
                  \* bytes that are no block | "aliased": ... fetches ANOTHER intact block of the same size
    indexBroken,  \* tables whose index was built from a block reached through an aliased handle
    filterBroken, \* tables whose filter block was loaded damaged and unverified
    tainted,      \* ghost: a damaged region was interpreted without a covering check
    openRes,      \* "running" | "ok" | "error" | "panic"
    seg, rec,     \* log replay position
    segLen,       \* [segment -> records currently in the file] (repair truncates)
    compressionOn,\* the reader obeyed a (bogus) SetCompressionType record in this segment
    repaired,     \* repair_corrupted_wal_segment has run once
    applied,      \* commits applied to the memtables, in order
    op, key,      \* the operation after open
    skipped,      \* tables whose lookup the (broken) filter suppressed
    opRes,        \* "none" | "original" | "error" | "wrong" | "panic"
    scanTodo      \* blocks the scan still has to read: set of <<table, "partition"|"data", n>>

vars == <<fault, pc, ti, sub, misdirected, indexBroken, filterBroken, tainted, openRes, seg, rec, segLen,
          compressionOn, repaired, applied, op, key, skipped, opRes, scanTodo>>

ctl == <<pc, ti, sub>>
walv == <<seg, rec, segLen, compressionOn, repaired, applied>>
opv == <<op, key, skipped, opRes, scanTodo>>

Init ==
    /\ fault \in Faults \cup {NoFault}
    /\ pc = "open_table" /\ ti = 1 /\ sub = "footer"
    /\ misdirected = "no" /\ indexBroken = {} /\ filterBroken = {} /\ tainted = FALSE
    /\ openRes = "running"
    /\ seg = 1 /\ rec = 1 /\ segLen = [s \in 1..Len(Segments) |-> Len(Segments[s])]
    /\ compressionOn = FALSE /\ repaired = FALSE /\ applied = <<>>
    /\ op = "none" /\ key = "" /\ skipped = {} /\ opRes = "none" /\ scanTodo = {}

T == Tables[ti]
Hit(t, ks, i) == fault.f = "sst" /\ fault.t = t /\ fault.k \in ks /\ fault.i = i

FailOpen(how) ==
    /\ openRes' = how /\ pc' = "done"
    /\ UNCHANGED <<fault, ti, sub, misdirected, indexBroken, filterBroken, tainted, walv, opv>>

-----------------------------------------------------------------------------
(* Table::new (src/sstable/table.rs), once per table of the manifest.       *)

(* read_footer: the last 50 bytes; magic and the two type bytes are         *)
(* compared with constants; the two block handles are varints with no       *)
(* checksum of their own.  A file cut short has no magic at its new end.    *)
OpenFooter ==
    /\ pc = "open_table" /\ sub = "footer"
    /\ IF Hit(T, {"truncate", "footer.magic", "footer.format"}, 0)
       THEN FailOpen("error")
       ELSE /\ misdirected' = (IF ~Hit(T, {"footer.handles"}, 0) \/ fault.how = "same_value" THEN "no"
                               ELSE IF fault.how = "aliased" THEN "aliased" ELSE "elsewhere")
            /\ sub' = "topindex"
            /\ UNCHANGED <<fault, pc, ti, indexBroken, filterBroken, tainted, openRes, walv, opv>>

(* Index::new -> read_table_block: payload, type byte and crc are read at    *)
(* the handle's position and the crc is verified before the block is parsed *)
OpenTopIndex ==
    /\ pc = "open_table" /\ sub = "topindex"
    /\ IF misdirected = "elsewhere" \/ Hit(T, BlockParts("topindex"), 0)
       THEN FailOpen("error")
       ELSE IF misdirected = "aliased"
            \* the crc of the block that is there passes; the block is not the one the writer meant.
            \* Parsed as the metaindex it has no "meta" entry (error, or the assert_eq! on the found key
            \* panics); parsed as the top-level index its entries point anywhere.
            THEN \/ FailOpen("error")
                 \/ /\ tainted' = TRUE /\ openRes' = "panic" /\ pc' = "done"
                    /\ UNCHANGED <<fault, ti, sub, misdirected, indexBroken, filterBroken, walv, opv>>
                 \/ /\ tainted' = TRUE /\ indexBroken' = indexBroken \cup {T} /\ sub' = "metaindex"
                    /\ UNCHANGED <<fault, pc, ti, misdirected, filterBroken, openRes, walv, opv>>
            ELSE /\ sub' = "metaindex"
                 /\ UNCHANGED <<fault, pc, ti, misdirected, indexBroken, filterBroken, tainted, openRes, walv, opv>>

(* metaindex block (holds the properties and the filter handle): verified    *)
OpenMetaIndex ==
    /\ pc = "open_table" /\ sub = "metaindex"
    /\ IF Hit(T, BlockParts("metaindex") \cup {"properties"}, 0)
       THEN FailOpen("error")
       ELSE /\ sub' = "filter"
            /\ UNCHANGED <<fault, pc, ti, misdirected, indexBroken, filterBroken, tainted, openRes, walv, opv>>

NextTable ==
    IF ti < Len(Tables)
    THEN ti' = ti + 1 /\ sub' = "footer" /\ pc' = pc
    ELSE ti' = 1 /\ sub' = "header" /\ pc' = "open_vlog"

(* read_filter_block: read_bytes(handle) only -- the 5-byte trailer is not   *)
(* even read; FilterBlockReader::new indexes into the bytes and panics on    *)
(* an impossible offset count.                                               *)
OpenFilter ==
    /\ pc = "open_table" /\ sub = "filter"
    /\ IF VerifyFilter
       THEN IF Hit(T, BlockParts("filter"), 0)
            THEN FailOpen("error")
            ELSE NextTable /\ UNCHANGED <<fault, misdirected, indexBroken, filterBroken, tainted, openRes, walv, opv>>
       ELSE IF Hit(T, {"filter.payload"}, 0)
            THEN \/ /\ tainted' = TRUE /\ filterBroken' = filterBroken \cup {T}
                    /\ NextTable
                    /\ UNCHANGED <<fault, misdirected, indexBroken, openRes, walv, opv>>
                 \/ /\ tainted' = TRUE /\ openRes' = "panic" /\ pc' = "done"
                    /\ UNCHANGED <<fault, ti, sub, misdirected, indexBroken, filterBroken, walv, opv>>
            ELSE NextTable /\ UNCHANGED <<fault, misdirected, indexBroken, filterBroken, tainted, openRes, walv, opv>>

(* VLog::prefill_file_handles: magic and file id of every file are checked;  *)
(* version, creation time, size, compression and reserved are not looked at *)
OpenVlog ==
    /\ pc = "open_vlog"
    /\ IF fault.f = "vlog" /\ fault.k \in {"header.magic", "header.file_id"}
       THEN FailOpen("error")
       ELSE /\ pc' = "open_wal"
            /\ UNCHANGED <<fault, ti, sub, misdirected, indexBroken, filterBroken, tainted, openRes, walv, opv>>

(* Wal::open -> create_writer -> detect_compression_type (wal/manager.rs):   *)
(* before any replay the type byte of the FIRST record of the NEWEST segment *)
(* is decoded; a byte that is no record type fails the open in either mode.  *)
OpenWalWriter ==
    /\ pc = "open_wal"
    /\ IF /\ fault.f = "wal" /\ fault.k = "hdr.type" /\ fault.how = "invalid"
          /\ fault.s = Len(Segments) /\ fault.i = 1
       THEN FailOpen("error")
       ELSE /\ pc' = "replay" /\ sub' = "header"
            /\ UNCHANGED <<fault, ti, misdirected, indexBroken, filterBroken, tainted, openRes, walv, opv>>

-----------------------------------------------------------------------------
(* replay_wal + Reader::next (src/wal/recovery.rs, reader.rs)                *)
WHit(ks) == fault.f = "wal" /\ fault.s = seg /\ fault.i = rec /\ fault.k \in ks

(* a record failed: AbsoluteConsistency refuses to open; otherwise           *)
(* repair_corrupted_wal_segment rewrites the segment with the records read   *)
(* before the failure, and replay_wal runs again over ALL segments (the      *)
(* later ones included) -- a second failure is "still corrupted after        *)
(* repair".  With RepairOnlyNewestSegment only a damaged tail of the newest  *)
(* segment is repaired; damage in the middle of the log refuses the open.    *)
Corrupt ==
    IF WalMode = "absolute" \/ repaired \/ (RepairOnlyNewestSegment /\ seg < Len(Segments))
    THEN FailOpen("error")
    ELSE /\ repaired' = TRUE
         /\ segLen' = [segLen EXCEPT ![seg] = IF compressionOn /\ fault.s = seg THEN fault.i - 1 ELSE rec - 1]
         /\ seg' = 1 /\ rec' = 1 /\ applied' = <<>> /\ compressionOn' = FALSE
         /\ sub' = "header"
         /\ UNCHANGED <<fault, pc, ti, misdirected, indexBroken, filterBroken, tainted, openRes, opv>>

ReplaySegmentEnd ==
    /\ pc = "replay" /\ seg <= Len(Segments) /\ rec > segLen[seg]
    /\ seg' = seg + 1 /\ rec' = 1 /\ compressionOn' = FALSE /\ sub' = "header"   \* a new Reader per segment
    /\ UNCHANGED <<fault, pc, ti, misdirected, indexBroken, filterBroken, tainted, openRes, segLen, repaired, applied, opv>>

ReplayDone ==
    /\ pc = "replay" /\ seg > Len(Segments)
    /\ pc' = "ready" /\ openRes' = "ok"
    /\ UNCHANGED <<fault, ti, sub, misdirected, indexBroken, filterBroken, tainted, walv, opv>>

(* parse_header + dispatch on the type byte (which nothing has checked yet) *)
ReplayHeader ==
    /\ pc = "replay" /\ seg <= Len(Segments) /\ rec <= segLen[seg] /\ sub = "header"
    /\ IF WHit({"hdr.type"})
       THEN CASE fault.how = "invalid" -> Corrupt           \* RecordType::from_u8 fails
              [] fault.how = "empty" -> Corrupt             \* "non-zero byte in padding area"
              [] fault.how = "fragment" ->                  \* wrong place in a fragment sequence, or crc (covers the type)
                    sub' = "verify" /\ UNCHANGED <<fault, pc, ti, misdirected, indexBroken, filterBroken, tainted, openRes, walv, opv>>
              [] fault.how = "compression" ->
                    IF CompressionRecordChecked
                    THEN Corrupt
                    ELSE \* the record is consumed as a compression-type record: skipped, and the
                         \* first payload byte (the batch version, 1 = Lz4) switches decompression on
                         /\ tainted' = TRUE /\ compressionOn' = TRUE /\ rec' = rec + 1
                         /\ UNCHANGED <<fault, ctl, misdirected, indexBroken, filterBroken, openRes, seg, segLen, repaired, applied, opv>>
       ELSE sub' = "verify" /\ UNCHANGED <<fault, pc, ti, misdirected, indexBroken, filterBroken, tainted, openRes, walv, opv>>

(* length must fit in the block; crc over type byte and payload must match;  *)
(* with decompression switched on, an uncompressed payload does not decode  *)
ReplayVerify ==
    /\ pc = "replay" /\ sub = "verify"
    /\ IF WHit({"hdr.crc", "hdr.len", "hdr.type", "payload"}) \/ compressionOn
       THEN Corrupt
       ELSE /\ applied' = Append(applied, Segments[seg][rec])
            /\ rec' = rec + 1 /\ sub' = "header"
            /\ UNCHANGED <<fault, pc, ti, misdirected, indexBroken, filterBroken, tainted, openRes, seg, segLen,
                           compressionOn, repaired, opv>>

-----------------------------------------------------------------------------
(* After a successful open: one operation.                                  *)
Choose ==
    /\ pc = "ready"
    /\ \/ \E k \in Keys : op' = "get" /\ key' = k /\ pc' = "get" /\ ti' = 1 /\ sub' = "mem" /\ scanTodo' = {}
       \/ /\ op' = "scan" /\ key' = "" /\ pc' = "scan" /\ ti' = 1 /\ sub' = "blocks"
          /\ scanTodo' = UNION {{<<t, "partition", p>> : p \in 1..NParts(t)} \cup {<<t, "data", b>> : b \in 1..NBlocks[t]}
                                : t \in TableSet}
    /\ UNCHANGED <<fault, misdirected, indexBroken, filterBroken, tainted, openRes, walv, skipped, opRes>>

Finish(r) ==
    /\ opRes' = r /\ pc' = "done"
    /\ UNCHANGED <<fault, ti, sub, misdirected, indexBroken, filterBroken, tainted, openRes, walv, op, key, skipped, scanTodo>>

(* Snapshot::get: memtables first                                            *)
GetMem ==
    /\ pc = "get" /\ sub = "mem"
    /\ IF MemValue(applied, key) # "none"
       THEN Finish(IF MemValue(applied, key) = TruthAt(applied, key) THEN "original" ELSE "wrong")
       ELSE sub' = "filter" /\ UNCHANGED <<fault, pc, ti, misdirected, indexBroken, filterBroken, tainted, openRes, walv, opv>>

GetNextTable ==
    IF ti < Len(Tables)
    THEN /\ ti' = ti + 1 /\ sub' = "filter"
         /\ UNCHANGED <<pc, opRes>>
    ELSE \* no table has the key
         /\ opRes' = (IF Absent = TruthAt(applied, key) THEN "original" ELSE "wrong") /\ pc' = "done"
         /\ UNCHANGED <<ti, sub>>

(* Table::get step 1: the bloom filter decides whether the table is looked   *)
(* at.  A filter loaded damaged answers anything (or indexes out of range).  *)
GetFilter ==
    /\ pc = "get" /\ sub = "filter"
    /\ IF Home[T][key] = 0
       THEN GetNextTable /\ UNCHANGED <<fault, misdirected, indexBroken, filterBroken, tainted, openRes, walv, op, key, skipped, scanTodo>>
       ELSE IF T \in filterBroken
            THEN \/ sub' = "partition" /\ UNCHANGED <<fault, pc, ti, misdirected, indexBroken, filterBroken, tainted, openRes, walv, opv>>
                 \/ /\ skipped' = skipped \cup {T}       \* false negative
                    /\ GetNextTable
                    /\ UNCHANGED <<fault, misdirected, indexBroken, filterBroken, tainted, openRes, walv, op, key, scanTodo>>
                 \/ Finish("panic")
            ELSE sub' = "partition" /\ UNCHANGED <<fault, pc, ti, misdirected, indexBroken, filterBroken, tainted, openRes, walv, opv>>

(* steps 2-3: the index partition of the key's block (read_table_block)      *)
GetPartition ==
    /\ pc = "get" /\ sub = "partition"
    /\ IF T \in indexBroken
       THEN \E r \in {"error", "wrong", "panic"} : Finish(r)     \* whatever the foreign block's bytes decode to
       ELSE IF Hit(T, BlockParts("partition"), PartOf[T][Home[T][key]])
       THEN Finish("error")
       ELSE sub' = "data" /\ UNCHANGED <<fault, pc, ti, misdirected, indexBroken, filterBroken, tainted, openRes, walv, opv>>

(* step 4: the data block (read_table_block), then the entry                 *)
GetData ==
    /\ pc = "get" /\ sub = "data"
    /\ IF Hit(T, BlockParts("data"), Home[T][key])
       THEN Finish("error")
       ELSE IF Entry[T][key].kind = "ptr"
            THEN sub' = "vlog" /\ UNCHANGED <<fault, pc, ti, misdirected, indexBroken, filterBroken, tainted, openRes, walv, opv>>
            ELSE LET a == IF Entry[T][key].kind = "tomb" THEN Absent ELSE Entry[T][key].v
                 IN Finish(IF a = TruthAt(applied, key) THEN "original" ELSE "wrong")

(* VLog::get with VLogChecksumLevel::Full: lengths in the entry header are   *)
(* compared with the pointer, the stored crc with the pointer's crc, and     *)
(* the crc of key ++ value is recomputed                                     *)
VHit(e) == fault.f = "vlog" /\ fault.i = e
              /\ fault.k \in {"entry.klen", "entry.vlen", "entry.key", "entry.value", "entry.crc"}
GetVlog ==
    /\ pc = "get" /\ sub = "vlog"
    /\ IF VHit(Entry[T][key].e)
       THEN Finish("error")
       ELSE Finish(IF Entry[T][key].v = TruthAt(applied, key) THEN "original" ELSE "wrong")

(* A scan merges every table: every partition and every data block is read   *)
(* and verified; filters are not consulted; visible pointers are resolved.   *)
LiveEntries ==
    UNION {{Entry[t][k].e : k \in {kk \in Keys : /\ Home[t][kk] # 0 /\ Entry[t][kk].kind = "ptr"
                                                  /\ MemValue(applied, kk) = "none"
                                                  /\ TableAnswer(kk, {}) = Entry[t][kk].v}}
           : t \in TableSet}
ScanBlock ==
    /\ pc = "scan" /\ scanTodo # {}
    /\ \E x \in scanTodo :
         IF x[1] \in indexBroken
         THEN \E r \in {"error", "wrong", "panic"} : Finish(r)
         ELSE IF Hit(x[1], BlockParts(x[2]), x[3])
         THEN Finish("error")
         ELSE scanTodo' = scanTodo \ {x}
              /\ UNCHANGED <<fault, ctl, misdirected, indexBroken, filterBroken, tainted, openRes, walv, op, key, skipped, opRes>>
ScanValues ==
    /\ pc = "scan" /\ scanTodo = {}
    /\ IF \E e \in LiveEntries : VHit(e) THEN Finish("error") ELSE Finish("original")

Next ==
    \/ OpenFooter \/ OpenTopIndex \/ OpenMetaIndex \/ OpenFilter \/ OpenVlog \/ OpenWalWriter
    \/ ReplayHeader \/ ReplayVerify \/ ReplaySegmentEnd \/ ReplayDone
    \/ Choose \/ GetMem \/ GetFilter \/ GetPartition \/ GetData \/ GetVlog
    \/ ScanBlock \/ ScanValues

Spec == Init /\ [][Next]_vars
FairSpec == Spec /\ WF_vars(Next)

-----------------------------------------------------------------------------
(* The property.                                                             *)
TypeOK ==
    /\ fault \in Faults \cup {NoFault}
    /\ pc \in {"open_table", "open_vlog", "open_wal", "replay", "ready", "get", "scan", "done"}
    /\ openRes \in {"running", "ok", "error", "panic"}
    /\ opRes \in {"none", "original", "error", "wrong", "panic"}
    /\ tainted \in BOOLEAN /\ misdirected \in {"no", "elsewhere", "aliased"}
    /\ indexBroken \subseteq TableSet
    /\ filterBroken \subseteq TableSet /\ skipped \subseteq TableSet

Tolerated == Gap(fault) \in KnownGaps

(* no region is interpreted before a check that covers it has passed         *)
NoUseBeforeVerify == tainted => Tolerated

(* every answer is the original data or an error; never a panic              *)
NeverServeDamaged == (opRes \in {"wrong", "panic"} \/ openRes = "panic") => Tolerated

(* the log is applied as a prefix of what was written, or the open fails     *)
LogState ==
    IF applied = AllCommits THEN "original" ELSE IF IsPrefix(applied, AllCommits) THEN "prefix" ELSE "hole"
WalPrefixOrError == (openRes = "ok" /\ LogState = "hole") => Tolerated

(* a fault in a region nobody reads changes nothing                          *)
DeadRegionsHarmless ==
    (pc = "done" /\ (fault = NoFault \/ Dead(fault))) =>
        /\ openRes = "ok" /\ opRes = "original" /\ applied = AllCommits /\ ~tainted

(* whatever is damaged, the run ends: open refused, or the operation answered *)
Terminates == <>(pc = "done")
=============================================================================
