\* What surrealkv does today: filter block not verified, SetCompressionType record obeyed
\* unchecked, later log segments replayed after a repair.  KnownGaps names exactly those, plus the
\* latent one no switch closes: the footer's block handles have no checksum of their own, so a handle
\* altered into the position of ANOTHER intact block of the same size passes the block crc.
CONSTANTS
    Deep = FALSE
    WalMode = "repair"
    VerifyFilter = FALSE
    CompressionRecordChecked = FALSE
    RepairOnlyNewestSegment = FALSE
    KnownGaps = {"sst.filter_used_unverified", "wal.compression_record_unverified", "wal.repair_in_the_middle_of_the_log", "sst.footer_handle_unverified"}
    Absent = "ABSENT"
    Tables <- MCTables
    NBlocks <- MCNBlocks
    PartOf <- MCPartOf
    Keys <- MCKeys
    Home <- MCHome
    Entry <- MCEntry
    VlogEntries <- MCVlogEntries
    Segments <- MCSegments
    CommitKey <- MCCommitKey
    CommitVal <- MCCommitVal
INIT Init
NEXT Next
INVARIANTS TypeOK NoUseBeforeVerify NeverServeDamaged WalPrefixOrError DeadRegionsHarmless
CHECK_DEADLOCK FALSE
