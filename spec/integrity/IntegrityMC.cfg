\* The repository after the fix commits 9667772 / c6a8bd9 / a66809f: the filter block is verified, the
\* SetCompressionType record is crc-checked, only the newest log segment is repaired.  KnownGaps names
\* the latent gap no switch closes: the footer's block handles have no checksum of their own, so a handle
\* altered into the position of ANOTHER intact block of the same size passes the block crc.
CONSTANTS
    Deep = FALSE
    WalMode = "repair"
    VerifyFilter = TRUE
    CompressionRecordChecked = TRUE
    RepairOnlyNewestSegment = TRUE
    KnownGaps = {"sst.footer_handle_unverified"}
    Absent = "ABSENT"
    Tables <- MCTables
    NBlocks <- MCNBlocks
    PartOf <- MCPartOf
    Keys <- MCKeys
    Home <- MCHome
    Entry <- MCEntry
    VlogEntries <- MCVlogEntries
    Segments <- MCSegments
    CommitKey <- MCCommitKey
    CommitVal <- MCCommitVal
INIT Init
NEXT Next
INVARIANTS TypeOK NoUseBeforeVerify NeverServeDamaged WalPrefixOrError DeadRegionsHarmless
CHECK_DEADLOCK FALSE
