\* "never hangs" in the model: whatever is damaged, every behaviour reaches pc = "done"
CONSTANTS
    Deep = FALSE
    WalMode = "repair"
    VerifyFilter = TRUE
    CompressionRecordChecked = TRUE
    RepairOnlyNewestSegment = TRUE
    KnownGaps = {"sst.filter_used_unverified", "wal.compression_record_unverified", "wal.repair_in_the_middle_of_the_log", "sst.footer_handle_unverified"}
    Absent = "ABSENT"
    Tables <- MCTables
    NBlocks <- MCNBlocks
    PartOf <- MCPartOf
    Keys <- MCKeys
    Home <- MCHome
    Entry <- MCEntry
    VlogEntries <- MCVlogEntries
    Segments <- MCSegments
    CommitKey <- MCCommitKey
    CommitVal <- MCCommitVal
SPECIFICATION FairSpec
PROPERTY Terminates
CHECK_DEADLOCK FALSE
