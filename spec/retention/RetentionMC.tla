---------------------------- MODULE RetentionMC ----------------------------
(* All compaction cases up to MaxLen versions of one key: TLC enumerates    *)
(* them as initial states, applies the rule in one step and evaluates the   *)
(* properties; every case is exported for execution on the real             *)
(* CompactionIterator.                                                      *)
EXTENDS Retention, TLC, Json

CONSTANTS MaxLen, Variant, MonotoneWin, Known

VARIABLES vin, snaps, bottom, versioning, finite, out, phase
vars == <<vin, snaps, bottom, versioning, finite, out, phase>>

SeqOf(n, i) == n + 2 - i            \* newest first; seq 1 is reserved for `below`

Cases ==
    UNION { { [n |-> n, kinds |-> ks, wins |-> ws] :
                ks \in [1..n -> Kinds], ws \in [1..n -> BOOLEAN] } : n \in 1..MaxLen }

Init ==
    /\ \E c \in Cases :
         /\ vin = [i \in 1..c.n |-> [seq |-> SeqOf(c.n, i), kind |-> c.kinds[i], win |-> c.wins[i]]]
         /\ snaps \in SUBSET (1..(c.n + 1))
    /\ bottom \in BOOLEAN
    /\ versioning \in BOOLEAN
    /\ finite \in BOOLEAN
    /\ finite => versioning
    /\ (~finite) => \A i \in 1..Len(vin) : vin[i].win
    /\ MonotoneWin => \A i, j \in 1..Len(vin) : (i < j /\ vin[j].win) => vin[i].win
    /\ out = {}
    /\ phase = "in"

Compact ==
    /\ phase = "in"
    /\ out' = Rule(vin, snaps, bottom, versioning, finite, Variant)
    /\ phase' = "out"
    /\ UNCHANGED <<vin, snaps, bottom, versioning, finite>>

Next == Compact
Spec == Init /\ [][Next]_vars

Done == phase = "out"

(* Signatures of recorded findings (known_findings.json); with Known = {}   *)
(* the invariants are the plain properties.                                 *)
InvReads == Done => ReadsPreserved(SetOf(vin), out, snaps, bottom)
InvHistory == (Done /\ versioning) => HistoryPreserved(SetOf(vin), out, snaps, bottom, finite)
(* finding "expired_barrier": with a finite retention window a hard delete   *)
(* or replace that is neither the latest version nor inside the window is    *)
(* discarded also above the last level (behaviour pinned by the repository's *)
(* own unit tests), so older versions further down can reappear.             *)
KnownExpiredBarrier ==
    finite /\ \E b \in SetOf(vin) \ out : IsBarrier(b) /\ (~b.win) /\ b # vin[1]
InvHistoryK ==
    (Done /\ versioning) =>
        \/ HistoryPreserved(SetOf(vin), out, snaps, bottom, finite)
        \/ ("expired_barrier" \in Known /\ KnownExpiredBarrier)
InvSubset == Done => NothingInvented(SetOf(vin), out)

Export ==
    PrintT("REPLAY " \o ToJson([vin |-> vin, snaps |-> snaps, bottom |-> bottom,
                                 versioning |-> versioning, finite |-> finite,
                                 out |-> out']))
=============================================================================
