---- MODULE RetentionMC_TTrace_1790364760 ----
EXTENDS Sequences, TLCExt, Toolbox, Naturals, TLC, RetentionMC

_expression ==
    LET RetentionMC_TEExpression == INSTANCE RetentionMC_TEExpression
    IN RetentionMC_TEExpression!expression
----

_trace ==
    LET RetentionMC_TETrace == INSTANCE RetentionMC_TETrace
    IN RetentionMC_TETrace!trace
----

_inv ==
    ~(
        TLCGet("level") = Len(_TETrace)
        /\
        phase = ("out")
        /\
        snaps = ({3})
        /\
        versioning = (TRUE)
        /\
        bottom = (TRUE)
        /\
        finite = (TRUE)
        /\
        vin = (<<[seq |-> 4, kind |-> "Replace", win |-> FALSE], [seq |-> 3, kind |-> "Set", win |-> FALSE], [seq |-> 2, kind |-> "Set", win |-> TRUE]>>)
        /\
        out = ({[seq |-> 3, kind |-> "Set", win |-> FALSE], [seq |-> 4, kind |-> "Replace", win |-> FALSE]})
    )
----

_init ==
    /\ phase = _TETrace[1].phase
    /\ bottom = _TETrace[1].bottom
    /\ out = _TETrace[1].out
    /\ snaps = _TETrace[1].snaps
    /\ finite = _TETrace[1].finite
    /\ versioning = _TETrace[1].versioning
    /\ vin = _TETrace[1].vin
----

_next ==
    /\ \E i,j \in DOMAIN _TETrace:
        /\ \/ /\ j = i + 1
              /\ i = TLCGet("level")
        /\ phase  = _TETrace[i].phase
        /\ phase' = _TETrace[j].phase
        /\ bottom  = _TETrace[i].bottom
        /\ bottom' = _TETrace[j].bottom
        /\ out  = _TETrace[i].out
        /\ out' = _TETrace[j].out
        /\ snaps  = _TETrace[i].snaps
        /\ snaps' = _TETrace[j].snaps
        /\ finite  = _TETrace[i].finite
        /\ finite' = _TETrace[j].finite
        /\ versioning  = _TETrace[i].versioning
        /\ versioning' = _TETrace[j].versioning
        /\ vin  = _TETrace[i].vin
        /\ vin' = _TETrace[j].vin

\* Uncomment the ASSUME below to write the states of the error trace
\* to the given file in Json format. Note that you can pass any tuple
\* to `JsonSerialize`. For example, a sub-sequence of _TETrace.
    \* ASSUME
    \*     LET J == INSTANCE Json
    \*         IN J!JsonSerialize("RetentionMC_TTrace_1790364760.json", _TETrace)

=============================================================================

 Note that you can extract this module `RetentionMC_TEExpression`
  to a dedicated file to reuse `expression` (the module in the 
  dedicated `RetentionMC_TEExpression.tla` file takes precedence 
  over the module `RetentionMC_TEExpression` below).

---- MODULE RetentionMC_TEExpression ----
EXTENDS Sequences, TLCExt, Toolbox, Naturals, TLC, RetentionMC

expression == 
    [
        \* To hide variables of the `RetentionMC` spec from the error trace,
        \* remove the variables below.  The trace will be written in the order
        \* of the fields of this record.
        phase |-> phase
        ,bottom |-> bottom
        ,out |-> out
        ,snaps |-> snaps
        ,finite |-> finite
        ,versioning |-> versioning
        ,vin |-> vin
        
        \* Put additional constant-, state-, and action-level expressions here:
        \* ,_stateNumber |-> _TEPosition
        \* ,_phaseUnchanged |-> phase = phase'
        
        \* Format the `phase` variable as Json value.
        \* ,_phaseJson |->
        \*     LET J == INSTANCE Json
        \*     IN J!ToJson(phase)
        
        \* Lastly, you may build expressions over arbitrary sets of states by
        \* leveraging the _TETrace operator.  For example, this is how to
        \* count the number of times a spec variable changed up to the current
        \* state in the trace.
        \* ,_phaseModCount |->
        \*     LET F[s \in DOMAIN _TETrace] ==
        \*         IF s = 1 THEN 0
        \*         ELSE IF _TETrace[s].phase # _TETrace[s-1].phase
        \*             THEN 1 + F[s-1] ELSE F[s-1]
        \*     IN F[_TEPosition - 1]
    ]

=============================================================================



Parsing and semantic processing can take forever if the trace below is long.
 In this case, it is advised to uncomment the module below to deserialize the
 trace from a generated binary file.

\*
\*---- MODULE RetentionMC_TETrace ----
\*EXTENDS IOUtils, TLC, RetentionMC
\*
\*trace == IODeserialize("RetentionMC_TTrace_1790364760.bin", TRUE)
\*
\*=============================================================================
\*

---- MODULE RetentionMC_TETrace ----
EXTENDS TLC, RetentionMC

trace == 
    <<
    ([phase |-> "in",snaps |-> {3},versioning |-> TRUE,bottom |-> TRUE,finite |-> TRUE,vin |-> <<[seq |-> 4, kind |-> "Replace", win |-> FALSE], [seq |-> 3, kind |-> "Set", win |-> FALSE], [seq |-> 2, kind |-> "Set", win |-> TRUE]>>,out |-> {}]),
    ([phase |-> "out",snaps |-> {3},versioning |-> TRUE,bottom |-> TRUE,finite |-> TRUE,vin |-> <<[seq |-> 4, kind |-> "Replace", win |-> FALSE], [seq |-> 3, kind |-> "Set", win |-> FALSE], [seq |-> 2, kind |-> "Set", win |-> TRUE]>>,out |-> {[seq |-> 3, kind |-> "Set", win |-> FALSE], [seq |-> 4, kind |-> "Replace", win |-> FALSE]}])
    >>
----


=============================================================================

---- CONFIG RetentionMC_TTrace_1790364760 ----
CONSTANTS
    Absent = 0
    MaxLen = 4
    Variant = "min"
    MonotoneWin = FALSE
    Known = { "expired_barrier" }

INVARIANT
    _inv

CHECK_DEADLOCK
    \* CHECK_DEADLOCK off because of PROPERTY or INVARIANT above.
    FALSE

INIT
    _init

NEXT
    _next

CONSTANT
    _TETrace <- _trace

ALIAS
    _expression
=============================================================================
\* Generated on Fri Sep 25 19:32:58 UTC 2026