CONSTANTS
    Absent = 0
    Variant = "repo"
INIT Init
NEXT Next
INVARIANT Judge
CHECK_DEADLOCK FALSE
