--------------------------- MODULE RetentionTrace ---------------------------
(* Implementation -> specification: the outputs of the REAL compaction       *)
(* iterator (recorded by harness/retention_run, one JSON line per case) are  *)
(* judged by the property predicates of Retention.tla, and compared with     *)
(* the spec's transcription of the rule (conformance).                       *)
EXTENDS Retention, TLC, Json, IOUtils

CONSTANT Variant

Rec == ndJsonDeserialize(IOEnv.TRACE)

VARIABLE i
vars == <<i>>

Vin(r) == [j \in 1..Len(r.vin) |-> [seq |-> r.vin[j].seq, kind |-> r.vin[j].kind, win |-> r.vin[j].win]]
ToSet(s) == {s[j] : j \in 1..Len(s)}
RealOut(r) == {v \in SetOf(Vin(r)) : v.seq \in ToSet(r.real)}

Verdict(n) ==
    LET r == Rec[n]
        in == SetOf(Vin(r))
        out == RealOut(r)
        sn == ToSet(r.snaps)
    IN [n |-> n,
        reads |-> ReadsPreserved(in, out, sn, r.bottom),
        latest |-> ReadsPreserved(in, out, {}, r.bottom),
        history |-> (~r.versioning) \/ HistoryPreserved(in, out, sn, r.bottom, r.finite),
        history_nosnap |-> (~r.versioning) \/ HistoryPreserved(in, out, {}, r.bottom, r.finite),
        lost |-> IF r.versioning
                 THEN \E h \in Horizons(sn), B \in Belows(r.bottom) :
                        ~(MustKeep(in \cup B, h, r.finite) \subseteq Alive(out \cup B, h))
                 ELSE FALSE,
        resurrected |-> IF r.versioning
                 THEN \E h \in Horizons(sn), B \in Belows(r.bottom) :
                        ~(Alive(out \cup B, h) \subseteq Alive(in \cup B, h))
                 ELSE FALSE,
        conf |-> out = Rule(Vin(r), sn, r.bottom, r.versioning, r.finite, Variant)]

Init == i \in 1..Len(Rec)
Next == UNCHANGED i
Judge == PrintT("VERDICT " \o ToJson(Verdict(i)))
=============================================================================
