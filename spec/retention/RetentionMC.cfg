CONSTANTS
    Absent = 0
    MaxLen = 3
    Variant = "repo"
    MonotoneWin = TRUE
    Known = {"expired_barrier"}
INIT Init
NEXT Next
INVARIANTS InvSubset InvReads InvHistoryK
CHECK_DEADLOCK FALSE
