----------------------------- MODULE Retention -----------------------------
(***************************************************************************)
(* What compaction may discard.                                            *)
(*                                                                         *)
(* One compaction merges, for every user key, all versions of that key     *)
(* found in its input tables and decides which to write to the output      *)
(* (src/iter.rs, CompactionIterator::process_accumulated_versions).  The   *)
(* decision depends on the list of versions (newest first), the snapshot   *)
(* horizons registered at that moment, whether the output level is the     *)
(* last one, whether versioning is on and, if so, the retention window.    *)
(*                                                                         *)
(* `Rule` transcribes the decision the code takes, branch by branch.       *)
(* The properties are stated without reference to it, over *sets of        *)
(* versions*: what a reader at horizon h reads from a set (C01, C06) and   *)
(* what the version history of a set is (C10).  `below` stands for the     *)
(* versions of the same key that live in deeper levels than the output     *)
(* and therefore are older than every input version; at the last level     *)
(* there are none.                                                         *)
(***************************************************************************)
EXTENDS Naturals, Sequences, FiniteSets

CONSTANTS Absent

Kinds == {"Set", "Del", "SoftDel", "Replace"}
Top == 1000000                      \* a horizon above every sequence number

(* A version: [seq, kind, win]; win = "its timestamp lies inside the        *)
(* retention window" (meaningful only when finite retention is configured). *)

-----------------------------------------------------------------------------
(* Property-level semantics over a set S of versions of one key.            *)

Newest(S) == CHOOSE v \in S : \A w \in S : w.seq <= v.seq
AtOrBelow(S, h) == {v \in S : v.seq <= h}

(* Point read at horizon h: value identity (= seq of the version) or Absent *)
Read(S, h) ==
    LET V == AtOrBelow(S, h) IN
    IF V = {} THEN Absent
    ELSE LET v == Newest(V) IN
         IF v.kind \in {"Del", "SoftDel"} THEN Absent ELSE v.seq

(* Version history at horizon h.  A hard delete or a replace is a barrier:  *)
(* everything older is erased for good; the delete itself is never listed,  *)
(* the replace is.                                                          *)
BarrierSeq(S) ==
    LET Bs == {v \in S : v.kind \in {"Del", "Replace"}} IN
    IF Bs = {} THEN 0 ELSE Newest(Bs).seq
Alive(S, h) ==
    LET V == AtOrBelow(S, h) IN
    {v \in V : v.seq >= BarrierSeq(V) /\ v.kind # "Del"}
(* ... of which those that must be retained (inside the window, or all)     *)
MustKeep(S, h, finite) == {v \in Alive(S, h) : (~finite) \/ v.win}

-----------------------------------------------------------------------------
(* The code's rule.  vin: sequence of versions, newest first.               *)

Vis(seq, snaps) ==
    IF snaps = {} THEN <<"none">>
    ELSE LET ge == {s \in snaps : s >= seq} IN
         IF ge = {} THEN <<"newer">>
         ELSE <<"snap", CHOOSE s \in ge : \A t \in ge : s <= t>>

Bound(seq, snaps) ==
    LET ge == {s \in snaps : s >= seq} IN
    IF ge = {} THEN Top ELSE CHOOSE s \in ge : \A t \in ge : s <= t

(* `variant` selects the behaviour modelled:                                *)
(*   "orig"  the pinned commit (kept so that the defects stay reproducible   *)
(*           in the model: TLC finds InvReads / InvHistory counterexamples), *)
(*   "repo"  the repository after the two "fix:" commits (DESIGN §8): the    *)
(*           bottom-level delete shortcut respects snapshots; with           *)
(*           versioning a superseded version falls through to the retention  *)
(*           policy, only a newer REPLACE visible to the version's readers   *)
(*           erases it, and an older hard delete follows retention,          *)
(*   "ideal" the reference rule KeepFrom below, which also closes the        *)
(*           recorded finding "expired_barrier".                             *)
Keep(vin, i, snaps, bottom, versioning, finite, variant) ==
    LET v == vin[i]
        latest == i = 1
        cur == Vis(v.seq, snaps)
        anyBounded == \E j \in 1..Len(vin) : /\ Vis(vin[j].seq, snaps)[1] = "snap"
                                               /\ Vis(vin[j].seq, snaps) # Vis(vin[1].seq, snaps)
        latestDelBottom ==
            /\ bottom
            /\ vin[1].kind = "Del"
            /\ (variant = "orig" \/ ~anyBounded)
        hasReplace == IF variant = "repo"      \* only a NEWER replace that this version's readers can see
                      THEN \E j \in 1..(i-1) : vin[j].kind = "Replace" /\ vin[j].seq <= Bound(v.seq, snaps)
                      ELSE \E j \in 1..Len(vin) : vin[j].kind = "Replace"
        allowsDrop == IF cur[1] = "none" THEN ~versioning ELSE TRUE
        superseded == (~latest) /\ allowsDrop /\ Vis(vin[i-1].seq, snaps) = cur
        required == (~superseded) /\ cur[1] = "snap"
        dropSuperseded == superseded /\ ~(variant = "repo" /\ versioning)
        stale ==
            IF dropSuperseded THEN TRUE
            ELSE IF latestDelBottom THEN TRUE
            ELSE IF required THEN FALSE
            ELSE IF latest /\ v.kind \notin {"Del", "Replace"} THEN FALSE
            ELSE IF latest /\ v.kind = "Del" /\ bottom THEN variant = "orig"
            ELSE IF latest /\ v.kind = "Del" /\ ~bottom THEN FALSE
            ELSE IF latest /\ v.kind = "Replace" THEN FALSE
            ELSE IF v.kind = "Del" /\ ~(variant = "repo" /\ versioning) THEN TRUE
            ELSE IF hasReplace /\ v.kind # "Replace" THEN TRUE
            ELSE IF ~versioning THEN TRUE
            ELSE IF finite THEN ~v.win
            ELSE FALSE
    IN  IF dropSuperseded THEN FALSE
        ELSE IF latestDelBottom THEN FALSE
        ELSE IF stale THEN FALSE
        ELSE IF versioning \/ required THEN TRUE
        ELSE latest

(* The reference rule.  A version is kept                                   *)
(* when it is the latest, when a registered snapshot reads it, or (with    *)
(* versioning) when it is a retained history version not erased by a newer *)
(* barrier inside its own visibility boundary.  A hard delete / replace    *)
(* stays for as long as anything it hides can still exist: always above    *)
(* the last level, and at the last level while an older version is kept.   *)
IsBarrier(v) == v.kind \in {"Del", "Replace"}

NeedValue(vin, i, snaps, versioning, finite) ==
    LET v == vin[i]
        latest == i = 1
        cur == Vis(v.seq, snaps)
        supersededSnap == (~latest) /\ Vis(vin[i-1].seq, snaps) = cur
        neededSnap == (~supersededSnap) /\ cur[1] = "snap"
        erased == \E j \in 1..(i-1) : IsBarrier(vin[j]) /\ vin[j].seq <= Bound(v.seq, snaps)
        neededHist == versioning /\ v.kind # "Del" /\ (~erased) /\ ((~finite) \/ v.win)
    IN  [latest |-> latest, snap |-> neededSnap, hist |-> neededHist]

RECURSIVE KeepFrom(_, _, _, _, _, _)
(* set of indices >= i that are kept; computed oldest first *)
KeepFrom(vin, i, snaps, bottom, versioning, finite) ==
    IF i > Len(vin) THEN {}
    ELSE LET older == KeepFrom(vin, i + 1, snaps, bottom, versioning, finite)
             v == vin[i]
             n == NeedValue(vin, i, snaps, versioning, finite)
             hides == (~bottom) \/ older # {}
             keep ==
                IF v.kind = "Del" THEN hides /\ (n.snap \/ n.latest \/ versioning)
                ELSE IF v.kind = "Replace" THEN n.latest \/ n.snap \/ n.hist \/ (versioning /\ hides)
                ELSE n.latest \/ n.snap \/ n.hist
         IN IF keep THEN older \cup {i} ELSE older

Rule(vin, snaps, bottom, versioning, finite, variant) ==
    IF variant = "ideal" /\ versioning     \* the repaired code uses the new rule with versioning only
    THEN {vin[i] : i \in KeepFrom(vin, 1, snaps, bottom, versioning, finite)}
    ELSE {vin[i] : i \in {j \in 1..Len(vin) : Keep(vin, j, snaps, bottom, versioning, finite, variant)}}

-----------------------------------------------------------------------------
(* Properties of an (input, output) pair.                                   *)

SetOf(vin) == {vin[i] : i \in 1..Len(vin)}

(* the versions that may exist below the output level: none at the bottom;  *)
(* otherwise none, or an old live value (seq 1, outside the window)         *)
OldVal == [seq |-> 1, kind |-> "Set", win |-> FALSE]
Belows(bottom) == IF bottom THEN {{}} ELSE {{}, {OldVal}}

Horizons(snaps) == snaps \cup {Top}

(* C01 (registered snapshots) and C06 (latest reader): reads are unchanged  *)
ReadsPreserved(in, out, snaps, bottom) ==
    \A h \in Horizons(snaps), B \in Belows(bottom) :
        Read(out \cup B, h) = Read(in \cup B, h)

(* C10: nothing retained is lost, nothing erased comes back                 *)
HistoryPreserved(in, out, snaps, bottom, finite) ==
    \A h \in Horizons(snaps), B \in Belows(bottom) :
        /\ MustKeep(in \cup B, h, finite) \subseteq Alive(out \cup B, h)
        /\ Alive(out \cup B, h) \subseteq Alive(in \cup B, h)

NothingInvented(in, out) == out \subseteq in
=============================================================================
