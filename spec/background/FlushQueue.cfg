SPECIFICATION Spec
CONSTANTS
    Flushers = {"task", "checkpoint"}
    MaxRot = 3
    LockRule = "mutex"
INVARIANTS OneWriterPerFile InstalledOnce InOrder
PROPERTIES EveryMemtableFlushed
CHECK_DEADLOCK FALSE
