SPECIFICATION Spec
CONSTANTS
  Writers = {"w1", "w2"}
  MemLimit = 2
  L0Trigger = 2
  L0Limit = 3
  NLevels = 3
  T1 = 2
  Mult = 2
  MaxCommits = 7
  WakeRule = "always"
  BottomRule = "l0limit"
  LevelLoop = "once"
  RegisterRule = "first"
  MaxFail = 1
INVARIANTS TypeOK FlushScheduled CompactionScheduled ImmBounded NeverStuck
PROPERTIES CommitReturns CloseReturns
CHECK_DEADLOCK FALSE
