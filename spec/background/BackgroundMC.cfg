SPECIFICATION MCSpec
CONSTANTS
  Writers = {"w1", "w2"}
  MemLimit = 2
  L0Trigger = 2
  L0Limit = 2
  NLevels = 3
  T1 = 2
  Mult = 2
  MaxCommits = 6
  WakeRule = "always"
  BottomRule = "l0limit"
  LevelLoop = "once"
  RegisterRule = "first"
  MaxFail = 1
  MaxSteps = 9
  AllowClose = TRUE
INVARIANTS TypeOK FlushScheduled CompactionScheduled ImmBounded NeverStuck
CONSTRAINT StepBound
VIEW View
ACTION_CONSTRAINT ExportEager
CHECK_DEADLOCK FALSE
