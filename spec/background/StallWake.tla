----------------------------- MODULE StallWake ------------------------------
(***************************************************************************)
(* Who wakes the compaction task when level 0 fills up                       *)
(* (src/task.rs: the flush task notifies the level task after its flushes;   *)
(* src/lsm.rs Tree::create_checkpoint: the checkpoint flushes the memtables  *)
(* itself). Background.tla has the flush task only; this module adds the     *)
(* second flusher.                                                           *)
(*                                                                         *)
(* CkptWake = "none"  pinned commit: a checkpoint's flushes tell nobody      *)
(*          = "wake"  repository (a3aa3c7): signal_work_done + wake_up_level *)
(***************************************************************************)
EXTENDS Naturals

CONSTANTS L0Limit, MaxFlushes, CkptWake

VARIABLES l0, lpermit, lpc, writer, nfl

vars == <<l0, lpermit, lpc, writer, nfl>>

Init == l0 = 0 /\ lpermit = FALSE /\ lpc = "wait" /\ writer = "running" /\ nfl = 0

\* the writer commits (and fills memtables) until level 0 is at its limit
WriterStalls == writer = "running" /\ l0 >= L0Limit /\ writer' = "stalled" /\ UNCHANGED <<l0, lpermit, lpc, nfl>>
WriterWakes == writer = "stalled" /\ l0 < L0Limit /\ writer' = "running" /\ UNCHANGED <<l0, lpermit, lpc, nfl>>

\* a flush by the flush task: one more level-0 table, and the level task is notified
TaskFlush ==
    /\ writer = "running" /\ nfl < MaxFlushes
    /\ l0' = l0 + 1 /\ nfl' = nfl + 1 /\ lpermit' = TRUE
    /\ UNCHANGED <<lpc, writer>>

\* a flush by create_checkpoint (there is something to flush only while the writer writes)
CheckpointFlush ==
    /\ writer = "running" /\ nfl < MaxFlushes
    /\ l0' = l0 + 1 /\ nfl' = nfl + 1
    /\ lpermit' = (lpermit \/ CkptWake = "wake")
    /\ UNCHANGED <<lpc, writer>>

LWake == lpc = "wait" /\ lpermit /\ lpermit' = FALSE /\ lpc' = "round" /\ UNCHANGED <<l0, writer, nfl>>
\* one round: level 0 goes down a level when it has reached the compaction trigger (here: the limit)
LRound == lpc = "round" /\ lpc' = "wait" /\ l0' = (IF l0 >= L0Limit THEN 0 ELSE l0) /\ UNCHANGED <<lpermit, writer, nfl>>

Next == WriterStalls \/ WriterWakes \/ TaskFlush \/ CheckpointFlush \/ LWake \/ LRound
Spec == Init /\ [][Next]_vars /\ WF_vars(LWake) /\ WF_vars(LRound) /\ WF_vars(WriterWakes) /\ WF_vars(WriterStalls)

\* a level-0 backlog at the limit always has a compaction round coming
CompactionScheduled == (l0 >= L0Limit /\ lpc = "wait") => lpermit
WriterGoesOn == (writer = "stalled") ~> (writer = "running")
=============================================================================
