----------------------------- MODULE FlushQueue -----------------------------
(***************************************************************************)
(* Who flushes the immutable memtables (src/lsm.rs                           *)
(* flush_oldest_immutable_to_sst: the background flush task,                 *)
(* create_checkpoint's flush_all_memtables, flush_all_immutables_sync).      *)
(* Every flusher takes "the oldest entry" of the queue, writes the table      *)
(* file whose id was reserved at rotation, installs it and removes the entry. *)
(*                                                                         *)
(* LockRule = "none"  pinned commit: nothing keeps two flushers apart          *)
(*          = "mutex" repository (8f08f9e): one flush at a time                *)
(***************************************************************************)
EXTENDS Naturals, Sequences, FiniteSets

CONSTANTS Flushers, MaxRot, LockRule

VARIABLES queue,      \* ids of the immutable memtables, oldest first
          nrot,
          pc, pick,   \* per flusher: "idle" | "picked" | "writing" | "written"; the id it works on
          writing,    \* id -> set of flushers writing that table file right now
          installed,  \* id -> how often it was installed
          holder      \* the flush mutex ("-" = free)

vars == <<queue, nrot, pc, pick, writing, installed, holder>>
Ids == 1..MaxRot

Init ==
    /\ queue = <<>> /\ nrot = 0
    /\ pc = [f \in Flushers |-> "idle"] /\ pick = [f \in Flushers |-> 0]
    /\ writing = [i \in Ids |-> {}] /\ installed = [i \in Ids |-> 0] /\ holder = "-"

Rotate ==
    /\ nrot < MaxRot /\ nrot' = nrot + 1 /\ queue' = Append(queue, nrot + 1)
    /\ UNCHANGED <<pc, pick, writing, installed, holder>>

Pick(f) ==
    /\ pc[f] = "idle" /\ queue # <<>>
    /\ LockRule = "mutex" => holder = "-"
    /\ holder' = IF LockRule = "mutex" THEN f ELSE holder
    /\ pick' = [pick EXCEPT ![f] = Head(queue)] /\ pc' = [pc EXCEPT ![f] = "picked"]
    /\ UNCHANGED <<queue, nrot, writing, installed>>

StartWrite(f) ==
    /\ pc[f] = "picked"
    /\ writing' = [writing EXCEPT ![pick[f]] = @ \cup {f}] /\ pc' = [pc EXCEPT ![f] = "writing"]
    /\ UNCHANGED <<queue, nrot, pick, installed, holder>>

EndWrite(f) ==
    /\ pc[f] = "writing"
    /\ writing' = [writing EXCEPT ![pick[f]] = @ \ {f}] /\ pc' = [pc EXCEPT ![f] = "written"]
    /\ UNCHANGED <<queue, nrot, pick, installed, holder>>

Install(f) ==
    /\ pc[f] = "written"
    /\ installed' = [installed EXCEPT ![pick[f]] = @ + 1]
    /\ queue' = SelectSeq(queue, LAMBDA i : i # pick[f])
    /\ pc' = [pc EXCEPT ![f] = "idle"] /\ pick' = [pick EXCEPT ![f] = 0]
    /\ holder' = IF holder = f THEN "-" ELSE holder
    /\ UNCHANGED <<nrot, writing>>

Next == Rotate \/ \E f \in Flushers : Pick(f) \/ StartWrite(f) \/ EndWrite(f) \/ Install(f)
Spec == Init /\ [][Next]_vars /\ \A f \in Flushers : WF_vars(StartWrite(f)) /\ WF_vars(EndWrite(f)) /\ WF_vars(Install(f)) /\ WF_vars(Pick(f))

OneWriterPerFile == \A i \in Ids : Cardinality(writing[i]) <= 1
InstalledOnce == \A i \in Ids : installed[i] <= 1
\* oldest first: an id is installed only when every older one is
InOrder == \A i, j \in Ids : (i < j /\ installed[j] > 0) => installed[i] > 0
EveryMemtableFlushed == \A i \in Ids : (i <= nrot) ~> (installed[i] > 0)
=============================================================================
