----------------------------- MODULE Background -----------------------------
(***************************************************************************)
(* The background protocol of the engine: what keeps commits from waiting  *)
(* for ever.                                                               *)
(*                                                                         *)
(*   writers      src/commit.rs  commit(): shutdown check, write-stall     *)
(*                check, then the commit proper; src/lsm.rs apply():       *)
(*                "memtable full -> rotate -> wake_up_memtable -> retry"   *)
(*   stall        src/stall.rs   WriteStallController::check /             *)
(*                signal_work_done / signal_shutdown                       *)
(*   flush task   src/task.rs    first spawned loop (Notify, running flag, *)
(*                flush every pending immutable, notify the level task)    *)
(*   level task   src/task.rs    second loop: ONE compaction round per     *)
(*                wake-up, level chosen by src/compaction/leveled.rs       *)
(*                compute_compaction_scores / pick_levels                  *)
(*   close        src/lsm.rs     Core::close: pipeline shutdown, stall     *)
(*                shutdown, drain, TaskManager::stop                       *)
(*                                                                         *)
(* One action per stretch of code between two hook gates of the real code  *)
(* (task.flush.start/one/idle, task.level.start/idle, commit.permit), so   *)
(* that a behaviour of this module is a schedule the harness can enforce.  *)
(*                                                                         *)
(* Sizes are counted in units: one unit = one flushed memtable. The model  *)
(* writer fills a memtable with every commit (the harness uses values of   *)
(* more than half a memtable), keys are spread so that every table of a    *)
(* level overlaps everything, hence a level >= 1 is a single table and a   *)
(* round moves the whole level (leveled.rs select_tables_for_compaction).  *)
(*                                                                         *)
(* Variants:                                                               *)
(*   WakeRule   "orig"   wake_up_memtable notifies only if the task is not *)
(*                       running (pinned commit)                           *)
(*              "always" notifies unconditionally                          *)
(*   BottomRule "orig"   the bottom level competes by score although its   *)
(*                       same-level compaction cannot shrink it            *)
(*              "last"   the bottom level is taken only if no other level  *)
(*                       needs compaction                                  *)
(*              "l0limit" level 0 is taken whenever it has reached the     *)
(*                       write-stall limit (it is what holds writers back) *)
(*   RegisterRule "first" a stall waiter registers for wake-ups before it  *)
(*                       reads the counts (stall.rs: `notified()` first)   *)
(*              "late"   registers only when it awaits                     *)
(*   LevelLoop  "once"   one round per wake-up                             *)
(*              "stalled" keeps going while writers are held by the L0     *)
(*                       limit                                             *)
(***************************************************************************)
EXTENDS Naturals, FiniteSets, Sequences

CONSTANTS Writers, MemLimit, L0Trigger, L0Limit, NLevels, T1, Mult, MaxCommits, WakeRule, BottomRule, LevelLoop, RegisterRule,
          MaxFail   \* bound on injected flush / compaction failures

ASSUME /\ NLevels >= 2 /\ MemLimit >= 2 /\ L0Limit >= L0Trigger /\ L0Trigger >= 1 /\ T1 >= 1 /\ Mult >= 1

VARIABLES fill, imm, lv, fpermit, lpermit, frun, lrun, fpc, lpc, wpc, sig, shutdown, stop, cpc, commits, last,
          bgerr,    \* a background task has failed: the error handler refuses every further commit (sticky)
          stallshut, \* stall.rs `shutdown`: set by signal_shutdown (close, or a failed background task)
          nfail

ovars == <<fill, imm, lv, fpermit, lpermit, frun, lrun, fpc, lpc, wpc, sig, shutdown, stop, cpc, commits, last>>
vars == <<ovars, bgerr, stallshut, nfail>>

Bottom == NLevels - 1
Levels == 0 .. Bottom

RECURSIVE Pow(_, _)
Pow(b, e) == IF e = 0 THEN 1 ELSE b * Pow(b, e - 1)

\* max_bytes_for_level sits half a unit under T1 units, so that "the level holds T1 units" is clearly over the target
\* and T1 - 1 units clearly under it (the harness configures the real engine the same way): targets in half units
Target2(i) == (2 * T1 - 1) * Pow(Mult, i - 1)

\* scores as fractions <<num, den>> (leveled.rs compute_compaction_scores)
Ge(a, b) == a[1] * b[2] >= b[1] * a[2]
Gt(a, b) == a[1] * b[2] > b[1] * a[2]
Score(l, i) ==
  IF i = 0 THEN (IF Ge(<<l[0], L0Trigger>>, <<2 * l[0], Target2(1)>>) THEN <<l[0], L0Trigger>> ELSE <<2 * l[0], Target2(1)>>)
  ELSE <<2 * l[i], Target2(i)>>

Needs(l) == {i \in Levels : Ge(Score(l, i), <<1, 1>>)}

\* the candidates after the priority rule
Cands(l) ==
  IF BottomRule = "last" /\ Needs(l) \ {Bottom} # {} THEN Needs(l) \ {Bottom}
  ELSE IF BottomRule = "l0limit" /\ l[0] >= L0Limit THEN {0}
  ELSE Needs(l)

\* highest score; ties go to the lower level (stable sort of a list built in level order)
Pick(l) ==
  CHOOSE i \in Cands(l) :
         \A j \in Cands(l) \ {i} : Gt(Score(l, i), Score(l, j)) \/ (~Gt(Score(l, j), Score(l, i)) /\ i < j)

HasPick(l) == Cands(l) # {}

\* one compaction round out of level s
Round(l, s) ==
  IF s >= Bottom THEN l                                     \* same-level rewrite of the bottom level: nothing moves
  ELSE [l EXCEPT ![s] = 0, ![s + 1] = l[s + 1] + l[s]]

Stalled(i, l) == i >= MemLimit \/ l[0] >= L0Limit

\* stall.rs signal_work_done / signal_shutdown: notify_waiters - every waiter re-checks. A writer that has decided to
\* wait but does not await yet ("decided") is a waiter already: its Notified future was created before it read the counts
\* (RegisterRule "first"; with "late" the future is created only at the await and such a signal is lost).
Signal(w) == [x \in Writers |-> IF w[x] = "stalled" THEN "check" ELSE w[x]]
SigSet(s) == [x \in Writers |-> IF wpc[x] = "decided" /\ RegisterRule = "first" THEN TRUE ELSE s[x]]

Init ==
  /\ fill = 0 /\ imm = 0 /\ lv = [i \in Levels |-> 0]
  /\ fpermit = FALSE /\ lpermit = TRUE          \* Core::new wakes the level task once
  /\ frun = FALSE /\ lrun = FALSE /\ fpc = "wait" /\ lpc = "wait"
  /\ wpc = [w \in Writers |-> "idle"] /\ sig = [w \in Writers |-> FALSE]
  /\ shutdown = FALSE /\ stop = FALSE /\ cpc = "open" /\ commits = 0
  /\ last = [w \in Writers |-> "none"]
  /\ bgerr = FALSE /\ stallshut = FALSE /\ nfail = 0

----------------------------------------------------------------------------
(* writers *)

\* commit(): `if shutdown -> Err(PipelineStall)` before anything else
Begin(w) ==
  /\ wpc[w] = "idle" /\ commits < MaxCommits
  /\ commits' = commits + 1
  /\ IF shutdown \/ bgerr THEN /\ last' = [last EXCEPT ![w] = "err"] /\ UNCHANGED wpc
     ELSE /\ wpc' = [wpc EXCEPT ![w] = "check"] /\ UNCHANGED last
  /\ UNCHANGED <<fill, imm, lv, fpermit, lpermit, frun, lrun, fpc, lpc, shutdown, stop, cpc, sig>>

\* write_stall.check(): the Notified future exists before the counts are read, so a signal that
\* arrives after the read still wakes this waiter - reading and registering are one step
Check(w) ==
  /\ wpc[w] = "check"
  /\ IF shutdown \/ stallshut THEN /\ wpc' = [wpc EXCEPT ![w] = "idle"] /\ last' = [last EXCEPT ![w] = "err"]
     ELSE IF Stalled(imm, lv) THEN /\ wpc' = [wpc EXCEPT ![w] = "decided"] /\ UNCHANGED last
     ELSE /\ wpc' = [wpc EXCEPT ![w] = "permit"] /\ UNCHANGED last
  /\ sig' = [sig EXCEPT ![w] = FALSE]
  /\ UNCHANGED <<fill, imm, lv, fpermit, lpermit, frun, lrun, fpc, lpc, shutdown, stop, cpc, commits>>

\* `notified.await`: returns at once if a signal came since the future was created
Await(w) ==
  /\ wpc[w] = "decided"
  /\ wpc' = [wpc EXCEPT ![w] = IF sig[w] THEN "check" ELSE "stalled"]
  /\ sig' = [sig EXCEPT ![w] = FALSE]
  /\ UNCHANGED <<fill, imm, lv, fpermit, lpermit, frun, lrun, fpc, lpc, shutdown, stop, cpc, commits, last>>

WakeFlush == IF WakeRule = "always" \/ ~frun THEN fpermit' = TRUE ELSE UNCHANGED fpermit

\* the commit proper: critical section, apply (rotating when the batch does not fit), publish
Write(w) ==
  /\ wpc[w] = "permit"
  /\ wpc' = [wpc EXCEPT ![w] = "idle"] /\ last' = [last EXCEPT ![w] = "ok"]
  /\ IF fill = 1 THEN /\ imm' = imm + 1 /\ WakeFlush /\ UNCHANGED fill
     ELSE /\ fill' = 1 /\ UNCHANGED <<imm, fpermit>>
  /\ UNCHANGED <<lv, lpermit, frun, lrun, fpc, lpc, shutdown, stop, cpc, commits, sig>>

----------------------------------------------------------------------------
(* flush task *)

\* tokio Notify: the waiting task takes the stored permit (a later notify_one stores a new one)
FNotified ==
  /\ fpc = "wait" /\ fpermit
  /\ fpermit' = FALSE /\ fpc' = "woken"
  /\ UNCHANGED <<fill, imm, lv, lpermit, frun, lrun, lpc, wpc, shutdown, stop, cpc, commits, last, sig>>

\* `if stop_flag { break }`, else `running = true`
FWake ==
  /\ fpc = "woken"
  /\ IF stop THEN fpc' = "exit" /\ UNCHANGED frun ELSE fpc' = "start" /\ frun' = TRUE
  /\ UNCHANGED <<fill, imm, lv, fpermit, lpermit, lrun, lpc, wpc, shutdown, stop, cpc, commits, last, sig>>

\* compact_memtable (flush the oldest immutable, if any) + signal_work_done
FlushOne ==
  /\ IF imm > 0 THEN imm' = imm - 1 /\ lv' = [lv EXCEPT ![0] = @ + 1] ELSE UNCHANGED <<imm, lv>>
  /\ wpc' = Signal(wpc) /\ sig' = SigSet(sig)

FFirst ==
  /\ fpc = "start" /\ FlushOne /\ fpc' = "one"
  /\ UNCHANGED <<fill, fpermit, lpermit, frun, lrun, lpc, shutdown, stop, cpc, commits, last, sig>>

\* has_pending_immutables(): flush the next one, or leave the loop and wake the level task
FMore ==
  /\ fpc = "one"
  /\ IF imm > 0 THEN /\ FlushOne /\ UNCHANGED <<fpc, lpermit>>
     ELSE /\ fpc' = "idle" /\ lpermit' = TRUE /\ UNCHANGED <<imm, lv, wpc, sig>>
  /\ UNCHANGED <<fill, fpermit, frun, lrun, lpc, shutdown, stop, cpc, commits, last, sig>>

FIdle ==
  /\ fpc = "idle" /\ fpc' = "wait" /\ frun' = FALSE
  /\ UNCHANGED <<fill, imm, lv, fpermit, lpermit, lrun, lpc, wpc, shutdown, stop, cpc, commits, last, sig>>

----------------------------------------------------------------------------
(* level task *)

LNotified ==
  /\ lpc = "wait" /\ lpermit
  /\ lpermit' = FALSE /\ lpc' = "woken"
  /\ UNCHANGED <<fill, imm, lv, fpermit, frun, lrun, fpc, wpc, shutdown, stop, cpc, commits, last, sig>>

LWake ==
  /\ lpc = "woken"
  /\ IF stop THEN lpc' = "exit" /\ UNCHANGED lrun ELSE lpc' = "start" /\ lrun' = TRUE
  /\ UNCHANGED <<fill, imm, lv, fpermit, lpermit, frun, fpc, wpc, shutdown, stop, cpc, commits, last, sig>>

\* core.compact(strategy): pick_levels under the manifest lock, merge, signal_work_done
LRound ==
  /\ lpc = "start"
  /\ LET nl == IF HasPick(lv) THEN Round(lv, Pick(lv)) ELSE lv IN
     /\ lv' = nl
     /\ lpc' = IF LevelLoop = "stalled" /\ HasPick(lv) /\ nl[0] >= L0Limit /\ nl # lv THEN "start" ELSE "idle"
  /\ wpc' = Signal(wpc) /\ sig' = SigSet(sig)
  /\ UNCHANGED <<fill, imm, fpermit, lpermit, frun, lrun, fpc, shutdown, stop, cpc, commits, last>>

LIdle ==
  /\ lpc = "idle" /\ lpc' = "wait" /\ lrun' = FALSE
  /\ UNCHANGED <<fill, imm, lv, fpermit, lpermit, frun, fpc, wpc, shutdown, stop, cpc, commits, last, sig>>

----------------------------------------------------------------------------
(* close *)

CloseBegin ==
  /\ cpc = "open" /\ cpc' = "drain"
  /\ shutdown' = TRUE /\ wpc' = Signal(wpc) /\ sig' = SigSet(sig)
  /\ UNCHANGED <<fill, imm, lv, fpermit, lpermit, frun, lrun, fpc, lpc, stop, commits, last>>

\* commit_pipeline.drain(): the commits in flight (holding a permit) finish first
CloseDrain ==
  /\ cpc = "drain" /\ \A w \in Writers : wpc[w] # "permit"
  /\ cpc' = "stop"
  /\ UNCHANGED <<fill, imm, lv, fpermit, lpermit, frun, lrun, fpc, lpc, wpc, shutdown, stop, commits, last, sig>>

\* TaskManager::stop: stop flag, one notification each
CloseStop ==
  /\ cpc = "stop" /\ cpc' = "waitrun"
  /\ stop' = TRUE /\ fpermit' = TRUE /\ lpermit' = TRUE
  /\ UNCHANGED <<fill, imm, lv, frun, lrun, fpc, lpc, wpc, shutdown, commits, last, sig>>

CloseWaitRun ==
  /\ cpc = "waitrun" /\ ~frun /\ ~lrun /\ cpc' = "join"
  /\ UNCHANGED <<fill, imm, lv, fpermit, lpermit, frun, lrun, fpc, lpc, wpc, shutdown, stop, commits, last, sig>>

CloseJoin ==
  /\ cpc = "join" /\ fpc = "exit" /\ lpc = "exit" /\ cpc' = "done"
  /\ UNCHANGED <<fill, imm, lv, fpermit, lpermit, frun, lrun, fpc, lpc, wpc, shutdown, stop, commits, last, sig>>

----------------------------------------------------------------------------
(* failures of the background work (task.rs error arms): the error handler keeps the error (every later commit is     *)
(* refused), the stall controller is shut down (stalled writers return PipelineStall), the task goes back to waiting    *)
FlushFails ==
  /\ fpc \in {"start", "one"} /\ imm > 0 /\ nfail < MaxFail
  /\ nfail' = nfail + 1 /\ bgerr' = TRUE /\ stallshut' = TRUE
  /\ wpc' = Signal(wpc) /\ sig' = SigSet(sig)
  /\ fpc' = "idle" /\ lpermit' = (lpermit \/ fpc = "one")      \* flush_count > 0 if one flush of this run succeeded
  /\ UNCHANGED <<fill, imm, lv, fpermit, frun, lrun, lpc, shutdown, stop, cpc, commits, last>>

CompactionFails ==
  /\ lpc = "start" /\ HasPick(lv) /\ nfail < MaxFail
  /\ nfail' = nfail + 1 /\ bgerr' = TRUE /\ stallshut' = TRUE
  /\ wpc' = Signal(wpc) /\ sig' = SigSet(sig)
  /\ lpc' = "idle"
  /\ UNCHANGED <<fill, imm, lv, fpermit, lpermit, frun, lrun, fpc, shutdown, stop, cpc, commits, last>>

----------------------------------------------------------------------------
Task == FNotified \/ FWake \/ LNotified \/ FFirst \/ FMore \/ FIdle \/ LWake \/ LRound \/ LIdle
Close == CloseBegin \/ CloseDrain \/ CloseStop \/ CloseWaitRun \/ CloseJoin
Running == (\E w \in Writers : Begin(w) \/ Check(w) \/ Await(w) \/ Write(w)) \/ Task \/ Close
Next == (Running /\ UNCHANGED <<bgerr, stallshut, nfail>>) \/ FlushFails \/ CompactionFails

Same == UNCHANGED <<bgerr, stallshut, nfail>>
Fairness ==
  /\ \A w \in Writers : WF_vars(Check(w) /\ Same) /\ WF_vars(Await(w) /\ Same) /\ WF_vars(Write(w) /\ Same)
  /\ WF_vars(FNotified /\ Same) /\ WF_vars(LNotified /\ Same)
  /\ WF_vars(FWake /\ Same) /\ WF_vars((FFirst \/ FMore) /\ Same) /\ WF_vars(FIdle /\ Same)
  /\ WF_vars(LWake /\ Same) /\ WF_vars(LRound /\ Same) /\ WF_vars(LIdle /\ Same)
  /\ WF_vars(CloseDrain /\ Same) /\ WF_vars(CloseStop /\ Same) /\ WF_vars(CloseWaitRun /\ Same) /\ WF_vars(CloseJoin /\ Same)

Spec == Init /\ [][Next]_vars /\ Fairness

----------------------------------------------------------------------------
(* properties *)

TypeOK ==
  /\ fill \in 0 .. 1 /\ imm \in Nat /\ lv \in [Levels -> Nat]
  /\ fpermit \in BOOLEAN /\ lpermit \in BOOLEAN /\ frun \in BOOLEAN /\ lrun \in BOOLEAN
  /\ fpc \in {"wait", "woken", "start", "one", "idle", "exit"} /\ lpc \in {"wait", "woken", "start", "idle", "exit"}
  /\ wpc \in [Writers -> {"idle", "check", "decided", "stalled", "permit"}] /\ sig \in [Writers -> BOOLEAN]
  /\ bgerr \in BOOLEAN /\ stallshut \in BOOLEAN /\ nfail \in 0 .. MaxFail
  /\ cpc \in {"open", "drain", "stop", "waitrun", "join", "done"}

\* The safety core of "no lost wake-up": work that holds writers back is always either being done or scheduled.
\* (while the engine is open; after stop the tasks exit on purpose and close() flushes by itself)
FlushScheduled == (~stop /\ ~bgerr /\ imm > 0 /\ fpc \in {"wait", "idle"}) => fpermit
\* once the level task rests, a level-0 backlog at the stall limit must have a wake-up pending or a flush coming that will
\* produce one
CompactionScheduled ==
  (~stop /\ ~bgerr /\ lv[0] >= L0Limit /\ lpc \in {"wait", "idle"}) => (lpermit \/ fpc \in {"woken", "start", "one"} \/ fpermit)

\* how far the immutable queue can overshoot its limit: every writer past the check rotates at most once
ImmBounded == imm <= MemLimit - 1 + Cardinality(Writers)

\* a state in which nothing but Begin/Close can ever happen while a writer waits
Stuck ==
  /\ \E w \in Writers : wpc[w] = "stalled"
  /\ ~ENABLED ((Task \/ (\E w \in Writers : Check(w) \/ Await(w) \/ Write(w))) /\ UNCHANGED <<bgerr, stallshut, nfail>>)
NeverStuck == ~shutdown => ~Stuck

\* C17: every commit() returns, close() returns
CommitReturns == \A w \in Writers : (wpc[w] # "idle") ~> (wpc[w] = "idle")
CloseReturns == (cpc = "drain") ~> (cpc = "done")
=============================================================================
