---------------------------- MODULE BackgroundMC ----------------------------
EXTENDS Background, TLC, Json

CONSTANTS MaxSteps, AllowClose

\* schedule export: one line per explored transition (see tools/BUILDING.md)
VARIABLES hist, steps

MCInit == Init /\ hist = <<>> /\ steps = 0

\* r: what the step must show on the real engine (the writer's position after its stall check);
\* chk: the writers that stand before their stall (re-)check after the step (a signal has woken them)
Step(name, w) ==
  /\ hist' = Append(hist, [a |-> name, w |-> w, r |-> IF name \in {"Check", "Await"} THEN wpc'[w] ELSE "-",
                            chk |-> {x \in Writers : wpc'[x] = "check"}])
  /\ steps' = steps + 1

MCNextInner ==
  \/ \E w \in Writers : Begin(w) /\ Step("Begin", w)
  \/ \E w \in Writers : Check(w) /\ Step("Check", w)
  \/ \E w \in Writers : Await(w) /\ Step("Await", w)
  \/ \E w \in Writers : Write(w) /\ Step("Write", w)
  \/ (FNotified /\ Step("FNotified", "-"))
  \/ (LNotified /\ Step("LNotified", "-"))
  \/ (FWake /\ Step("FWake", "-"))
  \/ (FFirst /\ Step("FFirst", "-"))
  \/ (FMore /\ Step("FMore", "-"))
  \/ (FIdle /\ Step("FIdle", "-"))
  \/ (LWake /\ Step("LWake", "-"))
  \/ (LRound /\ Step("LRound", "-"))
  \/ (LIdle /\ Step("LIdle", "-"))
  \/ (AllowClose /\ CloseBegin /\ Step("CloseBegin", "-"))
  \/ (CloseDrain /\ Step("CloseDrain", "-"))
  \/ (CloseStop /\ Step("CloseStop", "-"))
  \/ (CloseWaitRun /\ Step("CloseWaitRun", "-"))
  \/ (CloseJoin /\ Step("CloseJoin", "-"))

MCNext == MCNextInner /\ UNCHANGED <<bgerr, stallshut, nfail>>

MCSpec == MCInit /\ [][MCNext]_<<vars, hist, steps>>

StepBound == steps <= MaxSteps
View == vars

Obs == [imm |-> imm', l0 |-> lv'[0], lv |-> [i \in Levels |-> lv'[i]], fpc |-> fpc', lpc |-> lpc', fpermit |-> fpermit', lpermit |-> lpermit',
        wpc |-> wpc', last |-> last', cpc |-> cpc', fill |-> fill']
Export == PrintT("REPLAY " \o ToJson([ops |-> hist', obs |-> Obs]))

\* In the real engine a waiting task takes its permit at once (nothing can hold tokio's Notify back): the schedules that
\* are exported for replay give these steps priority. The model checking of the properties does not (BackgroundLive.cfg).
Eager ==
  ((fpc = "wait" /\ fpermit) \/ (lpc = "wait" /\ lpermit)) =>
     ((fpc = "wait" /\ fpc' = "woken") \/ (lpc = "wait" /\ lpc' = "woken"))
ExportEager == Eager /\ Export

\* counterexample export for the safety invariants of the pinned variants
Cex(name, P) == P \/ (PrintT("CEX " \o ToJson([inv |-> name, ops |-> hist])) /\ FALSE)
CexFlushScheduled == Cex("FlushScheduled", FlushScheduled)
CexCompactionScheduled == Cex("CompactionScheduled", CompactionScheduled)
CexNeverStuck == Cex("NeverStuck", NeverStuck)
=============================================================================
