CONSTANTS
    Keys = {"k1", "k2"}
    KEmpty = ""
    Vals = {"v1", "v2"}
    Tss = {5, 7}
    Modes = {"rw", "ro", "wo"}
    Absent = "ABSENT"
    MaxSp = 2
    MaxSteps = 5
    SnapViews <- MCSnapViews
INIT MCInit
NEXT MCNext
CONSTRAINT Bound
VIEW View
INVARIANTS TypeOK RYW SavepointExact StackDepth Discard ModeErrors CommitOrder
CHECK_DEADLOCK FALSE
