------------------------------ MODULE TxnMC -------------------------------
(* Bounded instance of Txn for exhaustive checking, and exporter of one    *)
(* replayable program per explored transition (spec -> implementation).    *)
EXTENDS Txn, Json

CONSTANTS MaxSteps

VARIABLES hist, steps
mcvars == <<vars, hist, steps>>

MCSnapViews == [Keys -> {"v0", Absent}]

Rec(op, k, v, ts, res) == [op |-> op, k |-> k, v |-> v, ts |-> ts, res |-> res]
Log(r) == hist' = Append(hist, r) /\ steps' = steps + 1

GetRes(k) ==
    IF closed THEN "ErrClosed"
    ELSE IF k = KEmpty THEN "ErrEmptyKey"
    ELSE IF mode = "wo" THEN "ErrWriteOnly"
    ELSE SpecGet(k)          \* the property's answer, not the representation's

MCInit == Init /\ hist = <<>> /\ steps = 0

MCNext ==
    \/ \E k \in AllKeys, v \in Vals :
         \/ Set(k, v) /\ Log(Rec("Set", k, v, 0, WriteResult(k)))
         \/ Replace(k, v) /\ Log(Rec("Replace", k, v, 0, WriteResult(k)))
    \/ \E k \in AllKeys, v \in Vals, t \in Tss :
         SetAt(k, v, t) /\ Log(Rec("SetAt", k, v, t, WriteResult(k)))
    \/ \E k \in AllKeys :
         \/ Delete(k) /\ Log(Rec("Delete", k, "", 0, WriteResult(k)))
         \/ SoftDelete(k) /\ Log(Rec("SoftDelete", k, "", 0, WriteResult(k)))
         \/ Get(k) /\ Log(Rec("Get", k, "", 0, GetRes(k)))
    \/ SetSavepoint /\ Log(Rec("SetSavepoint", "", "", 0, SavepointResult))
    \/ RollbackToSavepoint /\ Log(Rec("RollbackToSavepoint", "", "", 0, RollbackSpResult))
    \/ Rollback /\ Log(Rec("Rollback", "", "", 0, "Ok"))
    \/ Commit /\ Log(Rec("Commit", "", "", 0, CommitResult))

Bound == steps <= MaxSteps

(* Exported once per explored transition; `hist` is hidden from the state   *)
(* fingerprint by the VIEW, so every distinct state is expanded once and    *)
(* the set of printed programs is an edge cover of the state graph.         *)
(* view     = what get(k) must answer right after the last step (probe reads)   *)
(* final    = what a fresh transaction reads if the transaction is dropped now    *)
(* ifcommit = what a fresh transaction reads if commit() is called now            *)
IfCommit(k) ==
    IF ~closed /\ mode # "ro" /\ pend[k] # None
    THEN IF IsTomb(pend[k].kind) THEN Absent ELSE pend[k].val
    ELSE FinalView(k)

Export ==
    PrintT("REPLAY " \o ToJson([mode |-> mode, snap |-> snap, ops |-> hist',
                                 view |-> [k \in Keys |-> GetRes(k)'],
                                 final |-> [k \in Keys |-> FinalView(k)'],
                                 ifcommit |-> [k \in Keys |-> IfCommit(k)'],
                                 open |-> ~closed']))

View == <<vars, steps>>
ViewNoSteps == vars
=============================================================================
