------------------------------- MODULE Txn --------------------------------
(***************************************************************************)
(* One surrealkv transaction (src/transaction.rs) seen from the inside:    *)
(* the pending write-set with its replace-or-push rule, nested savepoints, *)
(* partial rollback, rollback / drop, commit and the three modes.          *)
(*                                                                         *)
(* The module is implementation shaped: `ws` is the code's                 *)
(* `BTreeMap<Key, Vec<Entry>>` (one sequence of entries per key, entries   *)
(* tagged with the savepoint number they were written under), `sp` is     *)
(* `Transaction::savepoints`.  Next to it run *ghost* variables that state *)
(* the property (C08) without reference to that representation:           *)
(*   pend[k]   the latest pending write to k that has not been undone     *)
(*   spStack   the stack of copies of `pend` taken at each SetSavepoint    *)
(* so the invariants say "what the code's representation answers is what   *)
(* the property demands".                                                  *)
(***************************************************************************)
EXTENDS Naturals, Sequences, FiniteSets, TLC

CONSTANTS
    Keys,       \* non-empty user keys (model values or strings)
    KEmpty,     \* the empty key "" (rejected by every operation)
    Vals,       \* value identities
    Tss,        \* explicit timestamps usable with set_at (subset of Nat \ {0})
    Modes,      \* subset of {"rw","ro","wo"}
    SnapViews,  \* set of functions Keys -> Vals \cup {Absent}: what the snapshot shows
    Absent,     \* "no value"
    MaxSp       \* bound on savepoint nesting (model bound only)

CommitTime == 0           \* Entry::COMMIT_TIME

VARIABLES
    mode,      \* "rw" | "ro" | "wo"
    snap,      \* the snapshot view chosen at begin (constant during the txn)
    closed,    \* Transaction::closed
    ws,        \* [Keys -> Seq(entry)]      entry = [kind, val, sp, ts]
    sp,        \* Transaction::savepoints
    done,      \* "open" | "committed" | "rolledback"
    \* ghosts
    pend,      \* [Keys -> entry-projection \cup {None}]
    spStack,   \* Seq([Keys -> ...]) copies of pend
    applied    \* after commit: sequence of <<k, proj>> in application order
vars == <<mode, snap, closed, ws, sp, done, pend, spStack, applied>>

None == [kind |-> "None"]
Proj(e) == [kind |-> e.kind, val |-> e.val, ts |-> e.ts]

Kinds == {"Set", "Del", "SoftDel", "Replace"}
IsTomb(kind) == kind \in {"Del", "SoftDel"}

Mutable == mode \in {"rw", "wo"}

-----------------------------------------------------------------------------
(* The code's replace-or-push rule (Transaction::write).                    *)
WriteRule(es, e) ==
    IF es = <<>> THEN <<e>>
    ELSE LET last == es[Len(es)] IN
         IF last.sp = e.sp
         THEN IF last.ts # CommitTime /\ e.ts # CommitTime /\ last.ts # e.ts
              THEN Append(es, e)
              ELSE [es EXCEPT ![Len(es)] = e]
         ELSE Append(es, e)

(* Result of a write call, in the order the code tests.                     *)
WriteResult(k) ==
    IF ~Mutable THEN "ErrReadOnly"
    ELSE IF closed THEN "ErrClosed"
    ELSE IF k = KEmpty THEN "ErrEmptyKey"
    ELSE "Ok"

(* What the code answers to get(k): last entry of the vector, else snapshot *)
ImplGet(k) ==
    IF closed THEN "ErrClosed"
    ELSE IF k = KEmpty THEN "ErrEmptyKey"
    ELSE IF mode = "wo" THEN "ErrWriteOnly"
    ELSE IF ws[k] # <<>>
         THEN LET e == ws[k][Len(ws[k])] IN
              IF IsTomb(e.kind) THEN Absent ELSE e.val
         ELSE snap[k]

(* What the property demands: own latest pending write laid over snapshot   *)
SpecGet(k) ==
    IF pend[k] # None
    THEN IF IsTomb(pend[k].kind) THEN Absent ELSE pend[k].val
    ELSE snap[k]

-----------------------------------------------------------------------------
Init ==
    /\ mode \in Modes
    /\ snap \in SnapViews
    /\ closed = FALSE
    /\ ws = [k \in Keys |-> <<>>]
    /\ sp = 0
    /\ done = "open"
    /\ pend = [k \in Keys |-> None]
    /\ spStack = <<>>
    /\ applied = <<>>

Write(k, kind, v, ts) ==
    /\ IF WriteResult(k) = "Ok"
       THEN LET e == [kind |-> kind, val |-> v, sp |-> sp, ts |-> ts] IN
            /\ ws' = [ws EXCEPT ![k] = WriteRule(ws[k], e)]
            /\ pend' = [pend EXCEPT ![k] = Proj(e)]
       ELSE UNCHANGED <<ws, pend>>
    /\ UNCHANGED <<mode, snap, closed, sp, done, spStack, applied>>

Set(k, v)        == Write(k, "Set", v, CommitTime)
SetAt(k, v, ts)  == Write(k, "Set", v, ts)
Delete(k)        == Write(k, "Del", Absent, CommitTime)
SoftDelete(k)    == Write(k, "SoftDel", Absent, CommitTime)
Replace(k, v)    == Write(k, "Replace", v, CommitTime)

Get(k) == UNCHANGED vars       \* the answer is ImplGet(k); no state change

SavepointResult ==
    IF ~Mutable THEN "ErrReadOnly" ELSE IF closed THEN "ErrClosed" ELSE "Ok"

SetSavepoint ==
    /\ sp < MaxSp
    /\ IF SavepointResult = "Ok"
       THEN /\ sp' = sp + 1
            /\ spStack' = Append(spStack, pend)
       ELSE UNCHANGED <<sp, spStack>>
    /\ UNCHANGED <<mode, snap, closed, ws, done, pend, applied>>

RollbackSpResult ==
    IF ~Mutable THEN "ErrReadOnly"
    ELSE IF closed THEN "ErrClosed"
    ELSE IF sp = 0 THEN "ErrNoSavepoint"
    ELSE "Ok"

RollbackToSavepoint ==
    /\ IF RollbackSpResult = "Ok"
       THEN /\ ws' = [k \in Keys |-> SelectSeq(ws[k], LAMBDA e : e.sp # sp)]
            /\ sp' = sp - 1
            /\ pend' = spStack[Len(spStack)]
            /\ spStack' = SubSeq(spStack, 1, Len(spStack) - 1)
       ELSE UNCHANGED <<ws, sp, pend, spStack>>
    /\ UNCHANGED <<mode, snap, closed, done, applied>>

(* rollback() and Drop: close, forget everything.                           *)
Rollback ==
    /\ closed' = TRUE
    /\ ws' = [k \in Keys |-> <<>>]
    /\ sp' = 0
    /\ pend' = IF done = "committed" THEN pend ELSE [k \in Keys |-> None]
    /\ spStack' = <<>>
    /\ done' = IF done = "open" THEN "rolledback" ELSE done
    /\ UNCHANGED <<mode, snap, applied>>

CommitResult ==
    IF closed THEN "ErrClosed" ELSE IF mode = "ro" THEN "ErrReadOnly" ELSE "Ok"

(* commit(): every entry still in the write-set is applied, ordered by the  *)
(* issue number.  Per key the vector is already in issue order, and the     *)
(* order between different keys is not observable, so `applied` lists keys  *)
(* in some fixed order and, per key, the vector front to back.              *)
RECURSIVE Flatten(_, _)
Flatten(S, f) ==
    IF S = {} THEN <<>>
    ELSE LET k == CHOOSE x \in S : TRUE IN
         [i \in 1..Len(f[k]) |-> <<k, Proj(f[k][i])>>] \o Flatten(S \ {k}, f)

Commit ==
    /\ IF CommitResult = "Ok"
       THEN /\ closed' = TRUE
            /\ applied' = Flatten(Keys, ws)
            /\ done' = "committed"
            /\ ws' = [k \in Keys |-> <<>>]
       ELSE UNCHANGED <<closed, applied, done, ws>>
    /\ UNCHANGED <<mode, snap, sp, pend, spStack>>

AllKeys == Keys \cup {KEmpty}

Next ==
    \/ \E k \in AllKeys, v \in Vals : Set(k, v) \/ Replace(k, v)
    \/ \E k \in AllKeys, v \in Vals, t \in Tss : SetAt(k, v, t)
    \/ \E k \in AllKeys : Delete(k) \/ SoftDelete(k) \/ Get(k)
    \/ SetSavepoint \/ RollbackToSavepoint \/ Rollback \/ Commit

Spec == Init /\ [][Next]_vars

-----------------------------------------------------------------------------
(* Properties (C08)                                                         *)

(* Read-your-writes: the code's answer is the property's answer whenever a  *)
(* read is permitted.                                                       *)
RYW == \A k \in Keys :
         (~closed /\ mode # "wo") => ImplGet(k) = SpecGet(k)

(* Savepoints are exact: the representation always projects to the ghost,   *)
(* which RollbackToSavepoint restores from the copy taken at SetSavepoint.  *)
SavepointExact == \A k \in Keys :
    IF ws[k] = <<>> THEN pend[k] = None \/ done = "committed"
    ELSE pend[k] = Proj(ws[k][Len(ws[k])])

StackDepth == (~closed) => Len(spStack) = sp

(* Rollback / drop discards everything.                                     *)
Discard == done = "rolledback" => (applied = <<>> /\ \A k \in Keys : ws[k] = <<>>)

(* Modes: nothing is ever pending in a read-only transaction; nothing       *)
(* changes after close.                                                     *)
ModeErrors ==
    /\ mode = "ro" => (\A k \in Keys : ws[k] = <<>>) /\ applied = <<>>
    /\ done = "rolledback" => closed
    /\ done = "committed" => closed

(* Commit order: the last applied entry of every key is the property's      *)
(* latest pending write (so the committed value is the one issued last).    *)
LastApplied(k) ==
    LET idx == {i \in 1..Len(applied) : applied[i][1] = k} IN
    IF idx = {} THEN None
    ELSE applied[CHOOSE i \in idx : \A j \in idx : j <= i][2]

CommitOrder == done = "committed" => \A k \in Keys : LastApplied(k) = pend[k]

(* What a fresh transaction must read after this one finished.              *)
FinalView(k) ==
    IF done = "committed" /\ pend[k] # None
    THEN IF IsTomb(pend[k].kind) THEN Absent ELSE pend[k].val
    ELSE snap[k]

TypeOK ==
    /\ mode \in {"rw", "ro", "wo"}
    /\ closed \in BOOLEAN
    /\ sp \in 0..MaxSp
    /\ done \in {"open", "committed", "rolledback"}
=============================================================================
