----------------------------- MODULE VlogTrace -----------------------------
(***************************************************************************)
(* Implementation -> specification.  The value-log relevant part of the    *)
(* file-system operation log of REAL executions (shim/fsrec.so under       *)
(* `vlog_run record`), one JSON event per line, is consumed event by       *)
(* event.  The abstract state is the byte-level counterpart of Vlog.tla:   *)
(* per value-log file what has been written and what has been fsynced,     *)
(* the directory, and the pointers (file, end offset) of the tables the    *)
(* manifest holds.  The mechanism invariants of Vlog.tla are evaluated at  *)
(* every step of the real execution:                                       *)
(*   InstallSynced   = LiveDurable at the instant a manifest switch        *)
(*                     installs a table: everything it points to has been  *)
(*                     fsynced (a power loss right after cannot take it)   *)
(*   InstallResolves / StateResolves = LiveReachable: the file is there    *)
(*                     and long enough                                     *)
(*   UnlinkSafe      = no value-log file is unlinked while a table in the  *)
(*                     manifest points into it                             *)
(* The observer is total (unknown events stutter); a failed judgement is   *)
(* printed (MECH ...) with the ticket of the operation, and the harness    *)
(* confirms it with the crash image at that ticket before it alarms.       *)
(***************************************************************************)
EXTENDS Naturals, Sequences, FiniteSets, TLC, Json, IOUtils

Rec == ndJsonDeserialize(IOEnv.TRACE)

VARIABLES i, written, synced, dir, live, liveKnown
vars == <<i, written, synced, dir, live, liveKnown>>

Get(fn, f) == IF f \in DOMAIN fn THEN fn[f] ELSE 0
Put(fn, f, v) == [x \in DOMAIN fn \cup {f} |-> IF x = f THEN v ELSE fn[x]]
PtrSet(e) == {e.ptrs[j] : j \in 1..Len(e.ptrs)}

Init == i = 1 /\ written = <<>> /\ synced = <<>> /\ dir = {} /\ live = {} /\ liveKnown = TRUE

Step(e) ==
    /\ i' = i + 1
    /\ CASE e.ev = "reset" ->
              written' = <<>> /\ synced' = <<>> /\ dir' = {} /\ live' = {} /\ liveKnown' = TRUE
         [] e.ev = "vcreate" ->
              /\ written' = Put(written, e.f, 0) /\ synced' = Put(synced, e.f, 0) /\ dir' = dir \cup {e.f}
              /\ UNCHANGED <<live, liveKnown>>
         [] e.ev = "vwrite" ->
              /\ written' = Put(written, e.f, IF e.end > Get(written, e.f) THEN e.end ELSE Get(written, e.f))
              /\ UNCHANGED <<synced, dir, live, liveKnown>>
         [] e.ev = "vsync" ->
              /\ synced' = Put(synced, e.f, Get(written, e.f))
              /\ UNCHANGED <<written, dir, live, liveKnown>>
         [] e.ev = "vunlink" ->
              /\ dir' = dir \ {e.f}
              /\ UNCHANGED <<written, synced, live, liveKnown>>
         [] e.ev = "manifest" ->
              /\ live' = IF e.known THEN PtrSet(e) ELSE live
              /\ liveKnown' = e.known
              /\ UNCHANGED <<written, synced, dir>>
         [] e.ev = "state" ->
              /\ live' = PtrSet(e) /\ liveKnown' = TRUE
              /\ UNCHANGED <<written, synced, dir>>
         [] OTHER -> UNCHANGED <<written, synced, dir, live, liveKnown>>

Next == i <= Len(Rec) /\ Step(Rec[i])

(* judgement of the event just consumed (state after it) *)
Last == Rec[i - 1]
InstallSynced == \A p \in live : p.end <= Get(synced, p.f)
Resolves == \A p \in live : p.f \in dir /\ p.end <= Get(written, p.f)
UnlinkSafe == \A p \in live : p.f # Last.f

Verdict ==
    IF i = 1 THEN TRUE
    ELSE LET e == Last IN
         /\ (e.ev = "manifest" /\ e.known) =>
               /\ InstallSynced \/ PrintT("MECH " \o ToJson([inv |-> "InstallSynced", t |-> e.t, n |-> i - 1]))
               /\ Resolves \/ PrintT("MECH " \o ToJson([inv |-> "InstallResolves", t |-> e.t, n |-> i - 1]))
         /\ (e.ev = "state") =>
               Resolves \/ PrintT("MECH " \o ToJson([inv |-> "StateResolves", t |-> e.t, n |-> i - 1]))
         /\ (e.ev = "vunlink" /\ liveKnown) =>
               UnlinkSafe \/ PrintT("MECH " \o ToJson([inv |-> "UnlinkSafe", t |-> e.t, n |-> i - 1, f |-> e.f]))
         /\ (i = Len(Rec) + 1) => PrintT("DONE " \o ToString(Len(Rec)))
=============================================================================
