-------------------------------- MODULE Vlog --------------------------------
(***************************************************************************)
(* Separated large values (src/vlog.rs and its users).                     *)
(*                                                                         *)
(* Committed values stay inline while they are in a memtable.  When a      *)
(* memtable is flushed (MemTable::flush, maybe_separate_to_vlog) every     *)
(* value longer than the threshold ("big") is appended to the active       *)
(* value-log file and the table entry becomes a pointer (file, position);  *)
(* a file that has reached its size limit is retired (fsynced, since       *)
(* 761a8d8) and a new one - next id, header first - becomes the active     *)
(* writer, possibly several times inside one flush.  vlog.sync() fsyncs    *)
(* the active file once, then the table is installed in the manifest.      *)
(* Compaction copies pointers verbatim and drops versions by the retention *)
(* rule (Retention.tla).  After every manifest change (flush, compaction,  *)
(* start-up) cleanup_vlog_and_index runs under the manifest lock:          *)
(*   min := minimum over the LIVE tables of their oldest_vlog_file_id      *)
(*          (0 = no table points anywhere: nothing is cleaned);            *)
(*   versioned-index entries pointing below min are deleted;               *)
(*   every file with id < min that is not the active writer is unlinked    *)
(*   and its cached read handle dropped.                                   *)
(* Readers: point reads search the CURRENT memtables / tables; a range     *)
(* cursor or a history cursor pins the memtables and tables that existed   *)
(* when it was opened (Arc<Table>) - but not the value-log files.          *)
(*                                                                         *)
(* Ghost: hist = every committed version.  A value's identity is the       *)
(* sequence number of the version that wrote it; file contents are         *)
(* sequences of <<key, seq>> so that "a read returns what was written"     *)
(* can be stated.  Sizes are abstracted to big / small (the driver maps    *)
(* them to lengths around the threshold); FileCap = number of entries a    *)
(* file takes before the next append rotates.                              *)
(*                                                                         *)
(* Crash part: a flush is a sequence of durable steps (append.., fsync,    *)
(* index, install, clean-up); CrashProcess keeps every write, CrashPower   *)
(* cuts every value-log file anywhere between its fsynced and its written  *)
(* length and may leave a never-synced header torn; Recover is             *)
(* VLog::new (prefill_file_handles: highest id becomes the active writer)  *)
(* followed by cleanup_orphaned_vlog_files.                                *)
(*                                                                         *)
(* Behaviour switches (the repaired defects stay reproducible in the model *)
(* as "teeth" runs; the first value of each is the repository now):        *)
(*   SyncOnRotate  TRUE  = repository (761a8d8); FALSE = before that fix   *)
(*   CleanupRule   "no_cursors" = repository (56ef569): clean-up leaves    *)
(*                 the files alone while any cursor is open; "min_live" =  *)
(*                 before: only the live tables count                      *)
(*   HeaderCheck   "lenient" = repository (302562c): a value-log file      *)
(*                 shorter than its header is an empty file; "strict" =    *)
(*                 before: it makes open fail                              *)
(***************************************************************************)
EXTENDS Retention, SequencesExt, TLC

CONSTANTS
    Keys, KeyOrder,    \* user keys and their byte order (a sequence)
    Readers,
    NLevels,           \* levels 0 .. NLevels-1, the last one is the bottom
    FileCap,
    Versioning,        \* BOOLEAN: versions are history, threshold 0
    Finite,            \* BOOLEAN: finite retention window (versioning only)
    UseIndex,          \* BOOLEAN: versioned B+tree index
    Granular,          \* BOOLEAN: flush = one step per appended entry / fsync / index write (crash points)
    SyncOnRotate, CleanupRule, HeaderCheck

Err == 0 - 1           \* a read that fails (dangling pointer, short file)

VARIABLES
    hist,      \* ghost: committed versions [k, seq, kind, big]
    visible,   \* highest published sequence number
    expired,   \* sequence numbers whose timestamp has left the retention window
    mem,       \* active memtable: set of versions (values inline)
    imm,       \* immutable memtables, oldest first
    l0,        \* level-0 tables, newest first: [id, ents]
    deep,      \* [1..NLevels-1 -> table]   (one sorted run per deeper level)
    nextTab,
    index,     \* versioned index: set of entries (UseIndex)
    vfile,     \* [id -> [ents, synced, hsync, torn]] for every id ever created
    vdir,      \* ids present in the directory
    active,    \* id of the file being appended (0 = no writer yet)
    nextId,
    handles,   \* cached read handles
    fl,        \* the flush in progress
    cp,        \* the compaction in progress
    pc, snap,  \* readers
    cursor,    \* [Readers -> pinned structure]
    down       \* "up" | "crashed" | "refused"
vars == <<hist, visible, expired, mem, imm, l0, deep, nextTab, index, vfile, vdir, active, nextId, handles,
          fl, cp, pc, snap, cursor, down>>

-----------------------------------------------------------------------------
KeyIdx(k) == CHOOSE i \in 1..Len(KeyOrder) : KeyOrder[i] = k

Ent(v, f, i) == [k |-> v.k, seq |-> v.seq, kind |-> v.kind, big |-> v.big, f |-> f, i |-> i]
NoEnt == [k |-> "", seq |-> 0, kind |-> "None", big |-> FALSE, f |-> 0, i |-> 0]
MemEnts(S) == {Ent(v, 0, 0) : v \in S}
NoTable == [id |-> 0, ents |-> {}]
EmptyFile == [ents |-> <<>>, synced |-> 0, hsync |-> FALSE, torn |-> FALSE]
NoCursor == [kind |-> "none"]
IdleFl == [pc |-> "idle"]
IdleCp == [pc |-> "idle"]

(* TableWriter::add / finish: lowest file id among the pointers, 0 = none *)
Oldest(t) == LET fs == {e.f : e \in t.ents} \ {0} IN IF fs = {} THEN 0 ELSE Min(fs)

LiveTables == {l0[i] : i \in 1..Len(l0)} \cup {deep[i] : i \in 1..(NLevels - 1)}
LiveEnts == UNION {t.ents : t \in LiveTables}
(* LevelManifest::min_oldest_vlog_file_id over a set of tables *)
MinOldestOf(T) == LET os == {Oldest(t) : t \in T} \ {0} IN IF os = {} THEN 0 ELSE Min(os)

-----------------------------------------------------------------------------
(* The value log writer: VLog::append *)
VS == [file |-> vfile, dir |-> vdir, active |-> active, next |-> nextId]

RotateIfFull(s) ==
    IF s.active = 0 \/ Len(s.file[s.active].ents) >= FileCap
    THEN LET f1 == IF s.active # 0 /\ SyncOnRotate
                   THEN LET old == s.file[s.active]
                        IN [s.file EXCEPT ![s.active] = [old EXCEPT !.synced = Len(old.ents), !.hsync = TRUE]]
                   ELSE s.file
             id == s.next
         IN [file |-> f1 @@ (id :> EmptyFile), dir |-> s.dir \cup {id}, active |-> id, next |-> id + 1]
    ELSE s

AppendOne(s, v) ==
    LET r == RotateIfFull(s)
        a == r.active
        nf == [r.file EXCEPT ![a].ents = Append(@, <<v.k, v.seq>>)]
    IN [s |-> [r EXCEPT !.file = nf], ptr |-> <<a, Len(nf[a].ents)>>]

(* entries list[i..upto] of a memtable being flushed; big values are separated *)
RECURSIVE WriteFrom(_, _, _, _, _)
WriteFrom(s, list, i, upto, acc) ==
    IF i > upto THEN [s |-> s, ents |-> acc]
    ELSE LET v == list[i] IN
         IF v.kind = "Set" /\ v.big
         THEN LET r == AppendOne(s, v)
              IN WriteFrom(r.s, list, i + 1, upto, acc \cup {Ent(v, r.ptr[1], r.ptr[2])})
         ELSE WriteFrom(s, list, i + 1, upto, acc \cup {Ent(v, 0, 0)})

(* a memtable is written in key order, newest version of a key first *)
Before(a, b) == KeyIdx(a.k) < KeyIdx(b.k) \/ (a.k = b.k /\ a.seq > b.seq)
FlushList(S) == SetToSortSeq(S, Before)

(* VLog::sync: flush + fsync of the ACTIVE file only *)
SyncActive(file, a) ==
    IF a = 0 THEN file
    ELSE LET old == file[a] IN [file EXCEPT ![a] = [old EXCEPT !.synced = Len(old.ents), !.hsync = TRUE]]

-----------------------------------------------------------------------------
(* Reads *)
NewestLE(S, k, h) ==
    LET C == {e \in S : e.k = k /\ e.seq <= h}
    IN IF C = {} THEN NoEnt ELSE CHOOSE e \in C : \A w \in C : w.seq <= e.seq

RECURSIVE FirstHit(_, _, _, _)
FirstHit(sets, i, k, h) ==
    IF i > Len(sets) THEN NoEnt
    ELSE LET e == NewestLE(sets[i], k, h) IN IF e.seq # 0 THEN e ELSE FirstHit(sets, i + 1, k, h)

(* Snapshot::get: active, immutables newest first, level 0 in list order, deeper levels *)
SearchOrder(m, im, z, d) ==
    <<MemEnts(m)>> \o [i \in 1..Len(im) |-> MemEnts(im[Len(im) + 1 - i])]
                   \o [i \in 1..Len(z) |-> z[i].ents] \o [i \in 1..(NLevels - 1) |-> d[i].ents]

AllEnts(m, im, z, d) ==
    MemEnts(m) \cup UNION {MemEnts(im[i]) : i \in 1..Len(im)} \cup UNION {z[i].ents : i \in 1..Len(z)}
               \cup UNION {d[i].ents : i \in 1..(NLevels - 1)}

(* VLog::get through a pointer: the file must be reachable (cached handle or directory entry)
   and long enough; the answer is what is stored there *)
Deref(e) ==
    IF e.f = 0 THEN e.seq
    ELSE IF e.f \in (vdir \cup handles) /\ e.i <= Len(vfile[e.f].ents) THEN vfile[e.f].ents[e.i][2]
    ELSE Err
Resolve(e) == IF e.seq = 0 \/ e.kind = "Del" THEN Absent ELSE Deref(e)

OfKey(S, k) == {v \in S : v.k = k}
ReadAt(S, k, h) == Read(OfKey(S, k), h)             \* what the property prescribes (Retention!Read)

GetNow(k, h) == Resolve(FirstHit(SearchOrder(mem, imm, l0, deep), 1, k, h))
CursorGet(c, k, h) == Resolve(NewestLE(AllEnts(c.mem, c.imm, c.l0, c.deep), k, h))
(* what a history cursor over a set of entries lists for a key at horizon h *)
HistList(S, k, h) == {e \in Alive(OfKey(S, k), h) : e.kind = "Set"}

Registered == {snap[r] : r \in {x \in Readers : pc[x] = "open"}}
Up == down = "up"
(* recovery flushes the memtables it rebuilds from all but the last commit-log segment with the ordinary flush *)
Run == down \in {"up", "recovering"}
(* the manifest write lock is held from a manifest change to the end of the clean-up that follows it *)
Locked == fl.pc = "cleanup" \/ cp.pc = "cleanup"
CursorsOpen == \E r \in Readers : cursor[r].kind # "none"

-----------------------------------------------------------------------------
Init ==
    /\ hist = {} /\ visible = 0 /\ expired = {} /\ mem = {} /\ imm = <<>> /\ l0 = <<>>
    /\ deep = [i \in 1..(NLevels - 1) |-> NoTable]
    /\ nextTab = 1 /\ index = {}
    /\ vfile = <<>> /\ vdir = {} /\ active = 0 /\ nextId = 1 /\ handles = {}
    /\ fl = IdleFl /\ cp = IdleCp
    /\ pc = [r \in Readers |-> "idle"] /\ snap = [r \in Readers |-> 0]
    /\ cursor = [r \in Readers |-> NoCursor]
    /\ down = "up"

Commit(k, kind, big) ==
    /\ Up /\ ~Locked
    /\ LET v == [k |-> k, seq |-> visible + 1, kind |-> kind, big |-> big] IN
       /\ hist' = hist \cup {v}
       /\ mem' = mem \cup {v}
    /\ visible' = visible + 1
    /\ UNCHANGED <<expired, imm, l0, deep, nextTab, index, vfile, vdir, active, nextId, handles, fl, cp, pc, snap,
                   cursor, down>>

(* the clock passes the retention window of everything committed so far *)
Tick ==
    /\ Up /\ ~Locked /\ Versioning /\ Finite
    /\ expired # 1..visible
    /\ expired' = 1..visible
    /\ UNCHANGED <<hist, visible, mem, imm, l0, deep, nextTab, index, vfile, vdir, active, nextId, handles, fl, cp,
                   pc, snap, cursor, down>>

Rotate ==
    /\ Up /\ ~Locked /\ mem # {}
    /\ imm' = Append(imm, mem) /\ mem' = {}
    /\ UNCHANGED <<hist, visible, expired, l0, deep, nextTab, index, vfile, vdir, active, nextId, handles, fl, cp, pc,
                   snap, cursor, down>>

(* any read through a pointer leaves a cached handle behind (VLog::get_file_handle) *)
OpenHandle(f) ==
    /\ Up /\ ~Locked /\ f \in vdir /\ f \notin handles
    /\ handles' = handles \cup {f}
    /\ UNCHANGED <<hist, visible, expired, mem, imm, l0, deep, nextTab, index, vfile, vdir, active, nextId, fl, cp, pc,
                   snap, cursor, down>>

-----------------------------------------------------------------------------
(* cleanup_vlog_and_index(min) *)
CleanupEffect(minv) ==
    IF minv = 0 THEN UNCHANGED <<index, vdir, handles>>
    ELSE /\ index' = {e \in index : ~(e.f # 0 /\ e.f < minv)}
         /\ LET del == IF CleanupRule = "no_cursors" /\ CursorsOpen THEN {}
                       ELSE {f \in vdir : f < minv /\ f # active}
            IN vdir' = vdir \ del /\ handles' = handles \ del

-----------------------------------------------------------------------------
(* Flush of the oldest immutable memtable (flush_immutable_to_sst) *)
FlushBegin ==
    /\ Run /\ ~Locked /\ fl.pc = "idle" /\ imm # <<>>
    /\ fl' = [pc |-> "writing", list |-> FlushList(Head(imm)), i |-> 1, ents |-> {}, id |-> nextTab]
    /\ nextTab' = nextTab + 1
    /\ UNCHANGED <<hist, visible, expired, mem, imm, l0, deep, index, vfile, vdir, active, nextId, handles, cp, pc, snap,
                   cursor, down>>

(* the entries of the memtable are written to the table; big values go to the value log.
   Granular: one entry per step; otherwise all of them and the fsync in one step. *)
FlushWrite ==
    /\ Run /\ fl.pc = "writing" /\ fl.i <= Len(fl.list)
    /\ LET upto == IF Granular THEN fl.i ELSE Len(fl.list)
           r == WriteFrom(VS, fl.list, fl.i, upto, fl.ents)
           last == upto = Len(fl.list)
           synced == IF last /\ ~Granular THEN SyncActive(r.s.file, r.s.active) ELSE r.s.file
       IN /\ vfile' = synced /\ vdir' = r.s.dir /\ active' = r.s.active /\ nextId' = r.s.next
          /\ fl' = [fl EXCEPT !.i = upto + 1, !.ents = r.ents,
                              !.pc = IF last /\ ~Granular THEN (IF UseIndex THEN "index" ELSE "written") ELSE "writing"]
    /\ UNCHANGED <<hist, visible, expired, mem, imm, l0, deep, nextTab, index, handles, cp, pc, snap, cursor, down>>

(* vlog.sync() after the last entry *)
FlushVSync ==
    /\ Run /\ Granular /\ fl.pc = "writing" /\ fl.i > Len(fl.list)
    /\ vfile' = SyncActive(vfile, active)
    /\ fl' = [fl EXCEPT !.pc = IF UseIndex THEN "index" ELSE "written"]
    /\ UNCHANGED <<hist, visible, expired, mem, imm, l0, deep, nextTab, index, vdir, active, nextId, handles, cp, pc,
                   snap, cursor, down>>

(* the versioned index receives every entry of the table (pointers included) and is synced *)
FlushIndex ==
    /\ Run /\ fl.pc = "index"
    /\ index' = {e \in index : \A n \in fl.ents : ~(n.k = e.k /\ n.seq = e.seq)} \cup fl.ents
    /\ fl' = [fl EXCEPT !.pc = "written"]
    /\ UNCHANGED <<hist, visible, expired, mem, imm, l0, deep, nextTab, vfile, vdir, active, nextId, handles, cp, pc,
                   snap, cursor, down>>

(* manifest: table added to level 0, memtable leaves the immutable queue *)
FlushInstall ==
    /\ Run /\ ~Locked /\ fl.pc = "written"
    /\ l0' = <<[id |-> fl.id, ents |-> fl.ents]>> \o l0
    /\ imm' = Tail(imm)
    /\ fl' = [pc |-> "cleanup"]
    /\ UNCHANGED <<hist, visible, expired, mem, deep, nextTab, index, vfile, vdir, active, nextId, handles, cp, pc, snap,
                   cursor, down>>

FlushCleanup ==
    /\ Run /\ fl.pc = "cleanup"
    /\ CleanupEffect(MinOldestOf(LiveTables))
    /\ fl' = IdleFl
    /\ UNCHANGED <<hist, visible, expired, mem, imm, l0, deep, nextTab, vfile, active, nextId, cp, pc, snap, cursor, down>>

-----------------------------------------------------------------------------
(* Compaction out of level src (Compactor::merge_tables): everything of the source and the
   target level takes part (tiny key space, ranges overlap) *)
VerOf(e) == [seq |-> e.seq, kind |-> e.kind, win |-> e.seq \notin expired]
KeyVers(S, k) == SetToSortSeq({VerOf(e) : e \in OfKey(S, k)}, LAMBDA a, b : a.seq > b.seq)
Compacted(S, bottom, snaps) ==
    UNION { LET keep == Rule(KeyVers(S, k), snaps, bottom, Versioning, Finite, "repo")
            IN {e \in OfKey(S, k) : \E v \in keep : v.seq = e.seq}
            : k \in {e.k : e \in S} }

CompactWrite(src) ==
    /\ Up /\ ~Locked /\ cp.pc = "idle" /\ src \in 0..(NLevels - 1)
    /\ LET tgt == IF src = NLevels - 1 THEN src ELSE src + 1
           ins == (IF src = 0 THEN {l0[i] : i \in 1..Len(l0)} ELSE {deep[src]}) \cup {deep[tgt]}
           input == UNION {t.ents : t \in ins}
       IN /\ src = 0 => l0 # <<>>
          /\ src > 0 => deep[src].id # 0
          /\ cp' = [pc |-> "written", src |-> src, tgt |-> tgt, inIds |-> {t.id : t \in ins} \ {0},
                    out |-> Compacted(input, tgt = NLevels - 1, Registered), id |-> nextTab]
          /\ nextTab' = nextTab + 1
    /\ UNCHANGED <<hist, visible, expired, mem, imm, l0, deep, index, vfile, vdir, active, nextId, handles, fl, pc, snap,
                   cursor, down>>

CompactInstall ==
    /\ Up /\ ~Locked /\ cp.pc = "written"
    /\ l0' = SelectSeq(l0, LAMBDA t : t.id \notin cp.inIds)
    /\ deep' = [i \in 1..(NLevels - 1) |->
                  IF i = cp.tgt THEN (IF cp.out = {} THEN NoTable ELSE [id |-> cp.id, ents |-> cp.out])
                  ELSE IF deep[i].id \in cp.inIds THEN NoTable ELSE deep[i]]
    /\ cp' = [pc |-> "cleanup"]
    /\ UNCHANGED <<hist, visible, expired, mem, imm, nextTab, index, vfile, vdir, active, nextId, handles, fl, pc, snap,
                   cursor, down>>

CompactCleanup ==
    /\ Up /\ cp.pc = "cleanup"
    /\ CleanupEffect(MinOldestOf(LiveTables))
    /\ cp' = IdleCp
    /\ UNCHANGED <<hist, visible, expired, mem, imm, l0, deep, nextTab, vfile, active, nextId, fl, pc, snap, cursor, down>>

-----------------------------------------------------------------------------
(* Readers *)
Begin(r) ==
    /\ Up /\ ~Locked /\ pc[r] = "idle"
    /\ snap' = [snap EXCEPT ![r] = visible]
    /\ pc' = [pc EXCEPT ![r] = "open"]
    /\ UNCHANGED <<hist, visible, expired, mem, imm, l0, deep, nextTab, index, vfile, vdir, active, nextId, handles, fl,
                   cp, cursor, down>>

(* kind "range": Transaction::range; "hist": Transaction::history over the tables (no index) *)
OpenCursor(r, kind) ==
    /\ Up /\ ~Locked /\ pc[r] = "open" /\ cursor[r].kind = "none"
    /\ kind = "hist" => Versioning /\ ~UseIndex
    /\ cursor' = [cursor EXCEPT ![r] = [kind |-> kind, mem |-> mem, imm |-> imm, l0 |-> l0, deep |-> deep]]
    /\ UNCHANGED <<hist, visible, expired, mem, imm, l0, deep, nextTab, index, vfile, vdir, active, nextId, handles, fl,
                   cp, pc, snap, down>>

CloseCursor(r) ==
    /\ Up /\ ~Locked /\ cursor[r].kind # "none"
    /\ cursor' = [cursor EXCEPT ![r] = NoCursor]
    /\ UNCHANGED <<hist, visible, expired, mem, imm, l0, deep, nextTab, index, vfile, vdir, active, nextId, handles, fl,
                   cp, pc, snap, down>>

End(r) ==
    /\ Up /\ ~Locked /\ pc[r] = "open"
    /\ pc' = [pc EXCEPT ![r] = "done"]
    /\ cursor' = [cursor EXCEPT ![r] = NoCursor]
    /\ UNCHANGED <<hist, visible, expired, mem, imm, l0, deep, nextTab, index, vfile, vdir, active, nextId, handles, fl,
                   cp, snap, down>>

-----------------------------------------------------------------------------
(* Crash and recovery.  Everything not yet in a table is in the commit log (commits are taken
   to be durable here: what survives of the commit log is C02's subject). *)
Unflushed == mem \cup UNION {imm[i] : i \in 1..Len(imm)}

(* the memtables stay behind as commit-log segments (one segment per memtable: rotating a memtable
   rotates the log); tables not yet in the manifest, readers and every in-memory structure are gone *)
CrashCommon ==
    /\ fl' = IdleFl /\ cp' = IdleCp
    /\ pc' = [r \in Readers |-> IF pc[r] = "idle" THEN "idle" ELSE "done"]
    /\ cursor' = [r \in Readers |-> NoCursor]
    /\ handles' = {} /\ active' = 0
    /\ down' = "crashed"
    /\ UNCHANGED <<hist, visible, expired, mem, imm, l0, deep, nextTab, index, vdir, nextId, snap>>

CrashProcess == /\ down \in {"up", "recovering"} /\ vfile' = vfile /\ CrashCommon

MaxLen == IF vdir = {} THEN 0 ELSE Max({Len(vfile[f].ents) : f \in vdir})

(* per file: any length between what was fsynced and what was written; a header that was
   never fsynced may be missing, complete or cut short *)
CrashPower ==
    /\ down \in {"up", "recovering"}
    /\ \E cut \in [vdir -> 0..MaxLen], tear \in SUBSET vdir :
         /\ \A f \in vdir : vfile[f].synced <= cut[f] /\ cut[f] <= Len(vfile[f].ents)
         /\ \A f \in tear : ~vfile[f].hsync /\ cut[f] = 0
         /\ vfile' = [f \in DOMAIN vfile |->
                        IF f \in vdir
                        THEN [vfile[f] EXCEPT !.ents = SubSeq(@, 1, cut[f]), !.torn = f \in tear]
                        ELSE vfile[f]]
    /\ CrashCommon

(* CoreInner::new: VLog::new -> prefill_file_handles (every file validated and opened, the highest id
   becomes the active writer); then the commit log is replayed into one memtable per segment: all but
   the last are flushed right away (ordinary flush, clean-up included), the last becomes the active one *)
Recover ==
    /\ down = "crashed"
    /\ IF HeaderCheck = "strict" /\ \E f \in vdir : vfile[f].torn
       THEN /\ down' = "refused"
            /\ UNCHANGED <<vfile, active, nextId, handles, mem, imm>>
       ELSE LET a == IF vdir = {} THEN 0 ELSE Max(vdir)
                segs == SelectSeq(imm \o <<mem>>, LAMBDA m : m # {})
            IN /\ down' = "recovering"
               /\ active' = a
               /\ nextId' = IF a = 0 THEN 1 ELSE a + 1
               /\ vfile' = [f \in DOMAIN vfile |-> IF f \in vdir THEN [vfile[f] EXCEPT !.torn = FALSE] ELSE vfile[f]]
               /\ handles' = vdir
               /\ imm' = IF segs = <<>> THEN <<>> ELSE SubSeq(segs, 1, Len(segs) - 1)
               /\ mem' = IF segs = <<>> THEN {} ELSE segs[Len(segs)]
    /\ UNCHANGED <<hist, visible, expired, l0, deep, nextTab, index, vdir, fl, cp, pc, snap, cursor>>

(* ... and cleanup_orphaned_vlog_files ends the start-up *)
RecoverDone ==
    /\ down = "recovering" /\ imm = <<>> /\ fl.pc = "idle"
    /\ CleanupEffect(MinOldestOf(LiveTables))
    /\ down' = "up"
    /\ UNCHANGED <<hist, visible, expired, mem, imm, l0, deep, nextTab, vfile, active, nextId, fl, cp, pc, snap, cursor>>

(* clean close (flush_on_close = false) and reopen: a process crash for what is modelled, except
   that vlog.close() fsyncs the active file *)
Reopen ==
    /\ Up /\ ~Locked /\ fl.pc = "idle" /\ cp.pc = "idle"
    /\ \A r \in Readers : pc[r] # "open"
    /\ vfile' = SyncActive(vfile, active)
    /\ CrashCommon

Next ==
    \/ \E k \in Keys, kind \in {"Set", "Del"}, big \in BOOLEAN : (kind = "Del" => ~big) /\ Commit(k, kind, big)
    \/ Tick \/ Rotate
    \/ \E f \in vdir : OpenHandle(f)
    \/ FlushBegin \/ FlushWrite \/ FlushVSync \/ FlushIndex \/ FlushInstall \/ FlushCleanup
    \/ \E l \in 0..(NLevels - 1) : CompactWrite(l)
    \/ CompactInstall \/ CompactCleanup
    \/ \E r \in Readers : Begin(r) \/ OpenCursor(r, "range") \/ OpenCursor(r, "hist") \/ CloseCursor(r) \/ End(r)
    \/ CrashProcess \/ CrashPower \/ Recover \/ RecoverDone \/ Reopen

Spec == Init /\ [][Next]_vars

-----------------------------------------------------------------------------
(* The property (C11).                                                      *)

PtrOk(e) == e.f = 0 \/ (e.f \in vdir /\ e.i <= Len(vfile[e.f].ents) /\ vfile[e.f].ents[e.i] = <<e.k, e.seq>>)

(* Reachable: no file is gone (and no file is too short, and no slot was reused) while a live
   table or an index entry points into it.  While the store is down the same must hold for the
   image that recovery will find. *)
LiveReachable == down # "refused" => \A e \in LiveEnts : PtrOk(e)
IndexReachable == down # "refused" => \A e \in index : PtrOk(e)

(* ... and after a power loss: whatever a table in the manifest points to has been fsynced *)
LiveDurable == \A e \in LiveEnts : e.f # 0 => e.i <= vfile[e.f].synced /\ vfile[e.f].hsync

(* Intact, point reads: every open reader and a fresh one get the value that was written *)
ReadsIntact == Up /\ ~Locked => \A r \in Readers : pc[r] = "open" =>
                 \A k \in Keys : GetNow(k, snap[r]) = ReadAt(hist, k, snap[r])
LatestIntact == Up /\ ~Locked => \A k \in Keys : GetNow(k, visible) = ReadAt(hist, k, visible)

(* Intact, through a pinned range cursor *)
CursorIntact == Up => \A r \in Readers : cursor[r].kind = "range" =>
                  \A k \in Keys : CursorGet(cursor[r], k, snap[r]) = ReadAt(hist, k, snap[r])

(* whatever an open history cursor lists resolves to what was written *)
HistCursorIntact == Up => \A r \in Readers : cursor[r].kind = "hist" =>
                      \A k \in Keys : \A e \in HistList(AllEnts(cursor[r].mem, cursor[r].imm, cursor[r].l0, cursor[r].deep),
                                                          k, snap[r]) : Deref(e) = e.seq
(* ... and a history read started now (tables, or memtables + index) *)
HistNowIntact == Up /\ ~Locked /\ Versioning =>
                   \A k \in Keys :
                      \A e \in HistList(IF UseIndex THEN MemEnts(Unflushed) \cup index ELSE AllEnts(mem, imm, l0, deep),
                                        k, visible) : Deref(e) = e.seq

(* the store opens again after every crash *)
Reopens == down # "refused"

(* mechanism *)
ActiveInDir == Up /\ active # 0 => active \in vdir
HandlesInDir == handles \subseteq vdir
OldestExact == \A t \in LiveTables : \A e \in t.ents : e.f # 0 => Oldest(t) # 0 /\ Oldest(t) <= e.f
=============================================================================
