------------------------------- MODULE VlogMC -------------------------------
(* Bounded instance of Vlog: exhaustive check of the C11 invariants, and export *)
(* of one replayable scenario per explored transition for the real engine.     *)
EXTENDS Vlog, Json

CONSTANTS
    CommitChoices,     \* subset of {"SetB", "SetS", "Del"}: big value / small value / delete
    CursorKinds,       \* subset of {"range", "hist"}
    MaxCommits, MaxFlushes, MaxCompactions, MaxReopens, MaxCrashes, MaxSteps,
    TwoPhase,          \* TRUE: other work may run between a flush / compaction having written its
                       \* table and installing it (two tasks run concurrently in the engine)
    HandleSteps        \* TRUE: the handle cache is explored (reads leave handles behind)

MCKeyOrder == <<"k1", "k2", "k3">>

VARIABLES nflush, ncompact, nreopen, ncrash, log, steps
cnt == <<nflush, ncompact, nreopen, ncrash>>
mcvars == <<vars, cnt, log, steps>>

Op(name, a, b) == [op |-> name, a |-> a, b |-> b]
Log(r) == log' = Append(log, r) /\ steps' = steps + 1
NoLog == UNCHANGED <<log, steps>>
LogIf(c, r) == IF c THEN Log(r) ELSE NoLog

(* states in which the engine cannot be stopped by the driver: a task is between two of its own
   steps (or holds the manifest lock), or the store is down *)
Urgent ==
    \/ Locked \/ down \in {"crashed", "recovering"}
    \/ fl.pc \in {"writing", "index"}
    \/ (~TwoPhase) /\ (fl.pc = "written" \/ cp.pc = "written")

MCInit == Init /\ nflush = 0 /\ ncompact = 0 /\ nreopen = 0 /\ ncrash = 0 /\ log = <<>> /\ steps = 0

MC_Commit ==
    /\ ~Urgent /\ visible < MaxCommits
    /\ \E k \in Keys, c \in CommitChoices :
         /\ Commit(k, IF c = "Del" THEN "Del" ELSE "Set", c = "SetB")
         /\ Log(Op("Commit", k, c))
    /\ UNCHANGED cnt
MC_Tick == ~Urgent /\ Tick /\ Log(Op("Tick", "", "")) /\ UNCHANGED cnt
MC_Rotate == ~Urgent /\ Rotate /\ Log(Op("Rotate", "", "")) /\ UNCHANGED cnt
MC_OpenHandle == ~Urgent /\ HandleSteps /\ (\E f \in vdir : OpenHandle(f)) /\ NoLog /\ UNCHANGED cnt
MC_FlushBegin ==
    /\ (~Urgent /\ nflush < MaxFlushes) \/ (down = "recovering" /\ ~Locked)
    /\ FlushBegin /\ NoLog
    /\ nflush' = IF down = "up" THEN nflush + 1 ELSE nflush
    /\ UNCHANGED <<ncompact, nreopen, ncrash>>
MC_FlushWrite ==
    /\ (FlushWrite \/ FlushVSync \/ FlushIndex)
    /\ LogIf(TwoPhase /\ Up /\ fl'.pc = "written", Op("FlushWrite", "", ""))
    /\ UNCHANGED cnt
MC_FlushInstall ==
    /\ FlushInstall /\ LogIf(Up, Op(IF TwoPhase THEN "FlushInstall" ELSE "Flush", "", "")) /\ UNCHANGED cnt
MC_FlushCleanup == FlushCleanup /\ NoLog /\ UNCHANGED cnt
MC_CompactWrite ==
    /\ ~Urgent /\ ncompact < MaxCompactions
    /\ \E l \in 0..(NLevels - 1) : CompactWrite(l) /\ LogIf(TwoPhase, Op("CompactWrite", ToString(l), ""))
    /\ ncompact' = ncompact + 1 /\ UNCHANGED <<nflush, nreopen, ncrash>>
MC_CompactInstall ==
    /\ (TwoPhase => ~Urgent)
    /\ CompactInstall
    /\ Log(Op(IF TwoPhase THEN "CompactInstall" ELSE "Compact", ToString(cp.src), ""))
    /\ UNCHANGED cnt
MC_CompactCleanup == CompactCleanup /\ NoLog /\ UNCHANGED cnt
MC_Begin == ~Urgent /\ (\E r \in Readers : Begin(r) /\ Log(Op("Begin", r, ""))) /\ UNCHANGED cnt
MC_OpenCursor ==
    /\ ~Urgent
    /\ \E r \in Readers, kd \in CursorKinds : OpenCursor(r, kd) /\ Log(Op("OpenCursor", r, kd))
    /\ UNCHANGED cnt
MC_CloseCursor == ~Urgent /\ (\E r \in Readers : CloseCursor(r) /\ Log(Op("CloseCursor", r, ""))) /\ UNCHANGED cnt
MC_End == ~Urgent /\ (\E r \in Readers : End(r) /\ Log(Op("End", r, ""))) /\ UNCHANGED cnt
MC_Reopen ==
    /\ ~Urgent /\ nreopen < MaxReopens /\ Reopen /\ Log(Op("Reopen", "", ""))
    /\ nreopen' = nreopen + 1 /\ UNCHANGED <<nflush, ncompact, ncrash>>
MC_Crash ==
    /\ ncrash < MaxCrashes /\ down \in {"up", "recovering"}
    /\ \/ CrashProcess /\ Log(Op("Crash", "process", ""))
       \/ CrashPower /\ Log(Op("Crash", "power", ""))
    /\ ncrash' = ncrash + 1 /\ UNCHANGED <<nflush, ncompact, nreopen>>
MC_Recover == (Recover \/ RecoverDone) /\ NoLog /\ UNCHANGED cnt

MCNext ==
    \/ MC_Commit \/ MC_Tick \/ MC_Rotate \/ MC_OpenHandle
    \/ MC_FlushBegin \/ MC_FlushWrite \/ MC_FlushInstall \/ MC_FlushCleanup
    \/ MC_CompactWrite \/ MC_CompactInstall \/ MC_CompactCleanup
    \/ MC_Begin \/ MC_OpenCursor \/ MC_CloseCursor \/ MC_End
    \/ MC_Reopen \/ MC_Crash \/ MC_Recover

StepBound == steps <= MaxSteps

(* expected observations in the state after the last step: `reads` by the PROPERTY (ReadAt over the
   ghost history); the rest is the model's prediction of the engine's bookkeeping (conformance only) *)
Expect ==
    [latest |-> [k \in Keys |-> ReadAt(hist, k, visible)],
     readers |-> [r \in Readers |->
                    [open |-> pc[r] = "open", snap |-> snap[r], cursor |-> cursor[r].kind,
                     reads |-> [k \in Keys |-> ReadAt(hist, k, snap[r])]]],
     visible |-> visible,
     files |-> vdir, active |-> active, nextId |-> nextId,
     minOldest |-> MinOldestOf(LiveTables),
     ptrs |-> {<<e.k, e.seq, e.f, e.i>> : e \in {x \in LiveEnts : x.f # 0}},
     inline |-> {<<e.k, e.seq>> : e \in {x \in LiveEnts : x.f = 0 /\ x.kind = "Set"}},
     idx |-> {<<e.k, e.seq, e.f, e.i>> : e \in {x \in index : x.f # 0}},
     flushing |-> fl.pc = "written", compacting |-> cp.pc = "written"]

Export == IF Urgent' THEN TRUE ELSE PrintT("REPLAY " \o ToJson([ops |-> log', expect |-> Expect']))

(* first state violating P: print the schedule that leads to it (used for invariants that the
   repository is known to break, so that the counterexample is replayed on the real engine) *)
Cex(name, P) == P \/ PrintT("CEX " \o ToJson([inv |-> name, ops |-> log, expect |-> Expect]))
CexHistCursor == Cex("HistCursorIntact", HistCursorIntact)
CexReopens == Cex("Reopens", Reopens)

View == <<vars, cnt>>
=============================================================================
