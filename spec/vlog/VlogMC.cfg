CONSTANTS
    Absent = 0
    Keys = {"k1", "k2"}
    KeyOrder <- MCKeyOrder
    Readers = {"r1"}
    NLevels = 2
    FileCap = 1
    Versioning = FALSE
    Finite = FALSE
    UseIndex = FALSE
    Granular = FALSE
    SyncOnRotate = TRUE
    CleanupRule = "no_cursors"
    HeaderCheck = "lenient"
    CommitChoices = {"SetB", "SetS", "Del"}
    CursorKinds = {"range"}
    MaxCommits = 3
    MaxFlushes = 2
    MaxCompactions = 1
    MaxReopens = 0
    MaxCrashes = 0
    MaxSteps = 8
    TwoPhase = FALSE
    HandleSteps = FALSE
INIT MCInit
NEXT MCNext
CONSTRAINT StepBound
VIEW View
INVARIANTS LiveReachable IndexReachable LiveDurable ReadsIntact LatestIntact CursorIntact HistCursorIntact HistNowIntact Reopens ActiveInDir HandlesInDir OldestExact
CHECK_DEADLOCK FALSE
