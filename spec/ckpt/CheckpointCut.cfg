SPECIFICATION Spec
CONSTANTS
    MaxCompactions = 2
    CutRule = "one_lock"
INVARIANTS CheckpointOpens LiveOpens
CHECK_DEADLOCK FALSE
