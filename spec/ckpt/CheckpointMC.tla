---------------------------- MODULE CheckpointMC ----------------------------
(* Bounded instance of Checkpoint: exhaustive check of the property, and export of one *)
(* replayable scenario per explored transition for the real engine (ckpt_run).         *)
EXTENDS Checkpoint, Json

CONSTANTS MaxSteps, MaxCommits, MaxRotates, MaxFlushes, MaxCompactions, MaxRestores, MaxReopens, MaxProbes, MaxOpens

VARIABLES hist, steps, cnt
mcvars == <<vars, hist, steps, cnt>>

MCKeySeq == <<"k1", "k2">>
MCKeySeq3 == <<"k1", "k2", "k3">>
MCAllResets == AllResets
MCCodeResets == CodeResets
(* every reset but one: isolates one missing reset *)
AllBut(m) == AllResets \ {m}
MCAllButCache == AllBut("cache")
MCAllButVlog == AllBut("vlog")
MCAllButIndex == AllBut("index")
MCAllButWalgc == AllBut("walgc")
MCAllButWalcopy == AllBut("walcopy")
MCAllButMemtable == AllBut("memtable")
MCAllButOracle == AllBut("oracle")

(* what the PROPERTY prescribes for the observations of a state (ghost only): reads of the live  *)
(* store, plus a few implementation values for conformance (drift, never judgement)              *)
ExpOf(g, S) ==
    LET dead == (1..g.nvid) \ {v.vid : v \in S}      \* values that are not part of the timeline S
    IN IF Versioning
       THEN [latest |-> [k \in Keys |-> LatestOf(S, k)], dead |-> dead,
             hmust |-> [k \in Keys |-> HistMust(S, k)], hmay |-> [k \in Keys |-> HistMay(S, k)]]
       ELSE [latest |-> [k \in Keys |-> LatestOf(S, k)], dead |-> dead]
Impl(w) == [visible |-> w.p.visible, nextTid |-> w.p.ntid, l0 |-> Len(w.d.man.l0), logNum |-> w.d.man.logNum,
            imm |-> Len(w.p.imm)]
(* ck: what each checkpoint directory must read when it is opened after the last step *)
Expect(w) == [obs |-> ExpOf(w.g, w.g.cur), impl |-> Impl(w),
              ck |-> [c \in DOMAIN w.g.ck |-> ExpOf(w.g, w.g.ck[c])]]
(* ... and for the reads of checkpoint directory c opened as a database *)
ExpectCk(w, c) == [obs |-> ExpOf(w.g, w.g.ck[c])]

NoExp == [none |-> TRUE]
Op(name, k, kind, v, c, exp) == [op |-> name, k |-> k, kind |-> kind, v |-> v, c |-> c, exp |-> exp]
Log(r) == hist' = Append(hist, r) /\ steps' = steps + 1
Inc(f) == cnt' = [cnt EXCEPT ![f] = @ + 1, !.probed = FALSE]
(* keys are interchangeable: a key is first written only after all smaller keys have been written *)
Canonical(k) == \A j \in 1..(KeyIdx(k) - 1) : KeySeq[j] \in cnt.used

MCInit ==
    /\ Init /\ hist = <<>> /\ steps = 0
    /\ cnt = [commit |-> 0, rotate |-> 0, flush |-> 0, compact |-> 0, restore |-> 0, reopen |-> 0, probe |-> 0, open |-> 0,
              probed |-> FALSE, used |-> {}]

MCNext ==
    \/ \E k \in Keys, kind \in CommitKinds :
         /\ cnt.commit < MaxCommits
         /\ Canonical(k)
         /\ Commit(k, kind)
         /\ Log(Op("Commit", k, kind, IF kind = "Set" THEN ghost'.nvid ELSE 0, "", NoExp))
         /\ cnt' = [cnt EXCEPT !.commit = @ + 1, !.probed = FALSE, !.used = @ \cup {k}]
    \/ cnt.rotate < MaxRotates /\ Rotate /\ Log(Op("Rotate", "", "", 0, "", NoExp)) /\ Inc("rotate")
    \/ cnt.flush < MaxFlushes /\ Flush /\ Log(Op("Flush", "", "", 0, "", NoExp)) /\ Inc("flush")
    \/ cnt.compact < MaxCompactions /\ Compact /\ Log(Op("Compact", "", "", 0, "", NoExp)) /\ Inc("compact")
    \/ cnt.reopen < MaxReopens /\ Reopen /\ Log(Op("Reopen", "", "", 0, "", NoExp)) /\ Inc("reopen")
    \/ /\ cnt.probe < MaxProbes /\ ~cnt.probed
       /\ Probe /\ Log(Op("Probe", "", "", 0, "", Expect(World')))
       /\ cnt' = [cnt EXCEPT !.probe = @ + 1, !.probed = TRUE]
    \/ \E c \in Ckpts :
         \/ Checkpoint(c) /\ Log(Op("Checkpoint", "", "", 0, c, NoExp)) /\ cnt' = [cnt EXCEPT !.probed = FALSE]
         \/ cnt.restore < MaxRestores /\ Restore(c) /\ Log(Op("Restore", "", "", 0, c, NoExp)) /\ Inc("restore")
         \/ cnt.open < MaxOpens /\ OpenCkpt(c) /\ Log(Op("OpenCkpt", "", "", 0, c, ExpectCk(World', c))) /\ Inc("open")

StepBound == steps <= MaxSteps

Export == PrintT("REPLAY " \o ToJson([ops |-> hist', exp |-> Expect(World')]))

(* Counterexample export: the first state violating P prints its scenario and stops TLC.  Used with *)
(* Resets = AllBut(m) to derive, for every reset the code lacks, a directed scenario that is then    *)
(* run on the real code (reproduced => VIOLATION; not reproduced => the model has drifted).          *)
Cex(name, P) == P \/ (PrintT("REPLAY " \o ToJson([cex |-> name, ops |-> hist, exp |-> Expect(World)])) /\ FALSE)
CexRestoreExact == Cex("RestoreExact", RestoreExact)
CexCkptContent == Cex("CkptContent", CkptContent)
CexNoDiscardedTimeline == Cex("NoDiscardedTimeline", NoDiscardedTimeline)
CexPostRestoreDurable == Cex("PostRestoreDurable", PostRestoreDurable)
CexCommitsAccepted == Cex("CommitsAccepted", CommitsAccepted)
CexAll == Cex("Any", RestoreExact /\ CkptContent /\ NoDiscardedTimeline /\ PostRestoreDurable /\ CommitsAccepted)

View == <<vars, cnt>>
=============================================================================
