CONSTANTS
    Absent = 0
    KeySeq <- MCKeySeq
    CommitKinds = {"Set", "Del"}
    Ckpts = {"c1"}
    Vlog = TRUE
    Versioning = FALSE
    Index = FALSE
    VlogCap = 2
    FlushOnClose = FALSE
    Drain = TRUE
    Resets <- MCAllResets
    MaxSteps = 7
    MaxCommits = 3
    MaxRotates = 1
    MaxFlushes = 3
    MaxCompactions = 1
    MaxRestores = 1
    MaxReopens = 1
    MaxProbes = 1
    MaxOpens = 2
INIT MCInit
NEXT MCNext
CONSTRAINT StepBound
VIEW View
INVARIANTS TypeOK RestoreExact CkptContent NoDiscardedTimeline PostRestoreDurable CommitsAccepted
CHECK_DEADLOCK FALSE
