\* the deeper exhaustive check of the thorough tier (checks/c14.py: model_check "deep"): about 2.6 million
\* transitions, 0.7 million distinct states, 2 minutes with 12 workers. Run WITHOUT -coverage (see NOTES.md).
CONSTANTS
    Absent = 0
    KeySeq <- MCKeySeq
    CommitKinds = {"Set", "Del"}
    Ckpts = {"c1"}
    Vlog = TRUE
    Versioning = FALSE
    Index = FALSE
    VlogCap = 2
    FlushOnClose = FALSE
    Drain = TRUE
    Resets <- MCAllResets
    MaxSteps = 9
    MaxCommits = 3
    MaxRotates = 0
    MaxFlushes = 3
    MaxCompactions = 1
    MaxRestores = 2
    MaxReopens = 1
    MaxProbes = 1
    MaxOpens = 2
INIT MCInit
NEXT MCNext
CONSTRAINT StepBound
VIEW View
INVARIANTS TypeOK RestoreExact CkptContent NoDiscardedTimeline PostRestoreDurable CommitsAccepted
CHECK_DEADLOCK FALSE
