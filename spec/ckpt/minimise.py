"""Debugging aid, never used by the check to judge anything.

  python3 spec/ckpt/minimise.py <replay-file.json> <bucket prefix, e.g. unexplained | block_cache>

Shrinks the scenario of a C14 replay file (work/replay/C14-*.json) by deleting operations for as long as ckpt_run
still reports a violation whose bucket (`<needs>:<symptom>`) starts with the prefix. Expectations for the shrunken
op lists are recomputed with a small Python mirror of the ghost of Checkpoint.tla (timelines, checkpoints, latest /
must / may / dead). Prints the minimal op list and writes /tmp/minimal.json (runnable with ckpt_run)."""
import json, os, sys, subprocess
HERE = os.path.dirname(os.path.abspath(__file__))
DRIVER = os.path.normpath(os.path.join(HERE, '..', '..', 'harness', 'target', 'release', 'ckpt_run'))
def expect(ops, keys, versioning=False):
    cur, ck, nvid, out = [], {}, 0, []
    def obs(S):
        lat = {}
        for k in keys:
            vs = [v for v in S if v[0] == k]
            lat[k] = (vs[-1][2] if vs and vs[-1][1] == 'Set' else 0)
        vids = {v[2] for v in cur if v[1] == 'Set'}
        o = {"latest": lat, "dead": [i for i in range(1, nvid + 1) if i not in vids]}
        if versioning:
            must, may = {}, {}
            for k in keys:
                vs = [v for v in S if v[0] == k]
                last_del = max([i for i, v in enumerate(vs) if v[1] == 'Del'], default=-1)
                must[k] = [v[2] for i, v in enumerate(vs) if i > last_del and v[1] == 'Set']
                may[k] = [v[2] for v in vs if v[1] == 'Set']
            o["hmust"], o["hmay"] = must, may
        return o
    for op in ops:
        op = dict(op); op.pop('exp', None)
        if op['op'] == 'Commit':
            if op['kind'] == 'Set': nvid = max(nvid, op['v'])
            cur.append((op['k'], op['kind'], op['v']))
        elif op['op'] == 'Checkpoint': ck[op['c']] = list(cur)
        elif op['op'] == 'Restore': cur = list(ck[op['c']])
        elif op['op'] == 'Probe': op['exp'] = {"obs": obs(cur)}
        elif op['op'] == 'OpenCkpt': op['exp'] = {"obs": obs(ck[op['c']])}
        out.append(op)
    return {"ops": out, "exp": {"obs": obs(cur), "ck": {c: obs(S) for c, S in ck.items()}}}
def valid(ops):
    ck = set()
    for op in ops:
        if op['op'] == 'Checkpoint':
            if op['c'] in ck: return False
            ck.add(op['c'])
        if op['op'] in ('Restore', 'OpenCkpt') and op['c'] not in ck: return False
    return True
def run(sc, cfg, want_needs=None):
    sc = dict(sc); sc['cfg'] = cfg
    open('/tmp/min.ndjson', 'w').write(json.dumps(sc) + '\n')
    p = subprocess.run([DRIVER, '/tmp/min.ndjson', '--jobs', '1'], capture_output=True, text=True)
    for l in p.stdout.splitlines():
        if l.startswith('SUMMARY '):
            s = json.loads(l[8:])
            return s['extra'].get('buckets') or {}
    return {}
if __name__ == '__main__':
    d = json.load(open(sys.argv[1])); target = sys.argv[2]
    sc = d['replay']['scenario']; cfg = sc['cfg']
    keys = sorted(sc['exp']['obs']['latest'].keys())
    ops = sc['ops']
    def bad(ops):
        if not valid(ops): return False
        b = run(expect(ops, keys, cfg.get('versioning')), cfg)
        return any(k.startswith(target) for k in b)
    assert bad(ops), run(expect(ops, keys, cfg.get('versioning')), cfg)
    changed = True
    while changed:
        changed = False
        for i in range(len(ops) - 1, -1, -1):
            t = ops[:i] + ops[i + 1:]
            if bad(t):
                ops = t; changed = True
    print(' '.join('%s%s' % (o['op'], (':'+o['k']+':'+o['kind']+':'+str(o['v'])) if o['k'] else (':'+o['c'] if o['c'] else '')) for o in ops))
    print(run(expect(ops, keys, cfg.get('versioning')), cfg))
    json.dump(expect(ops, keys, cfg.get('versioning')), open('/tmp/minimal.json', 'w'))
