----------------------------- MODULE Checkpoint -----------------------------
(***************************************************************************)
(* Checkpoint and restore of a live store (src/checkpoint.rs,              *)
(* Tree::create_checkpoint / Tree::restore_from_checkpoint in src/lsm.rs). *)
(*                                                                         *)
(* The model keeps apart                                                   *)
(*   - the files of the main directory (tables, manifest, value-log files, *)
(*     commit-log segments, the B+tree version index); files are OBJECTS   *)
(*     and directories map names to objects, because restore removes and   *)
(*     re-creates directory entries under writers that keep their open     *)
(*     files, and because it hard-links files out of the checkpoint;       *)
(*   - the checkpoint directories;                                         *)
(*   - the state of the live process: memtable, sequence counter, conflict *)
(*     oracle, block cache keyed by (table id) and (value-log file id,     *)
(*     offset), value-log writer / handle cache / next file id, commit-log *)
(*     writer, the clean-up tasks a flush has spawned but that have not    *)
(*     run yet;                                                            *)
(*   - ghost: the versions committed in the CURRENT timeline, the versions *)
(*     each checkpoint was taken at, the number of values ever written.    *)
(*                                                                         *)
(* Restore is the code's step list: clear sstables/ wal/ manifest/ vlog/,  *)
(* link or copy the checkpoint's files back, reload the manifest, drop the *)
(* memtables, reopen the commit log, replay it, rewind the sequence        *)
(* counter, reset the oracle.  What it does beyond that is the constant    *)
(* `Resets`.  The pinned commit reset {"memtable", "oracle"} only: the     *)
(* block cache, the value-log writer and handles, the version index and    *)
(* the pending clean-up tasks survived, and commit-log segments were hard  *)
(* links into the checkpoint (PinnedResets).  Five `fix:` commits later    *)
(* the code resets everything (CodeResets = AllResets).  TLC shows that    *)
(* this design satisfies the property; for every reset the pinned commit   *)
(* lacked, the model without it still yields a behaviour that breaks the   *)
(* property, and checks/c14.py runs it on the real code, where it must not *)
(* reproduce any more (a reverted fix is caught by exactly that run).      *)
(*                                                                         *)
(* The property (C14) is stated over the ghost only:                       *)
(*   CkptContent         a checkpoint directory opened as a database reads *)
(*                       exactly what was committed when it was taken      *)
(*   RestoreExact        every read of the live store = the current        *)
(*                       timeline (after a restore: checkpoint + later     *)
(*                       commits)                                          *)
(*   NoDiscardedTimeline no read returns a value written only in a         *)
(*                       discarded timeline                                *)
(*   PostRestoreDurable  closing and reopening now would read the same     *)
(*   CommitsAccepted     no commit is refused (there is no concurrency)    *)
(***************************************************************************)
EXTENDS Naturals, Sequences, FiniteSets, TLC

CONSTANTS
    KeySeq,        \* the user keys, in key order
    CommitKinds,   \* subset of {"Set", "Del"}
    Ckpts,         \* names of checkpoint directories
    Vlog,          \* BOOLEAN: values go to value-log files at flush time
    Versioning,    \* BOOLEAN: all versions are kept, history reads exist (requires Vlog)
    Index,         \* BOOLEAN: history reads go through the B+tree version index (requires Versioning)
    VlogCap,       \* entries a value-log file takes before the writer starts the next file
    FlushOnClose,  \* BOOLEAN: close() flushes the memtable
    Drain,         \* BOOLEAN: spawned clean-up tasks run before the next operation (else: at close)
    Resets,        \* what restore_from_checkpoint resets in the live process (subset of AllResets)
    Absent         \* what a read answers for a key that has no value (not a value id)

AllResets == {"memtable", "oracle", "cache", "vlog", "index", "walgc", "walcopy"}
PinnedResets == {"memtable", "oracle"}        \* the pinned commit
CodeResets == {"memtable", "oracle", "cache", "vlog", "index", "walgc", "walcopy"}    \* the code as it stands

Keys == {KeySeq[i] : i \in 1..Len(KeySeq)}

VARIABLES
    disk,   \* main directory: [sst, man, vdir, wdir, idx]
    obj,    \* [object id -> sequence]: contents of value-log files (value ids) and commit-log segments (entries)
    nobj,   \* objects allocated so far
    ckpt,   \* [checkpoint name -> [sst, man, vfiles, wdir, idx]]
    proc,   \* live process: [mem, imm, ntid, visible, oracle, bcache, vcache, vw, vnext, vh, vfiles, ww, gc]
    ghost   \* [cur, ck, nvid, refused]
vars == <<disk, obj, nobj, ckpt, proc, ghost>>

World == [d |-> disk, o |-> obj, n |-> nobj, c |-> ckpt, p |-> proc, g |-> ghost]
Become(w) ==
    /\ disk' = w.d /\ obj' = w.o /\ nobj' = w.n /\ ckpt' = w.c /\ proc' = w.p /\ ghost' = w.g

-----------------------------------------------------------------------------
(* helpers *)
Restrict(f, S) == [x \in S |-> f[x]]
Range(f) == {f[x] : x \in DOMAIN f}
MaxOf(S, dflt) == IF S = {} THEN dflt ELSE CHOOSE x \in S : \A y \in S : y <= x
MinOf(S, dflt) == IF S = {} THEN dflt ELSE CHOOSE x \in S : \A y \in S : x <= y
NoW == [file |-> 0, obj |-> 0]
ErrV == 999999                        \* what a failing read "returns" (never a value id)
EmptyMan == [l0 |-> <<>>, l1 |-> {}, nextTid |-> 1, logNum |-> 0, lastSeq |-> 0]

(* An entry: [k, seq, kind, vid, f, off]; vid = identity of the value (0 for a delete), *)
(* (f, off) = where the value lives in the value log (f = 0: inline).                        *)
OfKey(S, k) == {e \in S : e.k = k}
(* one entry per sequence number (a stale cached block and a table of the new timeline may   *)
(* both hold "the" entry of a sequence number)                                               *)
Dedup(S) == {e \in S : e = CHOOSE x \in {y \in S : y.seq = e.seq} : TRUE}
NewestE(S) == CHOOSE e \in S : \A x \in S : x.seq <= e.seq

LiveTables(man) == Range(man.l0) \cup man.l1

-----------------------------------------------------------------------------
(* Reading.  What the live process answers NOW, as a pure function of the state. *)

(* a table is read through the block cache, which is keyed by table id *)
BlockView(w, t) == IF t \in DOMAIN w.p.bcache THEN w.p.bcache[t] ELSE w.d.sst[t]

(* resolve a value pointer: cache by (file id, offset), then the cached handle of the file id, *)
(* then the directory; ErrV = the read fails                                                  *)
Resolve(w, e) ==
    IF e.f = 0 THEN e.vid
    ELSE IF <<e.f, e.off>> \in DOMAIN w.p.vcache THEN w.p.vcache[<<e.f, e.off>>]
    ELSE LET o == IF e.f \in DOMAIN w.p.vh THEN w.p.vh[e.f]
                  ELSE IF e.f \in DOMAIN w.d.vdir THEN w.d.vdir[e.f] ELSE 0
         IN IF o = 0 THEN ErrV
            ELSE IF e.off > Len(w.o[o]) THEN ErrV ELSE w.o[o][e.off]

(* the active and the immutable memtables *)
MemEntries(w) == w.p.mem \cup UNION {w.p.imm[i].ents : i \in 1..Len(w.p.imm)}

Visible(w) ==
    LET all == MemEntries(w) \cup UNION {BlockView(w, t) : t \in LiveTables(w.d.man)}
    IN {e \in all : e.seq <= w.p.visible}

(* merged read (range scan): newest visible entry of the key *)
ReadNow(w, k) ==
    LET S == OfKey(Visible(w), k) IN
    IF S = {} THEN Absent
    ELSE LET e == NewestE(S) IN IF e.kind = "Del" THEN Absent ELSE Resolve(w, e)

(* version history: through the index when there is one, else from the tables *)
HistSource(w) == IF Index THEN {e \in w.d.idx : e.seq <= w.p.visible} \cup MemEntries(w) ELSE Visible(w)
HistNow(w, k) ==
    LET S == Dedup(OfKey(HistSource(w), k))
        B == {e \in S : e.kind = "Del"}
        b == IF B = {} THEN 0 ELSE NewestE(B).seq
    IN {Resolve(w, e) : e \in {x \in S : x.seq > b /\ x.kind = "Set"}}

-----------------------------------------------------------------------------
(* Ghost semantics: versions [k, n, kind, vid], n = position in the current timeline *)
GOfKey(S, k) == {v \in S : v.k = k}
GNewest(S) == CHOOSE v \in S : \A x \in S : x.n <= v.n
LatestOf(S, k) ==
    LET V == GOfKey(S, k) IN
    IF V = {} THEN Absent ELSE LET v == GNewest(V) IN IF v.kind = "Del" THEN Absent ELSE v.vid
(* versions a history read must list: the sets newer than the newest delete; may list: every set *)
HistMust(S, k) ==
    LET V == GOfKey(S, k)
        B == {v \in V : v.kind = "Del"}
        b == IF B = {} THEN 0 ELSE GNewest(B).n
    IN {v.vid : v \in {x \in V : x.n > b /\ x.kind = "Set"}}
HistMay(S, k) == {v.vid : v \in {x \in GOfKey(S, k) : x.kind = "Set"}}
(* values whose only writers are in a discarded timeline *)
Dead(g) == (1..g.nvid) \ {v.vid : v \in g.cur}

-----------------------------------------------------------------------------
(* Value log *)

(* append one value through the live writer; st = [d, o, n, p]; returns [st, f, off] *)
VAppend(st, vid) ==
    LET p == st.p
        fresh == p.vw = NoW \/ Len(st.o[p.vw.obj]) >= VlogCap
        f == IF fresh THEN p.vnext ELSE p.vw.file
        (* OpenOptions::create + append: an existing file of that name is continued *)
        exists == f \in DOMAIN st.d.vdir
        ob == IF ~fresh THEN p.vw.obj ELSE IF exists THEN st.d.vdir[f] ELSE st.n + 1
        o1 == IF fresh /\ ~exists THEN (ob :> <<>>) @@ st.o ELSE st.o
        st1 == [st EXCEPT !.o = [o1 EXCEPT ![ob] = Append(@, vid)],
                          !.n = IF fresh /\ ~exists THEN @ + 1 ELSE @,
                          !.d.vdir = IF fresh /\ ~exists THEN (f :> ob) @@ @ ELSE @,
                          !.p.vw = [file |-> f, obj |-> ob],
                          !.p.vnext = IF fresh THEN f + 1 ELSE @,
                          !.p.vfiles = @ \cup {f}]
    IN [st |-> st1, f |-> f, off |-> Len(o1[ob]) + 1]

RECURSIVE Separate(_, _, _, _)
(* entries es[i..] of a memtable written to a table: sets go to the value log when it is on *)
Separate(st, es, i, acc) ==
    IF i > Len(es) THEN [st |-> st, out |-> acc]
    ELSE LET e == es[i] IN
         IF Vlog /\ e.kind = "Set"
         THEN LET r == VAppend(st, e.vid)
              IN Separate(r.st, es, i + 1, acc \cup {[e EXCEPT !.f = r.f, !.off = r.off]})
         ELSE Separate(st, es, i + 1, acc \cup {e})

(* memtable entries in internal-key order: key ascending, sequence number descending *)
KeyIdx(k) == CHOOSE i \in 1..Len(KeySeq) : KeySeq[i] = k
EntryBefore(e, x) ==
    \/ KeyIdx(e.k) < KeyIdx(x.k)
    \/ (e.k = x.k /\ e.seq > x.seq)
    \/ (e.k = x.k /\ e.seq = x.seq /\ e.vid >= x.vid)     \* only without the memtable reset
RECURSIVE SortedEntries(_)
SortedEntries(S) ==
    IF S = {} THEN <<>>
    ELSE LET m == CHOOSE e \in S : \A x \in S \ {e} : EntryBefore(e, x) IN <<m>> \o SortedEntries(S \ {m})

(* after a manifest change: value-log files below the oldest file any live table points to  *)
(* are deleted (those the process knows of, by name), and index entries pointing into them  *)
VlogCleanup(w) ==
    LET refs == {e.f : e \in {x \in UNION {w.d.sst[t] : t \in LiveTables(w.d.man)} : x.f > 0}}
        minOld == MinOf(refs, 0)
        del == {f \in w.p.vfiles : f < minOld /\ f # w.p.vw.file}
    IN IF minOld = 0 THEN w
       ELSE [w EXCEPT !.p.vfiles = @ \ del,
                      !.p.vh = Restrict(@, DOMAIN @ \ del),
                      !.d.vdir = Restrict(@, DOMAIN @ \ del),
                      !.d.idx = {e \in @ : ~(e.f > 0 /\ e.f < minOld)}]

-----------------------------------------------------------------------------
(* Commit log clean-up tasks spawned by flushes: delete the segments below a number *)
RunGc(w) ==
    IF w.p.gc = {} THEN w
    ELSE LET m == MaxOf(w.p.gc, 0)
         IN [w EXCEPT !.d.wdir = Restrict(@, {s \in DOMAIN @ : s >= m}), !.p.gc = {}]
Drained(w) == IF Drain THEN RunGc(w) ELSE w

-----------------------------------------------------------------------------
(* The operations *)

DoCommit(w, k, kind) ==
    LET p == w.p
        seq == p.visible + 1
        vid == IF kind = "Set" THEN w.g.nvid + 1 ELSE 0
        e == [k |-> k, seq |-> seq, kind |-> kind, vid |-> vid, f |-> 0, off |-> 0]
        gv == [k |-> k, n |-> 1 + MaxOf({v.n : v \in w.g.cur}, 0), kind |-> kind, vid |-> vid]
    IN IF p.oracle[k] > p.visible          \* a newer committed stamp than the transaction's start
       THEN [w EXCEPT !.g.refused = TRUE]
       ELSE [w EXCEPT !.p.mem = @ \cup {e}, !.p.visible = seq, !.p.oracle[k] = seq,
                      !.o[p.ww.obj] = Append(@, e),
                      !.g.cur = @ \cup {gv}, !.g.nvid = IF kind = "Set" THEN @ + 1 ELSE @]

(* rotate_memtable: the active memtable joins the immutable queue with the table id it will be   *)
(* flushed under (taken from the in-memory counter now), the commit log moves to a new segment     *)
DoRotate(w) ==
    IF w.p.mem = {} THEN w
    ELSE LET oldseg == w.p.ww.seg
             wobj == w.n + 1
         IN [w EXCEPT !.o = (wobj :> <<>>) @@ @, !.n = wobj,
                      !.d.wdir = (oldseg + 1 :> wobj) @@ @,
                      !.p.ww = [seg |-> oldseg + 1, obj |-> wobj],
                      !.p.imm = Append(@, [tid |-> w.p.ntid, wal |-> oldseg, ents |-> w.p.mem]),
                      !.p.ntid = @ + 1,
                      !.p.mem = {}]

(* flush_immutable_to_sst: a set of entries becomes level-0 table `tid`; values are separated, the   *)
(* index is fed, the manifest (with the counter's current value) is rewritten with log number       *)
(* walno + 1; spawn: a clean-up of the older commit-log segments is spawned                          *)
FlushEntries(w, ents, tid, walno, spawn) ==
    LET r == Separate([d |-> w.d, o |-> w.o, n |-> w.n, p |-> w.p], SortedEntries(ents), 1, {})
        w1 == [w EXCEPT !.d = r.st.d, !.o = r.st.o, !.n = r.st.n, !.p = r.st.p]
        w2 == [w1 EXCEPT
                !.d.sst = (tid :> r.out) @@ @,
                !.d.idx = IF Index THEN @ \cup r.out ELSE @,
                !.d.man = [@ EXCEPT !.l0 = <<tid>> \o @, !.nextTid = w1.p.ntid, !.logNum = walno + 1,
                                    !.lastSeq = MaxOf({e.seq : e \in ents} \cup {@}, 0)],
                !.p.gc = IF spawn THEN @ \cup {walno + 1} ELSE @]
    IN VlogCleanup(w2)

RECURSIVE FlushAllImm(_, _)
FlushAllImm(w, spawn) ==
    IF w.p.imm = <<>> THEN w
    ELSE LET e == Head(w.p.imm)
         IN FlushAllImm([FlushEntries(w, e.ents, e.tid, e.wal, spawn) EXCEPT !.p.imm = Tail(@)], spawn)

(* Tree::flush, and the first step of create_checkpoint: rotate, then flush every immutable memtable *)
DoFlush(w) == FlushAllImm(DoRotate(w), TRUE)

(* the flush inside close(): the immutable memtables under their ids, then the active one under a   *)
(* new id without rotating the commit log                                                           *)
CloseFlush(w) ==
    LET w1 == FlushAllImm(w, FALSE)
    IN IF w1.p.mem # {}
       THEN [FlushEntries([w1 EXCEPT !.p.ntid = @ + 1], w1.p.mem, w1.p.ntid, w1.p.ww.seg, FALSE) EXCEPT !.p.mem = {}]
       ELSE IF w.p.imm # <<>> THEN [w1 EXCEPT !.d.man.logNum = w1.p.ww.seg + 1, !.d.man.nextTid = w1.p.ntid]
       ELSE w1

(* What a compaction into the last level keeps of the versions of one key, no snapshot being open  *)
(* (src/iter.rs CompactionIterator, the rule of spec/retention/Retention.tla for snaps = {}, bottom, *)
(* unlimited retention): a key whose newest version is a delete disappears; otherwise the newest    *)
(* version stays, and with versioning every version does                                            *)
CompactKey(vs) ==
    IF vs = {} THEN {}
    ELSE LET top == NewestE(vs)
         IN IF top.kind = "Del" THEN {} ELSE IF Versioning THEN vs ELSE {top}

(* level 0 -> level 1 (the last level): everything takes part (tiny key space); inputs are read *)
(* through the block cache and stay in it                                                      *)
DoCompact(w) ==
    LET man == w.d.man
        inputs == LiveTables(man)
        all == UNION {BlockView(w, t) : t \in inputs}
        out == UNION {CompactKey(Dedup(OfKey(all, k))) : k \in {e.k : e \in all}}
        tid == w.p.ntid
        w1 == [w EXCEPT
                !.p.ntid = tid + 1,
                !.p.bcache = [t \in DOMAIN @ \cup inputs |-> BlockView(w, t)],
                !.d.sst = IF out = {} THEN Restrict(@, DOMAIN @ \ inputs)
                          ELSE (tid :> out) @@ Restrict(@, DOMAIN @ \ inputs),
                !.d.man = [@ EXCEPT !.l0 = <<>>, !.l1 = IF out = {} THEN {} ELSE {tid}, !.nextTid = tid + 1]]
    IN VlogCleanup(w1)

(* create_checkpoint: flush everything, link the tables, copy manifest and value log, empty wal/ *)
DoCheckpoint(w, c) ==
    LET w1 == DoFlush(w)
        dir == [sst |-> Restrict(w1.d.sst, LiveTables(w1.d.man)),
                man |-> w1.d.man,
                vfiles |-> [f \in DOMAIN w1.d.vdir |-> w1.o[w1.d.vdir[f]]],    \* copies, by content
                wdir |-> <<>>,
                idx |-> IF "index" \in Resets THEN w1.d.idx ELSE {}]           \* not checkpointed
    IN [w1 EXCEPT !.c = (c :> dir) @@ @, !.g.ck = (c :> w1.g.cur) @@ @]

(* a fresh process on a directory: what Core::new sets up (value log part) *)
FreshVlog(vdir) ==
    LET top == MaxOf(DOMAIN vdir, 0)
    IN [vw |-> IF top = 0 THEN NoW ELSE [file |-> top, obj |-> vdir[top]],
        vnext |-> top + 1, vh |-> vdir, vfiles |-> DOMAIN vdir]

RECURSIVE Materialize(_, _, _, _, _)
(* copy files given by content into new objects: returns [dir, o, n] *)
Materialize(files, todo, dir, o, n) ==
    IF todo = {} THEN [dir |-> dir, o |-> o, n |-> n]
    ELSE LET f == MinOf(todo, 0)
         IN Materialize(files, todo \ {f}, (f :> n + 1) @@ dir, (n + 1 :> files[f]) @@ o, n + 1)

(* Wal::open_with_min_log_number: continue the highest segment, or create segment `logNum` *)
OpenWal(wdir, o, n, logNum) ==
    LET top == MaxOf(DOMAIN wdir \cup {logNum}, logNum)
    IN IF top \in DOMAIN wdir THEN [wdir |-> wdir, o |-> o, n |-> n, ww |-> [seg |-> top, obj |-> wdir[top]]]
       ELSE [wdir |-> (top :> n + 1) @@ wdir, o |-> (n + 1 :> <<>>) @@ o, n |-> n + 1,
             ww |-> [seg |-> top, obj |-> n + 1]]

(* commit-log segments a (re)open or a restore replays: those from the manifest's log number on    *)
(* that hold something; one memtable per segment, all but the last are flushed to tables at once   *)
(* (Core::replay_wal_with_repair), the last becomes the active memtable                             *)
DataSegs(w) == {s \in DOMAIN w.d.wdir : s >= w.d.man.logNum /\ w.o[w.d.wdir[s]] # <<>>}
RECURSIVE RecoverSegs(_, _)
RecoverSegs(w, segs) ==
    IF segs = {} THEN w
    ELSE LET s == MinOf(segs, 0)
             ents == Range(w.o[w.d.wdir[s]])
         IN IF segs = {s} THEN [w EXCEPT !.p.mem = ents]
            ELSE RecoverSegs(FlushEntries([w EXCEPT !.p.ntid = @ + 1], ents, w.p.ntid, s, FALSE), segs \ {s})
Recovered(w) ==
    LET segs == DataSegs(w)
        w1 == RecoverSegs(w, segs)
        maxSeq == MaxOf({e.seq : e \in UNION {Range(w.o[w.d.wdir[s]]) : s \in segs}} \cup {w1.d.man.lastSeq}, 0)
    IN [w1 EXCEPT !.p.visible = IF maxSeq > 0 THEN maxSeq ELSE @]       \* set_seq_num ignores 0

(* Tree::restore_from_checkpoint *)
DoRestore(w, c) ==
    LET ck == w.c[c]
        (* files: sstables/ and wal/ are hard links into the checkpoint, manifest/ and vlog/ are copies *)
        vm == IF Vlog THEN Materialize(ck.vfiles, DOMAIN ck.vfiles, <<>>, w.o, w.n)
              ELSE [dir |-> w.d.vdir, o |-> w.o, n |-> w.n]
        wm == IF "walcopy" \in Resets
              THEN Materialize([s \in DOMAIN ck.wdir |-> vm.o[ck.wdir[s]]], DOMAIN ck.wdir, <<>>, vm.o, vm.n)
              ELSE [dir |-> ck.wdir, o |-> vm.o, n |-> vm.n]
        wl == OpenWal(wm.dir, wm.o, wm.n, ck.man.logNum)
        fv == FreshVlog(vm.dir)
        p == w.p
        w1 == [w EXCEPT
                !.d = [sst |-> ck.sst, man |-> ck.man, vdir |-> vm.dir, wdir |-> wl.wdir,
                       idx |-> IF "index" \in Resets THEN ck.idx ELSE w.d.idx],
                !.o = wl.o, !.n = wl.n,
                !.p = [mem |-> IF "memtable" \in Resets THEN {} ELSE p.mem,
                       imm |-> IF "memtable" \in Resets THEN <<>> ELSE p.imm,
                       ntid |-> ck.man.nextTid,                              \* the manifest is reloaded
                       visible |-> p.visible,
                       oracle |-> IF "oracle" \in Resets THEN [k \in Keys |-> 0] ELSE p.oracle,
                       bcache |-> IF "cache" \in Resets THEN <<>> ELSE p.bcache,
                       vcache |-> IF "cache" \in Resets THEN <<>> ELSE p.vcache,
                       vw |-> IF "vlog" \in Resets THEN fv.vw ELSE p.vw,
                       vnext |-> IF "vlog" \in Resets THEN fv.vnext ELSE p.vnext,
                       vh |-> IF "vlog" \in Resets THEN fv.vh ELSE p.vh,
                       vfiles |-> IF "vlog" \in Resets THEN fv.vfiles ELSE p.vfiles,
                       ww |-> wl.ww,
                       gc |-> IF "walgc" \in Resets THEN {} ELSE p.gc],
                !.g.cur = w.g.ck[c]]
    IN Recovered(w1)

(* what a new process sets up on a directory before it replays the commit log *)
FreshProc(man, vdir, ww) ==
    LET fv == FreshVlog(vdir)
    IN [mem |-> {}, imm |-> <<>>, ntid |-> man.nextTid, visible |-> 0, oracle |-> [k \in Keys |-> 0],
        bcache |-> <<>>, vcache |-> <<>>, vw |-> fv.vw, vnext |-> fv.vnext, vh |-> fv.vh, vfiles |-> fv.vfiles,
        ww |-> ww, gc |-> {}]

(* close() then open in a new process *)
DoReopen(w) ==
    LET w0 == RunGc(w)                                             \* close() lets the spawned tasks run
        w1 == IF FlushOnClose THEN CloseFlush(w0) ELSE w0
        man == w1.d.man
        wdir1 == Restrict(w1.d.wdir, {s \in DOMAIN w1.d.wdir : s >= man.logNum})    \* clean-up in close()
        wl == OpenWal(wdir1, w1.o, w1.n, man.logNum)
        w2 == Recovered([w1 EXCEPT !.d.wdir = wl.wdir, !.o = wl.o, !.n = wl.n,
                                   !.p = FreshProc(man, w1.d.vdir, wl.ww)])
        w3 == [w2 EXCEPT !.d.sst = Restrict(@, LiveTables(w2.d.man))]               \* orphaned table files
    IN VlogCleanup(w3)

(* reads of the live store fill the caches: all blocks of the live tables, the values of the *)
(* entries shown (all versions when history is read), the handles of the files touched      *)
DoProbe(w) ==
    LET shown == IF Versioning THEN HistSource(w) \cup Visible(w)
                 ELSE {e \in Visible(w) : e = NewestE(OfKey(Visible(w), e.k))}
        ptrs == {e \in shown : e.f > 0 /\ e.kind = "Set" /\ Resolve(w, e) # ErrV}
        files == {e.f : e \in ptrs}
    IN [w EXCEPT
        !.p.bcache = [t \in DOMAIN @ \cup LiveTables(w.d.man) |-> BlockView(w, t)],
        !.p.vcache = [x \in DOMAIN @ \cup {<<e.f, e.off>> : e \in ptrs} |->
                        IF x \in DOMAIN @ THEN @[x]
                        ELSE Resolve(w, CHOOSE e \in ptrs : <<e.f, e.off>> = x)],
        !.p.vh = [f \in DOMAIN @ \cup files |->
                        IF f \in DOMAIN @ THEN @[f]
                        ELSE IF f \in DOMAIN w.d.vdir THEN w.d.vdir[f] ELSE 0]]

(* the checkpoint directory opened as a database by a fresh process, read, closed:            *)
(* the only lasting effect modelled is the commit-log segment the open creates in it          *)
CkWorld(w, c) ==
    LET ck == w.c[c]
        vm == Materialize(ck.vfiles, DOMAIN ck.vfiles, <<>>, w.o, w.n)
        wl == OpenWal(ck.wdir, vm.o, vm.n, ck.man.logNum)
    IN Recovered([d |-> [sst |-> ck.sst, man |-> ck.man, vdir |-> vm.dir, wdir |-> wl.wdir, idx |-> ck.idx],
                  o |-> wl.o, n |-> wl.n, c |-> w.c,
                  p |-> FreshProc(ck.man, vm.dir, wl.ww),
                  g |-> w.g])
DoOpenCkpt(w, c) ==
    LET wl == OpenWal(w.c[c].wdir, w.o, w.n, w.c[c].man.logNum)
    IN [w EXCEPT !.c[c].wdir = wl.wdir, !.o = wl.o, !.n = wl.n]

-----------------------------------------------------------------------------
Init ==
    /\ disk = [sst |-> <<>>, man |-> EmptyMan, vdir |-> <<>>, wdir |-> (0 :> 1), idx |-> {}]
    /\ obj = (1 :> <<>>)
    /\ nobj = 1
    /\ ckpt = <<>>
    /\ proc = [mem |-> {}, imm |-> <<>>, ntid |-> 1, visible |-> 0, oracle |-> [k \in Keys |-> 0],
               bcache |-> <<>>, vcache |-> <<>>, vw |-> NoW, vnext |-> 1, vh |-> <<>>, vfiles |-> {},
               ww |-> [seg |-> 0, obj |-> 1], gc |-> {}]
    /\ ghost = [cur |-> {}, ck |-> <<>>, nvid |-> 0, refused |-> FALSE]

Commit(k, kind) == ~ghost.refused /\ Become(Drained(DoCommit(World, k, kind)))
Rotate == proc.mem # {} /\ Become(DoRotate(World))
Flush == (proc.mem # {} \/ proc.imm # <<>>) /\ Become(Drained(DoFlush(World)))
Compact == disk.man.l0 # <<>> /\ Become(Drained(DoCompact(World)))
Checkpoint(c) == c \notin DOMAIN ckpt /\ Become(Drained(DoCheckpoint(World, c)))
Restore(c) == c \in DOMAIN ckpt /\ Become(Drained(DoRestore(World, c)))
Reopen == Become(DoReopen(World))
Probe == Become(DoProbe(World))
OpenCkpt(c) == c \in DOMAIN ckpt /\ Become(DoOpenCkpt(World, c))

Next ==
    \/ \E k \in Keys, kind \in CommitKinds : Commit(k, kind)
    \/ Rotate \/ Flush \/ Compact \/ Reopen \/ Probe
    \/ \E c \in Ckpts : Checkpoint(c) \/ Restore(c) \/ OpenCkpt(c)

Spec == Init /\ [][Next]_vars

-----------------------------------------------------------------------------
(* The property *)

ReadsMatch(w, S) ==
    \A k \in Keys :
        /\ ReadNow(w, k) = LatestOf(S, k)
        /\ Versioning => /\ HistMust(S, k) \subseteq HistNow(w, k)
                         /\ HistNow(w, k) \subseteq HistMay(S, k)

RestoreExact == ReadsMatch(World, ghost.cur)

CkptContent == \A c \in DOMAIN ckpt : ReadsMatch(CkWorld(World, c), ghost.ck[c])

NoDiscardedTimeline ==
    \A k \in Keys :
        /\ ReadNow(World, k) \notin Dead(ghost)
        /\ Versioning => HistNow(World, k) \cap Dead(ghost) = {}

PostRestoreDurable == ReadsMatch(DoReopen(World), ghost.cur)

CommitsAccepted == ~ghost.refused

TypeOK ==
    /\ DOMAIN ckpt \subseteq Ckpts
    /\ DOMAIN ghost.ck = DOMAIN ckpt
    /\ proc.visible \in Nat /\ nobj \in Nat
    /\ DOMAIN obj = 1..nobj
    /\ LiveTables(disk.man) \subseteq DOMAIN disk.sst
=============================================================================
