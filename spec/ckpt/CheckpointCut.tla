--------------------------- MODULE CheckpointCut ----------------------------
(***************************************************************************)
(* create_checkpoint() next to a background compaction                      *)
(* (src/checkpoint.rs create_checkpoint: copy_sstables, copy_level_manifest; *)
(* src/compaction/compactor.rs: write output, install under the manifest's   *)
(* write lock, delete the inputs).                                           *)
(*                                                                         *)
(* CutRule = "steps"    pinned commit: every copy takes the manifest's read  *)
(*                      lock for itself                                      *)
(*         = "one_lock" repository (823910f): the copies are one cut under   *)
(*                      one acquisition of the read lock                     *)
(*                                                                         *)
(* The checkpoint must open: every table its manifest names is in it.        *)
(***************************************************************************)
EXTENDS Naturals, FiniteSets

CONSTANTS MaxCompactions, CutRule

VARIABLES
    tables,    \* ids the live manifest names
    files,     \* table files in the live directory
    nextId,
    kpc, kin, kout, ncomp,     \* compaction: "idle" | "written" | "installed"
    cpc,       \* checkpoint: "idle" | "tables" | "done"
    ctabs,     \* table files linked into the checkpoint
    cman,      \* what the checkpoint's copy of the manifest names
    rlock      \* the checkpoint holds the manifest's read lock

vars == <<tables, files, nextId, kpc, kin, kout, ncomp, cpc, ctabs, cman, rlock>>

Init ==
    /\ tables = {1, 2} /\ files = {1, 2} /\ nextId = 3
    /\ kpc = "idle" /\ kin = {} /\ kout = 0 /\ ncomp = 0
    /\ cpc = "idle" /\ ctabs = {} /\ cman = {} /\ rlock = FALSE

KWrite ==
    /\ kpc = "idle" /\ ncomp < MaxCompactions /\ Cardinality(tables) >= 1
    /\ kin' = tables /\ kout' = nextId /\ nextId' = nextId + 1 /\ files' = files \cup {nextId}
    /\ kpc' = "written" /\ ncomp' = ncomp + 1
    /\ UNCHANGED <<tables, cpc, ctabs, cman, rlock>>

\* needs the write lock: not while a reader holds the lock
KInstall ==
    /\ kpc = "written" /\ ~rlock
    /\ tables' = (tables \ kin) \cup {kout} /\ kpc' = "installed"
    /\ UNCHANGED <<files, nextId, kin, kout, ncomp, cpc, ctabs, cman, rlock>>

KDelete ==
    /\ kpc = "installed"
    /\ files' = files \ kin /\ kpc' = "idle" /\ kin' = {} /\ kout' = 0
    /\ UNCHANGED <<tables, nextId, ncomp, cpc, ctabs, cman, rlock>>

\* copy_sstables: hard links of the tables the manifest names (under the read lock)
CTables ==
    /\ cpc = "idle"
    /\ ctabs' = tables \cap files /\ cpc' = "tables"
    /\ rlock' = (CutRule = "one_lock")          \* "steps": the lock is given back after this copy
    /\ UNCHANGED <<tables, files, nextId, kpc, kin, kout, ncomp, cman>>

\* copy_level_manifest
CManifest ==
    /\ cpc = "tables"
    /\ cman' = tables /\ cpc' = "done" /\ rlock' = FALSE
    /\ UNCHANGED <<tables, files, nextId, kpc, kin, kout, ncomp, ctabs>>

Next == KWrite \/ KInstall \/ KDelete \/ CTables \/ CManifest
Spec == Init /\ [][Next]_vars

CheckpointOpens == cpc = "done" => cman \subseteq ctabs
\* the live store never names a table whose file is gone
LiveOpens == tables \subseteq files
=============================================================================
