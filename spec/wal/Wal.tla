-------------------------------- MODULE Wal --------------------------------
(***************************************************************************)
(* The surrealkv commit log (src/wal/{writer,reader,manager,recovery}.rs   *)
(* and the recovery driver in src/lsm.rs), one segment.                    *)
(*                                                                         *)
(* Implementation shaped.  A segment file is a sequence of *cells* (one    *)
(* per byte) that remember which physical fragment wrote them and in which *)
(* role (crc / length / type / data / padding).  The writer                *)
(* (`Writer::add_record`, `maybe_switch_to_new_block`,                     *)
(* `emit_physical_record`), the reader (`Reader::next`), the opening of a  *)
(* writer on an existing file (`Wal::create_writer`,                       *)
(* `detect_compression_type`), the repair                                  *)
(* (`repair_corrupted_wal_segment`: copy what the reader returns into a    *)
(* new file, rename it over the path) and the recovery driver              *)
(* (`CoreInner::new` opens the writer, then `replay_wal_with_repair`) are  *)
(* transcribed branch by branch, parametric in the block size B.           *)
(*                                                                         *)
(* Files are objects: `objs[id]` is content, `dir` is the object the       *)
(* segment path names (0 = no such file); the writer holds an *object*,    *)
(* not a path, because repair renames a new file over the path while an    *)
(* already opened writer keeps its descriptor.                             *)
(*                                                                         *)
(* `Quirks` names four places where the code *used to* differ from what    *)
(* the property needs.  All four have been repaired in surrealkv (fix:     *)
(* commits, see NOTES.md 5), so the model of the code as it is has         *)
(* Quirks = {}; switching a quirk on gives the pinned old behaviour, used   *)
(* by the "teeth" run of the check (its counterexamples must exist in the  *)
(* model and must not reproduce on the code):                              *)
(*   MetaBeforeCrc   Reader::next acts on the types Empty(0) and           *)
(*                   SetCompressionType(9) before any checksum is checked  *)
(*   TornTailAppend  create_writer continues at size % B whatever the tail *)
(*                   of the file looks like                                *)
(*   WriterFirst     the writer is opened (and the compression type        *)
(*                   sniffed) before replay / repair and never reopened    *)
(*   RepairTempReuse repair writes into wal/repair_temp/0.wal with         *)
(*                   Wal::open, which *continues* a file an interrupted    *)
(*                   earlier repair left there                             *)
(*                                                                         *)
(* Ghost state (`app`, `dmg`, the three read results) states property C12  *)
(* without reference to the representation.                                *)
(***************************************************************************)
EXTENDS Naturals, Sequences, FiniteSets, TLC

CONSTANTS
    B,          \* block size (code: 32768)
    Lens,       \* lengths of framed records offered to Append
    Classes,    \* payload byte classes: "gen" (no byte is 0 or 1), "zero" (all 0), "one" (first byte 1)
    Comps,      \* compression settings of the segment: "none", "lz4"
    MaxRecs,    \* records appended before the damage
    MaxSess,    \* writer sessions (close / reopen) before the damage
    PostLens,   \* lengths of the record appended after recovery
    Orders,     \* "open_first" (what CoreInner::new does) / "replay_first"
    Modes,      \* "tol" (TolerateCorruptedWithRepair) / "abs" (AbsoluteConsistency)
    Lefts,      \* how many records an interrupted earlier repair may have left in repair_temp (0 = none)
    Quirks,
    Known       \* classes of violations that are recorded findings (excused in the invariants)

H == 7                       \* HEADER_SIZE: crc(4) len(2) type(1)

\* RecordType as u8
TEmpty == 0  TFull == 1  TFirst == 2  TMiddle == 3  TLast == 4  TSetComp == 9
TInvalid == 5                \* stands for every byte that RecordType::from_u8 rejects
ValidTypes == {TEmpty, TFull, TFirst, TMiddle, TLast, TSetComp}

Min(a, b) == IF a < b THEN a ELSE b

-----------------------------------------------------------------------------
(* Cells.  f = physical fragment that wrote the byte (0 = padding),         *)
(* role in {"c","l","t","d","p"}, i = index inside the role (data: index   *)
(* inside the logical record, 0-based), r = logical record (0 = metadata), *)
(* v = content: crc cells carry the fragment's data length (what the       *)
(* checksum covers), length cells the length, the type cell the type,      *)
(* data cells a byte class (0, 1, 2 = any other byte), cz = 1 iff the byte *)
(* belongs to an LZ4 frame, ok = FALSE once the byte has been damaged.     *)
Cell(f, role, i, r, v, cz) ==
    [f |-> f, role |-> role, i |-> i, r |-> r, v |-> v, cz |-> cz, ok |-> TRUE]

Hdr(f, r, n, t) ==
    << Cell(f, "c", 1, r, n, 0), Cell(f, "c", 2, r, n, 0), Cell(f, "c", 3, r, n, 0),
       Cell(f, "c", 4, r, n, 0), Cell(f, "l", 1, r, n, 0), Cell(f, "l", 2, r, n, 0),
       Cell(f, "t", 1, r, t, 0) >>

ByteOf(cls, i) == IF cls = "zero" THEN 0 ELSE IF cls = "one" /\ i = 0 THEN 1 ELSE 2

Data(f, r, from, cnt, cls, cz) ==
    IF cnt = 0 THEN <<>>
    ELSE [j \in 1..cnt |-> Cell(f, "d", from + j - 1, r, ByteOf(cls, from + j - 1), cz)]

Pad(k) == IF k = 0 THEN <<>> ELSE [j \in 1..k |-> Cell(0, "p", j, 0, 0, 0)]

(* The SetCompressionType record a new LZ4 segment starts with.             *)
SetCompRec == Hdr(1, 0, 1, TSetComp) \o << Cell(1, "d", 0, 0, 1, 0) >>

-----------------------------------------------------------------------------
(* Writer::add_record for the framed bytes of logical record r (n bytes).   *)
RECURSIVE Emit(_, _, _, _, _, _, _, _, _)
Emit(file, boff, r, n, cls, cz, done, begin, fid) ==
    LET room == B - boff IN
    IF room < H
    THEN Emit(file \o Pad(room), 0, r, n, cls, cz, done, begin, fid)    \* maybe_switch_to_new_block
    ELSE LET avail == B - boff - H
             rest  == n - done
             fl    == Min(rest, avail)
             isEnd == (fl = rest)
             t     == IF begin /\ isEnd THEN TFull ELSE IF begin THEN TFirst
                      ELSE IF isEnd THEN TLast ELSE TMiddle
             f2    == file \o Hdr(fid, r, fl, t) \o Data(fid, r, done, fl, cls, cz)
         IN IF isEnd THEN [file |-> f2, boff |-> boff + H + fl, nfid |-> fid + 1]
            ELSE Emit(f2, boff + H + fl, r, n, cls, cz, done + fl, FALSE, fid + 1)

AddRecord(file, boff, r, n, cls, cz, fid) == Emit(file, boff, r, n, cls, cz, 0, TRUE, fid)

-----------------------------------------------------------------------------
(* Reader::next / Reader::read.                                             *)
(* The 7 bytes after offset a are one fragment's header.  Headers are       *)
(* written in one piece and a file only ever loses a tail, so it is enough  *)
(* to look at the first and the last byte (invariant HeadersWhole below).   *)
WellFormed(F, a) ==
    /\ F[a + 1].role = "c" /\ F[a + 1].i = 1
    /\ F[a + 7].role = "t" /\ F[a + 7].f = F[a + 1].f

ParsedLen(F, a) == IF ~F[a + 5].ok THEN F[a + 5].v ELSE F[a + 6].v

(* calculate_crc32(type, data[0..n]) = stored crc: nothing the checksum     *)
(* covers, nor the checksum, has changed, and it covers what it covered.    *)
CrcOk(F, a, n) ==
    LET f == F[a + 1].f IN
    /\ \A j \in 1..4 : F[a + j].ok
    /\ F[a + 7].ok
    /\ n = F[a + 1].v
    /\ \A j \in 1..n : LET c == F[a + H + j] IN c.role = "d" /\ c.f = f /\ c.ok

IsZeroByte(c) == c.role \in {"d", "p"} /\ c.v = 0

(* What the caller is handed for the gathered bytes `acc` under the reader's *)
(* compression state: the id of a logical record when the bytes are exactly *)
(* that record's, 0 when they are anything else (garbage); err when LZ4     *)
(* decompression fails.  `all` lists the logical records by id.             *)
Whole(acc, all) ==
    /\ acc # <<>>
    /\ LET r == acc[1].r IN
       /\ r \in DOMAIN all
       /\ Len(acc) = all[r].n
       /\ \A j \in 1..Len(acc) : acc[j].r = r /\ acc[j].i = j - 1 /\ acc[j].ok

Emitted(acc, comp, all) ==      \* <<>> (error) or << [id, n] >>
    IF Whole(acc, all)
    THEN IF acc[1].cz = 1
         THEN << [id |-> IF comp = "lz4" THEN acc[1].r ELSE 0, n |-> Len(acc)] >>
         ELSE IF comp = "lz4" THEN <<>> ELSE << [id |-> acc[1].r, n |-> Len(acc)] >>
    ELSE IF comp = "lz4" THEN <<>> ELSE << [id |-> 0, n |-> Len(acc)] >>

RECURSIVE Rd(_, _, _, _, _, _, _, _)
Rd(F, all, a, fi, acc, comp, out, vend) ==
    LET L    == Len(F)
        be   == IF a >= L THEN a ELSE Min((a \div B + 1) * B, L)   \* end of the buffered block
        rem  == be - a
        Res(e) == [recs |-> out, end |-> e, vend |-> vend, comp |-> comp]
    IN
    IF rem < H
    THEN LET nb == (a \div B + 1) * B IN                              \* read_more
         IF a >= L \/ nb >= L THEN Res("Eof")
         ELSE Rd(F, all, nb, fi, acc, comp, out, vend)
    ELSE IF ~WellFormed(F, a) THEN
        \* Bytes that are no header (behind a torn tail): some check fails - unless the byte in
        \* the type position is 0 (padding written by the next append): that reads as Empty.
        IF "MetaBeforeCrc" \in Quirks /\ \A p \in (a + H)..be : IsZeroByte(F[p])
        THEN Rd(F, all, be, fi, acc, comp, out, vend)
        ELSE Res("Corrupt")
    ELSE
      LET t    == F[a + 7].v
          n    == ParsedLen(F, a)
          a2   == a + H
          rem2 == be - a2
      IN
      IF t \notin ValidTypes THEN Res("Corrupt")                      \* RecordType::from_u8
      ELSE IF t = TEmpty THEN
          IF "MetaBeforeCrc" \in Quirks /\ \A p \in (a2 + 1)..be : IsZeroByte(F[p])
          THEN Rd(F, all, be, fi, acc, comp, out, vend)               \* "padded block": skip it
          ELSE Res("Corrupt")
      ELSE IF t = TSetComp THEN
          IF n > rem2 THEN Res("Corrupt")
          ELSE IF "MetaBeforeCrc" \notin Quirks /\ ~CrcOk(F, a, n) THEN Res("Corrupt")
          ELSE IF n = 0 THEN Rd(F, all, a2, fi, acc, comp, out, IF fi = 0 THEN a2 ELSE vend)
          ELSE LET c == F[a2 + 1] IN
               IF c.role # "d" \/ c.v \notin {0, 1} THEN Res("Corrupt")   \* CompressionType::from_u8
               ELSE Rd(F, all, a2 + n, fi, acc, IF c.v = 1 THEN "lz4" ELSE "none", out,
                       IF fi = 0 THEN a2 + n ELSE vend)
      ELSE IF (t \in {TFull, TFirst} /\ fi # 0) \/ (t \in {TMiddle, TLast} /\ fi = 0)
           THEN Res("Corrupt")                                        \* validate_record_type
      ELSE IF n > rem2 THEN Res("Corrupt")                            \* exceeds block boundary
      ELSE IF ~CrcOk(F, a, n) THEN Res("Corrupt")                     \* checksum mismatch
      ELSE LET acc2 == acc \o SubSeq(F, a2 + 1, a2 + n) IN
           IF t \in {TLast, TFull}
           THEN LET e == Emitted(acc2, comp, all) IN                  \* e = <<>>: LZ4 decompression failed
                IF e = <<>> THEN Res("Corrupt")
                ELSE Rd(F, all, a2 + n, 0, <<>>, comp, out \o e, a2 + n)
           ELSE Rd(F, all, a2 + n, fi + 1, acc2, comp, out, vend)

Read(F, all) == Rd(F, all, 0, 0, <<>>, "none", <<>>, 0)
NoRead == [recs |-> <<>>, end |-> "None", vend |-> 0, comp |-> "none"]
Ids(rd) == [j \in 1..Len(rd.recs) |-> rd.recs[j].id]

-----------------------------------------------------------------------------
(* Wal::create_writer on the segment path.                                  *)
DetectComp(F) ==               \* detect_compression_type: "none" | "lz4" | "err"
    IF Len(F) < H THEN "none"
    ELSE LET t == F[7].v IN
         IF t \notin ValidTypes THEN "err"
         ELSE IF t = TSetComp /\ ParsedLen(F, 0) >= 1
              THEN IF Len(F) < H + 1 THEN "err"
                   ELSE IF F[H + 1].v = 0 THEN "none" ELSE IF F[H + 1].v = 1 THEN "lz4" ELSE "err"
              ELSE "none"

OpenWriter(F, optc, all) ==    \* [ok, file, boff, comp]
    IF Len(F) = 0
    THEN LET f0 == IF optc = "lz4" THEN SetCompRec ELSE <<>> IN
         [ok |-> TRUE, file |-> f0, boff |-> Len(f0), comp |-> optc]
    ELSE LET dc == DetectComp(F) IN
         IF dc = "err" THEN [ok |-> FALSE, file |-> F, boff |-> 0, comp |-> "none"]
         ELSE IF "TornTailAppend" \in Quirks
              THEN [ok |-> TRUE, file |-> F, boff |-> Len(F) % B, comp |-> dc]
              ELSE \* repaired code: continue after the last complete record
                   LET rd == Read(F, all)
                       F2 == IF rd.end = "Eof" THEN SubSeq(F, 1, rd.vend) ELSE F
                   IN [ok |-> TRUE, file |-> F2, boff |-> Len(F2) % B, comp |-> dc]

(* repair_corrupted_wal_segment: a fresh uncompressed Wal in repair_temp     *)
(* receives every record the reader returns; no record => the segment is    *)
(* deleted, else the new file is renamed over the path.                     *)
RECURSIVE Copy(_, _, _, _, _)
Copy(recs, k, file, boff, fid) ==
    IF k > Len(recs) THEN file
    ELSE LET e == recs[k]
             w == AddRecord(file, boff, e.id, e.n, e.cls, 0, fid)
         IN Copy(recs, k + 1, w.file, w.boff, w.nfid)

RepairedFile(rd, all) ==
    Copy([j \in 1..Len(rd.recs) |->
            [id |-> rd.recs[j].id, n |-> rd.recs[j].n,
             cls |-> IF rd.recs[j].id \in DOMAIN all THEN all[rd.recs[j].id].cls ELSE "gen"]],
         1, <<>>, 0, 1)

-----------------------------------------------------------------------------
VARIABLES
    objs,      \* file objects: sequence of cell sequences
    dir,       \* object named by the segment path (0 = the file does not exist)
    w,         \* the writer: [open, obj, boff, comp]
    optc,      \* compression option of this log
    nfid,      \* next fragment id
    phase,     \* "write" -> "damaged" -> "recovered" | "failed" -> "done"
    fresh,     \* the writer has just been (re)opened
    nsess,
    \* ghosts
    app,       \* records appended before the damage: [n, cls, sess, endoff]
    post,      \* records appended after recovery
    dmg,       \* the damage: [kind, pos, val] and the cell it hit first [role, f, r, i]
    order, mode,
    dlen,      \* length of the damaged file
    r1, r2, r3,\* read of the damaged file / after repair / after the later appends
    left,      \* records found in repair_temp when this repair started
    fail,      \* "" = the open succeeded; else the step that refused: "wal_open" | "abs" | "still_corrupt"
    repaired

vars == <<objs, dir, w, optc, nfid, phase, fresh, nsess, app, post, dmg, order, mode, dlen,
          r1, r2, r3, left, fail, repaired>>

All == app \o post
CurFile == IF dir = 0 THEN <<>> ELSE objs[dir]
NoDmg == [kind |-> "none", pos |-> 0, val |-> 0, role |-> "", f |-> 0, r |-> 0, i |-> 0]

Init ==
    /\ optc \in Comps
    /\ LET o == OpenWriter(<<>>, optc, <<>>) IN
       /\ objs = << o.file >>
       /\ w = [open |-> TRUE, obj |-> 1, boff |-> o.boff, comp |-> o.comp]
    /\ dir = 1 /\ nfid = 2 /\ phase = "write" /\ fresh = TRUE /\ nsess = 1
    /\ app = <<>> /\ post = <<>> /\ dmg = NoDmg /\ order = "" /\ mode = "" /\ dlen = 0
    /\ r1 = NoRead /\ r2 = NoRead /\ r3 = NoRead /\ left = 0 /\ fail = "" /\ repaired = FALSE

(* Wal::append of one record whose framed form has n bytes.  Under LZ4 the  *)
(* framed form is the LZ4 frame (size prefix + block): at least 6 bytes and *)
(* never starting with 0 or 1 in the bound model.                           *)
AppendRec(n, cls) ==
    /\ phase = "write" /\ Len(app) < MaxRecs /\ n > 0
    /\ w.comp = "lz4" => (n >= 6 /\ cls = "gen")
    /\ \E a \in {AddRecord(objs[w.obj], w.boff, Len(app) + 1, n, cls, IF w.comp = "lz4" THEN 1 ELSE 0, nfid)} :
          /\ objs' = [objs EXCEPT ![w.obj] = a.file]
          /\ w' = [w EXCEPT !.boff = a.boff]
          /\ nfid' = a.nfid
          /\ app' = Append(app, [n |-> n, cls |-> cls, sess |-> nsess, endoff |-> Len(a.file)])
    /\ fresh' = FALSE
    /\ UNCHANGED <<dir, optc, phase, nsess, post, dmg, order, mode, dlen, r1, r2, r3, left, fail, repaired>>

(* Wal::append(&[]) is refused ("buf is empty"): nothing changes.           *)
AppendEmpty == phase = "write" /\ UNCHANGED vars

(* Wal::close, Wal::open: block_offset and compression re-derived.          *)
Reopen ==
    /\ phase = "write" /\ ~fresh /\ nsess < MaxSess
    /\ \E o \in {OpenWriter(objs[dir], optc, app)} :
       /\ o.ok
       /\ objs' = [objs EXCEPT ![dir] = o.file]
       /\ w' = [open |-> TRUE, obj |-> dir, boff |-> o.boff, comp |-> o.comp]
    /\ fresh' = TRUE /\ nsess' = nsess + 1
    /\ UNCHANGED <<dir, optc, nfid, phase, app, post, dmg, order, mode, dlen, r1, r2, r3, left, fail, repaired>>

(* The damage: the process is gone (writer closed); the file is cut at t or *)
(* one byte at position p (1-based) changes its value.                      *)
Describe(kind, pos, val, c) ==
    [kind |-> kind, pos |-> pos, val |-> val, role |-> c.role, f |-> c.f, r |-> c.r, i |-> c.i]

DamageNone ==
    /\ phase = "write" /\ app # <<>>
    /\ phase' = "damaged" /\ dmg' = NoDmg /\ w' = [w EXCEPT !.open = FALSE]
    /\ UNCHANGED <<objs, dir, optc, nfid, fresh, nsess, app, post, order, mode, dlen, r1, r2, r3, left, fail, repaired>>

Truncate(t) ==
    /\ phase = "write" /\ app # <<>>
    /\ t \in 0..(Len(objs[dir]) - 1)
    /\ objs' = [objs EXCEPT ![dir] = SubSeq(objs[dir], 1, t)]
    /\ dmg' = Describe("trunc", t, 0, objs[dir][t + 1])
    /\ phase' = "damaged" /\ w' = [w EXCEPT !.open = FALSE]
    /\ UNCHANGED <<dir, optc, nfid, fresh, nsess, app, post, order, mode, dlen, r1, r2, r3, left, fail, repaired>>

(* Values a damaged byte can take, by role (classes of byte values that the *)
(* code distinguishes).                                                     *)
DamageVals(c) ==
    CASE c.role = "c" -> {0}
      [] c.role = "l" -> IF c.i = 1 THEN {c.v + 256} ELSE ({c.v + 1} \cup IF c.v > 0 THEN {c.v - 1} ELSE {})
      [] c.role = "t" -> (ValidTypes \cup {TInvalid}) \ {c.v}
      [] c.role = "d" -> IF c.r = 0 THEN {0, 2} ELSE IF c.v = 0 THEN {2} ELSE {0}
      [] c.role = "p" -> {2}

Corrupt(p, val) ==
    /\ phase = "write" /\ app # <<>>
    /\ p \in 1..Len(objs[dir])
    /\ val \in DamageVals(objs[dir][p])
    /\ LET c == objs[dir][p]
           c2 == IF c.role = "c" THEN [c EXCEPT !.ok = FALSE] ELSE [c EXCEPT !.ok = FALSE, !.v = val]
       IN /\ objs' = [objs EXCEPT ![dir][p] = c2]
          /\ dmg' = Describe("byte", p, val, c)
    /\ phase' = "damaged" /\ w' = [w EXCEPT !.open = FALSE]
    /\ UNCHANGED <<dir, optc, nfid, fresh, nsess, app, post, order, mode, dlen, r1, r2, r3, left, fail, repaired>>

(* Start-up on the damaged directory.                                       *)
(*   open_first   CoreInner::new: Wal::open_with_min_log_number, then       *)
(*                Core::replay_wal_with_repair(mode)                        *)
(*   replay_first read / repair, then open the writer (the order a caller   *)
(*                of the wal module alone may use)                          *)
Recover(ord, md, lf) ==
    /\ phase = "damaged"
    /\ order' = ord /\ mode' = md
    /\ dlen' = Len(CurFile)
    \* (\E x \in {e} binds x to the *value* of e: TLC evaluates e once)
    /\ \E o1 \in {OpenWriter(objs[dir], optc, app)} :
       LET early == ord = "open_first" /\ "WriterFirst" \in Quirks    \* repaired code: recover first, then open
           F1    == IF early /\ o1.ok THEN o1.file ELSE objs[dir]    \* a repaired writer may cut a torn tail
       IN
       \E rd1 \in {Read(F1, app)} :
       LET bad == rd1.end = "Corrupt"
           rep == bad /\ md = "tol" /\ ~(early /\ ~o1.ok)
           gone == rep /\ rd1.recs = <<>>                           \* no valid record: segment removed
       IN
       \* an interrupted earlier repair (process crash before the rename) left the first lfe valid
       \* records in repair_temp/0.wal; Wal::open in the repair continues that file
       \E lfe \in {IF rep THEN Min(lf, Len(rd1.recs)) ELSE 0} :
       \E NF \in {IF rep /\ ~gone
                  THEN RepairedFile([rd1 EXCEPT !.recs = IF "RepairTempReuse" \in Quirks
                                                        THEN SubSeq(rd1.recs, 1, lfe) \o rd1.recs
                                                        ELSE rd1.recs], app)
                  ELSE <<>>} :
       \E rd2 \in {IF rep THEN (IF gone THEN [NoRead EXCEPT !.end = "Eof"] ELSE Read(NF, app)) ELSE NoRead} :
       LET objsA == [objs EXCEPT ![dir] = F1]
           objsB == IF rep /\ ~gone THEN Append(objsA, NF) ELSE objsA
           dirB  == IF gone THEN 0 ELSE IF rep THEN Len(objsB) ELSE dir
           reopen == ~early                                            \* the writer that later appends
           Fcur == IF dirB = 0 THEN <<>> ELSE objsB[dirB]
       IN
       \E o2 \in {IF reopen THEN OpenWriter(Fcur, optc, app) ELSE o1} :
       LET stage == IF early /\ ~o1.ok THEN "wal_open"                \* Wal::open failed
                    ELSE IF bad /\ md = "abs" THEN "abs"              \* AbsoluteConsistency
                    ELSE IF rep /\ rd2.end # "Eof" THEN "still_corrupt"
                    ELSE IF reopen /\ ~o2.ok THEN "wal_open"
                    ELSE ""
       IN /\ r1' = rd1 /\ r2' = rd2 /\ repaired' = rep /\ fail' = stage /\ left' = lfe
          /\ IF stage # ""
             THEN /\ phase' = "failed" /\ objs' = objsB /\ dir' = dirB /\ UNCHANGED w
             ELSE /\ phase' = "recovered"
                  /\ IF reopen
                     THEN IF dirB = 0
                          THEN /\ objs' = Append(objsB, o2.file) /\ dir' = Len(objsB) + 1
                               /\ w' = [open |-> TRUE, obj |-> Len(objsB) + 1, boff |-> o2.boff, comp |-> o2.comp]
                          ELSE /\ objs' = [objsB EXCEPT ![dirB] = o2.file] /\ dir' = dirB
                               /\ w' = [open |-> TRUE, obj |-> dirB, boff |-> o2.boff, comp |-> o2.comp]
                     ELSE /\ objs' = objsB /\ dir' = dirB
                          /\ w' = [open |-> TRUE, obj |-> dir, boff |-> o1.boff, comp |-> o1.comp]
    /\ UNCHANGED <<optc, nfid, fresh, nsess, app, post, dmg, r3>>

(* A record is appended through the writer of the recovered log, the log is *)
(* closed and read again.                                                   *)
Post(n) ==
    /\ phase = "recovered"
    /\ w.comp = "lz4" => n >= 6
    /\ LET cz == IF w.comp = "lz4" THEN 1 ELSE 0
           id == Len(app) + 1
           all2 == Append(app, [n |-> n, cls |-> "gen", sess |-> 0, endoff |-> 0])
       IN \E a \in {AddRecord(objs[w.obj], w.boff, id, n, "gen", cz, nfid)} :
          \E objs2 \in {[objs EXCEPT ![w.obj] = a.file]} :
          /\ objs' = objs2
          /\ post' = << [n |-> n, cls |-> "gen", sess |-> 0, endoff |-> 0] >>
          /\ r3' = IF dir = 0 THEN [NoRead EXCEPT !.end = "Eof"] ELSE Read(objs2[dir], all2)
          /\ nfid' = a.nfid
          /\ w' = [w EXCEPT !.open = FALSE, !.boff = a.boff]
    /\ phase' = "done"
    /\ UNCHANGED <<dir, optc, fresh, nsess, app, dmg, order, mode, dlen, r1, r2, left, fail, repaired>>

Next ==
    \/ \E n \in Lens, c \in Classes : AppendRec(n, c)
    \/ AppendEmpty \/ Reopen \/ DamageNone
    \/ \E t \in 0..(Len(CurFile) - 1) : Truncate(t)
    \/ \E p \in 1..Len(CurFile) : \E v \in DamageVals(CurFile[p]) : Corrupt(p, v)
    \/ \E o \in Orders, m \in Modes, lf \in Lefts : Recover(o, m, lf)
    \/ \E n \in PostLens : Post(n)

Spec == Init /\ [][Next]_vars

-----------------------------------------------------------------------------
(* Property C12, over the ghost state.                                      *)

IsPrefix(s, t) == Len(s) <= Len(t) /\ \A j \in 1..Len(s) : s[j] = t[j]
AppIds == [j \in 1..Len(app) |-> j]

(* first byte offset (0-based) that is not as written; Len of the intact    *)
(* file when nothing was damaged                                            *)
DamagePos == IF dmg.kind = "trunc" THEN dmg.pos
             ELSE IF dmg.kind = "byte" THEN dmg.pos - 1
             ELSE IF app = <<>> THEN 0 ELSE app[Len(app)].endoff
WhollyBefore == Cardinality({j \in 1..Len(app) : app[j].endoff <= DamagePos})

(* "reading yields a prefix of the appended records that contains every     *)
(* record lying wholly before the damage and then ends with end-of-log or a *)
(* corruption report (never garbage, never a record out of order)"          *)
GoodRead(rd) ==
    /\ IsPrefix(Ids(rd), AppIds)            \* ids are 1,2,..: in order, none missing, none garbage (0)
    /\ Len(rd.recs) >= WhollyBefore
    /\ rd.end \in {"Eof", "Corrupt"}

(* classes of recorded findings (structural; the driver computes the same   *)
(* classes from what it observes on the real code)                          *)
MetaDamage ==
    /\ dmg.kind = "byte"
    /\ \/ dmg.role = "t" /\ dmg.val \in {TEmpty, TSetComp}
       \/ dmg.f = 1 /\ optc = "lz4" /\ dmg.role # "p"     \* the SetCompressionType record itself
TornTail == r1.end = "Eof" /\ r1.vend # dlen
Excused(c) == c \in Known

RoundTrip ==
    phase = "write" =>
        LET rd == Read(CurFile, app) IN
        /\ Ids(rd) = AppIds /\ rd.end = "Eof" /\ rd.vend = Len(CurFile)
        /\ w.boff % B = Len(CurFile) % B                   \* what a reopen would derive (B and 0 are the same position)
        /\ DetectComp(CurFile) = w.comp

Recovered == phase \in {"recovered", "failed", "done"}

P_Prefix == GoodRead(r1) /\ (dmg.kind = "none" => (Ids(r1) = AppIds /\ r1.end = "Eof"))
P_Repair == repaired => (GoodRead(r2) /\ r2.end = "Eof" /\ Len(r2.recs) >= Len(r1.recs))
(* tolerant mode repairs and opens; absolute mode refuses detected damage   *)
(* and leaves the file alone                                                *)
P_Mode ==
    /\ mode = "tol" => fail = ""
    /\ mode = "abs" => /\ (fail = "") = (r1.end = "Eof")
                       /\ ~repaired
                       /\ fail # "" => (dir # 0 /\ Len(objs[dir]) = dlen)
(* "records appended after opening or repairing a segment are read back on  *)
(* the next open"                                                           *)
Kept == IF repaired THEN Ids(r2) ELSE Ids(r1)
P_Append == phase = "done" => (Ids(r3) = Kept \o << Len(app) + 1 >> /\ r3.end = "Eof")

PrefixOnDamage ==
    Recovered => (P_Prefix \/ (MetaDamage /\ Excused("meta_before_crc")))

RepairKeepsPrefix ==
    Recovered => \/ P_Repair
                 \/ MetaDamage /\ Excused("meta_before_crc")
                 \/ left > 0 /\ Excused("repair_temp_reuse")

ModeRule ==
    Recovered =>
        \/ P_Mode
        \/ order = "open_first" /\ fail = "wal_open" /\ Excused("writer_before_recovery")

AppendAfterOpen ==
    \/ P_Append
    \/ MetaDamage /\ Excused("meta_before_crc")
    \/ TornTail /\ Excused("torn_tail_append")
    \/ order = "open_first" /\ repaired /\ Excused("writer_before_recovery")
    \/ left > 0 /\ Excused("repair_temp_reuse")

HeadersWhole ==
    \A o \in 1..Len(objs) : \A p \in 1..Len(objs[o]) :
        LET F == objs[o] IN
        (p + 6 <= Len(F) /\ WellFormed(F, p - 1)) =>
            /\ \A j \in 1..3 : F[p + j].role = "c" /\ F[p + j].i = j + 1 /\ F[p + j].f = F[p].f
            /\ \A j \in 1..2 : F[p + 3 + j].role = "l" /\ F[p + 3 + j].i = j /\ F[p + 3 + j].f = F[p].f

TypeOK ==
    /\ phase \in {"write", "damaged", "recovered", "failed", "done"}
    /\ dir \in 0..Len(objs)
    /\ w.obj \in 1..Len(objs)
    /\ Len(app) <= MaxRecs
=============================================================================
