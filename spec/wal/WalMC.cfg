CONSTANTS
    B = 16
    Lens = {1, 2, 3, 8, 9, 10, 12, 19}
    Classes = {"gen"}
    Comps = {"none", "lz4"}
    MaxRecs = 2
    MaxSess = 2
    PostLens = {3, 10}
    Orders = {"open_first", "replay_first"}
    Modes = {"tol", "abs"}
    Lefts = {0, 1}
    Quirks = {}
    Known = {}
INIT MCInit
NEXT MCNext
VIEW View
INVARIANTS TypeOK HeadersWhole RoundTrip PrefixOnDamage RepairKeepsPrefix ModeRule AppendAfterOpen
CHECK_DEADLOCK FALSE
