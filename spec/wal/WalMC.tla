------------------------------- MODULE WalMC -------------------------------
(* Bounded instance of Wal for exhaustive checking, and exporter of one     *)
(* replayable case per explored *terminal* transition (spec -> impl).       *)
(* A case = the appends and session splits that built the segment, the      *)
(* damage (described structurally so that the driver can scale it to the    *)
(* real 32 KiB block), the recovery order and mode, the later append, and   *)
(* what the spec's transcription of the code answers at every read.         *)
EXTENDS Wal, Json

VARIABLES hist
mcvars == <<vars, hist>>

Log(r) == hist' = Append(hist, r)

(* --- structural description of a position in the intact file ----------- *)
(* fragments are numbered in file order by their id f (the SetCompression   *)
(* record of an LZ4 segment is f = 1, the first data fragment f = 2)        *)
TypePos(F, f) == CHOOSE p \in 1..Len(F) : F[p].role = "t" /\ F[p].f = f
PrevFrag(F, p) ==            \* id of the last fragment that ends before the padding byte p
    LET S == {q \in 1..p : F[q].f # 0} IN
    IF S = {} THEN 0 ELSE F[CHOOSE q \in S : \A q2 \in S : q2 <= q].f
Where(F, p) ==
    LET c == F[p] IN
    IF c.role = "p" THEN [frag |-> PrevFrag(F, p), role |-> "p", idx |-> c.i, flen |-> 0]
    ELSE LET tp == TypePos(F, c.f) IN
         [frag |-> c.f, role |-> c.role,
          idx |-> IF c.role = "d" THEN p - tp - 1 ELSE c.i,       \* data: index inside the fragment
          flen |-> F[tp - 6].v]
(* number of fragments of record j that are the first data fragment of a    *)
(* block (at the block boundary, or right behind the SetCompressionType     *)
(* record): the driver inflates the record by (32768 - B) bytes for each of *)
(* them, which keeps the layout of every block isomorphic                   *)
Z(F, j) == Cardinality({p \in 1..Len(F) : /\ F[p].role = "t" /\ F[p].r = j
                                          /\ \/ (p - H) % B = 0
                                             \/ optc = "lz4" /\ p - H = 8})

DmgOp(kind, pos, val) ==
    LET F == CurFile IN
    [op |-> "damage", kind |-> kind, pos |-> pos, val |-> val, size |-> Len(F),
     sess |-> [j \in 1..Len(app) |-> app[j].sess],
     at |-> IF kind = "none" THEN [frag |-> 0, role |-> "", idx |-> 0, flen |-> 0]
            ELSE Where(F, IF kind = "trunc" THEN pos + 1 ELSE pos),
     nf |-> Cardinality({p \in 1..Len(F) : F[p].role = "t"}),
     z |-> [j \in 1..Len(app) |-> Z(F, j)],
     ends |-> [j \in 1..Len(app) |-> app[j].endoff]]

MCInit == Init /\ hist = <<>>

MCNext ==
    \/ /\ phase = "write"               \* (phase guards hoisted out of the quantifiers: cheaper for TLC)
       /\ \/ \E n \in Lens, c \in Classes : AppendRec(n, c) /\ Log([op |-> "append", n |-> n, cls |-> c])
          \/ AppendEmpty /\ Log([op |-> "append_empty"])
          \/ Reopen /\ Log([op |-> "reopen"])
          \/ DamageNone /\ Log(DmgOp("none", 0, 0))
          \/ \E t \in 0..(Len(CurFile) - 1) : Truncate(t) /\ Log(DmgOp("trunc", t, 0))
          \/ \E p \in 1..Len(CurFile) : \E v \in DamageVals(CurFile[p]) :
                Corrupt(p, v) /\ Log(DmgOp("byte", p, v))
    \/ /\ phase = "damaged"
       /\ \E o \in Orders, m \in Modes :
             \E lf \in (IF o = "replay_first" /\ m = "tol" THEN Lefts ELSE {0}) :   \* (bound: one order is enough)
                Recover(o, m, lf) /\ Log([op |-> "recover", order |-> o, mode |-> m, left |-> lf])
    \/ /\ phase = "recovered"
       /\ \E n \in PostLens : Post(n) /\ Log([op |-> "post", n |-> n])

RdOut(rd) == [ids |-> Ids(rd), end |-> rd.end, vend |-> rd.vend]

Classes_ ==      \* the classes of recorded findings this case falls into
    (IF MetaDamage THEN {"meta_before_crc"} ELSE {})
    \cup (IF TornTail THEN {"torn_tail_append"} ELSE {})
    \cup (IF order = "open_first" /\ (repaired \/ fail = "wal_open") THEN {"writer_before_recovery"} ELSE {})
    \cup (IF left > 0 THEN {"repair_temp_reuse"} ELSE {})

(* Exported: the terminal cases of the flow a user of the wal module runs   *)
(* (read / repair, then open the writer, tolerant).  The store's own order  *)
(* (open_first) and the absolute mode are code of src/lsm.rs; they are      *)
(* checked here in the model and bound to the code at the store level.      *)
Export ==
    (phase' \in {"done", "failed"} /\ order' = "replay_first" /\ mode' = "tol") =>
        PrintT("REPLAY " \o ToJson(
            [b |-> B, comp |-> optc', ops |-> hist',
             exp |-> [r1 |-> RdOut(r1'), r2 |-> RdOut(r2'), r3 |-> RdOut(r3'),
                      fail |-> fail', repaired |-> repaired', left |-> left', dlen |-> dlen', wb |-> WhollyBefore',
                      holds |-> [prefix |-> P_Prefix', repair |-> P_Repair', mode |-> P_Mode',
                                 append |-> P_Append'],
                      cls |-> Classes_']]))

View == vars
=============================================================================
