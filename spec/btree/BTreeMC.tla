------------------------------ MODULE BTreeMC ------------------------------
(* Bounded instance of BTree for exhaustive checking with TLC, and exporter *)
(* of one replayable program per explored transition (spec -> code).        *)
(*                                                                          *)
(* The initial state is the tree built by the preload program `Pre` (a      *)
(* sequence of <<"I", key, class>> / <<"D", key, 0>> applied with the same  *)
(* operators), so that short exhaustive programs start from trees of height *)
(* 2 and 3, from trees with overflow chains in internal nodes, from a       *)
(* populated free list ...                                                  *)
EXTENDS BTree, Json

CONSTANTS
    MaxSteps,
    KeyLenSeq,    \* KeyLenSeq[k] = stored length of key k
    ValLenSeq,    \* ValLenSeq[c] = length of a value of class c
    Pre,          \* preload program
    ActKeys,      \* keys the explored programs use
    ActClasses,   \* value classes the explored programs use
    ProbeKeys,    \* keys used as range bounds / seek targets in invariants and probes
    Scenario      \* name of this configuration (carried into the exported programs)

MCKeyLen(k) == KeyLenSeq[k]
MCValLen(c) == ValLenSeq[c]

VARIABLES hist, steps
mcvars == <<vars, hist, steps>>

(* a value written to k differs from the value it replaces *)
NextGen(m, k) == IF m[k] = Absent THEN 0 ELSE 1 - m[k].n
Val(c, m, k)  == [c |-> c, n |-> NextGen(m, k)]

RECURSIVE Apply(_, _, _)
Apply(S, m, ops) ==
    IF Len(ops) = 0 THEN [s |-> S, m |-> m]
    ELSE LET o == ops[1] IN
         IF o[1] = "I"
         THEN Apply(InsertOp(S, o[2], Val(o[3], m, o[2])), [m EXCEPT ![o[2]] = Val(o[3], m, o[2])], Tail(ops))
         ELSE Apply(DeleteOp(S, o[2]), [m EXCEPT ![o[2]] = Absent], Tail(ops))

PreState == Apply(EmptyStore, EmptyMap, Pre)

Log(r) == hist' = Append(hist, r) /\ steps' = steps + 1

MCInit ==
    /\ hdr = PreState.s.h /\ pg = PreState.s.pg /\ st = PreState.s.st /\ fired = PreState.s.fd /\ br = {}
    /\ map = PreState.m
    /\ hist = <<>> /\ steps = 0

Show(v) == v

MCNext ==
    \/ \E k \in ActKeys, c \in ActClasses :
         Insert(k, Val(c, map, k)) /\ Log([op |-> "I", k |-> k, c |-> c, n |-> NextGen(map, k), was |-> Show(map[k])])
    \/ \E k \in ActKeys :
         Delete(k) /\ Log([op |-> "D", k |-> k, c |-> 0, n |-> 0, was |-> Show(map[k])])
    \/ Reopen /\ Log([op |-> "R", k |-> 0, c |-> 0, n |-> 0, was |-> Show(Absent)])

Bound == steps <= MaxSteps

ProbeBounds == {Unb} \cup {[kind |-> kd, k |-> k] : kd \in {"inc", "exc"}, k \in ProbeKeys}
RangeOkMC == RangeOkFor(ProbeBounds)
CursorOkMC == CursorOkFor(ProbeKeys)

(* "Teeth": with a deviation listed in Quirks (the behaviour before its repair) the    *)
(* model must still reach the states in which it shows itself, i.e. TLC must report     *)
(* these invariants violated; the exported programs must then NOT fail on the repaired  *)
(* code (checks/c18.py, teeth()).                                                       *)
TeethSep    == ~KnownSep
TeethCursor == ~KnownCursor
TeethRange  == StrictRangeOkFor(ProbeBounds)

(* Exported once per explored transition (an edge cover of the state graph, *)
(* `hist` and `steps` being hidden by the VIEW):                            *)
(*   scan   what the ordered map holds after the last step -- every get,    *)
(*          range and cursor probe of the driver is judged against it       *)
(*   st     "ok", or "corrupt" when the spec says the file is undecodable   *)
(*   fired  quirks (known deviations) that have shown themselves            *)
(*   shape  the spec's prediction of the page file (conformance only)       *)
Export ==
    PrintT("REPLAY " \o ToJson([
        scn   |-> Scenario,
        cfg   |-> [kl |-> KeyLenSeq, vl |-> ValLenSeq],
        pre   |-> Pre,
        ops   |-> hist',
        scan  |-> AbsAllOf(map'),
        st    |-> st',
        fired |-> fired',
        br    |-> br',
        known |-> [cursor |-> KnownCursor', sep |-> KnownSep'],
        shape |-> [total |-> hdr'.total, root |-> hdr'.root, trunk |-> hdr'.trunk, fcount |-> hdr'.fcount,
                   pages |-> pg']]))

(* Scenario definitions (TLC configuration files cannot hold tuples): selected  *)
(* in the .cfg with  KeyLenSeq <- KL_..., ValLenSeq <- VL_..., Pre <- Pre_...   *)
Fill(ks, c) == [i \in 1..Len(ks) |-> <<"I", ks[i], c>>]
Upto(n) == [i \in 1..n |-> i]
Evens(n) == [i \in 1..n |-> 2 * i]
VL_std == <<8, 970, 1024, 5120, 12288>>
Pre_empty == <<>>

(* S1 "leaf": one root leaf, cell overflow chains, first use of the free list    *)
KL_small8 == [i \in 1..8 |-> 18]

(* S2 "two": small keys, values just under the local limit (4 cells fill a leaf): *)
(* keys 2,4,..,10 preloaded = two leaves under one root; splits, leaf             *)
(* redistribution both ways, merge, root collapse                                 *)
KL_small12 == [i \in 1..12 |-> 18]
Pre_two == Fill(Evens(5), 2)

(* S3 "deep": keys of 960 bytes (local, 4 per leaf, 4 per internal node): 3 levels *)
(* after 16 inserts; internal split / redistribution / merge, root collapse        *)
KL_big42 == [i \in 1..42 |-> 960]
Pre_deep == Fill(Evens(20), 1)

(* S3b "presplit": the same keys, 12 preloaded: the root (an internal node) is     *)
(* full, the next leaf split splits it and adds a level                             *)
Pre_presplit == Fill(Evens(12), 1)

(* S4 "sepchain": keys of 1200 bytes (overflow chains for separators in internal   *)
(* nodes) next to short ones                                                       *)
KL_mixed16 == [i \in 1..16 |-> IF i \in {5, 6, 9, 10, 11, 12} THEN 1200 ELSE 18]
Pre_sepchain == Fill(<<1, 2, 3, 4, 5, 6, 9, 10, 11, 12, 13, 14>>, 3)

(* S4b "sepmerge": two leaves [2,3] | [5,6] under a separator (key 5) that owns a   *)
(* chain, both close to underflow: the next delete merges them, frees the chain     *)
(* and collapses the root                                                           *)
Pre_sepmerge == Fill(<<5, 6, 9, 10>>, 1) \o Fill(<<1, 2, 3>>, 2) \o <<<<"D", 1, 0>>, <<"D", 10, 0>>, <<"D", 9, 0>>>>

(* S4c "chainsplit": 1200-byte keys only; 40 preloaded: the root holds 8 separators *)
(* (each 488 bytes local + a chain) and is full: the next leaf split splits it, and  *)
(* the promoted separator takes its chain along to the new root                      *)
KL_chain44 == [i \in 1..44 |-> 1200]
Pre_chainsplit == Fill(Upto(40), 1)

(* S5 "fullparent": a root with five separators (three local 999-byte keys, two    *)
(* 1200-byte keys with chains) is 30 bytes short of a page; the leaf [9..12] has    *)
(* lost two cells.  Borrowing from its left sibling would lift a 999-byte key into  *)
(* the place of a 1200-byte one (504 bytes more in the parent): refused, and        *)
(* nothing else is tried -- the leaf can run empty                                  *)
KL_d3 == [i \in 1..26 |-> IF i \in {5, 7, 8, 13, 17} THEN 999 ELSE 1200]
Pre_fullparent == Fill(Upto(25), 1) \o <<<<"D", 12, 0>>, <<"D", 11, 0>>>>

(* S6 "overpage": keys of 5000 bytes -- larger than a page; 917 bytes stay local    *)
(* in an internal node and exactly one full overflow page (4083 bytes) holds the    *)
(* rest; cells keep 925 bytes local                                                 *)
KL_over12 == [i \in 1..12 |-> 5000]
Pre_over == Fill(Evens(5), 1)

(* S7 "emptykey": the empty key (bytewise order only)                              *)
KL_empty6 == [i \in 1..6 |-> IF i = 1 THEN 0 ELSE 18]

(* S8 "deepdel": the three-level tree of S3 after deletions that leave leaves and   *)
(* internal nodes close to underflow: internal redistribution / merge, collapse     *)
Pre_deepdel == Pre_deep \o <<<<"D", 2, 0>>, <<"D", 6, 0>>, <<"D", 10, 0>>, <<"D", 14, 0>>>>

(* "tiny": PageSize = 256, TrunkCap = 3 -- the same algorithms at a scale where    *)
(* TLC reaches three levels, trunk chains and empty trunks from the empty tree      *)
(* (model only: the real code has PAGE_SIZE = 4096 compiled in)                     *)
KL_tiny10 == [i \in 1..10 |-> IF i \in {3, 4, 7, 8} THEN 40 ELSE 4]
VL_tiny == <<28, 100, 500>>

View == <<hdr, pg, st, fired, map, steps>>       \* `br` and `hist` are observations only
ViewNoSteps == <<hdr, pg, st, fired, map>>
=============================================================================
