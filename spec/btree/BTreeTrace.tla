----------------------------- MODULE BTreeTrace -----------------------------
(* Trace validation (code -> spec): consumes the NDJSON log that `btree_run   *)
(* random --trace-dir` records from a real DiskBPlusTree (one event per       *)
(* operation, results as the real tree returned them, page counts from the    *)
(* page walk) and replays it on BTree, every step.                            *)
(*                                                                            *)
(* The spec is a total observer: every event is consumed, unknown ones        *)
(* stutter, and all judgement is in the invariants:                           *)
(*   Obs_*   the logged answer is the ordered map's answer; the logged page   *)
(*           counts satisfy the conservation law          (property, decides) *)
(*   Conf_*  the logged page counts are the ones the implementation-shaped    *)
(*           part of the spec predicts       (conformance drift, never fails) *)
(* Keys are ranks 1..n of the case's keys under the configured order; the     *)
(* first line of the log gives their lengths.  A value is [c |-> its length,  *)
(* n |-> a 31-bit hash of its bytes]; 0 stands for "absent" in the log.       *)
EXTENDS BTree, Json, IOUtils

Rec == ndJsonDeserialize(IOEnv.TRACE)
Hdr == Rec[1]
TKeys == 1..Len(Hdr.klens)
TKeyLen(k) == Hdr.klens[k]
TValLen(c) == c

VARIABLES i, obs, conf
tvars == <<vars, i, obs, conf>>

NoObs == [op |-> "none"]
Vh(v) == IF v = Absent THEN 0 ELSE v.n
Pairs(s) == [j \in 1..Len(s) |-> <<s[j][1], s[j][2].n>>]

TInit == Init /\ i = 2 /\ obs = NoObs /\ conf = <<>>

Ev == Rec[i]
HasPages(e) == "pages" \in DOMAIN e

(* the page model stops at the first state it cannot continue from (a status   *)
(* other than "ok" is itself reported by Conf_Status); the ghost map goes on     *)
MInsert(k, v) ==
    IF st = "ok" THEN Insert(k, v)
    ELSE map' = [map EXCEPT ![k] = v] /\ UNCHANGED <<hdr, pg, st, fired, br>>
MDelete(k) ==
    IF st = "ok" THEN Delete(k)
    ELSE map' = [map EXCEPT ![k] = Absent] /\ UNCHANGED <<hdr, pg, st, fired, br>>
MReopen == IF st = "ok" THEN Reopen ELSE UNCHANGED vars

Step ==
    /\ i <= Len(Rec)
    /\ i' = i + 1
    /\ LET e == Ev IN
       CASE e.op = "I" ->
              /\ MInsert(e.k, [c |-> e.vl, n |-> e.vh])
              /\ obs' = [op |-> "I", pages |-> e.pages]
         [] e.op = "D" ->
              /\ MDelete(e.k)
              /\ obs' = [op |-> "D", res |-> e.res, want |-> Vh(map[e.k]), pages |-> e.pages]
         [] e.op = "G" ->
              /\ UNCHANGED vars
              /\ obs' = [op |-> "G", res |-> e.res, want |-> Vh(map[e.k])]
         [] e.op = "Q" ->
              /\ UNCHANGED vars
              /\ obs' = [op |-> "Q", res |-> e.res, want |-> Pairs(AbsRangeOf(map, e.lo, e.hi))]
         [] e.op = "S" ->
              /\ UNCHANGED vars
              /\ obs' = [op |-> "S", res |-> e.res, back |-> e.back, want |-> Pairs(AbsAllOf(map))]
         [] e.op = "R" ->
              /\ MReopen
              /\ obs' = [op |-> "R", res |-> e.res, want |-> Pairs(AbsAllOf(map)), pages |-> e.pages]
         [] OTHER ->
              /\ UNCHANGED vars
              /\ obs' = NoObs

(* conformance of the page model with the logged counts, in the state just    *)
(* reached: recorded (first three steps that differ) and printed with the last   *)
(* event, so that it never stops the validation of the observations              *)
ConfNow ==
    LET o == obs' IN
    IF o.op \in {"I", "D", "R"}
    THEN /\ st' = "ok"
         /\ LET l == Ledger(Cur') IN
            /\ hdr'.total = o.pages.total
            /\ hdr'.fcount = o.pages.count
            /\ Len(l.nodes) = o.pages.nodes
            /\ Len(l.trunks) = o.pages.trunks
            /\ Len(l.ovf) = o.pages.ovf \/ "sep_chain" \in fired'
    ELSE TRUE

TNext ==
    /\ Step
    /\ conf' = IF ConfNow \/ Len(conf) >= 3 THEN conf ELSE Append(conf, i)
    /\ (i' > Len(Rec)) => PrintT("CONF " \o ToJson([checked |-> Len(Rec) - 1, differs_at |-> conf']))

(* ---- the property, on what the real tree answered ------------------------ *)
Obs_Point == obs.op \in {"G", "D"} => obs.res = obs.want
Obs_Scan  == /\ obs.op \in {"Q", "R"} => obs.res = obs.want
             /\ obs.op = "S" => obs.res = obs.want /\ obs.back = obs.want
Obs_Ledger ==
    obs.op \in {"I", "D", "R"} =>
        /\ obs.pages.total = 1 + obs.pages.nodes + obs.pages.ovf + obs.pages.trunks + obs.pages.free
        /\ obs.pages.count = obs.pages.free

AllConsumed == TLCGet("stats").diameter = Len(Rec)
=============================================================================
