------------------------------- MODULE BTree -------------------------------
(***************************************************************************)
(* The disk B+tree of surrealkv (src/bplustree/tree.rs) as a persistent    *)
(* ordered map.                                                            *)
(*                                                                         *)
(* The module is implementation shaped.  `pg` is the page file: leaf and   *)
(* internal nodes with their cells, per-cell / per-key overflow chains,    *)
(* trunk pages of the free list; `hdr` is the file header (root, total     *)
(* page count, first trunk page, free page count).  Every operator below   *)
(* follows one function of tree.rs, step for step and in the order in      *)
(* which the code allocates and frees pages, with the real byte arithmetic *)
(* (cell sizes, local / overflow split, 35 % underflow threshold, size     *)
(* balanced split points).  With the real constants (PageSize = 4096,      *)
(* TrunkCap = 1020) the model therefore predicts the page numbers the code *)
(* will use; the driver compares that prediction with the real file as     *)
(* conformance drift, never as a verdict.                                  *)
(*                                                                         *)
(* Next to it runs the ghost variable `map`, the abstract ordered map,     *)
(* which states the property (C18) without reference to pages:             *)
(*    get / range / cursor answers = answers of `map`                      *)
(*    the same for what is decodable from the file alone (reopen)          *)
(*    every page of the file is referenced exactly once (node, overflow    *)
(*    chain, free-list trunk, free-list entry) and the header's free count *)
(*    is the number of free-list entries.                                  *)
(*                                                                         *)
(* Keys are naturals; their numeric order is the configured key order      *)
(* (bytewise or (user key asc, timestamp desc) -- the driver maps key i to *)
(* bytes of length KeyLen(i) under either comparator).  Values are         *)
(* [c |-> size class, n |-> generation].                                   *)
(*                                                                         *)
(* `Quirks` lists known deviations of the code that are modelled as they   *)
(* are (so that TLC exhibits them and the driver can reproduce them on the *)
(* real code); removing a name models the repaired behaviour:              *)
(*   "sep_chain"         leaf redistribution replaces a separator key in   *)
(*                       the parent but keeps the old key's overflow chain *)
(*   "cursor_empty_leaf" cursor next / prev / seek step over one leaf      *)
(*                       boundary only; an empty leaf ends the scan        *)
(*   "range_excl_empty"  range() treats an empty start key as "unbounded"  *)
(***************************************************************************)
EXTENDS Naturals, Sequences, FiniteSets, TLC

CONSTANTS
    Keys,        \* finite set of naturals
    KeyLen(_),   \* stored length of key k in bytes
    ValLen(_),   \* length in bytes of a value of size class c
    PageSize,    \* 4096
    TrunkCap,    \* entries per trunk page: (PageSize - 13) \div 4 = 1020
    Quirks

Absent == [c |-> 0, n |-> 0]     \* "no value" (size classes are numbered from 1)

VARIABLES
    hdr,     \* [root, total, trunk, fcount]   (first_leaf_offset is always page 1)
    pg,      \* [1 .. hdr.total-1 -> page]
    st,      \* "ok" | "error" (an Err the code would return) | "panic" | "corrupt" (reopen cannot decode)
    fired,   \* ghost: quirks whose defective branch has been taken
    br,      \* ghost: branches of the code taken by the last operation (coverage only)
    map      \* ghost: [Keys -> value \cup {Absent}]
vars == <<hdr, pg, st, fired, br, map>>

-----------------------------------------------------------------------------
(* Page format arithmetic (constants of tree.rs, derived from PageSize).    *)
LeafHdr == 21
IntHdr  == 9
OvfCap  == PageSize - 13
LeafMin == (((PageSize - LeafHdr - 12) * 32) \div 255) - 23
LeafMax == (((PageSize - LeafHdr - 12) * 64) \div 255) - 23
IntMin  == (((PageSize - IntHdr - 12) * 32) \div 255) - 23
IntMax  == (((PageSize - IntHdr - 12) * 64) \div 255) - 23

(* calculate_overflow: bytes kept on the page                               *)
Local(pl, mn, mx) ==
    IF pl <= mx THEN pl
    ELSE LET s == mn + ((pl - mn) % OvfCap) IN IF s <= mx THEN s ELSE mn
ChainLen(bytes) == (bytes + OvfCap - 1) \div OvfCap

CellPayload(k, v) == KeyLen(k) + ValLen(v.c)
CellNeeds(k, v)   == CellPayload(k, v) > LeafMax
CellLocal(k, v)   == Local(CellPayload(k, v), LeafMin, LeafMax)
CellSize(k, v)    == 8 + CellLocal(k, v) + (IF CellNeeds(k, v) THEN 8 ELSE 0)
CellChain(k, v)   == IF CellNeeds(k, v) THEN ChainLen(CellPayload(k, v) - CellLocal(k, v)) ELSE 0

KeyNeeds(k)  == KeyLen(k) > IntMax
KeyLocal(k)  == Local(KeyLen(k), IntMin, IntMax)
EntrySize(k) == 4 + KeyLocal(k) + (IF KeyNeeds(k) THEN 8 ELSE 0)
KeyChain(k)  == IF KeyNeeds(k) THEN ChainLen(KeyLen(k) - KeyLocal(k)) ELSE 0

RECURSIVE SumSeq(_)
SumSeq(s) == IF Len(s) = 0 THEN 0 ELSE s[1] + SumSeq(Tail(s))

LeafSize(n) == LeafHdr + SumSeq([i \in 1..Len(n.ks) |-> CellSize(n.ks[i], n.vs[i])])
IntSize(n)  == IntHdr + SumSeq([i \in 1..Len(n.ks) |-> EntrySize(n.ks[i])]) + 8 * Len(n.ch)
NodeSize(n) == IF n.t = "leaf" THEN LeafSize(n) ELSE IntSize(n)
Under(sz)   == sz * 100 < PageSize * 35            \* is_underflow
AbsDiff(a, b) == IF a >= b THEN a - b ELSE b - a

-----------------------------------------------------------------------------
(* Sequence helpers                                                          *)
InsertAt(s, i, x) == SubSeq(s, 1, i - 1) \o <<x>> \o SubSeq(s, i, Len(s))
RemoveAt(s, i)    == SubSeq(s, 1, i - 1) \o SubSeq(s, i + 1, Len(s))
Front(s)          == SubSeq(s, 1, Len(s) - 1)
Last(s)           == s[Len(s)]
Has(ks, k)        == \E i \in 1..Len(ks) : ks[i] = k
Idx(ks, k)        == CHOOSE i \in 1..Len(ks) : ks[i] = k
CountLt(ks, k)    == Cardinality({i \in 1..Len(ks) : ks[i] < k})
CountLe(ks, k)    == Cardinality({i \in 1..Len(ks) : ks[i] <= k})

Blank  == [t |-> "blank"]                          \* allocated, not yet written
FreePg == [t |-> "free"]                           \* listed in a trunk page
TrunkPg(nx, fp) == [t |-> "trunk", next |-> nx, fp |-> fp]

(* The operators below thread a store S = [h, pg, st, fd, br] (header,      *)
(* pages, status, fired quirks, branches taken).                            *)
Fail(S, what) == [S EXCEPT !.st = IF @ = "ok" THEN what ELSE @]
Mark(S, b)    == [S EXCEPT !.br = @ \cup {b}]

-----------------------------------------------------------------------------
(* allocate_page                                                             *)
RECURSIVE AllocWalk(_, _, _)
AllocWalk(S, prev, cur) ==
    IF cur = 0
    THEN [s |-> Fail(S, "error"), p |-> 0]          \* InconsistentFreePageCount
    ELSE LET t == S.pg[cur] IN
         IF Len(t.fp) > 0
         THEN LET p == t.fp[Len(t.fp)] IN
              [s |-> Mark([S EXCEPT !.pg[cur].fp = Front(t.fp), !.pg[p] = Blank, !.h.fcount = @ - 1], "alloc_reuse"),
               p |-> p]
         ELSE IF t.next # 0
         THEN [s |-> Mark(IF prev = 0
                          THEN [S EXCEPT !.h.trunk = t.next, !.pg[cur] = Blank]
                          ELSE [S EXCEPT !.pg[prev].next = t.next, !.pg[cur] = Blank], "alloc_empty_trunk"),
               p |-> cur]                            \* an empty trunk page is itself reused
         ELSE AllocWalk(S, cur, 0)

Alloc(S) ==
    IF S.h.trunk = 0 \/ S.h.fcount = 0
    THEN [s |-> Mark([S EXCEPT !.h.total = @ + 1,
                               !.pg = [q \in 1..S.h.total |-> IF q = S.h.total THEN Blank ELSE S.pg[q]]],
                     IF S.h.trunk = 0 THEN "alloc_extend" ELSE "alloc_extend_list_empty"),
          p |-> S.h.total]
    ELSE AllocWalk(S, 0, S.h.trunk)

(* free_page                                                                 *)
RECURSIVE FreeWalk(_, _, _)
FreeWalk(S, cur, p) ==
    LET t == S.pg[cur] IN
    IF Len(t.fp) < TrunkCap
    THEN Mark([S EXCEPT !.pg[cur].fp = Append(@, p), !.pg[p] = FreePg, !.h.fcount = @ + 1],
              IF cur = S.h.trunk THEN "free_entry" ELSE "free_entry_later_trunk")
    ELSE IF t.next = 0
    THEN Mark([S EXCEPT !.pg[cur].next = p, !.pg[p] = TrunkPg(0, <<>>)], "free_new_trunk")
    ELSE FreeWalk(S, t.next, p)

Free(S, p) ==
    IF p < 1 \/ p >= S.h.total THEN Fail(S, "error")               \* InvalidOffset
    ELSE IF S.h.trunk = 0
    THEN Mark([S EXCEPT !.h.trunk = p, !.pg[p] = TrunkPg(0, <<>>)], "free_first_trunk")
    ELSE FreeWalk(S, S.h.trunk, p)

(* free_overflow_chain                                                       *)
RECURSIVE FreeChain(_, _)
FreeChain(S, first) ==
    IF first = 0 \/ S.st # "ok" THEN S
    ELSE IF first >= S.h.total \/ S.pg[first].t # "ovf" THEN Fail(S, "error")   \* InvalidOverflowChain
    ELSE LET nx == S.pg[first].next IN FreeChain(Free(S, first), nx)

(* write_overflow_chain: pages are allocated one after the other            *)
RECURSIVE ChainRec(_, _, _, _, _)
ChainRec(S, tag, i, n, prev) ==
    IF i > n \/ S.st # "ok" THEN S
    ELSE LET a  == Alloc(S)
             S1 == [a.s EXCEPT !.pg[a.p] = [t |-> "ovf", next |-> 0, tag |-> tag, i |-> i]]
             S2 == IF prev = 0 THEN S1 ELSE [S1 EXCEPT !.pg[prev].next = a.p]
         IN IF a.p = 0 THEN a.s ELSE ChainRec(S2, tag, i + 1, n, a.p)

WriteChain(S, tag, n) ==
    LET a  == Alloc(S)
        S1 == [a.s EXCEPT !.pg[a.p] = [t |-> "ovf", next |-> 0, tag |-> tag, i |-> 1]]
    IN IF a.p = 0 THEN [s |-> a.s, first |-> 0]
       ELSE [s |-> ChainRec(S1, tag, 2, n, a.p), first |-> a.p]

(* prepare_leaf_node_overflow + write_node                                   *)
RECURSIVE PrepLeaf(_, _, _)
PrepLeaf(S, n, i) ==
    IF i > Len(n.ks) THEN [s |-> S, n |-> n]
    ELSE IF CellNeeds(n.ks[i], n.vs[i])
    THEN IF n.ov[i] = 0
         THEN LET w == WriteChain(Mark(S, "cell_chain_written"), <<n.ks[i], n.vs[i]>>, CellChain(n.ks[i], n.vs[i]))
              IN PrepLeaf(w.s, [n EXCEPT !.ov[i] = w.first], i + 1)
         ELSE PrepLeaf(S, n, i + 1)                 \* an existing chain is kept as it is
    ELSE PrepLeaf(S, [n EXCEPT !.ov[i] = 0], i + 1)

WriteLeaf(S, p, n) ==
    LET r == PrepLeaf(S, n, 1) IN
    IF LeafSize(r.n) > PageSize THEN Fail(r.s, "error")            \* Serialization error
    ELSE [r.s EXCEPT !.pg[p] = r.n]

(* prepare_internal_node_overflow + write_node                               *)
RECURSIVE PrepInt(_, _, _)
PrepInt(S, n, i) ==
    IF i > Len(n.ks) THEN [s |-> S, n |-> n]
    ELSE IF KeyNeeds(n.ks[i])
    THEN IF n.kov[i] = 0
         THEN LET w == WriteChain(Mark(S, "key_chain_written"), <<n.ks[i]>>, KeyChain(n.ks[i]))
              IN PrepInt(w.s, [n EXCEPT !.kov[i] = w.first], i + 1)
         ELSE PrepInt(S, n, i + 1)
    ELSE PrepInt(S, [n EXCEPT !.kov[i] = 0], i + 1)

WriteInt(S, p, n) ==
    LET r == PrepInt(S, n, 1) IN
    IF IntSize(r.n) > PageSize THEN Fail(r.s, "error")
    ELSE [r.s EXCEPT !.pg[p] = r.n]

-----------------------------------------------------------------------------
(* Descent: find_child_index goes right on equality                          *)
ChildIdx(n, k) == CountLe(n.ks, k) + 1

RECURSIVE Descend(_, _, _, _)
Descend(S, p, k, path) ==
    LET n == S.pg[p] IN
    IF n.t # "int" THEN [leaf |-> p, path |-> path]
    ELSE LET ci == ChildIdx(n, k)
         IN Descend(S, n.ch[ci], k, Append(path, [p |-> p, ci |-> ci]))

(* LeafNode::insert                                                          *)
LeafInsert(n, k, v) ==
    IF Has(n.ks, k)
    THEN LET i == Idx(n.ks, k) IN
         [n |-> [n EXCEPT !.vs[i] = v, !.ov[i] = 0], old |-> n.ov[i]]
    ELSE LET i == CountLt(n.ks, k) + 1 IN
         [n |-> [n EXCEPT !.ks = InsertAt(@, i, k), !.vs = InsertAt(@, i, v), !.ov = InsertAt(@, i, 0)],
          old |-> 0]

(* insert_key_child_with_overflow                                            *)
IntInsert(n, key, ov, child) ==
    LET i == CountLt(n.ks, key) + 1 IN
    [n EXCEPT !.ks = InsertAt(@, i, key), !.kov = InsertAt(@, i, ov), !.ch = InsertAt(@, i + 1, child)]

(* split_leaf                                                                *)
SplitLeaf(S, p, k, v) ==
    LET r     == LeafInsert(S.pg[p], k, v)
        S1    == IF r.old # 0 THEN FreeChain(S, r.old) ELSE S
        n     == r.n
        cnt   == Len(n.ks)
        sizes == [i \in 1..cnt |-> CellSize(n.ks[i], n.vs[i])]
        total == SumSeq(sizes)
        pre   == [j \in 0..cnt |-> SumSeq(SubSeq(sizes, 1, j))]
        cap   == PageSize - LeafHdr
        lower == IF total > cap THEN total - cap ELSE 0
        cands == {j \in 1..(cnt - 1) : pre[j] >= lower /\ pre[j] <= cap}
        D(j)  == AbsDiff(2 * pre[j], total)
    IN IF cnt < 2 \/ cands = {}
       THEN [s |-> Fail(S1, "panic"), sep |-> k, newp |-> 0]
       ELSE LET best  == CHOOSE j \in cands : \A j2 \in cands : D(j) < D(j2) \/ (D(j) = D(j2) /\ j <= j2)
                a     == Alloc(Mark(S1, IF r.old # 0 \/ Has(S.pg[p].ks, k) THEN "split_leaf_on_overwrite" ELSE "split_leaf"))
                left  == [n EXCEPT !.ks = SubSeq(n.ks, 1, best), !.vs = SubSeq(n.vs, 1, best),
                                   !.ov = SubSeq(n.ov, 1, best), !.next = a.p]
                right == [t |-> "leaf", ks |-> SubSeq(n.ks, best + 1, cnt), vs |-> SubSeq(n.vs, best + 1, cnt),
                          ov |-> SubSeq(n.ov, best + 1, cnt), next |-> n.next, prev |-> p]
                S2    == WriteLeaf(a.s, p, left)
                S3    == WriteLeaf(S2, a.p, right)
                S4    == IF n.next # 0 /\ S3.st = "ok"
                         THEN WriteLeaf(S3, n.next, [S3.pg[n.next] EXCEPT !.prev = a.p])
                         ELSE S3
            IN [s |-> S4, sep |-> right.ks[1], newp |-> a.p]

(* split_internal_with_child; q is the (1-based) index of the promoted key   *)
SplitInt(S, p, key, ov, child) ==
    LET n   == IntInsert(S.pg[p], key, ov, child)
        cnt == Len(n.ks)
        es  == [i \in 1..cnt |-> EntrySize(n.ks[i])]
        tot == SumSeq(es)
        kp  == [j \in 0..cnt |-> SumSeq(SubSeq(es, 1, j))]
        LSz(q) == IntHdr + kp[q - 1] + q * 8
        RSz(q) == IntHdr + (tot - kp[q]) + (cnt - q + 1) * 8
        cands  == {q \in 2..cnt : LSz(q) <= PageSize /\ RSz(q) <= PageSize}
        D(q)   == AbsDiff(LSz(q), RSz(q))
    IN IF cnt < 2 \/ cands = {}
       THEN [s |-> Fail(S, "panic"), sep |-> key, sov |-> 0, newp |-> 0]
       ELSE LET best  == CHOOSE q \in cands : \A q2 \in cands : D(q) < D(q2) \/ (D(q) = D(q2) /\ q <= q2)
                a     == Alloc(Mark(S, "split_internal"))
                left  == [n EXCEPT !.ks = SubSeq(n.ks, 1, best - 1), !.kov = SubSeq(n.kov, 1, best - 1),
                                   !.ch = SubSeq(n.ch, 1, best)]
                right == [t |-> "int", ks |-> SubSeq(n.ks, best + 1, cnt), kov |-> SubSeq(n.kov, best + 1, cnt),
                          ch |-> SubSeq(n.ch, best + 1, cnt + 1)]
                S1    == WriteInt(a.s, p, left)
                S2    == WriteInt(S1, a.p, right)
            IN [s |-> S2, sep |-> n.ks[best], sov |-> n.kov[best], newp |-> a.p]

(* handle_splits: `path` = internal pages from the root down to the parent   *)
RECURSIVE HandleSplits(_, _, _, _, _)
HandleSplits(S, path, sep, sov, newp) ==
    IF S.st # "ok" THEN S
    ELSE IF Len(path) = 0
    THEN LET a    == Alloc(Mark(S, "new_root"))
             root == [t |-> "int", ks |-> <<sep>>, kov |-> <<sov>>, ch |-> <<S.h.root, newp>>]
         IN WriteInt([a.s EXCEPT !.h.root = a.p], a.p, root)
    ELSE LET pp == Last(path).p
             P  == S.pg[pp]
         IN IF IntSize(P) + EntrySize(sep) + 8 <= PageSize
            THEN WriteInt(S, pp, IntInsert(P, sep, sov, newp))
            ELSE LET sp == SplitInt(S, pp, sep, sov, newp)
                 IN HandleSplits(sp.s, Front(path), sp.sep, sp.sov, sp.newp)

(* BPlusTree::insert                                                         *)
InsertOp(S, k, v) ==
    LET d == Descend(S, S.h.root, k, <<>>)
        L == S.pg[d.leaf]
    IN IF LeafSize(L) + CellSize(k, v) <= PageSize                  \* can_fit_entry (also for overwrites)
       THEN LET r  == LeafInsert(L, k, v)
                S0 == Mark(S, IF Has(L.ks, k) THEN "overwrite" ELSE "insert_fits")
                S1 == IF r.old # 0 THEN FreeChain(Mark(S0, "overwrite_frees_chain"), r.old) ELSE S0
            IN WriteLeaf(S1, d.leaf, r.n)
       ELSE LET sp == SplitLeaf(S, d.leaf, k, v)
            IN HandleSplits(sp.s, d.path, sp.sep, 0, sp.newp)

-----------------------------------------------------------------------------
(* Replacing the separator at P.ks[li] after a leaf redistribution.          *)
SetSep(S, P, li, newkey) ==
    IF "sep_chain" \in Quirks
    THEN [s |-> IF P.kov[li] # 0 THEN Mark([S EXCEPT !.fd = @ \cup {"sep_chain"}], "sep_with_chain_replaced") ELSE S,
          par |-> [P EXCEPT !.ks[li] = newkey]]          \* key_overflows[li] is left as it was
    ELSE [s |-> IF P.kov[li] # 0 THEN FreeChain(Mark(S, "sep_with_chain_replaced"), P.kov[li]) ELSE S,
          par |-> [P EXCEPT !.ks[li] = newkey, !.kov[li] = 0]]

(* redistribute_leaf_from_left: last cell of the left leaf moves right       *)
RedistLeafL(S, P, li, lp, rp) ==
    LET L  == S.pg[lp]
        R  == S.pg[rp]
        m  == Len(L.ks)
    IN IF m = 0 THEN [s |-> Fail(S, "error"), par |-> P]
       ELSE
       LET lk == L.ks[m]
           c  == CellSize(lk, L.vs[m])
           ls == LeafSize(L)
           rs == LeafSize(R)
           pa == IntSize(P) - EntrySize(P.ks[li]) + EntrySize(lk)
       IN IF ls - c > PageSize \/ rs + c > PageSize \/ pa > PageSize
             \/ AbsDiff(ls - c, rs + c) >= AbsDiff(ls, rs)
          THEN [s |-> Mark(S, IF pa > PageSize THEN "redist_refused_parent_full" ELSE "redist_refused"), par |-> P]   \* nothing else is tried
          ELSE LET L2 == [L EXCEPT !.ks = Front(@), !.vs = Front(@), !.ov = Front(@)]
                   R2 == [R EXCEPT !.ks = <<lk>> \o @, !.vs = <<L.vs[m]>> \o @, !.ov = <<L.ov[m]>> \o @]
                   sp == SetSep(Mark(S, "redist_leaf_from_left"), P, li, lk)
                   S1 == WriteLeaf(sp.s, lp, L2)
                   S2 == WriteLeaf(S1, rp, R2)
               IN [s |-> S2, par |-> sp.par]

(* redistribute_leaf_from_right: first cell of the right leaf moves left     *)
RedistLeafR(S, P, li, lp, rp) ==
    LET L  == S.pg[lp]
        R  == S.pg[rp]
    IN IF Len(R.ks) = 0 THEN [s |-> Fail(S, "error"), par |-> P]
       ELSE
       LET fk  == R.ks[1]
           c   == CellSize(fk, R.vs[1])
           ls  == LeafSize(L)
           rs  == LeafSize(R)
           nsp == IF Len(R.ks) > 1 THEN R.ks[2] ELSE fk
           pa  == IntSize(P) - EntrySize(P.ks[li]) + EntrySize(nsp)
       IN IF ls + c > PageSize \/ rs - c > PageSize \/ pa > PageSize
             \/ AbsDiff(ls + c, rs - c) >= AbsDiff(ls, rs)
          THEN [s |-> Mark(S, IF pa > PageSize THEN "redist_refused_parent_full" ELSE "redist_refused"), par |-> P]
          ELSE LET L2 == [L EXCEPT !.ks = Append(@, fk), !.vs = Append(@, R.vs[1]), !.ov = Append(@, R.ov[1])]
                   R2 == [R EXCEPT !.ks = Tail(@), !.vs = Tail(@), !.ov = Tail(@)]
                   sp == SetSep(Mark(S, "redist_leaf_from_right"), P, li, nsp)
                   S1 == WriteLeaf(sp.s, lp, L2)
                   S2 == WriteLeaf(S1, rp, R2)
               IN [s |-> S2, par |-> sp.par]

(* redistribute_internal_from_left / _right: rotation through the parent     *)
RedistIntL(S, P, li, lp, rp) ==
    LET L == S.pg[lp]
        R == S.pg[rp]
        m == Len(L.ks)
    IN IF m = 0 THEN [s |-> Fail(S, "error"), par |-> P]
       ELSE
       LET lk == L.ks[m]
           ls == IntSize(L)
           rs == IntSize(R)
           la == ls - (EntrySize(lk) + 8)
           ra == rs + (EntrySize(P.ks[li]) + 8)
           pa == IntSize(P) - EntrySize(P.ks[li]) + EntrySize(lk)
       IN IF ra > PageSize \/ la > PageSize \/ pa > PageSize \/ AbsDiff(la, ra) >= AbsDiff(ls, rs)
          THEN [s |-> Mark(S, "redist_refused"), par |-> P]
          ELSE LET R2 == [R EXCEPT !.ks = <<P.ks[li]>> \o @, !.kov = <<P.kov[li]>> \o @, !.ch = <<Last(L.ch)>> \o @]
                   L2 == [L EXCEPT !.ks = Front(@), !.kov = Front(@), !.ch = Front(@)]
                   P2 == [P EXCEPT !.ks[li] = lk, !.kov[li] = L.kov[m]]
                   S1 == WriteInt(Mark(S, "redist_internal_from_left"), lp, L2)
                   S2 == WriteInt(S1, rp, R2)
               IN [s |-> S2, par |-> P2]

RedistIntR(S, P, li, lp, rp) ==
    LET L == S.pg[lp]
        R == S.pg[rp]
    IN IF Len(R.ks) = 0 THEN [s |-> Fail(S, "error"), par |-> P]
       ELSE
       LET fk == R.ks[1]
           ls == IntSize(L)
           rs == IntSize(R)
           la == ls + (EntrySize(P.ks[li]) + 8)
           ra == rs - (EntrySize(fk) + 8)
           pa == IntSize(P) - EntrySize(P.ks[li]) + EntrySize(fk)
       IN IF la > PageSize \/ ra > PageSize \/ pa > PageSize \/ AbsDiff(la, ra) >= AbsDiff(ls, rs)
          THEN [s |-> Mark(S, "redist_refused"), par |-> P]
          ELSE LET L2 == [L EXCEPT !.ks = Append(@, P.ks[li]), !.kov = Append(@, P.kov[li]), !.ch = Append(@, R.ch[1])]
                   R2 == [R EXCEPT !.ks = Tail(@), !.kov = Tail(@), !.ch = Tail(@)]
                   P2 == [P EXCEPT !.ks[li] = fk, !.kov[li] = R.kov[1]]
                   S1 == WriteInt(Mark(S, "redist_internal_from_right"), lp, L2)
                   S2 == WriteInt(S1, rp, R2)
               IN [s |-> S2, par |-> P2]

(* merge_leaf_nodes: the right leaf is absorbed by the left one              *)
MergeLeaf(S, P, li, lp, rp) ==
    LET L == S.pg[lp]
        R == S.pg[rp]
    IN IF LeafSize(L) + LeafSize(R) - LeafHdr > PageSize THEN [s |-> Mark(S, "merge_refused"), par |-> P]
       ELSE LET P2 == [P EXCEPT !.ks = RemoveAt(@, li), !.kov = RemoveAt(@, li), !.ch = RemoveAt(@, li + 1)]
                S0 == Mark(S, "merge_leaf")
                S1 == IF P.kov[li] # 0 THEN FreeChain(Mark(S0, "merge_frees_sep_chain"), P.kov[li]) ELSE S0
                L2 == [L EXCEPT !.ks = @ \o R.ks, !.vs = @ \o R.vs, !.ov = @ \o R.ov, !.next = R.next]
                S2 == IF R.next # 0 /\ S1.st = "ok"
                      THEN WriteLeaf(S1, R.next, [S1.pg[R.next] EXCEPT !.prev = lp])
                      ELSE S1
                S3 == WriteLeaf(S2, lp, L2)
                S4 == Free(S3, rp)
            IN [s |-> S4, par |-> P2]

(* merge_internal_nodes: the separator moves down with its chain             *)
MergeInt(S, P, li, lp, rp) ==
    LET L == S.pg[lp]
        R == S.pg[rp]
    IN IF IntSize(L) + IntSize(R) - IntHdr + EntrySize(P.ks[li]) > PageSize THEN [s |-> Mark(S, "merge_refused"), par |-> P]
       ELSE LET P2 == [P EXCEPT !.ks = RemoveAt(@, li), !.kov = RemoveAt(@, li), !.ch = RemoveAt(@, li + 1)]
                L2 == [L EXCEPT !.ks = @ \o <<P.ks[li]>> \o R.ks, !.kov = @ \o <<P.kov[li]>> \o R.kov,
                                !.ch = @ \o R.ch]
                S1 == WriteInt(Mark(S, "merge_internal"), lp, L2)
                S2 == Free(S1, rp)
            IN [s |-> S2, par |-> P2]

(* handle_underflow: borrow from the left, else from the right, else merge   *)
HandleUnderflow(S, P, ci, isInt) ==
    LET hasL == ci > 1
        hasR == ci < Len(P.ch)
        cp   == P.ch[ci]
        lp   == IF hasL THEN P.ch[ci - 1] ELSE 0
        rp   == IF hasR THEN P.ch[ci + 1] ELSE 0
    IN IF hasL /\ ~Under(NodeSize(S.pg[lp]))
       THEN IF isInt THEN RedistIntL(S, P, ci - 1, lp, cp) ELSE RedistLeafL(S, P, ci - 1, lp, cp)
       ELSE IF hasR /\ ~Under(NodeSize(S.pg[rp]))
       THEN IF isInt THEN RedistIntR(S, P, ci, cp, rp) ELSE RedistLeafR(S, P, ci, cp, rp)
       ELSE IF hasL
       THEN IF isInt THEN MergeInt(S, P, ci - 1, lp, cp) ELSE MergeLeaf(S, P, ci - 1, lp, cp)
       ELSE IF hasR
       THEN IF isInt THEN MergeInt(S, P, ci, cp, rp) ELSE MergeLeaf(S, P, ci, cp, rp)
       ELSE [s |-> S, par |-> P]

(* handle_underflows: from the leaf's parent up to the root; the loop always *)
(* continues upwards (the code tests the parent after moving it out).        *)
RECURSIVE HandleUnderflows(_, _)
HandleUnderflows(S, path) ==
    IF Len(path) = 0 \/ S.st # "ok" THEN S
    ELSE LET e == Last(path)
             P == S.pg[e.p]
             C == S.pg[P.ch[e.ci]]
         IN IF Under(NodeSize(C))
            THEN LET r  == HandleUnderflow(S, P, e.ci, C.t = "int")
                     S1 == IF r.s.st = "ok" THEN WriteInt(r.s, e.p, r.par) ELSE r.s
                 IN HandleUnderflows(S1, Front(path))
            ELSE S

(* handle_empty_root                                                         *)
HandleEmptyRoot(S) ==
    IF S.st # "ok" THEN S
    ELSE LET R == S.pg[S.h.root] IN
         IF R.t = "int" /\ Len(R.ks) = 0 /\ Len(R.ch) = 1
         THEN Free(Mark([S EXCEPT !.h.root = R.ch[1]], "root_collapses"), S.h.root)
         ELSE S

(* BPlusTree::delete                                                         *)
DeleteOp(S, k) ==
    LET d == Descend(S, S.h.root, k, <<>>)
        n == S.pg[d.leaf]
    IN IF ~Has(n.ks, k) THEN Mark(S, "delete_absent")
       ELSE LET i  == Idx(n.ks, k)
                n2 == [n EXCEPT !.ks = RemoveAt(@, i), !.vs = RemoveAt(@, i), !.ov = RemoveAt(@, i)]
                S1 == IF n.ov[i] # 0 THEN FreeChain(Mark(S, "delete_frees_chain"), n.ov[i]) ELSE Mark(S, "delete_plain")
                S2 == WriteLeaf(S1, d.leaf, n2)
                S3 == IF Under(LeafSize(n2)) /\ Len(d.path) > 0 THEN HandleUnderflows(S2, d.path) ELSE S2
            IN HandleEmptyRoot(S3)

-----------------------------------------------------------------------------
(* Reads, as the code performs them                                          *)
ImplGet(S, k) ==
    LET n == S.pg[Descend(S, S.h.root, k, <<>>).leaf] IN
    IF Has(n.ks, k) THEN n.vs[Idx(n.ks, k)] ELSE Absent

RECURSIVE LeftMost(_, _)
LeftMost(S, p) == IF S.pg[p].t = "int" THEN LeftMost(S, S.pg[p].ch[1]) ELSE p
RECURSIVE RightMost(_, _)
RightMost(S, p) == IF S.pg[p].t = "int" THEN RightMost(S, Last(S.pg[p].ch)) ELSE p

(* leaf pages following `next` (dir = 1) or `prev` (dir = 0) links from p    *)
RECURSIVE Chain(_, _, _, _)
Chain(S, p, dir, fuel) ==
    IF p = 0 \/ fuel = 0 \/ p >= S.h.total THEN <<>>
    ELSE IF S.pg[p].t # "leaf" THEN <<>>
    ELSE <<p>> \o Chain(S, IF dir = 1 THEN S.pg[p].next ELSE S.pg[p].prev, dir, fuel - 1)

Cells(n, from, to) == [i \in 1..(IF to >= from THEN to - from + 1 ELSE 0) |-> <<n.ks[from + i - 1], n.vs[from + i - 1]>>]

RECURSIVE Concat(_)
Concat(ss) == IF Len(ss) = 0 THEN <<>> ELSE ss[1] \o Concat(Tail(ss))

(* Bounds: [kind |-> "unb" | "inc" | "exc", k |-> key]                       *)
UnbStart(lo) == lo.kind = "unb" \/ ("range_excl_empty" \in Quirks /\ KeyLen(lo.k) = 0)
ImplRange(S, lo, hi) ==
    LET startLeaf == IF UnbStart(lo) THEN LeftMost(S, S.h.root) ELSE Descend(S, S.h.root, lo.k, <<>>).leaf
        leaves    == Chain(S, startLeaf, 1, S.h.total)
        EndIdx(n) == IF hi.kind = "unb" THEN Len(n.ks)
                     ELSE IF hi.kind = "inc" THEN CountLe(n.ks, hi.k) ELSE CountLt(n.ks, hi.k)
        StartIdx(n) == IF UnbStart(lo) THEN 1
                       ELSE IF lo.kind = "inc" THEN CountLt(n.ks, lo.k) + 1 ELSE CountLe(n.ks, lo.k) + 1
    IN Concat([j \in 1..Len(leaves) |->
                 LET n == S.pg[leaves[j]] IN
                 Cells(n, IF j = 1 THEN StartIdx(n) ELSE 1, EndIdx(n))])

(* full scans with the cursor (BPlusTreeIterator): seek_first / seek_last    *)
(* skip empty leaves, next / prev cross one leaf boundary only               *)
RECURSIVE DropEmpty(_, _)
DropEmpty(S, leaves) ==
    IF Len(leaves) = 0 THEN <<>>
    ELSE IF Len(S.pg[leaves[1]].ks) = 0 THEN DropEmpty(S, Tail(leaves)) ELSE leaves
RECURSIVE UntilEmpty(_, _)
UntilEmpty(S, leaves) ==
    IF Len(leaves) = 0 THEN <<>>
    ELSE IF Len(S.pg[leaves[1]].ks) = 0 THEN <<>> ELSE <<leaves[1]>> \o UntilEmpty(S, Tail(leaves))
RECURSIVE NonEmpty(_, _)
NonEmpty(S, leaves) ==
    IF Len(leaves) = 0 THEN <<>>
    ELSE (IF Len(S.pg[leaves[1]].ks) = 0 THEN <<>> ELSE <<leaves[1]>>) \o NonEmpty(S, Tail(leaves))

Visited(S, leaves) ==
    IF "cursor_empty_leaf" \in Quirks THEN UntilEmpty(S, DropEmpty(S, leaves)) ELSE NonEmpty(S, leaves)

Reverse(s) == [i \in 1..Len(s) |-> s[Len(s) + 1 - i]]

ImplCursorFwd(S) ==
    LET vis == Visited(S, Chain(S, 1, 1, S.h.total))
    IN Concat([j \in 1..Len(vis) |-> Cells(S.pg[vis[j]], 1, Len(S.pg[vis[j]].ks))])
ImplCursorBack(S) ==      \* in visiting order (descending keys)
    LET vis == Visited(S, Chain(S, RightMost(S, S.h.root), 0, S.h.total))
    IN Concat([j \in 1..Len(vis) |-> Reverse(Cells(S.pg[vis[j]], 1, Len(S.pg[vis[j]].ks)))])

(* seek(k): position on the first entry >= k; <<>> when the cursor is invalid *)
ImplSeek(S, k) ==
    LET p == Descend(S, S.h.root, k, <<>>).leaf
        n == S.pg[p]
        i == CountLt(n.ks, k) + 1
    IN IF i <= Len(n.ks) THEN <<n.ks[i], n.vs[i]>>
       ELSE LET rest == Tail(Chain(S, p, 1, S.h.total))
                vis  == IF "cursor_empty_leaf" \in Quirks
                        THEN (IF Len(rest) = 0 THEN <<>> ELSE <<rest[1]>>)
                        ELSE DropEmpty(S, rest)
            IN IF Len(vis) = 0 \/ Len(S.pg[vis[1]].ks) = 0 THEN <<>>
               ELSE <<S.pg[vis[1]].ks[1], S.pg[vis[1]].vs[1]>>

-----------------------------------------------------------------------------
(* The same questions put to the ordered map (the property's side)           *)
SortedSeq(ks) ==      \* the elements of a finite set of naturals in ascending order
    IF ks = {} THEN <<>>
    ELSE LET mx == CHOOSE x \in ks : \A y \in ks : y <= x
         IN SelectSeq([i \in 1..mx |-> i], LAMBDA i : i \in ks)

InLo(lo, k) == lo.kind = "unb" \/ (lo.kind = "inc" /\ k >= lo.k) \/ (lo.kind = "exc" /\ k > lo.k)
InHi(hi, k) == hi.kind = "unb" \/ (hi.kind = "inc" /\ k <= hi.k) \/ (hi.kind = "exc" /\ k < hi.k)
AbsRangeOf(m, lo, hi) ==
    LET ks == SortedSeq({k \in Keys : m[k] # Absent /\ InLo(lo, k) /\ InHi(hi, k)})
    IN [i \in 1..Len(ks) |-> <<ks[i], m[ks[i]]>>]
Unb == [kind |-> "unb", k |-> 0]
AbsAllOf(m) == AbsRangeOf(m, Unb, Unb)
AbsSeekOf(m, k) ==
    LET ge == {x \in Keys : m[x] # Absent /\ x >= k}
    IN IF ge = {} THEN <<>> ELSE LET x == CHOOSE x \in ge : \A y \in ge : x <= y IN <<x, m[x]>>

-----------------------------------------------------------------------------
(* Page ledger                                                               *)
RECURSIVE NodePages(_, _, _)
NodePages(S, p, fuel) ==       \* pages of the nodes reachable from p, depth first
    IF fuel = 0 \/ p < 1 \/ p >= S.h.total THEN <<p>>
    ELSE LET n == S.pg[p] IN
         IF n.t = "int"
         THEN <<p>> \o Concat([i \in 1..Len(n.ch) |-> NodePages(S, n.ch[i], fuel - 1)])
         ELSE <<p>>

RECURSIVE OvfPages(_, _, _)
OvfPages(S, p, fuel) ==
    IF p = 0 \/ fuel = 0 \/ p >= S.h.total THEN <<>>
    ELSE IF S.pg[p].t # "ovf" THEN <<p>>
    ELSE <<p>> \o OvfPages(S, S.pg[p].next, fuel - 1)

ChainsOf(S, p) ==
    LET n == S.pg[p] IN
    IF n.t = "int" THEN Concat([i \in 1..Len(n.ks) |-> OvfPages(S, n.kov[i], S.h.total)])
    ELSE IF n.t = "leaf" THEN Concat([i \in 1..Len(n.ks) |-> OvfPages(S, n.ov[i], S.h.total)])
    ELSE <<>>

RECURSIVE TrunkPages(_, _, _)
TrunkPages(S, p, fuel) ==
    IF p = 0 \/ fuel = 0 \/ p >= S.h.total THEN <<>>
    ELSE IF S.pg[p].t # "trunk" THEN <<p>>
    ELSE <<p>> \o TrunkPages(S, S.pg[p].next, fuel - 1)

Ledger(S) ==
    LET nodes  == NodePages(S, S.h.root, S.h.total)
        ovf    == Concat([i \in 1..Len(nodes) |-> IF nodes[i] >= 1 /\ nodes[i] < S.h.total THEN ChainsOf(S, nodes[i]) ELSE <<>>])
        trunks == TrunkPages(S, S.h.trunk, S.h.total)
        free   == Concat([i \in 1..Len(trunks) |-> IF S.pg[trunks[i]].t = "trunk" THEN S.pg[trunks[i]].fp ELSE <<>>])
    IN [nodes |-> nodes, ovf |-> ovf, trunks |-> trunks, free |-> free]

RangeOf(s) == {s[i] : i \in 1..Len(s)}
LedgerOk(S) ==
    LET l   == Ledger(S)
        all == l.nodes \o l.ovf \o l.trunks \o l.free
    IN /\ RangeOf(all) = 1..(S.h.total - 1)                \* nothing lost, nothing out of range
       /\ Cardinality(RangeOf(all)) = Len(all)              \* nothing referenced twice
FreeCountOk(S) == S.h.fcount = Len(Ledger(S).free)

(* What can be decoded from the file alone: a key / cell that needs a chain  *)
(* must own a chain of the right length that holds its own bytes.            *)
RECURSIVE ChainOk(_, _, _, _, _)
ChainOk(S, p, tag, i, n) ==
    IF i > n THEN p = 0
    ELSE /\ p >= 1 /\ p < S.h.total
         /\ S.pg[p].t = "ovf" /\ S.pg[p].tag = tag /\ S.pg[p].i = i
         /\ ChainOk(S, S.pg[p].next, tag, i + 1, n)
NodeDiskOk(S, p) ==
    LET n == S.pg[p] IN
    IF n.t = "int"
    THEN \A i \in 1..Len(n.ks) : KeyNeeds(n.ks[i]) => ChainOk(S, n.kov[i], <<n.ks[i]>>, 1, KeyChain(n.ks[i]))
    ELSE IF n.t = "leaf"
    THEN \A i \in 1..Len(n.ks) : CellNeeds(n.ks[i], n.vs[i]) =>
             ChainOk(S, n.ov[i], <<n.ks[i], n.vs[i]>>, 1, CellChain(n.ks[i], n.vs[i]))
    ELSE FALSE
DiskOk(S) == \A p \in RangeOf(NodePages(S, S.h.root, S.h.total)) : p >= 1 /\ p < S.h.total /\ NodeDiskOk(S, p)

(* Mechanism: shape of a B+tree                                              *)
RECURSIVE SubtreeOk(_, _, _, _, _)
SubtreeOk(S, p, lo, hi, fuel) ==      \* keys of the subtree lie in [lo, hi)  (0 / 0 = unbounded)
    LET n == S.pg[p] IN
    /\ fuel > 0
    /\ \A i \in 1..Len(n.ks) : (lo = 0 \/ n.ks[i] >= lo) /\ (hi = 0 \/ n.ks[i] < hi)
    /\ \A i \in 1..(Len(n.ks) - 1) : n.ks[i] < n.ks[i + 1]
    /\ NodeSize(n) <= PageSize
    /\ IF n.t = "int"
       THEN /\ Len(n.ch) = Len(n.ks) + 1 /\ Len(n.kov) = Len(n.ks)
            /\ \A i \in 1..Len(n.ch) :
                 SubtreeOk(S, n.ch[i], IF i = 1 THEN lo ELSE n.ks[i - 1], IF i = Len(n.ch) THEN hi ELSE n.ks[i], fuel - 1)
       ELSE n.t = "leaf" /\ Len(n.vs) = Len(n.ks) /\ Len(n.ov) = Len(n.ks)
RECURSIVE LeavesOf(_, _)
LeavesOf(S, p) ==
    LET n == S.pg[p] IN
    IF n.t = "int" THEN Concat([i \in 1..Len(n.ch) |-> LeavesOf(S, n.ch[i])]) ELSE <<p>>
StructOk(S) ==
    /\ SubtreeOk(S, S.h.root, 0, 0, S.h.total)
    /\ Chain(S, 1, 1, S.h.total) = LeavesOf(S, S.h.root)
    /\ Reverse(Chain(S, RightMost(S, S.h.root), 0, S.h.total)) = LeavesOf(S, S.h.root)
EmptyLeafExists(S) == \E p \in RangeOf(LeavesOf(S, S.h.root)) : Len(S.pg[p].ks) = 0 /\ S.pg[S.h.root].t = "int"

-----------------------------------------------------------------------------
(* The state machine                                                         *)
Cur == [h |-> hdr, pg |-> pg, st |-> st, fd |-> fired, br |-> {}]
Commit(S) == hdr' = S.h /\ pg' = S.pg /\ st' = S.st /\ fired' = S.fd /\ br' = S.br

EmptyLeaf == [t |-> "leaf", ks |-> <<>>, vs |-> <<>>, ov |-> <<>>, next |-> 0, prev |-> 0]
EmptyStore == [h |-> [root |-> 1, total |-> 2, trunk |-> 0, fcount |-> 0],
               pg |-> [q \in 1..1 |-> EmptyLeaf], st |-> "ok", fd |-> {}, br |-> {}]
EmptyMap == [k \in Keys |-> Absent]

Init ==
    /\ hdr = EmptyStore.h /\ pg = EmptyStore.pg /\ st = "ok" /\ fired = {} /\ br = {}
    /\ map = EmptyMap

Insert(k, v) ==
    /\ st = "ok"
    /\ LET S == InsertOp(Cur, k, v) IN Commit(S)
    /\ map' = [map EXCEPT ![k] = v]

Delete(k) ==
    /\ st = "ok"
    /\ LET S == DeleteOp(Cur, k) IN Commit(S)
    /\ map' = [map EXCEPT ![k] = Absent]

(* close + open: nothing but the file survives.  All writes go through to    *)
(* the file at once, so the only thing that can differ is what the cached    *)
(* nodes hold in full and the file holds in pieces (keys / cells with        *)
(* overflow chains).                                                         *)
Reopen ==
    /\ st = "ok"
    /\ st' = IF DiskOk(Cur) THEN "ok" ELSE "corrupt"
    /\ br' = {"reopen"}
    /\ UNCHANGED <<hdr, pg, fired, map>>

(* reads do not change the state; their answers are the Impl* operators      *)
Get(k) == st = "ok" /\ UNCHANGED vars

-----------------------------------------------------------------------------
(* The property.  Each invariant allows exactly the states in which a quirk  *)
(* listed in `Quirks` has shown itself, so that other violations of the same *)
(* clause are still found.                                                   *)
Bounds == {Unb} \cup {[kind |-> kd, k |-> k] : kd \in {"inc", "exc"}, k \in Keys}
Proper(lo, hi) == lo.kind = "unb" \/ hi.kind = "unb" \/ lo.k < hi.k \/ (lo.k = hi.k /\ lo.kind = "inc" /\ hi.kind = "inc")

KnownRange(lo) == "range_excl_empty" \in Quirks /\ lo.kind = "exc" /\ KeyLen(lo.k) = 0
KnownCursor == "cursor_empty_leaf" \in Quirks /\ EmptyLeafExists(Cur)
KnownSep == "sep_chain" \in fired

Live == st = "ok"
StatusOk   == st \in {"ok"} \/ (st = "corrupt" /\ KnownSep)
GetOk      == Live => \A k \in Keys : ImplGet(Cur, k) = map[k]
RangeOkFor(B) == Live =>
                 LET all == AbsAllOf(map) IN
                 \A lo \in B, hi \in B :
                    Proper(lo, hi) =>
                       \/ ImplRange(Cur, lo, hi) = SelectSeq(all, LAMBDA e : InLo(lo, e[1]) /\ InHi(hi, e[1]))
                       \/ KnownRange(lo)
RangeOk    == RangeOkFor(Bounds)
StrictRangeOkFor(B) == Live =>           \* the same clause without the allowance for "range_excl_empty"
                 LET all == AbsAllOf(map) IN
                 \A lo \in B, hi \in B :
                    Proper(lo, hi) =>
                       ImplRange(Cur, lo, hi) = SelectSeq(all, LAMBDA e : InLo(lo, e[1]) /\ InHi(hi, e[1]))
CursorOkFor(P) == Live => \/ /\ ImplCursorFwd(Cur) = AbsAllOf(map)
                             /\ ImplCursorBack(Cur) = Reverse(AbsAllOf(map))
                             /\ \A k \in P : ImplSeek(Cur, k) = AbsSeekOf(map, k)
                          \/ KnownCursor
CursorOk   == CursorOkFor(Keys)
PagesOk    == Live => (LedgerOk(Cur) /\ FreeCountOk(Cur)) \/ KnownSep
PersistOk  == Live => DiskOk(Cur) \/ KnownSep
ShapeOk    == Live => StructOk(Cur)                    \* mechanism (Mech_): not part of the verdict
=============================================================================
