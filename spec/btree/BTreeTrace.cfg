CONSTANTS
    Keys <- TKeys
    KeyLen <- TKeyLen
    ValLen <- TValLen
    PageSize = 4096
    TrunkCap = 1020
    Quirks = {}
INIT TInit
NEXT TNext
INVARIANTS Obs_Point Obs_Scan Obs_Ledger
POSTCONDITION AllConsumed
CHECK_DEADLOCK FALSE
