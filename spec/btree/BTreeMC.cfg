\* Scenario "leaf" (see BTreeMC.tla). checks/c18.py derives the other scenarios and the
\* export / simulation variants from this file (vlib.tlc.cfg_variant).
CONSTANTS
    Scenario = "leaf"
    Keys = {1, 2, 3, 4, 5, 6, 7, 8}
    KeyLenSeq <- KL_small8
    ValLenSeq <- VL_std
    KeyLen <- MCKeyLen
    ValLen <- MCValLen
    PageSize = 4096
    TrunkCap = 1020
    Quirks = {}
    Pre <- Pre_empty
    ActKeys = {1, 2, 3, 4, 5, 6}
    ActClasses = {1, 2, 3, 4, 5}
    ProbeKeys = {1, 3, 6}
    MaxSteps = 2
INIT MCInit
NEXT MCNext
CONSTRAINT Bound
VIEW ViewNoSteps
INVARIANTS StatusOk GetOk RangeOkMC CursorOkMC PagesOk PersistOk ShapeOk
CHECK_DEADLOCK FALSE
