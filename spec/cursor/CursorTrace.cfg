INIT Init
NEXT Next
INVARIANTS Obs_Cursor Obs_OpenNeverPanics Pre_OnlySeeksAfterEnd
POSTCONDITION AllConsumed
ALIAS Where
CHECK_DEADLOCK FALSE
