\* Deeper exhaustive configuration (the `layers` stage of the thorough tier): no write-set, two rotations,
\* flushes and compactions, one version newer than the snapshot.  ~2.6 M transitions, 2-3 minutes with 8 workers.
\* checks/c09.py derives all its configurations from CursorMC.cfg; this file is for running TLC by hand.
CONSTANTS
    NKeys = 4
    DataKeys = {1, 2, 3}
    Kinds = {"Set", "Del"}
    WsKinds = {"Set", "Del"}
    BugNoneBound = FALSE
    BugInverted = FALSE
    BugSwitch = FALSE
    BugMemLast = FALSE
    MaxCommits = 2
    MaxLate = 1
    MaxWs = 0
    MaxRotate = 2
    MaxFlush = 2
    MaxCompact = 2
    MaxOpen = 1
    MaxProg = 8
    BoundPts = {2, 4}
    SeekPts = {1, 2, 3}
    MaxSteps = 11
INIT MCInit
NEXT MCNext
CONSTRAINT Bound
VIEW ViewNoSteps
INVARIANTS TypeOK CursorMatches OpenNeverPanics GhostSane SourcesSorted IndexInRange BufferedBackHasEntry
CHECK_DEADLOCK FALSE
