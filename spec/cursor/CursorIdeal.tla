----------------------------- MODULE CursorIdeal -----------------------------
(***************************************************************************)
(* The property C09 by itself, with no reference to any representation:    *)
(* an ideal cursor over L, the ascending list of the keys that are live in *)
(* the transaction's view and lie in [lo, hi), each with its current value.*)
(*                                                                         *)
(* Constant-level operators only; Cursor.tla (ghost side of the model) and *)
(* CursorTrace.tla (validation of traces recorded from the real engine)    *)
(* both build on them, so that "what the property demands" is written once.*)
(*                                                                         *)
(* A view is a function from keys (naturals, ordered as such) to value     *)
(* identities, 0 meaning "not live" (never written, deleted, soft-deleted, *)
(* or only written after the snapshot was taken).                          *)
(***************************************************************************)
EXTENDS Naturals, Sequences, FiniteSets

NoBound == 0                  \* a bound that is absent

RECURSIVE SortNat(_)
SortNat(S) ==
    IF S = {} THEN <<>>
    ELSE LET m == CHOOSE x \in S : \A y \in S : x <= y
         IN <<m>> \o SortNat(S \ {m})

(* [l, h): start inclusive, end exclusive, either side may be absent.  An empty or inverted
   range simply contains nothing. *)
InRangeOf(k, l, h) == (l = NoBound \/ k >= l) /\ (h = NoBound \/ k < h)

(* L of the statement *)
IdealList(view, l, h) ==
    LET ks == SortNat({k \in DOMAIN view : view[k] # 0 /\ InRangeOf(k, l, h)})
    IN [i \in 1..Len(ks) |-> [k |-> ks[i], v |-> view[ks[i]]]]

(* positions: 0 = before the first entry, Len(L)+1 = after the last *)
IdealValid(L, p) == p >= 1 /\ p <= Len(L)
IdealInvalid == [valid |-> FALSE, k |-> 0, v |-> 0]
IdealOut(L, p) == IF IdealValid(L, p) THEN [valid |-> TRUE, k |-> L[p].k, v |-> L[p].v] ELSE IdealInvalid

IdealSeek(L, t) == 1 + Cardinality({j \in 1..Len(L) : L[j].k < t})      \* first entry with key >= t
IdealFirst(L)   == 1
IdealLast(L)    == Len(L)
IdealNext(L, p) == p + 1      \* only asked for while IdealValid(L, p): the property's precondition
IdealPrev(L, p) == p - 1

(* the statement's list is well formed: ascending, inside the bounds, live, complete *)
IdealListSane(L, view, l, h) ==
    /\ \A i \in 1..Len(L) : InRangeOf(L[i].k, l, h) /\ view[L[i].k] = L[i].v /\ L[i].v # 0
    /\ \A i \in 1..(Len(L) - 1) : L[i].k < L[i + 1].k
    /\ \A k \in DOMAIN view : (view[k] # 0 /\ InRangeOf(k, l, h)) => \E i \in 1..Len(L) : L[i].k = k
=============================================================================
