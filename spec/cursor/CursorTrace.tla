----------------------------- MODULE CursorTrace -----------------------------
(***************************************************************************)
(* Implementation -> spec: validates a log of observations recorded by the *)
(* driver `cursor_run random --trace FILE` from the REAL engine against    *)
(* the ideal cursor of CursorIdeal (the same operators the ghost side of   *)
(* Cursor.tla uses).                                                       *)
(*                                                                         *)
(* The log is NDJSON, one event per line:                                  *)
(*   {"e":"reset","nkeys":n}              a new case: fresh tree, keys 1..n *)
(*   {"e":"commit","k":k,"kind":kd}       one committed version; its value  *)
(*                                        identity is its ordinal in the case*)
(*   {"e":"begin"}                        the transaction under test begins *)
(*   {"e":"ws","k":k,"kind":kd,"v":id}    pending write of that transaction *)
(*   {"e":"open","lo":l,"hi":h,"res":r}   range cursor opened (0 = absent   *)
(*                                        bound), r = "ok" | "panic"        *)
(*   {"e":"call","op":o,"t":t,"valid":b,"k":k,"v":id}                       *)
(*                                        o in seek|first|last|next|prev and *)
(*                                        what valid()/key()/value() showed  *)
(*                                        right after it                     *)
(*                                                                         *)
(* The observer is total: every line is consumed by exactly one disjunct   *)
(* (unknown events stutter), so a rejected log always has a counterexample *)
(* that names the line.  All judgement is in the invariants:               *)
(*   Obs_Cursor, Obs_OpenNeverPanics   the property on the real outputs     *)
(*   Pre_OnlySeeksAfterEnd             the log respects the property's      *)
(*                                     precondition (else: tool trouble)    *)
(* and the POSTCONDITION checks that every line was consumed.              *)
(***************************************************************************)
EXTENDS CursorIdeal, Integers, TLC, Json, IOUtils

Rec == ndJsonDeserialize(IOEnv.TRACE)
N   == Len(Rec)

VARIABLES
    i,          \* index of the next line
    nk,         \* keys of the current case are 1..nk
    snapv,      \* key -> [kind, v]: newest version committed before `begin` ("None": none)
    nseq,       \* versions committed so far in this case
    begun,      \* the transaction under test has begun: later commits are not in its view
    wsv,        \* key -> [kind, v]: last pending write of the transaction under test
    lo, hi,     \* bounds of the open cursor (0 = absent)
    gl,         \* L for these bounds (fixed while the cursor is open)
    pos,        \* ideal cursor
    obs         \* what the line just consumed reported, next to what the property demands
tvars == <<i, nk, snapv, nseq, begun, wsv, lo, hi, gl, pos, obs>>

NoVer == [kind |-> "None", v |-> 0]
NoObs == [kind |-> "none"]

(* the view of the transaction under test: own pending write, else the snapshot *)
LiveKind(kd) == kd \in {"Set", "Replace"}          \* Del / SoftDel hide the key
ViewOf(s, w) == [k \in DOMAIN s |->
                    IF w[k].kind # "None" THEN (IF LiveKind(w[k].kind) THEN w[k].v ELSE 0)
                    ELSE IF LiveKind(s[k].kind) THEN s[k].v ELSE 0]

Init ==
    /\ i = 1 /\ nk = 0 /\ snapv = <<>> /\ nseq = 0 /\ begun = FALSE /\ wsv = <<>>
    /\ lo = 0 /\ hi = 0 /\ gl = <<>> /\ pos = 0 /\ obs = NoObs

Reset(e) ==
    /\ nk' = e.nkeys
    /\ snapv' = [k \in 1..e.nkeys |-> NoVer] /\ wsv' = [k \in 1..e.nkeys |-> NoVer]
    /\ nseq' = 0 /\ begun' = FALSE /\ lo' = 0 /\ hi' = 0 /\ gl' = <<>> /\ pos' = 0 /\ obs' = NoObs

Commit(e) ==
    /\ nseq' = nseq + 1
    /\ snapv' = IF begun THEN snapv ELSE [snapv EXCEPT ![e.k] = [kind |-> e.kind, v |-> nseq + 1]]
    /\ obs' = NoObs
    /\ UNCHANGED <<nk, begun, wsv, lo, hi, gl, pos>>

Begin(e) ==
    /\ begun' = TRUE /\ obs' = NoObs
    /\ UNCHANGED <<nk, snapv, nseq, wsv, lo, hi, gl, pos>>

WsWrite(e) ==
    /\ wsv' = [wsv EXCEPT ![e.k] = [kind |-> e.kind, v |-> e.v]]
    /\ obs' = NoObs
    /\ UNCHANGED <<nk, snapv, nseq, begun, lo, hi, gl, pos>>

Open(e) ==
    /\ lo' = e.lo /\ hi' = e.hi
    /\ gl' = IdealList(ViewOf(snapv, wsv), e.lo, e.hi)
    /\ pos' = 0
    /\ obs' = [kind |-> "open", res |-> e.res]
    /\ UNCHANGED <<nk, snapv, nseq, begun, wsv>>

Call(e) ==
    LET p == CASE e.op = "seek"  -> IdealSeek(gl, e.t)
               [] e.op = "first" -> IdealFirst(gl)
               [] e.op = "last"  -> IdealLast(gl)
               [] e.op = "next"  -> IdealNext(gl, pos)
               [] e.op = "prev"  -> IdealPrev(gl, pos)
               [] OTHER          -> pos
    IN /\ pos' = p
       /\ obs' = [kind |-> "call",
                  got  |-> IF e.valid THEN [valid |-> TRUE, k |-> e.k, v |-> e.v] ELSE IdealInvalid,
                  want |-> IdealOut(gl, p),
                  pre  |-> /\ (e.op \in {"next", "prev"}) => IdealValid(gl, pos)
                           /\ (e.op = "seek") => InRangeOf(e.t, lo, hi)]
       /\ UNCHANGED <<nk, snapv, nseq, begun, wsv, lo, hi, gl>>

Next ==
    /\ i <= N
    /\ i' = i + 1
    /\ LET e == Rec[i] IN
       CASE e.e = "reset"  -> Reset(e)
         [] e.e = "commit" -> Commit(e)
         [] e.e = "begin"  -> Begin(e)
         [] e.e = "ws"     -> WsWrite(e)
         [] e.e = "open"   -> Open(e)
         [] e.e = "call"   -> Call(e)
         [] OTHER          -> obs' = NoObs /\ UNCHANGED <<nk, snapv, nseq, begun, wsv, lo, hi, gl, pos>>

Spec == Init /\ [][Next]_tvars

-----------------------------------------------------------------------------
(* C09 on the recorded outputs of the real engine *)
Obs_Cursor          == obs.kind = "call" => obs.got = obs.want
Obs_OpenNeverPanics == obs.kind = "open" => obs.res = "ok"
(* the log itself keeps to the property's preconditions *)
Pre_OnlySeeksAfterEnd == obs.kind = "call" => obs.pre

(* every line was consumed *)
AllConsumed == TLCGet("distinct") = N + 1

(* counterexample rendering: the offending line *)
Where == [line |-> i - 1, obs |-> obs, bounds |-> <<lo, hi>>, L |-> gl, pos |-> pos]
=============================================================================
