CONSTANTS
    NKeys = 4
    DataKeys = {1, 2, 3}
    Kinds = {"Set", "Del"}
    WsKinds = {"Set", "Del"}
    BugNoneBound = TRUE
    BugInverted = TRUE
    BugSwitch = TRUE
    BugMemLast = TRUE
    MaxCommits = 2
    MaxLate = 0
    MaxWs = 1
    MaxRotate = 1
    MaxFlush = 1
    MaxCompact = 0
    MaxOpen = 1
    MaxProg = 8
    BoundPts = {2, 4}
    SeekPts = {1, 2, 3}
    MaxSteps = 9
INIT MCInit
NEXT MCNext
CONSTRAINT Bound
VIEW ViewNoSteps
INVARIANTS TypeOK CursorMatches OpenNeverPanics GhostSane SourcesSorted IndexInRange BufferedBackHasEntry
CHECK_DEADLOCK FALSE
