\* Quick exhaustive configuration (`mix`): memtables + one table + one pending write, all shapes of bounds.
\* The Bug* constants: FALSE = the repaired code (fix: commits 903f243 2110a3e 70f768e a440a8a), TRUE = the pinned
\* commit.  checks/c09.py sets them from a probe of the code under test, runs the pinned variant as a teeth stage, and derives the other stages (overlay, layers, late, sim) by substitution.
CONSTANTS
    NKeys = 4
    DataKeys = {1, 2, 3}
    Kinds = {"Set", "Del"}
    WsKinds = {"Set", "Del"}
    BugNoneBound = FALSE
    BugInverted = FALSE
    BugSwitch = FALSE
    BugMemLast = FALSE
    MaxCommits = 2
    MaxLate = 0
    MaxWs = 1
    MaxRotate = 1
    MaxFlush = 1
    MaxCompact = 0
    MaxOpen = 1
    MaxProg = 8
    BoundPts = {2, 4}
    SeekPts = {1, 2, 3}
    MaxSteps = 9
INIT MCInit
NEXT MCNext
CONSTRAINT Bound
VIEW ViewNoSteps
INVARIANTS TypeOK CursorMatches OpenNeverPanics GhostSane SourcesSorted IndexInRange BufferedBackHasEntry
CHECK_DEADLOCK FALSE
