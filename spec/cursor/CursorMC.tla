------------------------------ MODULE CursorMC ------------------------------
(* Bounded instance of Cursor for exhaustive checking, and exporter of one     *)
(* replayable case (layout recipe, bounds, cursor program with the expected     *)
(* observation after every call) per explored transition: spec -> implementation *)
EXTENDS Cursor, Json

CONSTANTS
    MaxCommits,     \* committed versions before Begin
    MaxLate,        \* versions committed after Begin (invisible to the cursor)
    MaxWs,          \* pending writes of the transaction under test
    MaxRotate,      \* rotations (each makes one immutable memtable)
    MaxFlush,       \* flushes (each makes one L0 table)
    MaxCompact,     \* compaction rounds
    MaxOpen,        \* cursors opened one after the other on the same transaction
    MaxProg,        \* calls per cursor
    BoundPts,       \* values a present bound may take (subset of Keys)
    SeekPts,        \* seek targets (subset of Keys)
    MaxSteps

VARIABLES ops, steps, nRot, nFlush, nCompact, nOpen, nProg
mcvars == <<vars, ops, steps, nRot, nFlush, nCompact, nOpen, nProg>>

(* One logged step, as a compact tuple (the driver reads these):
     layout   <<"commit", k, kind>>  <<"rotate">>  <<"flush">>  <<"compact", level>>  <<"begin">>
              <<"ws", k, value id, kind>>
     cursor   <<"open", lo, hi, "Ok" | "Panic", taint>>   <<"close">>
              <<call, target, exp.valid, exp.k, exp.v, pred.valid, pred.k, pred.v, taint>>
   exp  = the observation the property demands after the call (ideal cursor)
   pred = the observation the implementation-shaped machine predicts
   taint = class of the known defect the call runs into, or ""  *)
B(x) == IF x THEN 1 ELSE 0
CRec(op, a) == LET e == GhostOut'  p == ImplOut(cs')
               IN <<op, a, B(e.valid), e.k, e.v, B(p.valid), p.k, p.v, taint'>>
ORec(l, h) == <<"open", l, h, IF phase' = "dead" THEN "Panic" ELSE "Ok", taint'>>

Log(r) == ops' = Append(ops, r) /\ steps' = steps + 1
Cnt(dr, df, dc, dop, dp) ==
    /\ nRot' = nRot + dr /\ nFlush' = nFlush + df /\ nCompact' = nCompact + dc
    /\ nOpen' = nOpen + dop /\ nProg' = dp

MCInit == Init /\ ops = <<>> /\ steps = 0 /\ nRot = 0 /\ nFlush = 0 /\ nCompact = 0 /\ nOpen = 0 /\ nProg = 0

NCommitted == nextSeq - 1
NLate      == IF phase = "load" THEN 0 ELSE nextSeq - 1 - snapSeq

(* the layout (and the transaction's pending writes) is complete before the first cursor is opened *)
MCStep ==
    \/ \E k \in DataKeys, kd \in Kinds :
         /\ nOpen = 0
         /\ IF phase = "load" THEN NCommitted < MaxCommits ELSE NLate < MaxLate
         /\ Commit(k, kd) /\ Log(<<"commit", k, kd>>) /\ Cnt(0, 0, 0, 0, 0)
    \/ /\ nRot < MaxRotate /\ nOpen = 0
       /\ Rotate /\ Log(<<"rotate">>) /\ Cnt(1, 0, 0, 0, 0)
    \/ /\ nFlush < MaxFlush /\ nOpen = 0
       /\ Flush /\ Log(<<"flush">>) /\ Cnt(0, 1, 0, 0, 0)
    \/ /\ nCompact < MaxCompact
       /\ Compact0 /\ Log(<<"compact", 0>>) /\ Cnt(0, 0, 1, 0, 0)
    \/ /\ nCompact < MaxCompact
       /\ Compact1 /\ Log(<<"compact", 1>>) /\ Cnt(0, 0, 1, 0, 0)
    \/ Begin /\ Log(<<"begin">>) /\ Cnt(0, 0, 0, 0, 0)
    \/ \E k \in DataKeys, kd \in WsKinds :
         /\ wsCount < MaxWs /\ nOpen = 0
         /\ WsWrite(k, kd) /\ Log(<<"ws", k, WsValBase + wsCount + 1, kd>>) /\ Cnt(0, 0, 0, 0, 0)
    \/ \E l, h \in {NoBound} \cup BoundPts :
         /\ nOpen < MaxOpen
         /\ Open(l, h) /\ Log(ORec(l, h)) /\ Cnt(0, 0, 0, 1, 0)
    \/ /\ nProg < MaxProg
       /\ \/ \E t \in SeekPts : Seek(t) /\ Log(CRec("seek", t))
          \/ SeekFirst /\ Log(CRec("first", 0))
          \/ SeekLast /\ Log(CRec("last", 0))
          \/ Next /\ Log(CRec("next", 0))
          \/ Prev /\ Log(CRec("prev", 0))
       /\ Cnt(0, 0, 0, 0, nProg + 1)

(* A behaviour that has run into a known defect is not continued (the state of the real cursor is
   undefined from there on): the cursor can only be dropped. *)
Clean == taint = "" /\ phase # "dead"

MCNext ==
    \/ /\ Clean \/ (phase = "cursor" /\ nProg = 0)      \* a cursor opened with defective bounds gets one call
       /\ MCStep
    \/ /\ nOpen < MaxOpen
       /\ Close /\ Log(<<"close">>) /\ Cnt(0, 0, 0, 0, 0)

Bound == steps <= MaxSteps

(* the layout the spec predicts, for the conformance comparison with Tree::verif_state() *)
(* <<entries in the active memtable, <<entries per immutable memtable>>, L0, L1, L2>>, a level being a
   sequence of <<smallest key, largest key, entries>> *)
TabInfo(T) == <<MinK(T), MaxK(T), Cardinality(T)>>
LayoutOf == <<Cardinality(active),
              [i \in 1..Len(imms) |-> Cardinality(imms[i])],
              [i \in 1..Len(lv[0]) |-> TabInfo(lv[0][i])],
              [i \in 1..Len(lv[1]) |-> TabInfo(lv[1][i])],
              [i \in 1..Len(lv[2]) |-> TabInfo(lv[2][i])]>>

(* Exported once per explored transition.  `ops` and the counters are hidden from the state
   fingerprint by the VIEW, so every distinct state is expanded once and the printed cases are an
   edge cover of the state graph.
   live   = value identity of every key in the transaction's view after the last step (0 = absent):
            what a full scan in either direction and every get() must show
   layout = predicted physical layout *)
Export ==
    PrintT("REPLAY " \o ToJson([ops    |-> ops',
                                 live   |-> [k \in Keys |-> LiveVal(k)'],
                                 layout |-> LayoutOf',
                                 nkeys  |-> NKeys]))

(* compact rendering of counterexamples (ALIAS in the .cfg) *)
Brief == [last |-> IF ops = <<>> THEN <<>> ELSE ops[Len(ops)],
          impl |-> ImplOut(cs), ghost |-> GhostOut, bounds |-> <<lo, hi>>, taint |-> taint,
          srcs |-> its, wsq |-> wsq, snap |-> snapSeq,
          c |-> <<cs.src, cs.win, cs.kdir, cs.sdir, cs.hasBuf, cs.hasCur, cs.wpos, cs.keyEq, cs.csrc, cs.tdir>>]

View == <<vars, steps>>
ViewNoSteps == vars
=============================================================================
