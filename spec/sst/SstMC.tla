------------------------------- MODULE SstMC --------------------------------
(* Bounded instance of Sst for exhaustive checking, and exporter             *)
(* (spec -> implementation, driver: harness/src/bin/sst_run.rs):             *)
(*  - one SSTCASE line per finished table = per (entry set, placement of the *)
(*    block and partition cuts) TLC explores, with what the *property* says  *)
(*    every lookup, every range-bounded scan and every range shortcut must   *)
(*    answer on it;                                                          *)
(*  - one SSTPROG line per explored cursor transition: the table, the        *)
(*    bounds and the operation sequence with the entry the cursor must stand *)
(*    on after every operation.  `hist` is hidden by the VIEW, so every      *)
(*    distinct cursor state is expanded once and the printed programs are    *)
(*    an edge cover of the cursor's state graph on that table.               *)
EXTENDS Sst, Json

CONSTANTS
    TargetSeq,    \* the lookup / seek user keys, as a sequence (fixes the export order)
    SnapSeq,      \* the lookup / seek sequence numbers, as a sequence
    BoundKeySeq,  \* the user keys used in bounds, as a sequence
    MaxOps,       \* cursor operations per program (0 = no cursor is opened)
    MinEntries,   \* finish() only once the table has this many entries (or nothing larger is left)
    Stride,       \* 0, or: add() only one of the next Stride keys of the universe (long tables in -simulate)
    CutMin        \* a block is cut only once it holds CutMin entries (1 = anywhere; large blocks in -simulate)

VARIABLES hist
mcvars == <<vars, hist>>

(* Universes (a .cfg cannot hold tuples; it picks one of these by name).      *)
(* The byte strings are chosen for the relations the shortened separators    *)
(* depend on: a prefix of another key, a 0x00 / 0xff continuation, adjacent   *)
(* first bytes (0x61/0x62), the largest byte.                                 *)
UK3  == {<<97>>, <<97, 255>>, <<98>>}
UK4  == {<<97>>, <<97, 0>>, <<97, 255>>, <<98>>}
UK5  == {<<97>>, <<97, 0>>, <<97, 255>>, <<98>>, <<255>>}
UK7  == {<<97>>, <<97, 0>>, <<97, 255>>, <<97, 255, 255>>, <<98>>, <<98, 0>>, <<255>>}
T5   == <<<<0>>, <<97>>, <<97, 255>>, <<98>>, <<99>>>>
T9   == <<<<0>>, <<97>>, <<97, 0>>, <<97, 1>>, <<97, 255>>, <<98>>, <<99>>, <<255>>, <<255, 255>>>>
T12  == <<<<0>>, <<97>>, <<97, 0>>, <<97, 1>>, <<97, 255>>, <<97, 255, 255>>, <<98>>, <<98, 0>>, <<99>>,
          <<254>>, <<255>>, <<255, 255>>>>
B2   == <<<<97, 255>>, <<98>>>>
B3   == <<<<97>>, <<97, 1>>, <<98>>>>
B4   == <<<<97>>, <<97, 1>>, <<98>>, <<255>>>>
S3   == <<1, 2, 9>>
S2   == <<1, 9>>
S5   == <<0, 1, 2, 3, 9>>
S7   == <<0, 1, 2, 3, 4, 5, 9>>
T4   == <<<<0>>, <<97>>, <<97, 255>>, <<99>>>>

SeqRange(s) == {s[i] : i \in 1..Len(s)}
MCTargets   == SeqRange(TargetSeq)
MCSnaps     == SeqRange(SnapSeq)
MCBoundKeys == SeqRange(BoundKeySeq)

BoundSeq == <<Unb>> \o [i \in 1..Len(BoundKeySeq) |-> Inc(BoundKeySeq[i])]
                    \o [i \in 1..Len(BoundKeySeq) |-> Exc(BoundKeySeq[i])]

Rec(op, k, s, want) == [op |-> op, k |-> k, s |-> s, want |-> want]
Log(r) == hist' = Append(hist, r)

MCInit == Init /\ hist = <<>>

Universe == {IKey(uk, sq) : uk \in UserKeys, sq \in Seqs}
After(e) == IF E = <<>> THEN Universe ELSE {x \in Universe : ILess(Last(E), x)}
Near(e) == IF Stride = 0 THEN TRUE ELSE Cardinality({x \in After(e) : ILess(x, e)}) < Stride
MayFinish == IF Len(E) >= MinEntries THEN TRUE ELSE After(0) = {}

MCNext ==
    \/ /\ \E e \in Universe, bcut \in BOOLEAN, pcut \in BOOLEAN : Near(e) /\ (IF bcut THEN Len(cur) >= CutMin ELSE TRUE) /\ Add(e, bcut, pcut)
       /\ UNCHANGED hist
    \/ /\ MayFinish
       /\ \E pcut \in BOOLEAN : Finish(pcut)
       /\ UNCHANGED hist
    \/ /\ MaxOps > 0
       /\ \E lo \in BoundSet, hi \in BoundSet : OpenIter(lo, hi)
       /\ UNCHANGED hist
    \/ CSeekFirst /\ Log(Rec("SeekFirst", <<>>, 0, gpos'))
    \/ CSeekLast  /\ Log(Rec("SeekLast", <<>>, 0, gpos'))
    \/ CNext      /\ Log(Rec("Next", <<>>, 0, gpos'))
    \/ CPrev      /\ Log(Rec("Prev", <<>>, 0, gpos'))
    \/ \E k \in Targets, s \in Snaps : CSeek(k, s) /\ Log(Rec("Seek", k, s, gpos'))

Bound == Len(hist) <= MaxOps

View == vars

-----------------------------------------------------------------------------
(* What the property prescribes on the finished table (probe observations).  *)
WantGets == [i \in 1..Len(TargetSeq) |-> [j \in 1..Len(SnapSeq) |-> SpecGet(TargetSeq[i], SnapSeq[j])]]
(* per (lo, hi): first and last entry inside the range (0 = none); the sets   *)
(* of entries admitted by each bound are computed once per bound             *)
WantRanges ==
    LET N  == 1..Len(E)
        LoOK == [i \in 1..Len(BoundSeq) |-> {n \in N : SatLower(E[n].uk, BoundSeq[i])}]
        HiOK == [j \in 1..Len(BoundSeq) |-> {n \in N : SatUpper(E[n].uk, BoundSeq[j])}]
    IN  [i \in 1..Len(BoundSeq) |-> [j \in 1..Len(BoundSeq) |->
            LET C == LoOK[i] \cap HiOK[j] IN IF C = {} THEN <<0, 0>> ELSE <<SetMin(C), SetMax(C)>>]]
(* per target user key and snapshot: first entry >= (k, s) (0 = none)        *)
WantSeeks == [i \in 1..Len(TargetSeq) |-> [j \in 1..Len(SnapSeq) |->
                  LET C == {n \in 1..Len(E) : ~ILess(E[n], IKey(TargetSeq[i], SnapSeq[j]))}
                  IN  IF C = {} THEN 0 ELSE SetMin(C)]]

Layout == [blocks |-> dblocks,
           parts  |-> [p \in 1..Len(parts) |-> [j \in 1..Len(parts[p]) |-> parts[p][j].blk]],
           seps   |-> [p \in 1..Len(parts) |-> [j \in 1..Len(parts[p]) |-> parts[p][j].sep]],
           top    |-> [p \in 1..Len(top) |-> top[p].sep]]

TableLine == [restart |-> restart, E |-> E, layout |-> Layout,
              T |-> TargetSeq, S |-> SnapSeq, B |-> BoundSeq, maxver |-> MaxVer,
              gets |-> WantGets, seeks |-> WantSeeks, ranges |-> WantRanges]

(* Tables are exported from an invariant (evaluated once per distinct state, on the   *)
(* unprimed state: priming the probe operators makes TLC several times slower),       *)
(* programs from an action constraint (once per explored transition).                 *)
ExportTables == phase = "open" => PrintT("SSTCASE " \o ToJson(TableLine))

ExportProgs ==
    IF phase = "iter"
    THEN PrintT("SSTPROG " \o ToJson([restart |-> restart, E |-> E, maxver |-> MaxVer,
                                       layout |-> [blocks |-> Layout.blocks, parts |-> Layout.parts],
                                       lo |-> range.lo, hi |-> range.hi, ops |-> hist']))
    ELSE TRUE
=============================================================================
