-------------------------------- MODULE Sst ---------------------------------
(***************************************************************************)
(* A surrealkv sorted table (src/sstable/{table,block,index_block,         *)
(* filter_block,meta}.rs), written once and then read.                     *)
(*                                                                         *)
(* Implementation shaped:                                                  *)
(*  - the writer (TableWriter::add / write_data_block / finish,            *)
(*    IndexWriter::add / finish) cuts the ordered entries into data blocks *)
(*    and the index entries into partitions.  *Where* it cuts depends on   *)
(*    byte sizes (block_size, index_partition_size, value sizes), which    *)
(*    the spec does not carry: every placement of the cuts is allowed      *)
(*    (parameters bcut / pcut of Add and Finish).                          *)
(*  - every data block gets the index key ISep(last key, next key) (the    *)
(*    final one ISucc(last key)) - the code's *shortened* separators from  *)
(*    Separator.tla (for the final block: ISep(last, ISucc(last))); the    *)
(*    top-level index holds, per partition, the last                       *)
(*    separator of the partition.                                          *)
(*  - a block is searched the way BlockIterator does it: binary search     *)
(*    over the restart points, then a linear scan; stepping backwards      *)
(*    re-scans from a restart point (BI.. operators).                     *)
(*  - Table::get follows filter -> top-level index -> partition -> block   *)
(*    seek and never looks into the following block (ImplGet).             *)
(*  - TableIterator is the two-level cursor with                           *)
(*    advance_to_valid_entry / retreat_to_valid_entry and the              *)
(*    `exhausted` flag (operators T..).                                    *)
(*  - Table::is_before_range / is_after_range / is_key_in_key_range use    *)
(*    smallest_point / largest_point of the metadata block.                *)
(*                                                                         *)
(* Ghost side (the property, C13): `E`, the sequence of entries that was   *)
(* written, and `gpos`, the place in E where a cursor over a sorted list   *)
(* stands.  The invariants say that what the representation answers is     *)
(* what the sorted list E answers, for every placement of the cuts.        *)
(***************************************************************************)
EXTENDS Separator, TLC

CONSTANTS
    UserKeys,     \* byte strings that may be written as user keys
    Seqs,         \* sequence numbers that may be written
    Targets,      \* user keys used in lookups, seeks and range bounds (includes absent ones)
    Snaps,        \* sequence numbers used in lookups and seeks
    BoundKeys,    \* user keys used in range bounds (subset of Targets)
    Restarts,     \* values of Options::block_restart_interval
    MaxEntries    \* bound on the number of entries of a table (model bound only)

VARIABLES
    phase,      \* "writing" | "open" | "iter"
    restart,    \* block_restart_interval of this table
    E,          \* ghost: the entries written so far, in order; entry = IKey(uk, seq)
    cur,        \* TableWriter::data_block      : entry numbers in the block being built
    dblocks,    \* data blocks already written  : Seq(Seq(entry number))
    curPart,    \* IndexWriter::current_block   : Seq([sep, blk])
    parts,      \* IndexWriter::index_blocks    : finished partitions
    top,        \* top-level index (after finish): Seq([sep, part])
    fkeys,      \* user keys handed to the filter block
    meta,       \* [smallest, largest : entry number (0 = none), minSeq, maxSeq]
    range,      \* cursor: [lo, hi] user-key bounds of the TableIterator
    st,         \* cursor: TableIterator state [fl, sl, exhausted]
    fresh,      \* ghost : the cursor has not been positioned yet
    gpos        \* ghost : entry number the cursor must stand on (0 = not valid)

tvars == <<phase, restart, E, cur, dblocks, curPart, parts, top, fkeys, meta>>
cvars == <<range, st, fresh, gpos>>
vars  == <<tvars, cvars>>

Last(s) == s[Len(s)]
SetMax(S) == CHOOSE x \in S : \A y \in S : y <= x

-----------------------------------------------------------------------------
(* Range bounds (Bound<InternalKey> built by user_range_to_internal_range).  *)
Unb     == [t |-> "U", k |-> <<>>]
Inc(k)  == [t |-> "I", k |-> k]
Exc(k)  == [t |-> "E", k |-> k]
BoundSet == {Unb} \cup {Inc(k) : k \in BoundKeys} \cup {Exc(k) : k \in BoundKeys}

(* TableIterator::satisfies_lower_bound / satisfies_upper_bound              *)
SatLower(uk, lo) == CASE lo.t = "U" -> TRUE
                      [] lo.t = "I" -> ~LexLess(uk, lo.k)
                      [] lo.t = "E" -> LexLess(lo.k, uk)
SatUpper(uk, hi) == CASE hi.t = "U" -> TRUE
                      [] hi.t = "I" -> ~LexLess(hi.k, uk)
                      [] hi.t = "E" -> LexLess(uk, hi.k)
InRange(uk, lo, hi) == SatLower(uk, lo) /\ SatUpper(uk, hi)

-----------------------------------------------------------------------------
(* BlockIterator over a block whose keys are the sequence ks, restart        *)
(* interval r.  Entry numbers stand for byte offsets:                        *)
(*   cur  entry the iterator stands on, 0 = `current_key` empty (not valid)  *)
(*   off  `offset`: the entry decoded next                                   *)
(*   ceo  `current_entry_offset`                                             *)
(*   ri   `current_restart_index` (1-based here)                             *)
NumRestarts(n, r) == IF n = 0 THEN 1 ELSE (n + r - 1) \div r
RestartPt(j, r)   == (j - 1) * r + 1              \* entry number of the j-th restart point

BINew == [cur |-> 0, off |-> 1, ceo |-> 1, ri |-> 1]
BIValid(it) == it.cur # 0
(* reset(): `current_entry_offset` keeps its old value                        *)
BIReset(it) == [cur |-> 0, off |-> 1, ceo |-> it.ceo, ri |-> 1]

(* advance(): note that after a reset() it starts over at the first entry     *)
BIAdvance(ks, it) ==
    IF it.off > Len(ks) THEN BIReset(it)
    ELSE [cur |-> it.off, off |-> it.off + 1, ceo |-> it.off, ri |-> it.ri]

BISeekToFirst(ks) ==
    IF Len(ks) = 0 THEN BIReset([BINew EXCEPT !.ceo = 1])
    ELSE [cur |-> 1, off |-> 2, ceo |-> 1, ri |-> 1]

BISeekToLast(ks, r) ==
    LET n == Len(ks) IN
    IF n = 0 THEN [cur |-> 0, off |-> 1, ceo |-> 1, ri |-> 1]
    ELSE [cur |-> n, off |-> n + 1, ceo |-> n, ri |-> NumRestarts(n, r)]

(* binary search over the restart points: last one whose key < target        *)
RECURSIVE BinSearch(_, _, _, _, _)
BinSearch(ks, r, target, left, right) ==
    IF left >= right THEN left
    ELSE LET mid == (left + right + 1) \div 2            \* div_ceil
         IN  IF ILess(ks[RestartPt(mid, r)], target)
             THEN BinSearch(ks, r, target, mid, right)
             ELSE BinSearch(ks, r, target, left, mid - 1)

(* seek_internal(target): first entry >= target, scanning from a restart pt  *)
BISeek(ks, r, target) ==
    LET n    == Len(ks)
        left == BinSearch(ks, r, target, 1, NumRestarts(n, r))
        from == RestartPt(left, r)
        C    == {j \in from..n : ~ILess(ks[j], target)}
    IN  IF C = {}
        THEN [cur |-> 0, off |-> 1, ceo |-> IF n = 0 THEN from ELSE n, ri |-> 1]   \* ran off the end: reset()
        ELSE LET j == SetMin(C) IN [cur |-> j, off |-> j + 1, ceo |-> j, ri |-> left]

(* prev_internal(): re-scan from the closest restart point before the entry  *)
BIPrev(ks, r, it) ==
    LET original == it.ceo IN
    IF original = 1 THEN BIReset(it)
    ELSE LET ri2 == SetMax({j \in 1..it.ri : RestartPt(j, r) < original} \cup {1})
         IN  [cur |-> original - 1, off |-> original, ceo |-> original - 1, ri |-> ri2]

-----------------------------------------------------------------------------
(* The writer.                                                               *)
Init ==
    /\ phase = "writing"
    /\ restart \in Restarts
    /\ E = <<>> /\ cur = <<>> /\ dblocks = <<>> /\ curPart = <<>> /\ parts = <<>> /\ top = <<>>
    /\ fkeys = {}
    /\ meta = [smallest |-> 0, largest |-> 0, minSeq |-> 0, maxSeq |-> 0]
    /\ range = [lo |-> Unb, hi |-> Unb]
    /\ st = [fl |-> [pi |-> 1, some |-> FALSE, it |-> BINew],
             sl |-> [some |-> FALSE, b |-> 0, it |-> BINew], exhausted |-> FALSE]
    /\ fresh = TRUE
    /\ gpos = 0

IndexEntry(sep, blk) == [sep |-> sep, blk |-> blk]

(* TableWriter::add(e).  bcut: the current block is over block_size and is   *)
(* written first (write_data_block(next_key = e)); pcut: the current index   *)
(* partition is over index_partition_size and is closed first.  Only a block *)
(* that holds entries is written (`bcut => cur # <<>>`): the code's guard    *)
(* `block.entries() > 0` (since fix 8dad511; before it a block_size below    *)
(* the 8 bytes of an empty block made the first add() panic).                *)
Add(e, bcut, pcut) ==
    /\ phase = "writing"
    /\ Len(E) < MaxEntries
    /\ IF E = <<>> THEN TRUE ELSE ILess(Last(E), e)   \* precondition of the property: strictly ordered
    /\ bcut => cur # <<>>
    /\ pcut => bcut /\ curPart # <<>>
    /\ LET n == Len(E) + 1 IN
       /\ E' = Append(E, e)
       /\ fkeys' = fkeys \cup {e.uk}
       /\ meta' = [smallest |-> IF meta.smallest = 0 THEN n ELSE meta.smallest,
                   largest  |-> n,
                   minSeq   |-> IF meta.smallest = 0 THEN e.ver ELSE Min(meta.minSeq, e.ver),
                   maxSeq   |-> IF meta.smallest = 0 THEN e.ver ELSE (IF e.ver > meta.maxSeq THEN e.ver ELSE meta.maxSeq)]
       /\ IF bcut
          THEN LET ie == IndexEntry(ISep(E[Last(cur)], e), Len(dblocks) + 1) IN
               /\ dblocks' = Append(dblocks, cur)
               /\ cur' = <<n>>
               /\ IF pcut THEN parts' = Append(parts, curPart) /\ curPart' = <<ie>>
                          ELSE curPart' = Append(curPart, ie) /\ UNCHANGED parts
          ELSE /\ cur' = Append(cur, n)
               /\ UNCHANGED <<dblocks, curPart, parts>>
    /\ UNCHANGED <<phase, restart, top, cvars>>

(* TableWriter::finish(): the last block is written by                       *)
(* write_data_block(next_key = successor(last key)), so its index key is     *)
(* ISep(last, ISucc(last)) - not ISucc(last) itself; then partitions, top.   *)
Finish(pcut) ==
    /\ phase = "writing"
    /\ E # <<>>
    /\ pcut => curPart # <<>>
    /\ LET ie == IndexEntry(ISep(E[Last(cur)], ISucc(E[Last(cur)])), Len(dblocks) + 1)
           ps == IF pcut THEN Append(Append(parts, curPart), <<ie>>)
                         ELSE Append(parts, Append(curPart, ie))
       IN  /\ dblocks' = Append(dblocks, cur)
           /\ cur' = <<>>
           /\ curPart' = <<>>
           /\ parts' = ps
           /\ top' = [i \in 1..Len(ps) |-> [sep |-> Last(ps[i]).sep, part |-> i]]
    /\ phase' = "open"
    /\ UNCHANGED <<restart, E, fkeys, meta, cvars>>

-----------------------------------------------------------------------------
(* The reader.                                                               *)
PartKeys(p)  == [j \in 1..Len(parts[p]) |-> parts[p][j].sep]
BlockKeys(b) == [j \in 1..Len(dblocks[b]) |-> E[dblocks[b][j]]]

(* Index::find_block_handle_by_key: partition_point(sep < target), then the  *)
(* (always true) check target <= sep.  0 = None.                             *)
TopFind(target) ==
    LET C == {i \in 1..Len(top) : ~ILess(top[i].sep, target)}
    IN  IF C = {} THEN 0
        ELSE LET i == SetMin(C) IN IF ILess(top[i].sep, target) THEN 0 ELSE i

(* FilterBlockReader::may_contain: a bloom filter over the user keys added:  *)
(* never FALSE for an added key, anything for another key.                   *)
FilterAnswers(k) == IF k \in fkeys THEN {TRUE} ELSE {TRUE, FALSE}

(* Table::get(k, s) given the filter's answer fa (TRUE also stands for "no   *)
(* filter configured").  Result: entry number, 0 = None.                     *)
ImplGet(k, s, fa) ==
    LET target == IKey(k, s) IN
    IF ~fa THEN 0
    ELSE LET p == TopFind(target) IN
         IF p = 0 THEN 0
         ELSE LET pit == BISeek(PartKeys(p), restart, target) IN
              IF ~BIValid(pit) THEN 0
              ELSE LET b   == parts[p][pit.cur].blk
                       dit == BISeek(BlockKeys(b), restart, target)
                   IN  IF BIValid(dit) /\ E[dblocks[b][dit.cur]].uk = k
                       THEN dblocks[b][dit.cur]       \* no advance to the next block
                       ELSE 0

(* The property: newest entry of k with seq <= s, or nothing.                *)
SpecGet(k, s) ==
    LET C == {i \in 1..Len(E) : E[i].uk = k /\ E[i].ver <= s}
    IN  IF C = {} THEN 0 ELSE CHOOSE i \in C : \A j \in C : E[j].ver <= E[i].ver

(* Table::is_before_range / is_after_range / overlaps_with_range /           *)
(* is_key_in_key_range                                                       *)
IsBefore(lo) ==
    IF meta.largest = 0 THEN FALSE
    ELSE LET lk == E[meta.largest].uk IN
         CASE lo.t = "U" -> FALSE
           [] lo.t = "I" -> LexLess(lk, lo.k)
           [] lo.t = "E" -> ~LexLess(lo.k, lk)
IsAfter(hi) ==
    IF meta.smallest = 0 THEN FALSE
    ELSE LET sk == E[meta.smallest].uk IN
         CASE hi.t = "U" -> FALSE
           [] hi.t = "I" -> LexLess(hi.k, sk)
           [] hi.t = "E" -> ~LexLess(sk, hi.k)
Overlaps(lo, hi) == ~IsBefore(lo) /\ ~IsAfter(hi)
IsKeyInKeyRange(k) ==
    IF meta.smallest = 0 \/ meta.largest = 0 THEN TRUE
    ELSE ~LexLess(k, E[meta.smallest].uk) /\ ~LexLess(E[meta.largest].uk, k)

-----------------------------------------------------------------------------
(* IndexIterator (first level of the cursor): fl = [pi, some, it]            *)
(*   pi   partition_index (1-based), some/it  partition_iter: Option<..>     *)
FLValid(fl) == fl.some /\ BIValid(fl.it)

RECURSIVE FLNextPart(_)
FLNextPart(pi) ==
    IF pi > Len(parts) THEN [pi |-> pi, some |-> FALSE, it |-> BINew]
    ELSE LET it == BISeekToFirst(PartKeys(pi)) IN
         IF BIValid(it) THEN [pi |-> pi, some |-> TRUE, it |-> it] ELSE FLNextPart(pi + 1)

FLNext(fl) ==
    LET adv == BIAdvance(PartKeys(fl.pi), fl.it) IN
    IF fl.some /\ BIValid(adv) THEN [fl EXCEPT !.it = adv] ELSE FLNextPart(fl.pi + 1)

RECURSIVE FLPrevPart(_)
FLPrevPart(pi) ==
    IF pi = 1 THEN [pi |-> 1, some |-> FALSE, it |-> BINew]
    ELSE LET it == BISeekToLast(PartKeys(pi - 1), restart) IN
         IF BIValid(it) THEN [pi |-> pi - 1, some |-> TRUE, it |-> it] ELSE FLPrevPart(pi - 1)

FLPrev(fl) ==
    LET back == BIPrev(PartKeys(fl.pi), restart, fl.it) IN
    IF fl.some /\ BIValid(back) THEN [fl EXCEPT !.it = back] ELSE FLPrevPart(fl.pi)

FLSeekToFirst ==
    LET f == [pi |-> 1, some |-> TRUE, it |-> BISeekToFirst(PartKeys(1))] IN
    IF FLValid(f) THEN f ELSE FLNext(f)

FLSeekToLast ==
    LET n == Len(parts)
        f == [pi |-> n, some |-> TRUE, it |-> BISeekToLast(PartKeys(n), restart)] IN
    IF FLValid(f) THEN f ELSE FLPrev(f)

FLSeek(fl, target) ==
    LET p == TopFind(target) IN
    IF p = 0 THEN [fl EXCEPT !.some = FALSE]          \* beyond all partitions
    ELSE LET f == [pi |-> p, some |-> TRUE, it |-> BISeek(PartKeys(p), restart, target)] IN
         IF FLValid(f) THEN f ELSE FLNext(f)

-----------------------------------------------------------------------------
(* TableIterator: s = [fl, sl, exhausted], sl = [some, b, it] the data block *)
(* iterator (second_level: Option<BlockIterator>).                           *)
SLNone == [some |-> FALSE, b |-> 0, it |-> BINew]
SLValid(sl) == sl.some /\ BIValid(sl.it)
TValid(s) == ~s.exhausted /\ SLValid(s.sl)
TEntry(s) == dblocks[s.sl.b][s.sl.it.cur]               \* entry number under the cursor
TUserKey(s) == E[TEntry(s)].uk
TPos(s) == IF TValid(s) THEN TEntry(s) ELSE 0

(* init_data_block()                                                         *)
InitDataBlock(fl) ==
    IF ~FLValid(fl) THEN SLNone
    ELSE [some |-> TRUE, b |-> parts[fl.pi][fl.it.cur].blk, it |-> BINew]

SLWith(sl, it) == IF sl.some THEN [sl EXCEPT !.it = it] ELSE sl
SLFirst(sl) == IF sl.some THEN [sl EXCEPT !.it = BISeekToFirst(BlockKeys(sl.b))] ELSE sl
SLLast(sl)  == IF sl.some THEN [sl EXCEPT !.it = BISeekToLast(BlockKeys(sl.b), restart)] ELSE sl

RECURSIVE AdvanceToValid(_)
AdvanceToValid(s) ==
    IF SLValid(s.sl) THEN s
    ELSE IF ~FLValid(s.fl) THEN [s EXCEPT !.sl = SLNone]
    ELSE LET f2 == FLNext(s.fl) IN
         AdvanceToValid([s EXCEPT !.fl = f2, !.sl = SLFirst(InitDataBlock(f2))])

RECURSIVE RetreatToValid(_)
RetreatToValid(s) ==
    IF SLValid(s.sl) THEN s
    ELSE IF ~FLValid(s.fl) THEN [s EXCEPT !.sl = SLNone]
    ELSE LET f2 == FLPrev(s.fl) IN
         RetreatToValid([s EXCEPT !.fl = f2, !.sl = SLLast(InitDataBlock(f2))])

(* seek_internal(target)                                                     *)
TSeekInternal(s, target) ==
    LET f2  == FLSeek(s.fl, target)
        sl2 == InitDataBlock(f2)
        sl3 == IF sl2.some THEN [sl2 EXCEPT !.it = BISeek(BlockKeys(sl2.b), restart, target)] ELSE sl2
    IN  AdvanceToValid([s EXCEPT !.fl = f2, !.sl = sl3])

TAbsoluteFirst(s) ==
    LET f2 == FLSeekToFirst IN AdvanceToValid([s EXCEPT !.fl = f2, !.sl = SLFirst(InitDataBlock(f2))])
TAbsoluteLast(s) ==
    LET f2 == FLSeekToLast IN RetreatToValid([s EXCEPT !.fl = f2, !.sl = SLLast(InitDataBlock(f2))])

(* advance_internal() / prev_internal()                                      *)
TAdvanceInternal(s) ==
    IF s.sl.some
    THEN LET it2 == BIAdvance(BlockKeys(s.sl.b), s.sl.it) IN
         IF BIValid(it2) THEN [s EXCEPT !.sl.it = it2]
         ELSE AdvanceToValid([s EXCEPT !.sl.it = it2])
    ELSE AdvanceToValid(s)
TPrevInternal(s) ==
    IF s.sl.some
    THEN LET it2 == BIPrev(BlockKeys(s.sl.b), restart, s.sl.it) IN
         IF BIValid(it2) THEN [s EXCEPT !.sl.it = it2]
         ELSE RetreatToValid([s EXCEPT !.sl.it = it2])
    ELSE RetreatToValid(s)

MarkExhausted(s) == [s EXCEPT !.exhausted = TRUE, !.sl = SLNone]

(* seek_to_first(): bounds are user_range_to_internal_range's keys            *)
TSeekToFirst(s0, lo, hi) ==
    LET s  == [s0 EXCEPT !.exhausted = FALSE]
        s1 == CASE lo.t = "U" -> TAbsoluteFirst(s)
                [] lo.t = "I" -> TSeekInternal(s, IKey(lo.k, MaxVer))
                [] lo.t = "E" -> LET s2 == TSeekInternal(s, IKey(lo.k, 0)) IN
                                 IF TValid(s2) /\ TUserKey(s2) = lo.k THEN TAdvanceInternal(s2) ELSE s2
    IN  IF TValid(s1) /\ ~SatUpper(TUserKey(s1), hi) THEN MarkExhausted(s1) ELSE s1

(* seek_to_last()                                                            *)
TSeekToLast(s0, lo, hi) ==
    LET s  == [s0 EXCEPT !.exhausted = FALSE]
        s1 == CASE hi.t = "U" -> TAbsoluteLast(s)
                [] hi.t = "I" -> LET s2 == TSeekInternal(s, IKey(hi.k, 0)) IN
                                 IF ~TValid(s2) THEN TAbsoluteLast(s2)
                                 ELSE IF LexLess(hi.k, TUserKey(s2)) THEN TPrevInternal(s2) ELSE s2
                [] hi.t = "E" -> LET s2 == TSeekInternal(s, IKey(hi.k, MaxVer))
                                     s3 == IF ~TValid(s2) THEN TAbsoluteLast(s2) ELSE s2
                                 IN  IF TValid(s3) /\ ~LexLess(TUserKey(s3), hi.k) THEN TPrevInternal(s3) ELSE s3
    IN  IF TValid(s1) /\ ~SatLower(TUserKey(s1), lo) THEN MarkExhausted(s1) ELSE s1

(* LSMIterator::seek / next / prev                                           *)
TSeek(s0, target, hi) ==
    LET s1 == TSeekInternal([s0 EXCEPT !.exhausted = FALSE], target) IN
    IF TValid(s1) /\ ~SatUpper(TUserKey(s1), hi) THEN MarkExhausted(s1) ELSE s1

TNext(s, lo, hi) ==
    IF ~TValid(s) /\ ~s.exhausted THEN TSeekToFirst(s, lo, hi)      \* auto-position on first call
    ELSE IF ~TValid(s) THEN s
    ELSE LET s1 == TAdvanceInternal(s) IN
         IF ~TValid(s1) \/ ~SatUpper(TUserKey(s1), hi) THEN MarkExhausted(s1) ELSE s1

TPrev(s, lo, hi) ==
    IF ~TValid(s) /\ ~s.exhausted THEN TSeekToLast(s, lo, hi)
    ELSE IF ~TValid(s) THEN s
    ELSE LET s1 == TPrevInternal(s) IN
         IF ~TValid(s1) \/ ~SatLower(TUserKey(s1), lo) THEN MarkExhausted(s1) ELSE s1

-----------------------------------------------------------------------------
(* The property for cursors: the sorted list E restricted to the range.      *)
SpecFirstIn(lo, hi) ==
    LET C == {i \in 1..Len(E) : InRange(E[i].uk, lo, hi)} IN IF C = {} THEN 0 ELSE SetMin(C)
SpecLastIn(lo, hi) ==
    LET C == {i \in 1..Len(E) : InRange(E[i].uk, lo, hi)} IN IF C = {} THEN 0 ELSE SetMax(C)
SpecSeekFirst == SpecFirstIn(range.lo, range.hi)
SpecSeekLast  == SpecLastIn(range.lo, range.hi)
(* seek(target): first entry >= target, if it is not beyond the upper bound  *)
SpecSeek(target) ==
    LET C == {i \in 1..Len(E) : ~ILess(E[i], target)} IN
    IF C = {} THEN 0
    ELSE LET i == SetMin(C) IN IF SatUpper(E[i].uk, range.hi) THEN i ELSE 0
SpecNext ==
    IF fresh THEN SpecSeekFirst
    ELSE IF gpos # 0 /\ gpos < Len(E) /\ SatUpper(E[gpos + 1].uk, range.hi) THEN gpos + 1 ELSE 0
SpecPrev ==
    IF fresh THEN SpecSeekLast
    ELSE IF gpos > 1 /\ SatLower(E[gpos - 1].uk, range.lo) THEN gpos - 1 ELSE 0

(* Cursor actions.  What the property leaves open is not generated:          *)
(* next/prev on a cursor that is not valid (other than the very first call), *)
(* seek to a target below the lower bound.                                   *)
OpenIter(lo, hi) ==
    /\ phase = "open"
    /\ phase' = "iter"
    /\ range' = [lo |-> lo, hi |-> hi]
    /\ UNCHANGED <<restart, E, cur, dblocks, curPart, parts, top, fkeys, meta, st, fresh, gpos>>

CursorStep(s2, g2) ==
    /\ phase = "iter"
    /\ st' = s2
    /\ gpos' = g2
    /\ fresh' = FALSE
    /\ UNCHANGED <<tvars, range>>

CSeekFirst == CursorStep(TSeekToFirst(st, range.lo, range.hi), SpecSeekFirst)
CSeekLast  == CursorStep(TSeekToLast(st, range.lo, range.hi), SpecSeekLast)
CSeek(k, s) == /\ SatLower(k, range.lo)
               /\ CursorStep(TSeek(st, IKey(k, s), range.hi), SpecSeek(IKey(k, s)))
CNext == (fresh \/ gpos # 0) /\ CursorStep(TNext(st, range.lo, range.hi), SpecNext)
CPrev == (fresh \/ gpos # 0) /\ CursorStep(TPrev(st, range.lo, range.hi), SpecPrev)

Next ==
    \/ \E uk \in UserKeys, sq \in Seqs, bcut \in BOOLEAN, pcut \in BOOLEAN : Add(IKey(uk, sq), bcut, pcut)
    \/ \E pcut \in BOOLEAN : Finish(pcut)
    \/ \E lo \in BoundSet, hi \in BoundSet : OpenIter(lo, hi)
    \/ CSeekFirst \/ CSeekLast \/ CNext \/ CPrev
    \/ \E k \in Targets, s \in Snaps : CSeek(k, s)

Spec == Init /\ [][Next]_vars

-----------------------------------------------------------------------------
(* Invariants = the property.                                                *)
Finished == phase # "writing"

(* strictly ordered input (what the writer is given)                         *)
Ordered == \A i \in 1..(Len(E) - 1) : ILess(E[i], E[i + 1])

(* structure the reader relies on                                            *)
Mech_BlocksPartitionE ==
    Finished => /\ \A b \in 1..Len(dblocks) : dblocks[b] # <<>>
                /\ \A i \in 1..Len(E) : \E b \in 1..Len(dblocks) : \E j \in 1..Len(dblocks[b]) : dblocks[b][j] = i
Mech_SeparatorsBound ==
    \* every index key is an upper bound of its block and below the next block
    Finished => \A p \in 1..Len(parts) : \A j \in 1..Len(parts[p]) :
                   LET ie == parts[p][j]
                       blk == dblocks[ie.blk]
                   IN  /\ ILeq(E[Last(blk)], ie.sep)
                       /\ ie.blk < Len(dblocks) => ILess(ie.sep, E[dblocks[ie.blk + 1][1]])

(* point lookups: for every target, snapshot and admissible filter answer    *)
GetOK ==
    Finished => \A k \in Targets, s \in Snaps : \A fa \in FilterAnswers(k) :
                   ImplGet(k, s, fa) = SpecGet(k, s)

FilterNoFalseNegative == \A i \in 1..Len(E) : FilterAnswers(E[i].uk) = {TRUE}

(* range shortcuts never exclude a table that holds a key in the range       *)
RangePredicatesSound ==
    Finished => \A lo \in BoundSet, hi \in BoundSet :
                   (\E i \in 1..Len(E) : InRange(E[i].uk, lo, hi))
                       => ~IsBefore(lo) /\ ~IsAfter(hi) /\ Overlaps(lo, hi)
KeyRangeSound == Finished => \A i \in 1..Len(E) : IsKeyInKeyRange(E[i].uk)
SeqRangeSound == \A i \in 1..Len(E) : meta.minSeq <= E[i].ver /\ E[i].ver <= meta.maxSeq

(* cursors: forward / backward iteration, seek, bounds = sorted-list answers *)
CursorOK == phase = "iter" => TPos(st) = gpos

(* full scans, stated directly (redundant with CursorOK along CNext/CPrev    *)
(* chains, but checked on every table even when no cursor is opened)         *)
RECURSIVE ScanFwd(_, _, _, _)
ScanFwd(s, lo, hi, n) ==
    IF ~TValid(s) \/ n = 0 THEN <<>> ELSE <<TEntry(s)>> \o ScanFwd(TNext(s, lo, hi), lo, hi, n - 1)
RECURSIVE ScanBwd(_, _, _, _)
ScanBwd(s, lo, hi, n) ==
    IF ~TValid(s) \/ n = 0 THEN <<>> ELSE <<TEntry(s)>> \o ScanBwd(TPrev(s, lo, hi), lo, hi, n - 1)
FullScanOK ==
    Finished =>
        LET n  == Len(E)
            s0 == [fl |-> [pi |-> 1, some |-> FALSE, it |-> BINew], sl |-> SLNone, exhausted |-> FALSE]
        IN  /\ ScanFwd(TSeekToFirst(s0, Unb, Unb), Unb, Unb, n + 1) = [i \in 1..n |-> i]
            /\ ScanBwd(TSeekToLast(s0, Unb, Unb), Unb, Unb, n + 1) = [i \in 1..n |-> n + 1 - i]
=============================================================================
