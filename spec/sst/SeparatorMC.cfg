CONSTANTS
    Alphabet = {0, 97, 254, 255}
    MaxLen = 3
    Vers = {0, 1, 5, 9}
    MaxVer = 9
INIT Init
NEXT Next
INVARIANTS Inv_Sep Inv_Succ Inv_ISep Inv_ISucc Inv_NoLonger
CHECK_DEADLOCK FALSE
