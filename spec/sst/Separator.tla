----------------------------- MODULE Separator ------------------------------
(***************************************************************************)
(* Transcription of src/comparator.rs:                                     *)
(*   BytewiseComparator::{compare, separator, successor}                   *)
(*   InternalKeyComparator::{compare, separator, successor}                *)
(*   TimestampComparator::{compare, separator, successor}                  *)
(*                                                                         *)
(* A byte string is a sequence of naturals 0..255.  An internal key is a   *)
(* record [uk, ver]: the user key and the *version* the comparator orders  *)
(* by, descending - the sequence number for InternalKeyComparator, the     *)
(* timestamp for TimestampComparator (both wrappers have the same shape;   *)
(* kind and the other number do not take part in the ordering).            *)
(*                                                                         *)
(* The table writer (Sst.tla) stores, for every data block, the index key  *)
(* ISep(last key of the block, first key of the next block), and           *)
(* ISucc(last key) for the final block.  What the table needs from them is *)
(*     from <= ISep(from, to) < to        and      k <= ISucc(k)           *)
(* under the internal ordering (SepOK / SuccOK / ISepOK / ISuccOK below).  *)
(***************************************************************************)
EXTENDS Naturals, Sequences, FiniteSets

CONSTANT MaxVer     \* INTERNAL_KEY_SEQ_NUM_MAX / INTERNAL_KEY_TIMESTAMP_MAX (any value above all versions used)

Min(x, y) == IF x <= y THEN x ELSE y
SetMin(S) == CHOOSE x \in S : \A y \in S : x <= y

(* number of leading positions on which a and b agree (`diff_index`)        *)
CommonPrefixLen(a, b) ==
    LET n == Min(Len(a), Len(b))
        D == {i \in 1..n : a[i] # b[i]}
    IN  IF D = {} THEN n ELSE SetMin(D) - 1

(* slice `a.cmp(b)` on byte slices: a < b iff at the first position where    *)
(* they differ a has ended or holds the smaller byte (written without sets:  *)
(* this is the hot operator of every model run)                              *)
LexLess(a, b) ==
    \E i \in 1..Len(b) : /\ IF i > Len(a) THEN TRUE ELSE a[i] < b[i]
                         /\ \A j \in 1..(i - 1) : IF j <= Len(a) THEN a[j] = b[j] ELSE FALSE
LexLeq(a, b) == a = b \/ LexLess(a, b)

(* a[..=i] with the last byte incremented                                   *)
BumpAt(a, i) == Append(SubSeq(a, 1, i - 1), a[i] + 1)

(* BytewiseComparator::separator(a, b)                                      *)
BytewiseSeparator(a, b) ==
    LET minLength == Min(Len(a), Len(b))
        d == CommonPrefixLen(a, b)                     \* diff_index (0-based)
    IN  IF d >= minLength THEN a                        \* one is a prefix of the other
        ELSE LET startByte == a[d + 1]
                 limitByte == b[d + 1]
             IN  IF startByte >= limitByte THEN a
                 ELSE IF d < Len(b) - 1 \/ startByte + 1 < limitByte
                      THEN BumpAt(a, d + 1)             \* increment and truncate
                      ELSE \* skip this byte, bump the first later byte below 0xff
                           LET C == {i \in (d + 2)..Len(a) : a[i] < 255}
                           IN  IF C = {} THEN a ELSE BumpAt(a, SetMin(C))

(* BytewiseComparator::successor(k)                                         *)
BytewiseSuccessor(k) ==
    LET C == {i \in 1..Len(k) : k[i] # 255}
    IN  IF C = {} THEN k ELSE BumpAt(k, SetMin(C))

-----------------------------------------------------------------------------
(* Internal keys: user key ascending, version descending.                   *)
IKey(uk, ver) == [uk |-> uk, ver |-> ver]

ILess(x, y) == LexLess(x.uk, y.uk) \/ (x.uk = y.uk /\ x.ver > y.ver)
ILeq(x, y)  == ~ILess(y, x)
IEqual(x, y) == x.uk = y.uk /\ x.ver = y.ver

(* InternalKeyComparator::separator / TimestampComparator::separator        *)
ISep(x, y) ==
    IF x = y THEN x
    ELSE IF x.uk # y.uk
         THEN LET s == BytewiseSeparator(x.uk, y.uk)
              IN  IF Len(s) <= Len(x.uk) /\ LexLess(x.uk, s)
                  THEN IKey(s, MaxVer)
                  ELSE x
         ELSE x

(* InternalKeyComparator::successor / TimestampComparator::successor        *)
ISucc(k) ==
    LET s == BytewiseSuccessor(k.uk)
    IN  IF Len(s) <= Len(k.uk) /\ LexLess(k.uk, s) THEN IKey(s, MaxVer) ELSE k

-----------------------------------------------------------------------------
(* What a table needs from these functions.                                 *)
SepOK(a, b)   == LexLess(a, b) => /\ LexLeq(a, BytewiseSeparator(a, b))
                                  /\ LexLess(BytewiseSeparator(a, b), b)
SuccOK(k)     == LexLeq(k, BytewiseSuccessor(k))
ISepOK(x, y)  == ILess(x, y) => ILeq(x, ISep(x, y)) /\ ILess(ISep(x, y), y)
ISuccOK(k)    == ILeq(k, ISucc(k))
=============================================================================
