---------------------------- MODULE SeparatorMC -----------------------------
(* Exhaustive check of Separator over all byte strings up to MaxLen on a    *)
(* small alphabet, and export of every pair for comparison with the real    *)
(* functions (spec -> implementation; driver: sst_run --separator).         *)
EXTENDS Separator, Json, TLC

CONSTANTS Alphabet,   \* bytes used, e.g. {0, 97, 254, 255}
          MaxLen,     \* byte strings of length 0..MaxLen
          Vers        \* versions (sequence numbers / timestamps) used in internal keys

Strs == UNION {[1..n -> Alphabet] : n \in 0..MaxLen}

VARIABLES a, b, va, vb
vars == <<a, b, va, vb>>

Init == a \in Strs /\ b \in Strs /\ va \in Vers /\ vb \in Vers
Next == UNCHANGED vars          \* every state is a self-contained case

X == IKey(a, va)
Y == IKey(b, vb)

Inv_Sep   == SepOK(a, b)
Inv_Succ  == SuccOK(a)
Inv_ISep  == ISepOK(X, Y)
Inv_ISucc == ISuccOK(X)
(* the separator never grows: the index is no larger than the keys           *)
Inv_NoLonger == Len(BytewiseSeparator(a, b)) <= Len(a) /\ Len(BytewiseSuccessor(a)) <= Len(a)

Export ==
    PrintT("SEPCASE " \o ToJson([a |-> a, b |-> b, va |-> va, vb |-> vb, maxver |-> MaxVer,
                                  sep |-> BytewiseSeparator(a, b),
                                  succ |-> BytewiseSuccessor(a),
                                  isep |-> ISep(X, Y),
                                  isucc |-> ISucc(X)]))
=============================================================================
