\* Cursors: small tables, every bound pair, the complete state graph of the TableIterator
\* under seek_first / seek_last / seek / next / prev (hist is hidden by the VIEW, MaxOps is
\* larger than the graph's diameter). checks/c13.py substitutes TargetSeq / SnapSeq / Restarts per tier.
CONSTANTS
    UserKeys <- UK3
    Seqs = {0, 2}
    TargetSeq <- T4
    SnapSeq <- S2
    BoundKeySeq <- B2
    Targets <- MCTargets
    Snaps <- MCSnaps
    BoundKeys <- MCBoundKeys
    Restarts = {2}
    MaxEntries = 3
    MaxVer = 9
    MaxOps = 30
    MinEntries = 1
    Stride = 0
    CutMin = 1
INIT MCInit
NEXT MCNext
CONSTRAINT Bound
VIEW View
INVARIANTS Ordered Mech_BlocksPartitionE Mech_SeparatorsBound GetOK FilterNoFalseNegative RangePredicatesSound KeyRangeSound SeqRangeSound CursorOK FullScanOK
CHECK_DEADLOCK FALSE
