\* Tables: every strictly ordered entry set of up to MaxEntries entries over UserKeys x Seqs,
\* every placement of block and partition cuts; no cursor (MaxOps = 0).
\* checks/c13.py substitutes UserKeys / MaxEntries / Restarts per tier.
CONSTANTS
    UserKeys <- UK4
    Seqs = {1, 2, 3}
    TargetSeq <- T9
    SnapSeq <- S5
    BoundKeySeq <- B4
    Targets <- MCTargets
    Snaps <- MCSnaps
    BoundKeys <- MCBoundKeys
    Restarts = {2}
    MaxEntries = 4
    MaxVer = 9
    MaxOps = 0
    MinEntries = 1
    Stride = 0
    CutMin = 1
INIT MCInit
NEXT MCNext
CONSTRAINT Bound
VIEW View
INVARIANTS Ordered Mech_BlocksPartitionE Mech_SeparatorsBound GetOK FilterNoFalseNegative RangePredicatesSound KeyRangeSound SeqRangeSound CursorOK FullScanOK
CHECK_DEADLOCK FALSE
