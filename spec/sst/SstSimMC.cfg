\* Long random behaviours (tlc -simulate): tables of 12..MaxEntries entries over 7 user keys x 5
\* versions (many versions per key, blocks with more than 16 entries), then a cursor program.
CONSTANTS
    UserKeys <- UK7
    Seqs = {1, 2, 3, 4, 5}
    TargetSeq <- T12
    SnapSeq <- S7
    BoundKeySeq <- B4
    Targets <- MCTargets
    Snaps <- MCSnaps
    BoundKeys <- MCBoundKeys
    Restarts = {1, 2, 3, 16}
    MaxEntries = 30
    MaxVer = 9
    MaxOps = 25
    MinEntries = 12
    Stride = 2
    CutMin = 1
INIT MCInit
NEXT MCNext
CONSTRAINT Bound
INVARIANTS Ordered Mech_BlocksPartitionE Mech_SeparatorsBound GetOK FilterNoFalseNegative RangePredicatesSound KeyRangeSound SeqRangeSound CursorOK FullScanOK ExportTables
ACTION_CONSTRAINT ExportProgs
CHECK_DEADLOCK FALSE
