------------------------------- MODULE LockMC -------------------------------
(* Bounded instance of Lock for exhaustive checking, and exporter of one    *)
(* replayable behaviour per explored transition (spec -> implementation):   *)
(* harness/src/bin/lock_run.rs executes each of them with real processes.   *)
EXTENDS Lock, Json

CONSTANTS MaxSteps,   \* bound on the length of a behaviour
          MaxDies,    \* bound on process deaths per behaviour (keeps random behaviours from dying all the time)
          SameProc    \* the openers that share process "p1"; every other opener has a process of its own

VARIABLES hist, steps, dies
mcvars == <<vars, hist, steps, dies>>

(* o1, o2 ... in "p1" when listed in SameProc, every other opener alone in   *)
(* a process named after it.                                                 *)
MCProcOf == [o \in Openers |-> IF o \in SameProc THEN "p1" ELSE "p-" \o o]
MCProcs == {MCProcOf[o] : o \in Openers}

(* One logged step: the operation, the slot (or process) it is addressed to, *)
(* an argument, the result the MODEL predicts (pred) and what the PROPERTY   *)
(* demands (must; "" when the property says nothing about this step).        *)
Rec(op, who, arg, pred, must) == [op |-> op, who |-> who, arg |-> arg, pred |-> pred, must |-> must]
Log(r) == hist' = Append(hist, r) /\ steps' = steps + 1 /\ dies' = IF r.op = "Die" THEN dies + 1 ELSE dies

MCInit == Init /\ hist = <<>> /\ steps = 0 /\ dies = 0

(* One named action per model action (so that TLC's coverage names them).    *)
DoOpenBegin(o) == OpenBegin(o) /\ Log(Rec("OpenBegin", o, "", "Parked", ""))
DoLockTry(o) == LockTry(o) /\ Log(Rec("LockTry", o, "", LockResult(o), Must(o)))
DoRecover(o) == Recover(o) /\ Log(Rec("Recover", o, "", RecoverResult, ""))
DoCommit(o) == Commit(o) /\ Log(Rec("Commit", o, "", CommitResult(o), IF live[o] THEN "accept" ELSE "any"))
DoClone(o) == Clone(o) /\ Log(Rec("Clone", o, "", "Ok", ""))
DoDropHandle(o, c) == DropHandle(o, c) /\ Log(Rec("DropHandle", o, c, "Ok", ""))
DoCloseBegin(o) == CloseBegin(o) /\ Log(Rec("CloseBegin", o, "", IF relsd[o] THEN "Ok" ELSE "Parked", ""))
DoAsyncCloseBegin(o) ==
    AsyncCloseBegin(o) /\ Log(Rec("AsyncCloseBegin", o, "", IF relsd[o] THEN "Ok" ELSE "Parked", ""))
DoUnlock(o) == Unlock(o) /\ Log(Rec("Unlock", o, "", "Parked", ""))
DoCloseEnd(o) == CloseEnd(o) /\ Log(Rec("CloseEnd", o, "", "Ok", ""))
DoRtRestart(o) == RtRestart(o) /\ Log(Rec("RtRestart", o, "", "Ok", ""))
(* SIGKILL at any point; exit() only between calls.                          *)
DoDie(p, how) ==
    /\ dies < MaxDies
    /\ how = "exit" => \A o \in Openers : ProcOf[o] = p => SlotIdle(o)
    /\ Die(p)
    /\ Log(Rec("Die", p, how, "Ok", ""))
DoDamage(k) == Damage(k) /\ Log(Rec("Damage", "", k, "Ok", ""))
DoRepair == Repair /\ Log(Rec("Repair", "", "", "Ok", ""))

MCNext ==
    \/ \E o \in Openers :
         \/ DoOpenBegin(o) \/ DoLockTry(o) \/ DoRecover(o)
         \/ DoCommit(o) \/ DoClone(o)
         \/ \E c \in Ctxs : DoDropHandle(o, c)
         \/ DoCloseBegin(o) \/ DoAsyncCloseBegin(o) \/ DoUnlock(o) \/ DoCloseEnd(o)
         \/ DoRtRestart(o)
    \/ \E p \in Procs, how \in {"kill", "exit"} : DoDie(p, how)
    \/ \E k \in DamageKinds : DoDamage(k)
    \/ DoRepair

MCActions == <<"DoOpenBegin", "DoLockTry", "DoRecover", "DoCommit", "DoClone", "DoDropHandle", "DoCloseBegin",
               "DoAsyncCloseBegin", "DoUnlock", "DoCloseEnd", "DoRtRestart", "DoDie", "DoDamage", "DoRepair">>

Bound == steps <= MaxSteps

(* What an observer outside the model must / will see in the state reached  *)
(* by the last step (probe observations, made by the driver with a fresh    *)
(* process right after that step).                                          *)
ProbePred == IF holder # None THEN "Refused" ELSE IF damage # "none" THEN "ErrDamage" ELSE "Ok"

Export ==
    PrintT("REPLAY " \o ToJson([ops |-> hist',
                                 procOf |-> ProcOf,
                                 probeMust |-> MustProbe',
                                 probePred |-> ProbePred',
                                 live |-> [o \in Openers |-> live'[o]],
                                 holder |-> holder',
                                 lockText |-> lockText']))

View == vars
=============================================================================
