CONSTANTS
    Openers = {"o1", "o2", "o3"}
    SameProc = {"o1", "o2"}
    Procs <- MCProcs
    ProcOf <- MCProcOf
    MaxHandles = 2
    MaxDamage = 1
    Ctxs = {"rt", "nort"}
    DamageKinds = {"manifest", "wal"}
    None = "none"
    FixCloneDrop = FALSE
    FixLeak = FALSE
    MaxSteps = 100
    MaxDies = 100
INIT MCInit
NEXT MCNext
CONSTRAINT Bound
VIEW View
INVARIANTS TypeOK HolderIsSomebody LockedImpliesHolder OneLive LiveHoldsLock OnlyHolderTouches ReopenAfterRelease
CHECK_DEADLOCK FALSE
