CONSTANTS
    Openers = {"o1", "o2", "o3"}
    SameProc = {"o1", "o2"}
    Procs <- MCProcs
    ProcOf <- MCProcOf
    MaxHandles = 2
    MaxDamage = 1
    Ctxs = {"rt", "nort"}
    DamageKinds = {"manifest", "wal"}
    None = "none"
    FixCloneDrop = TRUE
    FixLeak = TRUE
    MaxSteps = 100
    MaxDies = 100
INIT MCInit
NEXT MCNext
CONSTRAINT Bound
VIEW View
INVARIANTS TypeOK HolderIsSomebody LockedImpliesHolder OneLiveStrict LiveHoldsLockStrict OnlyHolderTouches ReopenAfterReleaseStrict
CHECK_DEADLOCK FALSE
