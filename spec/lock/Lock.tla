-------------------------------- MODULE Lock --------------------------------
(***************************************************************************)
(* One live store per database directory (property C19).                   *)
(*                                                                         *)
(* What is modelled (implementation shaped, src/lockfile.rs + src/lsm.rs): *)
(*   * the directory lock: `LOCK` is opened with create+truncate, then an  *)
(*     exclusive non-blocking flock is tried on that open file description *)
(*     (`LockFile::acquire`); the pid text is informational;               *)
(*   * `Tree::new`: validate, mkdirs, then `Core::new` = `CoreInner::new`  *)
(*     (lock FIRST, manifest load, WAL open ...) followed by the spawning  *)
(*     of the two background tasks (each holds an `Arc<CoreInner>`), WAL   *)
(*     replay / repair, orphan clean-up;                                   *)
(*   * `Core::close`: pipeline shutdown, tasks stopped, flush, WAL close,  *)
(*     WAL clean-up, directory sync, lock release LAST;                    *)
(*   * `Tree` is `Clone` (handles share one `Arc<Core>`); `Drop for Tree`  *)
(*     spawns `close()` on the current tokio runtime for EVERY handle that *)
(*     is dropped inside a runtime context and does nothing outside one;   *)
(*   * the flock is owned by the `LockFile` inside `CoreInner`: it is gone *)
(*     when `close()` released it, when the last `Arc<CoreInner>` is       *)
(*     dropped, or when the process dies.  Background tasks that were not  *)
(*     stopped keep their `Arc<CoreInner>` for as long as their runtime    *)
(*     lives (`TaskManager` has no `Drop`).                                *)
(*                                                                         *)
(* An opener is a slot of a process (own thread, own tokio runtime).  The  *)
(* actions are the API calls cut at the four gate sites of                 *)
(* src/lockfile.rs (`lock_try`, `lock_acquired`, `lock_release`,           *)
(* `lock_released`), so that TLC's interleavings can be replayed 1:1 on    *)
(* real processes by harness/src/bin/lock_run.rs.                          *)
(*                                                                         *)
(* Ghost variables state the property without the mechanism:               *)
(*   live[o]    the user holds an open store: `build()` returned Ok, the   *)
(*              user neither called close() nor dropped the last handle,   *)
(*              and the process is alive                                   *)
(*   badTouch   some step changed database files without owning the lock   *)
(***************************************************************************)
EXTENDS Naturals, FiniteSets, Sequences, TLC

CONSTANTS
    Openers,       \* opener slots
    Procs,         \* OS processes
    ProcOf,        \* [Openers -> Procs]
    MaxHandles,    \* bound on the handles (1 + clones) of one store        (model bound)
    MaxDamage,     \* how often the environment may damage a file           (model bound)
    Ctxs,          \* subset of {"rt","nort"}: a Tree is dropped inside / outside a tokio runtime context
    DamageKinds,   \* subset of {"manifest","wal"}: what the environment may damage
    None,
    FixCloneDrop,  \* FALSE = the code: every handle dropped in a runtime context spawns close()
    FixLeak        \* FALSE = the code: un-stopped background tasks keep the LockFile alive

VARIABLES
    ost,           \* [Openers -> {"idle","pre","locked"}]   progress of a running build()
    core,          \* [Openers -> BOOLEAN]   a Core exists (Arc<Core> count > 0)
    handles,       \* [Openers -> 0..MaxHandles]  Tree handles the user holds
    pend,          \* [Openers -> 0..MaxHandles]  close() tasks spawned by Drop, not finished
    cst,           \* [Openers -> {"idle","flushed","unlocked"}]  progress of the running close()
    ckind,         \* [Openers -> {"none","explicit","async"}]    who runs it
    shut,          \* [Openers -> BOOLEAN]   pipeline shut down and background tasks stopped
    relsd,         \* [Openers -> BOOLEAN]   LockFile.file = None (released by close)
    holder,        \* Openers \cup {None}    owner of the flock
    leaked,        \* [Openers -> BOOLEAN]   the flock is owned by a CoreInner that only orphaned
                   \*                        background tasks of o's runtime keep alive
    lockText,      \* Procs \cup {""}        pid text in LOCK (informational)
    damage,        \* "none" | "manifest" | "wal"   what the environment has damaged
    dmgLeft,       \* remaining damage budget
    \* ---- ghosts
    live,          \* [Openers -> BOOLEAN]
    cloneDropped,  \* [Openers -> BOOLEAN]   a non-last handle of a live store was dropped in a runtime
    badTouch       \* BOOLEAN

vars == <<ost, core, handles, pend, cst, ckind, shut, relsd, holder, leaked, lockText, damage,
          dmgLeft, live, cloneDropped, badTouch>>

TypeOK ==
    /\ ost \in [Openers -> {"idle", "pre", "locked"}]
    /\ core \in [Openers -> BOOLEAN]
    /\ handles \in [Openers -> 0..MaxHandles]
    /\ pend \in [Openers -> 0..MaxHandles]
    /\ cst \in [Openers -> {"idle", "flushed", "unlocked"}]
    /\ ckind \in [Openers -> {"none", "explicit", "async"}]
    /\ shut \in [Openers -> BOOLEAN]
    /\ relsd \in [Openers -> BOOLEAN]
    /\ holder \in Openers \cup {None}
    /\ leaked \in [Openers -> BOOLEAN]
    /\ lockText \in Procs \cup {""}
    /\ damage \in DamageKinds \cup {"none"}
    /\ dmgLeft \in 0..MaxDamage
    /\ live \in [Openers -> BOOLEAN]
    /\ cloneDropped \in [Openers -> BOOLEAN]
    /\ badTouch \in BOOLEAN

Init ==
    /\ ost = [o \in Openers |-> "idle"]
    /\ core = [o \in Openers |-> FALSE]
    /\ handles = [o \in Openers |-> 0]
    /\ pend = [o \in Openers |-> 0]
    /\ cst = [o \in Openers |-> "idle"]
    /\ ckind = [o \in Openers |-> "none"]
    /\ shut = [o \in Openers |-> FALSE]
    /\ relsd = [o \in Openers |-> FALSE]
    /\ holder = None
    /\ leaked = [o \in Openers |-> FALSE]
    /\ lockText = ""
    /\ damage = "none"
    /\ dmgLeft = MaxDamage
    /\ live = [o \in Openers |-> FALSE]
    /\ cloneDropped = [o \in Openers |-> FALSE]
    /\ badTouch = FALSE

-----------------------------------------------------------------------------
(* Property-level vocabulary (ghost state only).                            *)

LiveSet == {o \in Openers : live[o]}

(* The slot's thread is not inside a call (not parked at a gate).           *)
SlotIdle(o) == ost[o] = "idle" /\ cst[o] = "idle"

(* Nothing is in flight anywhere: no build() or close() is running and no  *)
(* close() spawned by a Drop is still to run.                              *)
Settled == \A o \in Openers : SlotIdle(o) /\ pend[o] = 0
SettledBut(o) == \A x \in Openers \ {o} : SlotIdle(x) /\ pend[x] = 0

(* What the property demands of the build() of opener o that is about to   *)
(* try the lock:                                                           *)
(*   "refuse"  another store is live                                       *)
(*   "accept"  no store is live, nothing is in flight, nothing is damaged  *)
(*   "any"     otherwise (a close is running, an async close is pending,   *)
(*             the files are damaged: the property leaves the result open) *)
Must(o) ==
    IF LiveSet \ {o} # {} THEN "refuse"
    ELSE IF SettledBut(o) /\ pend[o] = 0 /\ damage = "none" THEN "accept"
    ELSE "any"

(* The same question for an observer outside the model (a fresh process).  *)
MustProbe ==
    IF LiveSet # {} THEN "refuse"
    ELSE IF Settled /\ damage = "none" THEN "accept"
    ELSE "any"

(* A step of o changes database files (manifest, WAL, tables, clean-up).   *)
Touch(o) == badTouch' = (badTouch \/ holder # o)
NoTouch == UNCHANGED badTouch

-----------------------------------------------------------------------------
(* build()                                                                  *)

(* Tree::new up to the gate `lock_try`: Options::validate, create_dir_all  *)
(* of the directory skeleton (before the lock, creates nothing when the    *)
(* directories exist).  A slot is reused only when nothing of its previous *)
(* store is left.                                                          *)
OpenBegin(o) ==
    /\ SlotIdle(o) /\ ~core[o] /\ pend[o] = 0
    /\ ost' = [ost EXCEPT ![o] = "pre"]
    /\ UNCHANGED <<core, handles, pend, cst, ckind, shut, relsd, holder, leaked, lockText, damage,
                   dmgLeft, live, cloneDropped, badTouch>>

(* LockFile::acquire: open(create, truncate) THEN try_lock_exclusive, then *)
(* the pid is written.  A refused attempt has already erased the holder's  *)
(* pid text (informational, not part of the property).                     *)
LockResult(o) == IF holder = None THEN "Ok" ELSE "Refused"

LockTry(o) ==
    /\ ost[o] = "pre"
    /\ IF holder = None
       THEN /\ holder' = o
            /\ lockText' = ProcOf[o]
            /\ ost' = [ost EXCEPT ![o] = "locked"]
       ELSE /\ lockText' = ""
            /\ ost' = [ost EXCEPT ![o] = "idle"]
            /\ UNCHANGED holder
    /\ UNCHANGED <<core, handles, pend, cst, ckind, shut, relsd, leaked, damage, dmgLeft, live,
                   cloneDropped, badTouch>>

(* The rest of Core::new with the lock held: manifest load, WAL open,      *)
(* [CoreInner exists] background tasks spawned, WAL replay / repair,       *)
(* orphan clean-up.                                                        *)
(*   damaged manifest: fails inside CoreInner::new -> LockFile dropped     *)
(*   damaged WAL     : fails in Core::new after TaskManager::new -> the    *)
(*                     tasks keep CoreInner and with it the flock          *)
RecoverResult == IF damage = "none" THEN "Ok" ELSE "ErrDamage"

Recover(o) ==
    /\ ost[o] = "locked"
    /\ Touch(o)
    /\ ost' = [ost EXCEPT ![o] = "idle"]
    /\ CASE damage = "none" ->
              /\ core' = [core EXCEPT ![o] = TRUE]
              /\ handles' = [handles EXCEPT ![o] = 1]
              /\ shut' = [shut EXCEPT ![o] = FALSE]
              /\ relsd' = [relsd EXCEPT ![o] = FALSE]
              /\ live' = [live EXCEPT ![o] = TRUE]
              /\ cloneDropped' = [cloneDropped EXCEPT ![o] = FALSE]
              /\ UNCHANGED <<holder, leaked>>
         [] damage = "manifest" ->
              /\ holder' = None
              /\ UNCHANGED <<core, handles, shut, relsd, live, cloneDropped, leaked>>
         [] damage = "wal" ->
              /\ IF FixLeak
                 THEN holder' = None /\ UNCHANGED leaked
                 ELSE leaked' = [leaked EXCEPT ![o] = TRUE] /\ UNCHANGED holder
              /\ UNCHANGED <<core, handles, shut, relsd, live, cloneDropped>>
    /\ UNCHANGED <<pend, cst, ckind, lockText, damage, dmgLeft>>

-----------------------------------------------------------------------------
(* Using the store                                                          *)

CanUse(o) == core[o] /\ handles[o] > 0 /\ SlotIdle(o) /\ pend[o] = 0

CommitResult(o) == IF shut[o] THEN "Err" ELSE "Ok"

(* begin / set / commit / read back through a handle.                      *)
Commit(o) ==
    /\ CanUse(o)
    /\ IF shut[o] THEN NoTouch ELSE Touch(o)
    /\ UNCHANGED <<ost, core, handles, pend, cst, ckind, shut, relsd, holder, leaked, lockText,
                   damage, dmgLeft, live, cloneDropped>>

Clone(o) ==
    /\ core[o] /\ handles[o] > 0 /\ SlotIdle(o)
    /\ handles[o] + pend[o] < MaxHandles          \* model bound only
    /\ handles' = [handles EXCEPT ![o] = @ + 1]
    /\ UNCHANGED <<ost, core, pend, cst, ckind, shut, relsd, holder, leaked, lockText, damage,
                   dmgLeft, live, cloneDropped, badTouch>>

(* The last Arc<Core> is gone: Core is dropped.  If close() never stopped  *)
(* the background tasks they stay parked on their Notify forever, holding  *)
(* Arc<CoreInner>; the LockFile inside is then never dropped.              *)
CoreGone(o) ==
    /\ core' = [core EXCEPT ![o] = FALSE]
    /\ shut' = [shut EXCEPT ![o] = FALSE]
    /\ relsd' = [relsd EXCEPT ![o] = FALSE]
    /\ IF holder = o /\ ~relsd[o]
       THEN IF shut[o] \/ FixLeak
            THEN holder' = None /\ UNCHANGED leaked
            ELSE leaked' = [leaked EXCEPT ![o] = TRUE] /\ UNCHANGED holder
       ELSE UNCHANGED <<holder, leaked>>

(* Drop for Tree (any handle).                                             *)
DropHandle(o, ctx) ==
    /\ core[o] /\ handles[o] > 0 /\ SlotIdle(o)
    /\ LET last == handles[o] = 1
           spawn == ctx = "rt" /\ (last \/ ~FixCloneDrop)
       IN /\ handles' = [handles EXCEPT ![o] = @ - 1]
          /\ pend' = [pend EXCEPT ![o] = IF spawn THEN @ + 1 ELSE @]
          /\ live' = [live EXCEPT ![o] = @ /\ ~last]
          /\ cloneDropped' = [cloneDropped EXCEPT ![o] = @ \/ (spawn /\ ~last /\ live[o])]
          /\ IF last /\ ~spawn /\ pend[o] = 0
             THEN CoreGone(o)
             ELSE UNCHANGED <<core, shut, relsd, holder, leaked>>
    /\ UNCHANGED <<ost, cst, ckind, lockText, damage, dmgLeft, badTouch>>

-----------------------------------------------------------------------------
(* Core::close, called by the user (explicit) or by a task spawned in Drop *)
(* (async).  First part, up to the gate `lock_release`: commit pipeline    *)
(* shut down, tasks stopped, memtables flushed, WAL closed, old segments   *)
(* removed, directories synced.  A close() of an already released store    *)
(* runs through without a gate and changes no file.                        *)
CloseBegin(o) ==
    /\ CanUse(o)
    /\ shut' = [shut EXCEPT ![o] = TRUE]
    /\ live' = [live EXCEPT ![o] = FALSE]
    /\ IF relsd[o]
       THEN NoTouch /\ UNCHANGED <<cst, ckind>>
       ELSE /\ Touch(o)
            /\ cst' = [cst EXCEPT ![o] = "flushed"]
            /\ ckind' = [ckind EXCEPT ![o] = "explicit"]
    /\ UNCHANGED <<ost, core, handles, pend, relsd, holder, leaked, lockText, damage, dmgLeft,
                   cloneDropped>>

(* Runs when the slot's runtime is driven after a Drop spawned close().    *)
(* If the store was released already the task finishes at once (and so do  *)
(* all other pending ones); the Core goes with the last task when no       *)
(* handle is left.                                                         *)
AsyncCloseBegin(o) ==
    /\ core[o] /\ pend[o] > 0 /\ SlotIdle(o)
    /\ IF relsd[o]
       THEN /\ NoTouch
            /\ pend' = [pend EXCEPT ![o] = 0]
            /\ IF handles[o] = 0
               THEN /\ core' = [core EXCEPT ![o] = FALSE]
                    /\ shut' = [shut EXCEPT ![o] = FALSE]
                    /\ relsd' = [relsd EXCEPT ![o] = FALSE]
               ELSE /\ shut' = [shut EXCEPT ![o] = TRUE]
                    /\ UNCHANGED <<core, relsd>>
            /\ UNCHANGED <<cst, ckind>>
       ELSE /\ Touch(o)
            /\ shut' = [shut EXCEPT ![o] = TRUE]
            /\ cst' = [cst EXCEPT ![o] = "flushed"]
            /\ ckind' = [ckind EXCEPT ![o] = "async"]
            /\ UNCHANGED <<pend, core, relsd>>
    /\ UNCHANGED <<ost, handles, holder, leaked, lockText, damage, dmgLeft, live, cloneDropped>>

(* LockFile::release: the file is dropped, the flock is gone.              *)
Unlock(o) ==
    /\ cst[o] = "flushed"
    /\ cst' = [cst EXCEPT ![o] = "unlocked"]
    /\ relsd' = [relsd EXCEPT ![o] = TRUE]
    /\ holder' = IF holder = o THEN None ELSE holder
    /\ UNCHANGED <<ost, core, handles, pend, ckind, shut, leaked, lockText, damage, dmgLeft, live,
                   cloneDropped, badTouch>>

(* close() returns.  For a spawned close the remaining pending ones run to *)
(* their end in the same drive of the runtime (nothing left to release).   *)
CloseEnd(o) ==
    /\ cst[o] = "unlocked"
    /\ cst' = [cst EXCEPT ![o] = "idle"]
    /\ ckind' = [ckind EXCEPT ![o] = "none"]
    /\ IF ckind[o] = "async"
       THEN /\ pend' = [pend EXCEPT ![o] = 0]
            /\ IF handles[o] = 0
               THEN /\ core' = [core EXCEPT ![o] = FALSE]
                    /\ shut' = [shut EXCEPT ![o] = FALSE]
                    /\ relsd' = [relsd EXCEPT ![o] = FALSE]
               ELSE UNCHANGED <<core, shut, relsd>>
       ELSE UNCHANGED <<pend, core, shut, relsd>>
    /\ UNCHANGED <<ost, handles, holder, leaked, lockText, damage, dmgLeft, live, cloneDropped,
                   badTouch>>

-----------------------------------------------------------------------------
(* Runtime and process                                                      *)

(* The slot's tokio runtime is dropped and a new one created: parked tasks *)
(* are dropped, and with them a leaked CoreInner.                           *)
RtRestart(o) ==
    /\ SlotIdle(o) /\ ~core[o] /\ pend[o] = 0 /\ leaked[o]
    /\ leaked' = [leaked EXCEPT ![o] = FALSE]
    /\ holder' = IF holder = o THEN None ELSE holder
    /\ UNCHANGED <<ost, core, handles, pend, cst, ckind, shut, relsd, lockText, damage, dmgLeft,
                   live, cloneDropped, badTouch>>

Busy(o) == ost[o] # "idle" \/ cst[o] # "idle" \/ core[o] \/ leaked[o] \/ pend[o] > 0

(* SIGKILL or exit() of a process: every open file description is closed   *)
(* by the kernel; the pid text stays (stale).                               *)
Die(p) ==
    /\ \E o \in Openers : ProcOf[o] = p /\ Busy(o)
    /\ LET mine == {o \in Openers : ProcOf[o] = p}
           Reset(f, v) == [o \in Openers |-> IF o \in mine THEN v ELSE f[o]]
       IN /\ ost' = Reset(ost, "idle")
          /\ core' = Reset(core, FALSE)
          /\ handles' = Reset(handles, 0)
          /\ pend' = Reset(pend, 0)
          /\ cst' = Reset(cst, "idle")
          /\ ckind' = Reset(ckind, "none")
          /\ shut' = Reset(shut, FALSE)
          /\ relsd' = Reset(relsd, FALSE)
          /\ leaked' = Reset(leaked, FALSE)
          /\ live' = Reset(live, FALSE)
          /\ cloneDropped' = Reset(cloneDropped, FALSE)
          /\ holder' = IF holder \in mine THEN None ELSE holder
    /\ UNCHANGED <<lockText, damage, dmgLeft, badTouch>>

-----------------------------------------------------------------------------
(* Environment: while nothing is open and the lock is free a file is       *)
(* damaged (as a crash or a disk would), later put back byte for byte.     *)
Damage(k) ==
    /\ damage = "none" /\ dmgLeft > 0 /\ holder = None
    /\ \A o \in Openers : ~Busy(o)
    /\ damage' = k
    /\ dmgLeft' = dmgLeft - 1
    /\ UNCHANGED <<ost, core, handles, pend, cst, ckind, shut, relsd, holder, leaked, lockText, live,
                   cloneDropped, badTouch>>

Repair ==
    /\ damage # "none"
    /\ \A o \in Openers : SlotIdle(o) /\ ~core[o]
    /\ damage' = "none"
    /\ UNCHANGED <<ost, core, handles, pend, cst, ckind, shut, relsd, holder, leaked, lockText,
                   dmgLeft, live, cloneDropped, badTouch>>

Next ==
    \/ \E o \in Openers :
         \/ OpenBegin(o) \/ LockTry(o) \/ Recover(o)
         \/ Commit(o) \/ Clone(o)
         \/ \E c \in Ctxs : DropHandle(o, c)
         \/ CloseBegin(o) \/ AsyncCloseBegin(o) \/ Unlock(o) \/ CloseEnd(o)
         \/ RtRestart(o)
    \/ \E p \in Procs : Die(p)
    \/ \E k \in DamageKinds : Damage(k)
    \/ Repair

Spec == Init /\ [][Next]_vars

-----------------------------------------------------------------------------
(* Mechanism.                                                               *)

(* The flock has one owner (by construction of the OS primitive); an owner *)
(* is a running build() past the lock, an existing Core, or a leak.        *)
HolderIsSomebody ==
    holder # None => (ost[holder] = "locked" \/ core[holder] \/ leaked[holder])

(* A build() never gets past the lock while somebody else owns it.          *)
LockedImpliesHolder == \A o \in Openers : ost[o] = "locked" => holder = o

-----------------------------------------------------------------------------
(* The property.  Each invariant carries the narrow escape that describes  *)
(* a defect of the code as it is (reproduced on the real code by the        *)
(* driver, see NOTES.md); with FixCloneDrop / FixLeak = TRUE the escapes    *)
(* are unreachable and the plain invariants hold.                           *)

Known_CloneDrop(o) == cloneDropped[o]             \* D1: a clone's Drop closed the store under the user
Known_Leak == holder # None /\ leaked[holder]      \* D2/D3: orphaned tasks keep the flock

(* AtMostOne: never two live stores on the directory.                       *)
OneLive ==
    \A a, b \in LiveSet : a # b => (Known_CloneDrop(a) \/ Known_CloneDrop(b))

(* A live store owns the lock and is usable.                                *)
LiveHoldsLock ==
    \A o \in LiveSet : (holder = o /\ ~shut[o] /\ ~relsd[o]) \/ Known_CloneDrop(o)

(* SideEffectsOnlyByHolder / RefusedLeavesData: no step changed database    *)
(* files without owning the lock; in particular a refused build() (which    *)
(* never owns it) changed nothing.                                          *)
OnlyHolderTouches == ~badTouch

(* ReopenAfterRelease: once no store is live and nothing is in flight, the  *)
(* lock is free, so the next build() is accepted.                           *)
ReopenAfterRelease ==
    (LiveSet = {} /\ Settled) => (holder = None \/ Known_Leak)

(* The same four without escapes (checked with the Fix constants TRUE).     *)
OneLiveStrict == Cardinality(LiveSet) <= 1
LiveHoldsLockStrict == \A o \in LiveSet : holder = o /\ ~shut[o] /\ ~relsd[o]
ReopenAfterReleaseStrict == (LiveSet = {} /\ Settled) => holder = None

(* Not claimed (DESIGN section 8 item 18, informational): the pid text names *)
(* the owner.  False in the code: a refused attempt truncates LOCK.          *)
LockTextNamesHolder == holder # None => lockText = ProcOf[holder]
=============================================================================
