---- MODULE MvccMC_TTrace_1790365897 ----
EXTENDS Sequences, TLCExt, Toolbox, Naturals, TLC, MvccMC

_expression ==
    LET MvccMC_TEExpression == INSTANCE MvccMC_TEExpression
    IN MvccMC_TEExpression!expression
----

_trace ==
    LET MvccMC_TETrace == INSTANCE MvccMC_TETrace
    IN MvccMC_TETrace!trace
----

_inv ==
    ~(
        TLCGet("level") = Len(_TETrace)
        /\
        cursor = ([r1 |-> [open |-> FALSE], r2 |-> [open |-> FALSE]])
        /\
        deep = (<<{[k |-> "k2", kind |-> "Set", seq |-> 2, win |-> TRUE]}>>)
        /\
        visible = (2)
        /\
        l0 = (<<>>)
        /\
        log = (<<[a |-> "k2", b |-> "Set", op |-> "Commit"], [a |-> "r1", b |-> "", op |-> "BeginLoad"], [a |-> "k2", b |-> "Set", op |-> "Commit"], [a |-> "", b |-> "", op |-> "Rotate"], [a |-> "", b |-> "", op |-> "Flush"], [a |-> "0", b |-> "", op |-> "Compact"], [a |-> "r1", b |-> "", op |-> "BeginRegister"]>>)
        /\
        imm = (<<>>)
        /\
        steps = (7)
        /\
        hist = ({[k |-> "k2", kind |-> "Set", seq |-> 1, win |-> TRUE], [k |-> "k2", kind |-> "Set", seq |-> 2, win |-> TRUE]})
        /\
        nflush = (1)
        /\
        pc = ([r1 |-> "open", r2 |-> "idle"])
        /\
        snapLo = ([r1 |-> 1, r2 |-> 0])
        /\
        mem = ({})
        /\
        tracker = ((0 :> 0 @@ 1 :> 1))
        /\
        ncompact = (1)
        /\
        snap = ([r1 |-> 1, r2 |-> 0])
    )
----

_init ==
    /\ steps = _TETrace[1].steps
    /\ tracker = _TETrace[1].tracker
    /\ nflush = _TETrace[1].nflush
    /\ visible = _TETrace[1].visible
    /\ deep = _TETrace[1].deep
    /\ snap = _TETrace[1].snap
    /\ log = _TETrace[1].log
    /\ pc = _TETrace[1].pc
    /\ hist = _TETrace[1].hist
    /\ imm = _TETrace[1].imm
    /\ cursor = _TETrace[1].cursor
    /\ ncompact = _TETrace[1].ncompact
    /\ snapLo = _TETrace[1].snapLo
    /\ l0 = _TETrace[1].l0
    /\ mem = _TETrace[1].mem
----

_next ==
    /\ \E i,j \in DOMAIN _TETrace:
        /\ \/ /\ j = i + 1
              /\ i = TLCGet("level")
        /\ steps  = _TETrace[i].steps
        /\ steps' = _TETrace[j].steps
        /\ tracker  = _TETrace[i].tracker
        /\ tracker' = _TETrace[j].tracker
        /\ nflush  = _TETrace[i].nflush
        /\ nflush' = _TETrace[j].nflush
        /\ visible  = _TETrace[i].visible
        /\ visible' = _TETrace[j].visible
        /\ deep  = _TETrace[i].deep
        /\ deep' = _TETrace[j].deep
        /\ snap  = _TETrace[i].snap
        /\ snap' = _TETrace[j].snap
        /\ log  = _TETrace[i].log
        /\ log' = _TETrace[j].log
        /\ pc  = _TETrace[i].pc
        /\ pc' = _TETrace[j].pc
        /\ hist  = _TETrace[i].hist
        /\ hist' = _TETrace[j].hist
        /\ imm  = _TETrace[i].imm
        /\ imm' = _TETrace[j].imm
        /\ cursor  = _TETrace[i].cursor
        /\ cursor' = _TETrace[j].cursor
        /\ ncompact  = _TETrace[i].ncompact
        /\ ncompact' = _TETrace[j].ncompact
        /\ snapLo  = _TETrace[i].snapLo
        /\ snapLo' = _TETrace[j].snapLo
        /\ l0  = _TETrace[i].l0
        /\ l0' = _TETrace[j].l0
        /\ mem  = _TETrace[i].mem
        /\ mem' = _TETrace[j].mem

\* Uncomment the ASSUME below to write the states of the error trace
\* to the given file in Json format. Note that you can pass any tuple
\* to `JsonSerialize`. For example, a sub-sequence of _TETrace.
    \* ASSUME
    \*     LET J == INSTANCE Json
    \*         IN J!JsonSerialize("MvccMC_TTrace_1790365897.json", _TETrace)

=============================================================================

 Note that you can extract this module `MvccMC_TEExpression`
  to a dedicated file to reuse `expression` (the module in the 
  dedicated `MvccMC_TEExpression.tla` file takes precedence 
  over the module `MvccMC_TEExpression` below).

---- MODULE MvccMC_TEExpression ----
EXTENDS Sequences, TLCExt, Toolbox, Naturals, TLC, MvccMC

expression == 
    [
        \* To hide variables of the `MvccMC` spec from the error trace,
        \* remove the variables below.  The trace will be written in the order
        \* of the fields of this record.
        steps |-> steps
        ,tracker |-> tracker
        ,nflush |-> nflush
        ,visible |-> visible
        ,deep |-> deep
        ,snap |-> snap
        ,log |-> log
        ,pc |-> pc
        ,hist |-> hist
        ,imm |-> imm
        ,cursor |-> cursor
        ,ncompact |-> ncompact
        ,snapLo |-> snapLo
        ,l0 |-> l0
        ,mem |-> mem
        
        \* Put additional constant-, state-, and action-level expressions here:
        \* ,_stateNumber |-> _TEPosition
        \* ,_stepsUnchanged |-> steps = steps'
        
        \* Format the `steps` variable as Json value.
        \* ,_stepsJson |->
        \*     LET J == INSTANCE Json
        \*     IN J!ToJson(steps)
        
        \* Lastly, you may build expressions over arbitrary sets of states by
        \* leveraging the _TETrace operator.  For example, this is how to
        \* count the number of times a spec variable changed up to the current
        \* state in the trace.
        \* ,_stepsModCount |->
        \*     LET F[s \in DOMAIN _TETrace] ==
        \*         IF s = 1 THEN 0
        \*         ELSE IF _TETrace[s].steps # _TETrace[s-1].steps
        \*             THEN 1 + F[s-1] ELSE F[s-1]
        \*     IN F[_TEPosition - 1]
    ]

=============================================================================



Parsing and semantic processing can take forever if the trace below is long.
 In this case, it is advised to uncomment the module below to deserialize the
 trace from a generated binary file.

\*
\*---- MODULE MvccMC_TETrace ----
\*EXTENDS IOUtils, TLC, MvccMC
\*
\*trace == IODeserialize("MvccMC_TTrace_1790365897.bin", TRUE)
\*
\*=============================================================================
\*

---- MODULE MvccMC_TETrace ----
EXTENDS TLC, MvccMC

trace == 
    <<
    ([cursor |-> [r1 |-> [open |-> FALSE], r2 |-> [open |-> FALSE]],deep |-> <<{}>>,visible |-> 0,l0 |-> <<>>,log |-> <<>>,imm |-> <<>>,steps |-> 0,hist |-> {},nflush |-> 0,pc |-> [r1 |-> "idle", r2 |-> "idle"],snapLo |-> [r1 |-> 0, r2 |-> 0],mem |-> {},tracker |-> <<>>,ncompact |-> 0,snap |-> [r1 |-> 0, r2 |-> 0]]),
    ([cursor |-> [r1 |-> [open |-> FALSE], r2 |-> [open |-> FALSE]],deep |-> <<{}>>,visible |-> 1,l0 |-> <<>>,log |-> <<[a |-> "k2", b |-> "Set", op |-> "Commit"]>>,imm |-> <<>>,steps |-> 1,hist |-> {[k |-> "k2", kind |-> "Set", seq |-> 1, win |-> TRUE]},nflush |-> 0,pc |-> [r1 |-> "idle", r2 |-> "idle"],snapLo |-> [r1 |-> 0, r2 |-> 0],mem |-> {[k |-> "k2", kind |-> "Set", seq |-> 1, win |-> TRUE]},tracker |-> (0 :> 0),ncompact |-> 0,snap |-> [r1 |-> 0, r2 |-> 0]]),
    ([cursor |-> [r1 |-> [open |-> FALSE], r2 |-> [open |-> FALSE]],deep |-> <<{}>>,visible |-> 1,l0 |-> <<>>,log |-> <<[a |-> "k2", b |-> "Set", op |-> "Commit"], [a |-> "r1", b |-> "", op |-> "BeginLoad"]>>,imm |-> <<>>,steps |-> 2,hist |-> {[k |-> "k2", kind |-> "Set", seq |-> 1, win |-> TRUE]},nflush |-> 0,pc |-> [r1 |-> "loaded", r2 |-> "idle"],snapLo |-> [r1 |-> 1, r2 |-> 0],mem |-> {[k |-> "k2", kind |-> "Set", seq |-> 1, win |-> TRUE]},tracker |-> (0 :> 0),ncompact |-> 0,snap |-> [r1 |-> 1, r2 |-> 0]]),
    ([cursor |-> [r1 |-> [open |-> FALSE], r2 |-> [open |-> FALSE]],deep |-> <<{}>>,visible |-> 2,l0 |-> <<>>,log |-> <<[a |-> "k2", b |-> "Set", op |-> "Commit"], [a |-> "r1", b |-> "", op |-> "BeginLoad"], [a |-> "k2", b |-> "Set", op |-> "Commit"]>>,imm |-> <<>>,steps |-> 3,hist |-> {[k |-> "k2", kind |-> "Set", seq |-> 1, win |-> TRUE], [k |-> "k2", kind |-> "Set", seq |-> 2, win |-> TRUE]},nflush |-> 0,pc |-> [r1 |-> "loaded", r2 |-> "idle"],snapLo |-> [r1 |-> 1, r2 |-> 0],mem |-> {[k |-> "k2", kind |-> "Set", seq |-> 1, win |-> TRUE], [k |-> "k2", kind |-> "Set", seq |-> 2, win |-> TRUE]},tracker |-> (0 :> 0 @@ 1 :> 0),ncompact |-> 0,snap |-> [r1 |-> 1, r2 |-> 0]]),
    ([cursor |-> [r1 |-> [open |-> FALSE], r2 |-> [open |-> FALSE]],deep |-> <<{}>>,visible |-> 2,l0 |-> <<>>,log |-> <<[a |-> "k2", b |-> "Set", op |-> "Commit"], [a |-> "r1", b |-> "", op |-> "BeginLoad"], [a |-> "k2", b |-> "Set", op |-> "Commit"], [a |-> "", b |-> "", op |-> "Rotate"]>>,imm |-> <<{[k |-> "k2", kind |-> "Set", seq |-> 1, win |-> TRUE], [k |-> "k2", kind |-> "Set", seq |-> 2, win |-> TRUE]}>>,steps |-> 4,hist |-> {[k |-> "k2", kind |-> "Set", seq |-> 1, win |-> TRUE], [k |-> "k2", kind |-> "Set", seq |-> 2, win |-> TRUE]},nflush |-> 0,pc |-> [r1 |-> "loaded", r2 |-> "idle"],snapLo |-> [r1 |-> 1, r2 |-> 0],mem |-> {},tracker |-> (0 :> 0 @@ 1 :> 0),ncompact |-> 0,snap |-> [r1 |-> 1, r2 |-> 0]]),
    ([cursor |-> [r1 |-> [open |-> FALSE], r2 |-> [open |-> FALSE]],deep |-> <<{}>>,visible |-> 2,l0 |-> <<{[k |-> "k2", kind |-> "Set", seq |-> 1, win |-> TRUE], [k |-> "k2", kind |-> "Set", seq |-> 2, win |-> TRUE]}>>,log |-> <<[a |-> "k2", b |-> "Set", op |-> "Commit"], [a |-> "r1", b |-> "", op |-> "BeginLoad"], [a |-> "k2", b |-> "Set", op |-> "Commit"], [a |-> "", b |-> "", op |-> "Rotate"], [a |-> "", b |-> "", op |-> "Flush"]>>,imm |-> <<>>,steps |-> 5,hist |-> {[k |-> "k2", kind |-> "Set", seq |-> 1, win |-> TRUE], [k |-> "k2", kind |-> "Set", seq |-> 2, win |-> TRUE]},nflush |-> 1,pc |-> [r1 |-> "loaded", r2 |-> "idle"],snapLo |-> [r1 |-> 1, r2 |-> 0],mem |-> {},tracker |-> (0 :> 0 @@ 1 :> 0),ncompact |-> 0,snap |-> [r1 |-> 1, r2 |-> 0]]),
    ([cursor |-> [r1 |-> [open |-> FALSE], r2 |-> [open |-> FALSE]],deep |-> <<{[k |-> "k2", kind |-> "Set", seq |-> 2, win |-> TRUE]}>>,visible |-> 2,l0 |-> <<>>,log |-> <<[a |-> "k2", b |-> "Set", op |-> "Commit"], [a |-> "r1", b |-> "", op |-> "BeginLoad"], [a |-> "k2", b |-> "Set", op |-> "Commit"], [a |-> "", b |-> "", op |-> "Rotate"], [a |-> "", b |-> "", op |-> "Flush"], [a |-> "0", b |-> "", op |-> "Compact"]>>,imm |-> <<>>,steps |-> 6,hist |-> {[k |-> "k2", kind |-> "Set", seq |-> 1, win |-> TRUE], [k |-> "k2", kind |-> "Set", seq |-> 2, win |-> TRUE]},nflush |-> 1,pc |-> [r1 |-> "loaded", r2 |-> "idle"],snapLo |-> [r1 |-> 1, r2 |-> 0],mem |-> {},tracker |-> (0 :> 0 @@ 1 :> 0),ncompact |-> 1,snap |-> [r1 |-> 1, r2 |-> 0]]),
    ([cursor |-> [r1 |-> [open |-> FALSE], r2 |-> [open |-> FALSE]],deep |-> <<{[k |-> "k2", kind |-> "Set", seq |-> 2, win |-> TRUE]}>>,visible |-> 2,l0 |-> <<>>,log |-> <<[a |-> "k2", b |-> "Set", op |-> "Commit"], [a |-> "r1", b |-> "", op |-> "BeginLoad"], [a |-> "k2", b |-> "Set", op |-> "Commit"], [a |-> "", b |-> "", op |-> "Rotate"], [a |-> "", b |-> "", op |-> "Flush"], [a |-> "0", b |-> "", op |-> "Compact"], [a |-> "r1", b |-> "", op |-> "BeginRegister"]>>,imm |-> <<>>,steps |-> 7,hist |-> {[k |-> "k2", kind |-> "Set", seq |-> 1, win |-> TRUE], [k |-> "k2", kind |-> "Set", seq |-> 2, win |-> TRUE]},nflush |-> 1,pc |-> [r1 |-> "open", r2 |-> "idle"],snapLo |-> [r1 |-> 1, r2 |-> 0],mem |-> {},tracker |-> (0 :> 0 @@ 1 :> 1),ncompact |-> 1,snap |-> [r1 |-> 1, r2 |-> 0]])
    >>
----


=============================================================================

---- CONFIG MvccMC_TTrace_1790365897 ----
CONSTANTS
    Absent = 0
    Keys = { "k1" , "k2" }
    CommitKinds = { "Set" , "Del" }
    Readers = { "r1" , "r2" }
    NLevels = 2
    Versioning = FALSE
    Variant = "orig"
    RuleVariant = "orig"
    MaxCommits = 3
    MaxFlushes = 2
    MaxCompactions = 1
    MaxSteps = 9
    TwoStepBegin = TRUE

INVARIANT
    _inv

CHECK_DEADLOCK
    \* CHECK_DEADLOCK off because of PROPERTY or INVARIANT above.
    FALSE

INIT
    _init

NEXT
    _next

CONSTANT
    _TETrace <- _trace

ALIAS
    _expression
=============================================================================
\* Generated on Fri Sep 25 19:51:44 UTC 2026