------------------------------- MODULE MvccMC -------------------------------
(* Bounded instance of Mvcc: exhaustive check of SI / Latest, and export of   *)
(* one replayable scenario per explored transition for the real engine.      *)
EXTENDS Mvcc, Json

CONSTANTS MaxCommits, MaxFlushes, MaxCompactions, MaxSteps, MaxReopens,
          TwoStepBegin     \* TRUE: begin is BeginLoad ; BeginRegister (explores the window); FALSE: atomic

VARIABLES nflush, ncompact, nreopen, log, steps
mcvars == <<vars, nflush, ncompact, nreopen, log, steps>>

Op(name, a, b) == [op |-> name, a |-> a, b |-> b]
Log(r) == log' = Append(log, r) /\ steps' = steps + 1

MCInit == Init /\ nflush = 0 /\ ncompact = 0 /\ nreopen = 0 /\ log = <<>> /\ steps = 0

MCNext ==
    \/ /\ nreopen < MaxReopens
       /\ Reopen /\ Log(Op("Reopen", "", "")) /\ nreopen' = nreopen + 1 /\ UNCHANGED <<nflush, ncompact>>
    \/ \E k \in Keys, kind \in CommitKinds :
         /\ visible < MaxCommits
         /\ Commit(k, kind) /\ Log(Op("Commit", k, kind)) /\ UNCHANGED <<nflush, ncompact, nreopen>>
    \/ Rotate /\ Log(Op("Rotate", "", "")) /\ UNCHANGED <<nflush, ncompact, nreopen>>
    \/ /\ nflush < MaxFlushes
       /\ Flush /\ Log(Op("Flush", "", "")) /\ nflush' = nflush + 1 /\ UNCHANGED <<ncompact, nreopen>>
    \/ \E l \in 0..(NLevels - 1) :
         /\ ncompact < MaxCompactions
         /\ Compact(l) /\ Log(Op("Compact", ToString(l), "")) /\ ncompact' = ncompact + 1 /\ UNCHANGED <<nflush, nreopen>>
    \/ \E r \in Readers :
         /\ \/ TwoStepBegin /\ BeginLoad(r) /\ Log(Op("BeginLoad", r, ""))
            \/ BeginRegister(r) /\ Log(Op("BeginRegister", r, ""))
            \/ (~TwoStepBegin) /\ Begin(r) /\ Log(Op("Begin", r, ""))
            \/ OpenCursor(r) /\ Log(Op("OpenCursor", r, ""))
            \/ CloseCursor(r) /\ Log(Op("CloseCursor", r, ""))
            \/ End(r) /\ Log(Op("End", r, ""))
         /\ UNCHANGED <<nflush, ncompact, nreopen>>

StepBound == steps <= MaxSteps

(* expected observations in the state after the last step, by the PROPERTY (ReadAt over hist) *)
Expect ==
    [latest |-> [k \in Keys |-> ReadAt(hist, k, visible)],
     readers |-> [r \in Readers |->
                    [open |-> pc[r] = "open",
                     cursor |-> cursor[r].open,
                     snap |-> snap[r],
                     lo |-> snapLo[r],
                     \* the reader may have begun anywhere inside its begin() call: one candidate per horizon
                     cands |-> [i \in 1..(snap[r] - snapLo[r] + 1) |->
                                  [k \in Keys |-> ReadAt(hist, k, snapLo[r] + i - 1)]],
                     reads |-> [k \in Keys |-> ReadAt(hist, k, snap[r])]]],
     registered |-> Registered,
     visible |-> visible]

Export == PrintT("REPLAY " \o ToJson([ops |-> log', expect |-> Expect']))

View == <<vars, nflush, ncompact, nreopen>>
=============================================================================
