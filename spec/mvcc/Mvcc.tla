-------------------------------- MODULE Mvcc --------------------------------
(***************************************************************************)
(* The read side of the engine: where committed versions physically are    *)
(* (active memtable, immutable memtables, level-0 tables, deeper levels),  *)
(* how a reader finds "its" version (src/snapshot.rs Snapshot::get, range  *)
(* cursors), how readers announce their horizon (SnapshotTracker), and how *)
(* rotation, flush and compaction move and discard versions in between.    *)
(*                                                                         *)
(* Implementation shaped on purpose:                                       *)
(*  - a transaction begins in two steps (load the visible horizon, then    *)
(*    register it: Transaction::new);                                      *)
(*  - the registry of horizons is what the code uses (Variant "orig": a    *)
(*    set, as SkipSet<u64>; "repo": one entry per registration);           *)
(*  - opening a range cursor pins the physical structure it iterates over  *)
(*    and (Variant "orig") runs the Drop of a temporary Snapshot, which    *)
(*    unregisters the reader's horizon (SnapshotIterator::new_from);       *)
(*  - a point read searches active -> immutables (newest first) -> level 0 *)
(*    tables in list order -> deeper levels and stops at the first table   *)
(*    that has a version of the key at or below the horizon;               *)
(*  - compaction captures the registered horizons and applies the          *)
(*    retention rule of Retention.tla to every key of its inputs.          *)
(*                                                                         *)
(* Ghost: hist = every version ever committed.  Property (C01): whatever a *)
(* reader reads equals ReadAt(hist, k, its horizon); (C06): the latest     *)
(* reader reads ReadAt(hist, k, visible) under every physical arrangement. *)
(***************************************************************************)
EXTENDS Retention, TLC

CONSTANTS
    Keys,          \* user keys
    CommitKinds,   \* subset of Kinds used by committers
    Readers,       \* reader identities
    NLevels,       \* 2 or 3: levels 0 .. NLevels-1; the last one is the bottom
    Versioning,    \* BOOLEAN (retention 0 when TRUE)
    Variant,       \* "orig" | "repo"   (see above)
    RuleVariant    \* variant of the retention rule ("orig" | "repo" | "ideal")

VARIABLES
    hist,       \* ghost: set of all committed versions [k, seq, kind, win]
    visible,    \* highest published sequence number
    mem,        \* versions in the active memtable
    imm,        \* sequence of version sets: immutable memtables, oldest first
    l0,         \* sequence of version sets: level-0 tables, newest first
    deep,       \* [1..NLevels-1 -> version set]: one sorted run per deeper level
    tracker,    \* registered horizons: a function seq -> count (count capped at 1 for "orig")
    pc,         \* [Readers -> "idle" | "loaded" | "open" | "done"]
    snap,       \* [Readers -> horizon the reader ends up with]
    snapLo,     \* ghost: [Readers -> visible when begin() was called]
    cursor      \* [Readers -> "none" | pinned structure]
vars == <<hist, visible, mem, imm, l0, deep, tracker, pc, snap, snapLo, cursor>>

NoCursor == [open |-> FALSE]

OfKey(S, k) == {v \in S : v.k = k}
Strip(S) == {[seq |-> v.seq, kind |-> v.kind, win |-> v.win] : v \in S}

(* What the property prescribes *)
ReadAt(S, k, h) == Read(Strip(OfKey(S, k)), h)

-----------------------------------------------------------------------------
(* The code's point read over a physical structure *)
Hit(S, k, h) == AtOrBelow(Strip(OfKey(S, k)), h) # {}
Answer(S, k, h) == Read(Strip(OfKey(S, k)), h)

RECURSIVE SearchSeq(_, _, _, _)
(* first set in the sequence (searched front to back) with a hit, else "miss" *)
SearchSeq(seqOfSets, i, k, h) ==
    IF i > Len(seqOfSets) THEN <<"miss">>
    ELSE IF Hit(seqOfSets[i], k, h) THEN <<"hit", Answer(seqOfSets[i], k, h)>>
    ELSE SearchSeq(seqOfSets, i + 1, k, h)

Reverse(s) == [i \in 1..Len(s) |-> s[Len(s) + 1 - i]]
DeepSeq(d) == [i \in 1..(NLevels - 1) |-> d[i]]

PointGet(m, im, z, d, k, h) ==
    LET order == <<m>> \o Reverse(im) \o z \o DeepSeq(d)
        r == SearchSeq(order, 1, k, h)
    IN IF r[1] = "miss" THEN Absent ELSE r[2]

(* A range cursor merges everything it pinned and shows the newest visible version *)
AllOf(m, im, z, d) ==
    m \cup UNION {im[i] : i \in 1..Len(im)} \cup UNION {z[i] : i \in 1..Len(z)}
      \cup UNION {d[i] : i \in 1..(NLevels - 1)}
CursorGet(c, k, h) == ReadAt(AllOf(c.mem, c.imm, c.l0, c.deep), k, h)

Registered == {s \in DOMAIN tracker : tracker[s] > 0}

-----------------------------------------------------------------------------
Init ==
    /\ hist = {} /\ visible = 0 /\ mem = {} /\ imm = <<>> /\ l0 = <<>>
    /\ deep = [i \in 1..(NLevels - 1) |-> {}]
    /\ tracker = <<>>         \* empty function
    /\ pc = [r \in Readers |-> "idle"]
    /\ snap = [r \in Readers |-> 0]
    /\ snapLo = [r \in Readers |-> 0]
    /\ cursor = [r \in Readers |-> NoCursor]

Inc(t, s) == IF s \in DOMAIN t
             THEN [t EXCEPT ![s] = IF Variant = "orig" THEN 1 ELSE @ + 1]
             ELSE [x \in DOMAIN t \cup {s} |-> IF x = s THEN 1 ELSE t[x]]
Dec(t, s) == IF s \in DOMAIN t /\ t[s] > 0 THEN [t EXCEPT ![s] = @ - 1] ELSE t

Commit(k, kind) ==
    LET v == [k |-> k, seq |-> visible + 1, kind |-> kind, win |-> TRUE] IN
    /\ hist' = hist \cup {v}
    /\ mem' = mem \cup {v}
    /\ visible' = visible + 1
       \* the committing transaction had registered `visible` as its own horizon and drops it now
    /\ tracker' = Dec(Inc(tracker, visible), visible)
    /\ UNCHANGED <<imm, l0, deep, pc, snap, snapLo, cursor>>

Rotate ==
    /\ mem # {}
    /\ imm' = Append(imm, mem)
    /\ mem' = {}
    /\ UNCHANGED <<hist, visible, l0, deep, tracker, pc, snap, snapLo, cursor>>

Flush ==
    /\ imm # <<>>
    /\ l0' = <<Head(imm)>> \o l0
    /\ imm' = Tail(imm)
    /\ UNCHANGED <<hist, visible, mem, deep, tracker, pc, snap, snapLo, cursor>>

(* One compaction round out of level src (0 = all level-0 tables) into src+1, or within the
   last level.  Everything of the target level takes part (tiny key space: ranges overlap). *)
RECURSIVE NewestFirst(_)
\* (selection sort: enumerating [1..n -> vs] is n^n - 8 versions of one key already exceed TLC's set limit)
NewestFirst(vs) ==
    IF vs = {} THEN <<>>
    ELSE LET m == CHOOSE x \in vs : \A y \in vs : x.seq >= y.seq IN <<m>> \o NewestFirst(vs \ {m})
KeyList(S, k) == NewestFirst(Strip(OfKey(S, k)))

Compacted(S, bottom) ==
    UNION { { [k |-> k, seq |-> v.seq, kind |-> v.kind, win |-> v.win] :
                v \in Rule(KeyList(S, k), Registered, bottom, Versioning, FALSE, RuleVariant) }
            : k \in {v.k : v \in S} }

Compact(src) ==
    /\ src \in 0..(NLevels - 1)
    /\ LET tgt == IF src = NLevels - 1 THEN src ELSE src + 1
           input == (IF src = 0 THEN UNION {l0[i] : i \in 1..Len(l0)} ELSE deep[src]) \cup deep[tgt]
           bottom == tgt = NLevels - 1
       IN /\ src = 0 => l0 # <<>>
          /\ src > 0 => deep[src] # {}
          /\ src = 0 \/ src = tgt \/ TRUE
          /\ deep' = [i \in 1..(NLevels - 1) |->
                        IF i = tgt THEN Compacted(input, bottom)
                        ELSE IF i = src THEN {} ELSE deep[i]]
          /\ l0' = IF src = 0 THEN <<>> ELSE l0
    /\ UNCHANGED <<hist, visible, mem, imm, tracker, pc, snap, snapLo, cursor>>

BeginLoad(r) ==
    /\ pc[r] = "idle"
    /\ snap' = [snap EXCEPT ![r] = visible]
    /\ snapLo' = [snapLo EXCEPT ![r] = visible]
    /\ pc' = [pc EXCEPT ![r] = "loaded"]
    /\ UNCHANGED <<hist, visible, mem, imm, l0, deep, tracker, cursor>>

BeginRegister(r) ==
    /\ pc[r] = "loaded"
       \* "repo": register, re-check the horizon, start over from the newer one if it moved
    /\ snap' = [snap EXCEPT ![r] = IF Variant = "orig" THEN @ ELSE visible]
    /\ tracker' = Inc(tracker, snap'[r])
    /\ pc' = [pc EXCEPT ![r] = "open"]
    /\ UNCHANGED <<hist, visible, mem, imm, l0, deep, snapLo, cursor>>

(* both steps at once (the usual case; shortens scenarios that do not need the window) *)
Begin(r) ==
    /\ pc[r] = "idle"
    /\ snap' = [snap EXCEPT ![r] = visible]
    /\ snapLo' = [snapLo EXCEPT ![r] = visible]
    /\ tracker' = Inc(tracker, visible)
    /\ pc' = [pc EXCEPT ![r] = "open"]
    /\ UNCHANGED <<hist, visible, mem, imm, l0, deep, cursor>>

OpenCursor(r) ==
    /\ pc[r] = "open"
    /\ cursor' = [cursor EXCEPT ![r] = [open |-> TRUE, mem |-> mem, imm |-> imm, l0 |-> l0, deep |-> deep]]
    /\ tracker' = IF Variant = "orig" THEN Dec(tracker, snap[r]) ELSE tracker
    /\ UNCHANGED <<hist, visible, mem, imm, l0, deep, pc, snap, snapLo>>

CloseCursor(r) ==
    /\ cursor[r].open
    /\ cursor' = [cursor EXCEPT ![r] = NoCursor]
    /\ UNCHANGED <<hist, visible, mem, imm, l0, deep, tracker, pc, snap, snapLo>>

End(r) ==
    /\ pc[r] = "open"
    /\ tracker' = Dec(tracker, snap[r])
    /\ pc' = [pc EXCEPT ![r] = "done"]
    /\ cursor' = [cursor EXCEPT ![r] = NoCursor]
    /\ UNCHANGED <<hist, visible, mem, imm, l0, deep, snap, snapLo>>

(* Clean close and reopen (no flush on close): unflushed versions come back from the commit
   log into one memtable; tables stay; no transaction survives. *)
Reopen ==
    /\ \A r \in Readers : pc[r] \in {"idle", "done"}
    /\ mem' = mem \cup UNION {imm[i] : i \in 1..Len(imm)}
    /\ imm' = <<>>
    /\ tracker' = <<>>
    /\ UNCHANGED <<hist, visible, l0, deep, pc, snap, snapLo, cursor>>

Next ==
    \/ Reopen
    \/ \E k \in Keys, kind \in CommitKinds : Commit(k, kind)
    \/ Rotate \/ Flush
    \/ \E l \in 0..(NLevels - 1) : Compact(l)
    \/ \E r \in Readers : BeginLoad(r) \/ BeginRegister(r) \/ Begin(r) \/ OpenCursor(r) \/ CloseCursor(r) \/ End(r)

Spec == Init /\ [][Next]_vars

-----------------------------------------------------------------------------
(* Properties *)

ReaderGet(r, k) == PointGet(mem, imm, l0, deep, k, snap[r])

(* C01: every open reader reads its snapshot, through point reads and through cursors *)
SI == \A r \in Readers : pc[r] = "open" =>
        \A k \in Keys :
            /\ ReaderGet(r, k) = ReadAt(hist, k, snap[r])
            /\ cursor[r].open => CursorGet(cursor[r], k, snap[r]) = ReadAt(hist, k, snap[r])

(* the horizon a reader ends up with lies within its begin() call *)
BeginWithin == \A r \in Readers : pc[r] = "open" => snapLo[r] <= snap[r] /\ snap[r] <= visible

(* C06: the latest reader is unaffected by the physical arrangement *)
Latest == \A k \in Keys : PointGet(mem, imm, l0, deep, k, visible) = ReadAt(hist, k, visible)

(* nothing from the future: implied by SI, stated for readability of counterexamples *)
NoFuture == \A r \in Readers : pc[r] = "open" =>
        \A k \in Keys : ReaderGet(r, k) # Absent => ReaderGet(r, k) <= snap[r]
=============================================================================
