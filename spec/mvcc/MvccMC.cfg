CONSTANTS
    Absent = 0
    Keys = {"k1", "k2"}
    CommitKinds = {"Set", "Del"}
    Readers = {"r1", "r2"}
    NLevels = 2
    Versioning = FALSE
    Variant = "repo"
    RuleVariant = "repo"
    MaxCommits = 3
    MaxFlushes = 2
    MaxCompactions = 1
    MaxSteps = 9
    MaxReopens = 0
    TwoStepBegin = TRUE
INIT MCInit
NEXT MCNext
CONSTRAINT StepBound
VIEW View
INVARIANTS SI Latest BeginWithin
CHECK_DEADLOCK FALSE
