CONSTANTS
    MaxTxn = 3
    MaxRot = 2
    MaxCompact = 1
    Variant = "repo"
    MaxCrash = 2
    RecCap = 1
    RecoverVariant = "repo"
INIT Init
NEXT Next
INVARIANTS TypeOK Reopenable Durable Atomic Prefix
CHECK_DEADLOCK FALSE
