---------------------------- MODULE StorageTrace ----------------------------
(***************************************************************************)
(* Implementation -> specification.  The operation log recorded from the    *)
(* real engine (shim/fsrec.c: every file-system operation, plus the          *)
(* driver's commit / acknowledge marks) is abstracted by checks/_storage.py  *)
(* into the events below, in their real order, together with the crash       *)
(* observations (what the real recovery code returned for the image rebuilt  *)
(* at that point).  This module replays the events on the abstract durable   *)
(* state of Storage.tla (segments with their fsynced prefix, tables,         *)
(* manifest, acknowledged transactions) and judges                           *)
(*   Mech_*  the mechanism rules the model relies on, at EVERY real step,    *)
(*   Obs_*   the recovered content of every crash image (C02 / C03 / C07).   *)
(* It is a total observer: every event is consumed; failed judgements are    *)
(* printed (one line each) and collected by the check.                       *)
(* Single committer: transactions are 1, 2, 3 ... in commit order.           *)
(***************************************************************************)
EXTENDS Integers, Sequences, FiniteSets, TLC, Json, IOUtils

Rec == ndJsonDeserialize(IOEnv.TRACE)

VARIABLES l, wal, active, man, tabs, acked, synced, started, run
vars == <<l, wal, active, man, tabs, acked, synced, started, run>>

NoSeg == [recs |-> <<>>, syn |-> 0, exists |-> FALSE]
Seg(s) == IF s \in DOMAIN wal THEN wal[s] ELSE NoSeg
SetSeg(s, v) == [x \in DOMAIN wal \cup {s} |-> IF x = s THEN v ELSE wal[x]]
Tab(i) == IF i \in DOMAIN tabs THEN tabs[i] ELSE [syn |-> FALSE, exists |-> FALSE]
SetTab(i, v) == [x \in DOMAIN tabs \cup {i} |-> IF x = i THEN v ELSE tabs[x]]
ToSet(s) == {s[i] : i \in 1..Len(s)}
InSeq(t, s) == \E i \in 1..Len(s) : s[i] = t
PosIn(t, s) == CHOOSE i \in 1..Len(s) : s[i] = t /\ \A j \in 1..Len(s) : s[j] = t => j <= i

Fresh == /\ wal = (0 :> [recs |-> <<>>, syn |-> 0, exists |-> TRUE])
         /\ active = 0 /\ man = [tables |-> {}, log |-> 0] /\ tabs = <<>>
         /\ acked = 0 /\ synced = 0 /\ started = 0

Init == l = 1 /\ run = 0 /\ Fresh

Fail(name, e) == PrintT("FAIL " \o ToJson([check |-> name, line |-> l, run |-> run, ev |-> e]))
Check(name, ok, e) == IF ok THEN TRUE ELSE Fail(name, e)

Step ==
    /\ l <= Len(Rec)
    /\ l' = l + 1
    /\ LET e == Rec[l] IN
       CASE e.ev = "Reset" ->
              /\ run' = e.run
              /\ wal' = (0 :> [recs |-> <<>>, syn |-> 0, exists |-> TRUE])
              /\ active' = 0 /\ man' = [tables |-> {}, log |-> 0] /\ tabs' = <<>>
              /\ acked' = 0 /\ synced' = 0 /\ started' = 0
         [] e.ev = "Log" ->
              /\ wal' = SetSeg(e.seg, [Seg(e.seg) EXCEPT !.recs = Append(Seg(e.seg).recs, e.t), !.exists = TRUE])
              /\ started' = IF e.t > started THEN e.t ELSE started
              /\ UNCHANGED <<active, man, tabs, acked, synced, run>>
         [] e.ev = "WalSync" ->
              /\ wal' = SetSeg(e.seg, [Seg(e.seg) EXCEPT !.syn = Len(Seg(e.seg).recs)])
              /\ UNCHANGED <<active, man, tabs, acked, synced, started, run>>
         [] e.ev = "Rotate" ->
              /\ wal' = SetSeg(e.seg, [NoSeg EXCEPT !.exists = TRUE])
              /\ active' = e.seg
              /\ UNCHANGED <<man, tabs, acked, synced, started, run>>
         [] e.ev = "Ack" ->
              \* the record must be in the segment of the memtable the batch lives in (= the active one),
              \* and fsynced if the commit asked for it
              /\ Check("Mech_AckRecordInMemtableSegment", InSeq(e.t, Seg(active).recs), e)
              /\ Check("Mech_AckSynced",
                       (~e.sync) \/ (InSeq(e.t, Seg(active).recs) /\ PosIn(e.t, Seg(active).recs) <= Seg(active).syn), e)
              /\ acked' = e.t
              /\ synced' = IF e.sync THEN e.t ELSE synced
              /\ UNCHANGED <<wal, active, man, tabs, started, run>>
         [] e.ev = "FlushWal" ->
              /\ Check("Mech_FlushWalSynced", Seg(active).syn = Len(Seg(active).recs), e)
              /\ synced' = acked
              /\ UNCHANGED <<wal, active, man, tabs, acked, started, run>>
         [] e.ev = "TabCreate" ->
              /\ tabs' = SetTab(e.id, [syn |-> FALSE, exists |-> TRUE])
              /\ UNCHANGED <<wal, active, man, acked, synced, started, run>>
         [] e.ev = "TabSync" ->
              /\ tabs' = SetTab(e.id, [Tab(e.id) EXCEPT !.syn = TRUE])
              /\ UNCHANGED <<wal, active, man, acked, synced, started, run>>
         [] e.ev = "TabDelete" ->
              /\ Check("Mech_DeletedTableNotInManifest", e.id \notin man.tables, e)
              /\ tabs' = SetTab(e.id, [syn |-> FALSE, exists |-> FALSE])
              /\ UNCHANGED <<wal, active, man, acked, synced, started, run>>
         [] e.ev = "Manifest" ->
              \* power-loss safety of the switch: every table it names is complete on disk
              /\ Check("Mech_ManifestTablesSynced", \A i \in ToSet(e.tables) : Tab(i).exists /\ Tab(i).syn, e)
              /\ Check("Mech_LogNumberMonotone", e.log >= man.log, e)
              /\ Check("Mech_LogNumberNotBeyondActive", e.log <= active + 1, e)
              /\ man' = [tables |-> ToSet(e.tables), log |-> e.log]
              /\ UNCHANGED <<wal, active, tabs, acked, synced, started, run>>
         [] e.ev = "WalDelete" ->
              /\ Check("Mech_WalDeleteBelowLogNumber", e.seg < man.log, e)
              /\ wal' = SetSeg(e.seg, [Seg(e.seg) EXCEPT !.exists = FALSE])
              /\ UNCHANGED <<active, man, tabs, acked, synced, started, run>>
         [] e.ev = "Begin" ->
              /\ started' = IF e.t > started THEN e.t ELSE started
              /\ UNCHANGED <<wal, active, man, tabs, acked, synced, run>>
         [] e.ev = "Crash" ->
              \* observation: the real recovery code, run on the image rebuilt here, returned a content equal to the
              \* result of the prefixes e.ms of the commit order (several when later transactions change nothing);
              \* e.ok = FALSE: it refused to open, crashed or hung
              /\ Check("Obs_Reopenable", e.ok, e)
              /\ Check("Obs_PrefixConsistent", (~e.ok) \/ Len(e.ms) > 0, e)
              /\ Check("Obs_NotFromTheFuture", (~e.ok) \/ Len(e.ms) = 0 \/ \E i \in 1..Len(e.ms) : e.ms[i] <= started, e)
              /\ Check("Obs_Durable",
                       (~e.ok) \/ Len(e.ms) = 0
                       \/ \E i \in 1..Len(e.ms) :
                             e.ms[i] <= started /\ e.ms[i] >= (IF e.model = "process" THEN acked ELSE synced), e)
              /\ UNCHANGED <<wal, active, man, tabs, acked, synced, started, run>>
         [] OTHER -> UNCHANGED <<wal, active, man, tabs, acked, synced, started, run>>

Next == Step
Done == l = Len(Rec) + 1 => PrintT("CONSUMED " \o ToString(Len(Rec)))
=============================================================================
