---- MODULE StorageMC_TTrace_1790371756 ----
EXTENDS Sequences, TLCExt, Toolbox, Naturals, TLC, StorageMC

_expression ==
    LET StorageMC_TEExpression == INSTANCE StorageMC_TEExpression
    IN StorageMC_TEExpression!expression
----

_trace ==
    LET StorageMC_TETrace == INSTANCE StorageMC_TETrace
    IN StorageMC_TETrace!trace
----

_inv ==
    ~(
        TLCGet("level") = Len(_TETrace)
        /\
        next = (2)
        /\
        kph = ("idle")
        /\
        wal = ((0 :> [synced |-> 2, exists |-> TRUE, recs |-> <<1, 2>>] @@ 1 :> [synced |-> 0, exists |-> TRUE, recs |-> <<>>] @@ 2 :> [synced |-> 0, exists |-> FALSE, recs |-> <<>>]))
        /\
        imm = (<<>>)
        /\
        active = (1)
        /\
        acked = ({1})
        /\
        kin = ({})
        /\
        tab = (<<[ents |-> {<<1, 1>>, <<1, 2>>, <<2, 1>>}, synced |-> TRUE, exists |-> TRUE], [ents |-> {}, synced |-> FALSE, exists |-> FALSE], [ents |-> {}, synced |-> FALSE, exists |-> FALSE], [ents |-> {}, synced |-> FALSE, exists |-> FALSE]>>)
        /\
        mem = ([ents |-> {}, seg |-> 1])
        /\
        nextTab = (2)
        /\
        loggedIn = (0)
        /\
        csync = (FALSE)
        /\
        cph = ("rotated")
        /\
        man = ([tables |-> {1}, log |-> 1])
        /\
        ackedSync = ({1})
        /\
        ncompact = (0)
        /\
        fph = ("switched")
    )
----

_init ==
    /\ active = _TETrace[1].active
    /\ tab = _TETrace[1].tab
    /\ kin = _TETrace[1].kin
    /\ fph = _TETrace[1].fph
    /\ imm = _TETrace[1].imm
    /\ next = _TETrace[1].next
    /\ man = _TETrace[1].man
    /\ ncompact = _TETrace[1].ncompact
    /\ loggedIn = _TETrace[1].loggedIn
    /\ wal = _TETrace[1].wal
    /\ cph = _TETrace[1].cph
    /\ csync = _TETrace[1].csync
    /\ acked = _TETrace[1].acked
    /\ kph = _TETrace[1].kph
    /\ mem = _TETrace[1].mem
    /\ ackedSync = _TETrace[1].ackedSync
    /\ nextTab = _TETrace[1].nextTab
----

_next ==
    /\ \E i,j \in DOMAIN _TETrace:
        /\ \/ /\ j = i + 1
              /\ i = TLCGet("level")
        /\ active  = _TETrace[i].active
        /\ active' = _TETrace[j].active
        /\ tab  = _TETrace[i].tab
        /\ tab' = _TETrace[j].tab
        /\ kin  = _TETrace[i].kin
        /\ kin' = _TETrace[j].kin
        /\ fph  = _TETrace[i].fph
        /\ fph' = _TETrace[j].fph
        /\ imm  = _TETrace[i].imm
        /\ imm' = _TETrace[j].imm
        /\ next  = _TETrace[i].next
        /\ next' = _TETrace[j].next
        /\ man  = _TETrace[i].man
        /\ man' = _TETrace[j].man
        /\ ncompact  = _TETrace[i].ncompact
        /\ ncompact' = _TETrace[j].ncompact
        /\ loggedIn  = _TETrace[i].loggedIn
        /\ loggedIn' = _TETrace[j].loggedIn
        /\ wal  = _TETrace[i].wal
        /\ wal' = _TETrace[j].wal
        /\ cph  = _TETrace[i].cph
        /\ cph' = _TETrace[j].cph
        /\ csync  = _TETrace[i].csync
        /\ csync' = _TETrace[j].csync
        /\ acked  = _TETrace[i].acked
        /\ acked' = _TETrace[j].acked
        /\ kph  = _TETrace[i].kph
        /\ kph' = _TETrace[j].kph
        /\ mem  = _TETrace[i].mem
        /\ mem' = _TETrace[j].mem
        /\ ackedSync  = _TETrace[i].ackedSync
        /\ ackedSync' = _TETrace[j].ackedSync
        /\ nextTab  = _TETrace[i].nextTab
        /\ nextTab' = _TETrace[j].nextTab

\* Uncomment the ASSUME below to write the states of the error trace
\* to the given file in Json format. Note that you can pass any tuple
\* to `JsonSerialize`. For example, a sub-sequence of _TETrace.
    \* ASSUME
    \*     LET J == INSTANCE Json
    \*         IN J!JsonSerialize("StorageMC_TTrace_1790371756.json", _TETrace)

=============================================================================

 Note that you can extract this module `StorageMC_TEExpression`
  to a dedicated file to reuse `expression` (the module in the 
  dedicated `StorageMC_TEExpression.tla` file takes precedence 
  over the module `StorageMC_TEExpression` below).

---- MODULE StorageMC_TEExpression ----
EXTENDS Sequences, TLCExt, Toolbox, Naturals, TLC, StorageMC

expression == 
    [
        \* To hide variables of the `StorageMC` spec from the error trace,
        \* remove the variables below.  The trace will be written in the order
        \* of the fields of this record.
        active |-> active
        ,tab |-> tab
        ,kin |-> kin
        ,fph |-> fph
        ,imm |-> imm
        ,next |-> next
        ,man |-> man
        ,ncompact |-> ncompact
        ,loggedIn |-> loggedIn
        ,wal |-> wal
        ,cph |-> cph
        ,csync |-> csync
        ,acked |-> acked
        ,kph |-> kph
        ,mem |-> mem
        ,ackedSync |-> ackedSync
        ,nextTab |-> nextTab
        
        \* Put additional constant-, state-, and action-level expressions here:
        \* ,_stateNumber |-> _TEPosition
        \* ,_activeUnchanged |-> active = active'
        
        \* Format the `active` variable as Json value.
        \* ,_activeJson |->
        \*     LET J == INSTANCE Json
        \*     IN J!ToJson(active)
        
        \* Lastly, you may build expressions over arbitrary sets of states by
        \* leveraging the _TETrace operator.  For example, this is how to
        \* count the number of times a spec variable changed up to the current
        \* state in the trace.
        \* ,_activeModCount |->
        \*     LET F[s \in DOMAIN _TETrace] ==
        \*         IF s = 1 THEN 0
        \*         ELSE IF _TETrace[s].active # _TETrace[s-1].active
        \*             THEN 1 + F[s-1] ELSE F[s-1]
        \*     IN F[_TEPosition - 1]
    ]

=============================================================================



Parsing and semantic processing can take forever if the trace below is long.
 In this case, it is advised to uncomment the module below to deserialize the
 trace from a generated binary file.

\*
\*---- MODULE StorageMC_TETrace ----
\*EXTENDS IOUtils, TLC, StorageMC
\*
\*trace == IODeserialize("StorageMC_TTrace_1790371756.bin", TRUE)
\*
\*=============================================================================
\*

---- MODULE StorageMC_TETrace ----
EXTENDS TLC, StorageMC

trace == 
    <<
    ([next |-> 1,kph |-> "idle",wal |-> (0 :> [synced |-> 0, exists |-> TRUE, recs |-> <<>>] @@ 1 :> [synced |-> 0, exists |-> FALSE, recs |-> <<>>] @@ 2 :> [synced |-> 0, exists |-> FALSE, recs |-> <<>>]),imm |-> <<>>,active |-> 0,acked |-> {},kin |-> {},tab |-> <<[ents |-> {}, synced |-> FALSE, exists |-> FALSE], [ents |-> {}, synced |-> FALSE, exists |-> FALSE], [ents |-> {}, synced |-> FALSE, exists |-> FALSE], [ents |-> {}, synced |-> FALSE, exists |-> FALSE]>>,mem |-> [ents |-> {}, seg |-> 0],nextTab |-> 1,loggedIn |-> 0,csync |-> FALSE,cph |-> "idle",man |-> [tables |-> {}, log |-> 0],ackedSync |-> {},ncompact |-> 0,fph |-> "idle"]),
    ([next |-> 1,kph |-> "idle",wal |-> (0 :> [synced |-> 1, exists |-> TRUE, recs |-> <<1>>] @@ 1 :> [synced |-> 0, exists |-> FALSE, recs |-> <<>>] @@ 2 :> [synced |-> 0, exists |-> FALSE, recs |-> <<>>]),imm |-> <<>>,active |-> 0,acked |-> {},kin |-> {},tab |-> <<[ents |-> {}, synced |-> FALSE, exists |-> FALSE], [ents |-> {}, synced |-> FALSE, exists |-> FALSE], [ents |-> {}, synced |-> FALSE, exists |-> FALSE], [ents |-> {}, synced |-> FALSE, exists |-> FALSE]>>,mem |-> [ents |-> {}, seg |-> 0],nextTab |-> 1,loggedIn |-> 0,csync |-> TRUE,cph |-> "logged",man |-> [tables |-> {}, log |-> 0],ackedSync |-> {},ncompact |-> 0,fph |-> "idle"]),
    ([next |-> 1,kph |-> "idle",wal |-> (0 :> [synced |-> 1, exists |-> TRUE, recs |-> <<1>>] @@ 1 :> [synced |-> 0, exists |-> FALSE, recs |-> <<>>] @@ 2 :> [synced |-> 0, exists |-> FALSE, recs |-> <<>>]),imm |-> <<>>,active |-> 0,acked |-> {},kin |-> {},tab |-> <<[ents |-> {}, synced |-> FALSE, exists |-> FALSE], [ents |-> {}, synced |-> FALSE, exists |-> FALSE], [ents |-> {}, synced |-> FALSE, exists |-> FALSE], [ents |-> {}, synced |-> FALSE, exists |-> FALSE]>>,mem |-> [ents |-> {<<1, 1>>, <<1, 2>>}, seg |-> 0],nextTab |-> 1,loggedIn |-> 0,csync |-> TRUE,cph |-> "applied",man |-> [tables |-> {}, log |-> 0],ackedSync |-> {},ncompact |-> 0,fph |-> "idle"]),
    ([next |-> 2,kph |-> "idle",wal |-> (0 :> [synced |-> 1, exists |-> TRUE, recs |-> <<1>>] @@ 1 :> [synced |-> 0, exists |-> FALSE, recs |-> <<>>] @@ 2 :> [synced |-> 0, exists |-> FALSE, recs |-> <<>>]),imm |-> <<>>,active |-> 0,acked |-> {1},kin |-> {},tab |-> <<[ents |-> {}, synced |-> FALSE, exists |-> FALSE], [ents |-> {}, synced |-> FALSE, exists |-> FALSE], [ents |-> {}, synced |-> FALSE, exists |-> FALSE], [ents |-> {}, synced |-> FALSE, exists |-> FALSE]>>,mem |-> [ents |-> {<<1, 1>>, <<1, 2>>}, seg |-> 0],nextTab |-> 1,loggedIn |-> 0,csync |-> TRUE,cph |-> "idle",man |-> [tables |-> {}, log |-> 0],ackedSync |-> {1},ncompact |-> 0,fph |-> "idle"]),
    ([next |-> 2,kph |-> "idle",wal |-> (0 :> [synced |-> 1, exists |-> TRUE, recs |-> <<1, 2>>] @@ 1 :> [synced |-> 0, exists |-> FALSE, recs |-> <<>>] @@ 2 :> [synced |-> 0, exists |-> FALSE, recs |-> <<>>]),imm |-> <<>>,active |-> 0,acked |-> {1},kin |-> {},tab |-> <<[ents |-> {}, synced |-> FALSE, exists |-> FALSE], [ents |-> {}, synced |-> FALSE, exists |-> FALSE], [ents |-> {}, synced |-> FALSE, exists |-> FALSE], [ents |-> {}, synced |-> FALSE, exists |-> FALSE]>>,mem |-> [ents |-> {<<1, 1>>, <<1, 2>>}, seg |-> 0],nextTab |-> 1,loggedIn |-> 0,csync |-> FALSE,cph |-> "logged",man |-> [tables |-> {}, log |-> 0],ackedSync |-> {1},ncompact |-> 0,fph |-> "idle"]),
    ([next |-> 2,kph |-> "idle",wal |-> (0 :> [synced |-> 2, exists |-> TRUE, recs |-> <<1, 2>>] @@ 1 :> [synced |-> 0, exists |-> TRUE, recs |-> <<>>] @@ 2 :> [synced |-> 0, exists |-> FALSE, recs |-> <<>>]),imm |-> <<[ents |-> {<<1, 1>>, <<1, 2>>, <<2, 1>>}, seg |-> 0]>>,active |-> 1,acked |-> {1},kin |-> {},tab |-> <<[ents |-> {}, synced |-> FALSE, exists |-> FALSE], [ents |-> {}, synced |-> FALSE, exists |-> FALSE], [ents |-> {}, synced |-> FALSE, exists |-> FALSE], [ents |-> {}, synced |-> FALSE, exists |-> FALSE]>>,mem |-> [ents |-> {}, seg |-> 1],nextTab |-> 1,loggedIn |-> 0,csync |-> FALSE,cph |-> "rotated",man |-> [tables |-> {}, log |-> 0],ackedSync |-> {1},ncompact |-> 0,fph |-> "idle"]),
    ([next |-> 2,kph |-> "idle",wal |-> (0 :> [synced |-> 2, exists |-> TRUE, recs |-> <<1, 2>>] @@ 1 :> [synced |-> 0, exists |-> TRUE, recs |-> <<>>] @@ 2 :> [synced |-> 0, exists |-> FALSE, recs |-> <<>>]),imm |-> <<[ents |-> {<<1, 1>>, <<1, 2>>, <<2, 1>>}, seg |-> 0]>>,active |-> 1,acked |-> {1},kin |-> {},tab |-> <<[ents |-> {<<1, 1>>, <<1, 2>>, <<2, 1>>}, synced |-> FALSE, exists |-> TRUE], [ents |-> {}, synced |-> FALSE, exists |-> FALSE], [ents |-> {}, synced |-> FALSE, exists |-> FALSE], [ents |-> {}, synced |-> FALSE, exists |-> FALSE]>>,mem |-> [ents |-> {}, seg |-> 1],nextTab |-> 1,loggedIn |-> 0,csync |-> FALSE,cph |-> "rotated",man |-> [tables |-> {}, log |-> 0],ackedSync |-> {1},ncompact |-> 0,fph |-> "written"]),
    ([next |-> 2,kph |-> "idle",wal |-> (0 :> [synced |-> 2, exists |-> TRUE, recs |-> <<1, 2>>] @@ 1 :> [synced |-> 0, exists |-> TRUE, recs |-> <<>>] @@ 2 :> [synced |-> 0, exists |-> FALSE, recs |-> <<>>]),imm |-> <<[ents |-> {<<1, 1>>, <<1, 2>>, <<2, 1>>}, seg |-> 0]>>,active |-> 1,acked |-> {1},kin |-> {},tab |-> <<[ents |-> {<<1, 1>>, <<1, 2>>, <<2, 1>>}, synced |-> TRUE, exists |-> TRUE], [ents |-> {}, synced |-> FALSE, exists |-> FALSE], [ents |-> {}, synced |-> FALSE, exists |-> FALSE], [ents |-> {}, synced |-> FALSE, exists |-> FALSE]>>,mem |-> [ents |-> {}, seg |-> 1],nextTab |-> 1,loggedIn |-> 0,csync |-> FALSE,cph |-> "rotated",man |-> [tables |-> {}, log |-> 0],ackedSync |-> {1},ncompact |-> 0,fph |-> "synced"]),
    ([next |-> 2,kph |-> "idle",wal |-> (0 :> [synced |-> 2, exists |-> TRUE, recs |-> <<1, 2>>] @@ 1 :> [synced |-> 0, exists |-> TRUE, recs |-> <<>>] @@ 2 :> [synced |-> 0, exists |-> FALSE, recs |-> <<>>]),imm |-> <<>>,active |-> 1,acked |-> {1},kin |-> {},tab |-> <<[ents |-> {<<1, 1>>, <<1, 2>>, <<2, 1>>}, synced |-> TRUE, exists |-> TRUE], [ents |-> {}, synced |-> FALSE, exists |-> FALSE], [ents |-> {}, synced |-> FALSE, exists |-> FALSE], [ents |-> {}, synced |-> FALSE, exists |-> FALSE]>>,mem |-> [ents |-> {}, seg |-> 1],nextTab |-> 2,loggedIn |-> 0,csync |-> FALSE,cph |-> "rotated",man |-> [tables |-> {1}, log |-> 1],ackedSync |-> {1},ncompact |-> 0,fph |-> "switched"])
    >>
----


=============================================================================

---- CONFIG StorageMC_TTrace_1790371756 ----
CONSTANTS
    MaxTxn = 3
    MaxRot = 2
    MaxCompact = 1
    Variant = "orig"

INVARIANT
    _inv

CHECK_DEADLOCK
    \* CHECK_DEADLOCK off because of PROPERTY or INVARIANT above.
    FALSE

INIT
    _init

NEXT
    _next

CONSTANT
    _TETrace <- _trace

ALIAS
    _expression
=============================================================================
\* Generated on Fri Sep 25 21:29:17 UTC 2026