------------------------------ MODULE Storage -------------------------------
(***************************************************************************)
(* Durable state of the store and the steps that change it                  *)
(* (src/lsm.rs LsmCommitEnv::{write,apply}, rotate_memtable,                *)
(* flush_immutable_to_sst, cleanup_old_segments; src/compaction/compactor;  *)
(* src/levels write_manifest_to_disk; src/wal), one action per file-system  *)
(* step, so that "a crash at any instant" is "in any reachable state".       *)
(*                                                                         *)
(*  commit      Log (append the batch record to the active segment, fsync    *)
(*              if the commit is Immediate) - Apply to the active memtable;   *)
(*              if it is full: Rotate (fsync the old segment, create the     *)
(*              next one, memtable -> immutable queue), then ("repo") Relog  *)
(*              the record into the new segment, Apply there - Ack           *)
(*  flush       write table - fsync table - switch manifest (adds the table, *)
(*              log_number := segment of the flushed memtable + 1; atomic:   *)
(*              temp file, fsync, rename) - drop the memtable - delete       *)
(*              segments below log_number                                   *)
(*  compaction  write merged table - ("repo": fsync it) - switch manifest -  *)
(*              delete the inputs                                            *)
(*                                                                         *)
(* Every transaction has two entries, so that "part of a transaction" is     *)
(* expressible.  Variant "orig" is the pinned commit: a full memtable keeps  *)
(* the entries inserted before ArenaFull, there is no Relog, compaction      *)
(* output is not fsynced.  Variant "repo" is the repository after the fix    *)
(* commits of DESIGN §8.                                                     *)
(*                                                                         *)
(* Crash models (statement of C02): process crash = everything written is    *)
(* kept; power loss = per file only fsynced data is guaranteed, namespace    *)
(* operations are kept in order.  What recovery yields is an operator over   *)
(* the durable state (Recovered); the properties are invariants that         *)
(* quantify over the crash model and over how much unsynced data survived.   *)
(***************************************************************************)
EXTENDS Naturals, Sequences, FiniteSets, TLC

CONSTANTS
    MaxTxn,        \* transactions 1..MaxTxn, committed one after the other
    MaxRot,        \* bound on memtable rotations
    MaxCompact,    \* bound on compactions
    Variant,       \* "orig" | "repo"
    MaxCrash,      \* bound on process crashes followed by a recovery (sessions)
    RecCap,        \* transactions a memtable holds while the log is replayed (a segment with more is split)
    RecoverVariant \* "orig": parts of a split segment are flushed with log_number = segment + 1 while the last part stays
                   \*         in memory, and the writer reopens on the old log number (pinned commit)
                   \* "parts": the last part is flushed too when it shares its segment with a flushed part, and the
                   \*         writer reopens on the manifest's log number as it is after recovery - but EVERY part's
                   \*         flush still sets log_number = segment + 1 (first version of the repair, 39e3ade)
                   \* "repo": ... and only the flush of the last part of a segment marks the segment as flushed

Txn == 1..MaxTxn
Entries(t) == {<<t, 1>>, <<t, 2>>}
Segs == 0..MaxRot
TableIds == 1..(MaxRot + MaxCompact + 1 + MaxCrash * MaxTxn)

VARIABLES
    next,       \* the transaction being committed (MaxTxn + 1 = done)
    cph,        \* committer: "idle" | "logged" | "rotated" | "relogged" | "applied"
    csync,      \* is the current commit Immediate?
    loggedIn,   \* segment holding the newest record of the current transaction
    wal,        \* [Segs -> [recs : Seq(Txn), synced : Nat, exists : BOOLEAN]]
    active,     \* active segment
    mem,        \* [ents : set of entries, seg : Segs]     the active memtable
    imm,        \* Seq of memtables waiting for flush, oldest first
    tab,        \* [TableIds -> [ents, synced, exists]]    table files
    man,        \* [tables : SUBSET TableIds, log : Nat]   the manifest on disk
    nextTab,
    fph,        \* flush task: "idle" | "written" | "synced" | "switched"
    kph,        \* compaction: "idle" | "written" | "synced" | "switched"
    kin,        \* inputs of the running compaction
    ncompact,
    acked,      \* acknowledged transactions
    ackedSync,  \* ... that must survive a power loss
    down,       \* the process has crashed and has not been restarted yet
    ncrash,
    rq,         \* start-up in progress: recovered memtables still to be flushed (each with `done` = it completes its segment)
    rlast,      \* ... and the one that becomes the active memtable
    rph         \* "none" | "flushing": a start-up is in progress
ovars == <<next, cph, csync, loggedIn, wal, active, mem, imm, tab, man, nextTab, fph, kph, kin, ncompact, acked, ackedSync>>
vars == <<ovars, down, ncrash, rq, rlast, rph>>

NoTab == [ents |-> {}, synced |-> FALSE, exists |-> FALSE]

Init ==
    /\ next = 1 /\ cph = "idle" /\ csync = FALSE /\ loggedIn = 0
    /\ wal = [s \in Segs |-> [recs |-> <<>>, synced |-> 0, exists |-> s = 0]]
    /\ active = 0
    /\ mem = [ents |-> {}, seg |-> 0]
    /\ imm = <<>>
    /\ tab = [i \in TableIds |-> NoTab]
    /\ man = [tables |-> {}, log |-> 0]
    /\ nextTab = 1
    /\ fph = "idle" /\ kph = "idle" /\ kin = {} /\ ncompact = 0
    /\ acked = {} /\ ackedSync = {}
    /\ down = FALSE /\ ncrash = 0 /\ rq = <<>> /\ rlast = {} /\ rph = "none"

WalAppend(s, t, sync) ==
    [wal EXCEPT ![s] = [recs |-> Append(wal[s].recs, t),
                        synced |-> IF sync THEN Len(wal[s].recs) + 1 ELSE wal[s].synced,
                        exists |-> wal[s].exists]]

-----------------------------------------------------------------------------
(* committer *)
Log(sync) ==
    /\ cph = "idle" /\ next <= MaxTxn
    /\ wal' = WalAppend(active, next, sync)
    /\ csync' = sync /\ loggedIn' = active /\ cph' = "logged"
    /\ UNCHANGED <<next, active, mem, imm, tab, man, nextTab, fph, kph, kin, ncompact, acked, ackedSync>>

(* the batch goes into the active memtable as a whole *)
ApplyFit ==
    /\ cph \in {"logged", "relogged"} \/ (cph = "rotated" /\ Variant = "orig")
    /\ Variant = "repo" => loggedIn = mem.seg
    /\ mem' = [mem EXCEPT !.ents = @ \cup Entries(next)]
    /\ cph' = "applied"
    /\ UNCHANGED <<next, csync, loggedIn, wal, active, imm, tab, man, nextTab, fph, kph, kin, ncompact, acked, ackedSync>>

(* the memtable is full: (orig: the first entry stays in it,) rotate *)
Rotate ==
    /\ cph = "logged" /\ active < MaxRot
    /\ LET old == IF Variant = "orig" THEN [mem EXCEPT !.ents = @ \cup {<<next, 1>>}] ELSE mem IN
       /\ imm' = Append(imm, old)
       /\ wal' = [wal EXCEPT ![active] = [@ EXCEPT !.synced = Len(wal[active].recs)],   \* rotation fsyncs the old segment
                             ![active + 1] = [@ EXCEPT !.exists = TRUE]]
       /\ active' = active + 1
       /\ mem' = [ents |-> {}, seg |-> active + 1]
    /\ cph' = "rotated"
    /\ UNCHANGED <<next, csync, loggedIn, tab, man, nextTab, fph, kph, kin, ncompact, acked, ackedSync>>

(* "repo": the record follows the batch into the segment of the memtable it is applied to *)
Relog ==
    /\ Variant = "repo" /\ cph = "rotated"
    /\ wal' = WalAppend(active, next, csync)
    /\ loggedIn' = active /\ cph' = "relogged"
    /\ UNCHANGED <<next, csync, active, mem, imm, tab, man, nextTab, fph, kph, kin, ncompact, acked, ackedSync>>

Ack ==
    /\ cph = "applied"
    /\ acked' = acked \cup {next}
    /\ ackedSync' = IF csync THEN ackedSync \cup {next} ELSE ackedSync
    /\ next' = next + 1 /\ cph' = "idle"
    /\ UNCHANGED <<csync, loggedIn, wal, active, mem, imm, tab, man, nextTab, fph, kph, kin, ncompact>>

(* Tree::flush_wal(true): fsync of the active segment; everything acknowledged is durable from here on *)
FlushWalSync ==
    /\ cph = "idle"
    /\ wal' = [wal EXCEPT ![active] = [@ EXCEPT !.synced = Len(wal[active].recs)]]
    /\ ackedSync' = acked
    /\ UNCHANGED <<next, cph, csync, loggedIn, active, mem, imm, tab, man, nextTab, fph, kph, kin, ncompact, acked>>

-----------------------------------------------------------------------------
(* flush task: oldest immutable memtable *)
FlushWrite ==
    /\ fph = "idle" /\ imm # <<>> /\ nextTab \in TableIds
    /\ tab' = [tab EXCEPT ![nextTab] = [ents |-> Head(imm).ents, synced |-> FALSE, exists |-> TRUE]]
    /\ fph' = "written"
    /\ UNCHANGED <<next, cph, csync, loggedIn, wal, active, mem, imm, man, nextTab, kph, kin, ncompact, acked, ackedSync>>

FlushSync ==
    /\ fph = "written"
    /\ tab' = [tab EXCEPT ![nextTab] = [@ EXCEPT !.synced = TRUE]]
    /\ fph' = "synced"
    /\ UNCHANGED <<next, cph, csync, loggedIn, wal, active, mem, imm, man, nextTab, kph, kin, ncompact, acked, ackedSync>>

FlushSwitch ==
    /\ fph = "synced" /\ kph \notin {"written", "synced"}     \* table ids are handed out one at a time in this model
    /\ man' = [tables |-> man.tables \cup {nextTab},
               log |-> IF Head(imm).seg + 1 > man.log THEN Head(imm).seg + 1 ELSE man.log]
    /\ imm' = Tail(imm)
    /\ nextTab' = nextTab + 1
    /\ fph' = "switched"
    /\ UNCHANGED <<next, cph, csync, loggedIn, wal, active, mem, tab, kph, kin, ncompact, acked, ackedSync>>

WalCleanup ==
    /\ fph = "switched"
    /\ wal' = [s \in Segs |-> IF s < man.log /\ s # active THEN [wal[s] EXCEPT !.exists = FALSE] ELSE wal[s]]
    /\ fph' = "idle"
    /\ UNCHANGED <<next, cph, csync, loggedIn, active, mem, imm, tab, man, nextTab, kph, kin, ncompact, acked, ackedSync>>

-----------------------------------------------------------------------------
(* compaction of all tables of the manifest into one *)
CompactWrite ==
    /\ kph = "idle" /\ fph \in {"idle", "switched"} /\ Cardinality(man.tables) >= 2
    /\ ncompact < MaxCompact /\ nextTab \in TableIds
    /\ kin' = man.tables
    /\ tab' = [tab EXCEPT ![nextTab] = [ents |-> UNION {tab[i].ents : i \in man.tables}, synced |-> FALSE, exists |-> TRUE]]
    /\ kph' = "written" /\ ncompact' = ncompact + 1
    /\ UNCHANGED <<next, cph, csync, loggedIn, wal, active, mem, imm, man, nextTab, fph, acked, ackedSync>>

CompactSync ==
    /\ Variant = "repo" /\ kph = "written"
    /\ tab' = [tab EXCEPT ![nextTab] = [@ EXCEPT !.synced = TRUE]]
    /\ kph' = "synced"
    /\ UNCHANGED <<next, cph, csync, loggedIn, wal, active, mem, imm, man, nextTab, fph, kin, ncompact, acked, ackedSync>>

CompactSwitch ==
    /\ kph = (IF Variant = "repo" THEN "synced" ELSE "written") /\ fph \in {"idle", "switched"}
    /\ man' = [man EXCEPT !.tables = (@ \ kin) \cup {nextTab}]
    /\ nextTab' = nextTab + 1
    /\ kph' = "switched"
    /\ UNCHANGED <<next, cph, csync, loggedIn, wal, active, mem, imm, tab, fph, kin, ncompact, acked, ackedSync>>

CompactDelete ==
    /\ kph = "switched"
    /\ tab' = [i \in TableIds |-> IF i \in kin THEN NoTab ELSE tab[i]]
    /\ kph' = "idle" /\ kin' = {}
    /\ UNCHANGED <<next, cph, csync, loggedIn, wal, active, mem, imm, man, nextTab, fph, ncompact, acked, ackedSync>>

-----------------------------------------------------------------------------
(* sessions: a process crash (the files stay as they are, everything in memory is gone) and the next start-up      *)
(* (src/lsm.rs Core::new: orphan clean-up, replay_wal_with_repair, reopening the commit-log writer)                 *)
Crash ==
    /\ ncrash < MaxCrash /\ (~down \/ rph = "flushing")    \* also in the middle of a start-up
    /\ down' = TRUE /\ ncrash' = ncrash + 1
    /\ mem' = [ents |-> {}, seg |-> active] /\ imm' = <<>>
    /\ next' = IF cph = "idle" THEN next ELSE next + 1        \* a commit in flight is abandoned (its record may survive)
    /\ cph' = "idle" /\ fph' = "idle" /\ kph' = "idle" /\ kin' = {}
    /\ rq' = <<>> /\ rlast' = {} /\ rph' = "none"
    /\ UNCHANGED <<csync, loggedIn, wal, active, tab, man, nextTab, ncompact, acked, ackedSync>>

Max2(a, b) == IF a > b THEN a ELSE b
RECURSIVE ChunkSeq(_, _, _)
\* the records of segment s from position i on, cut into memtables of RecCap transactions
ChunkSeq(s, i, acc) ==
    IF i > Len(wal[s].recs) THEN acc
    ELSE LET j == IF i + RecCap - 1 > Len(wal[s].recs) THEN Len(wal[s].recs) ELSE i + RecCap - 1
             part == [ents |-> UNION {Entries(wal[s].recs[x]) : x \in i..j}, seg |-> s]
         IN ChunkSeq(s, j + 1, Append(acc, part))
RECURSIVE PartsFrom(_, _)
PartsFrom(s, acc) ==
    IF s > MaxRot THEN acc
    ELSE PartsFrom(s + 1, IF wal[s].exists /\ s >= man.log THEN ChunkSeq(s, 1, acc) ELSE acc)

\* start-up, first step: orphan clean-up, replay into memtables, decide what has to be flushed at once
RecoverBegin ==
    /\ down /\ rph = "none"
    /\ rph' = "flushing"
    /\ LET parts == PartsFrom(0, <<>>)
           n == Len(parts)
           lastShares == n > 1 /\ parts[n - 1].seg = parts[n].seg
           nflush == IF n = 0 THEN 0 ELSE IF RecoverVariant # "orig" /\ lastShares THEN n ELSE n - 1
       IN /\ tab' = [i \in TableIds |-> IF i \in man.tables THEN tab[i] ELSE NoTab]          \* orphans are removed
          /\ rq' = [i \in 1..nflush |-> [ents |-> parts[i].ents, seg |-> parts[i].seg,
                                          done |-> (i = n) \/ (parts[i + 1].seg # parts[i].seg)]]
          /\ rlast' = IF n > nflush THEN parts[n].ents ELSE {}
    /\ UNCHANGED <<next, cph, csync, loggedIn, wal, active, mem, imm, man, nextTab, fph, kph, kin, ncompact, acked, ackedSync,
                   down, ncrash>>

\* ... one recovered memtable goes to disk (table written, synced, manifest switched - one step here)
RecoverFlushPart ==
    /\ down /\ rph = "flushing" /\ rq # <<>> /\ nextTab \in TableIds
    /\ LET p == Head(rq) IN
       /\ tab' = [tab EXCEPT ![nextTab] = [ents |-> p.ents, synced |-> TRUE, exists |-> TRUE]]
       /\ man' = [tables |-> man.tables \cup {nextTab},
                  log |-> IF RecoverVariant = "repo" /\ ~p.done THEN man.log ELSE Max2(man.log, p.seg + 1)]
    /\ nextTab' = nextTab + 1 /\ rq' = Tail(rq)
    /\ UNCHANGED <<next, cph, csync, loggedIn, wal, active, mem, imm, fph, kph, kin, ncompact, acked, ackedSync, down,
                   ncrash, rlast, rph>>

\* ... the rest becomes the active memtable, the commit-log writer is reopened, the store is up
RecoverDone ==
    /\ down /\ rph = "flushing" /\ rq = <<>>
    /\ LET highest == CHOOSE s \in Segs : wal[s].exists /\ \A x \in Segs : wal[x].exists => x <= s
           act == Max2(man.log, highest)
           actOrig == highest
       IN LET a == IF RecoverVariant = "orig" THEN actOrig ELSE act IN
          /\ a \in Segs
          /\ mem' = [ents |-> rlast, seg |-> a]
          /\ active' = a
          /\ wal' = [wal EXCEPT ![a] = [@ EXCEPT !.exists = TRUE]]
    /\ down' = FALSE /\ rlast' = {} /\ rph' = "none"
    /\ UNCHANGED <<next, cph, csync, loggedIn, imm, tab, man, nextTab, fph, kph, kin, ncompact, acked, ackedSync, ncrash, rq>>

Running ==
    \/ Log(TRUE) \/ Log(FALSE) \/ ApplyFit \/ Rotate \/ Relog \/ Ack \/ FlushWalSync
    \/ FlushWrite \/ FlushSync \/ FlushSwitch \/ WalCleanup
    \/ CompactWrite \/ CompactSync \/ CompactSwitch \/ CompactDelete

Next == (~down /\ Running /\ UNCHANGED <<down, ncrash, rq, rlast, rph>>) \/ Crash \/ RecoverBegin \/ RecoverFlushPart \/ RecoverDone

Spec == Init /\ [][Next]_vars

-----------------------------------------------------------------------------
(* What recovery finds after a crash in the current state.                   *)
Models == {"process", "power"}
(* how many records of each live segment survive: all of them (process), or  *)
(* any number between the fsynced ones and all (power) - the two extremes     *)
(* per segment are enough for the properties below                           *)
Cuts(model) ==
    IF model = "process" THEN {[s \in Segs |-> Len(wal[s].recs)]}
    ELSE [Segs -> {"s", "a"}]
CutLen(model, c, s) ==
    IF model = "process" THEN Len(wal[s].recs)
    ELSE IF c[s] = "s" THEN wal[s].synced ELSE Len(wal[s].recs)

Replayed(model, c) ==
    UNION { UNION { Entries(wal[s].recs[i]) : i \in 1..CutLen(model, c, s) }
            : s \in {x \in Segs : wal[x].exists /\ x >= man.log} }
TableReadable(model, i) == tab[i].exists /\ (model = "process" \/ tab[i].synced)
FromTables == UNION {tab[i].ents : i \in man.tables}
Recovered(model, c) == FromTables \cup Replayed(model, c)
Complete(R) == {t \in Txn : Entries(t) \subseteq R}

(* C07: whatever the manifest names can be read back *)
Reopenable == \A model \in Models : \A i \in man.tables : TableReadable(model, i)
(* C02 *)
Durable == \A model \in Models : \A c \in Cuts(model) :
    (IF model = "process" THEN acked ELSE ackedSync) \subseteq Complete(Recovered(model, c))
(* C03: every transaction entirely or not at all; no transaction without all earlier acknowledged ones *)
Atomic == \A model \in Models : \A c \in Cuts(model) : \A t \in Txn :
    LET R == Recovered(model, c) IN Entries(t) \cap R \in {{}, Entries(t)}
Prefix == \A model \in Models : \A c \in Cuts(model) :
    LET R == Complete(Recovered(model, c)) IN \A t \in R : \A u \in acked : u < t => u \in R

TypeOK == /\ next \in 1..(MaxTxn + 1) /\ active \in Segs /\ man.log \in Nat
=============================================================================
