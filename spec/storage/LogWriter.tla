----------------------------- MODULE LogWriter ------------------------------
(***************************************************************************)
(* One commit-log segment behind its buffered writer, with write and fsync  *)
(* failures (src/wal/mod.rs BufferedFileWriter over std BufWriter,           *)
(* src/wal/manager.rs Wal::{append, sync, position, rollback_to},            *)
(* src/lsm.rs LsmCommitEnv::write).                                          *)
(*                                                                         *)
(* A record is a transaction number. The committer appends the record of     *)
(* transaction `next` to the buffer, flushes the buffer to the file (a       *)
(* failing write may put nothing or only a part of a record into the file -  *)
(* a part is modelled as the marker <<t, "part">> - and the buffer keeps     *)
(* what was not written), fsyncs if the commit is Immediate, and reports.    *)
(*                                                                         *)
(* OnFailure = "leave"    pinned commit: the error is returned, the writer   *)
(*                        stays as it is (the next flush writes the rest)    *)
(*           = "rollback" repository: the old writer is dropped (its buffer  *)
(*                        is flushed by the drop), the file is cut back to   *)
(*                        its length before the append and fsynced, a fresh  *)
(*                        writer takes over; if the cut or its fsync fails   *)
(*                        the store stops accepting commits                  *)
(*           = "rollback_nosync" as "rollback" without the fsync of the cut  *)
(*                        file (a first version of the repair): the fresh    *)
(*                        writer does not know about unsynced older records  *)
(*                                                                         *)
(* Recovery reads the complete records of the file up to the first part.     *)
(* C15: a transaction whose commit reported a failure is never recovered;    *)
(* C02: every acknowledged transaction is (process crash: the whole file;    *)
(* power loss: the fsynced prefix for Immediate ones).                       *)
(***************************************************************************)
EXTENDS Naturals, Sequences, FiniteSets

CONSTANTS MaxTxn, MaxFaults, OnFailure

VARIABLES
    file,      \* Seq of items [t |-> transaction, full |-> the record is complete]
    synced,    \* length of the fsynced prefix of file
    buf,       \* Seq of items still in the writer's buffer
    pend,      \* the writer believes the file holds unsynced data (BufferedFileWriter.pending_sync)
    next, ph,  \* committer: transaction and phase "idle" | "buffered" | "written" | "failed"
    imm,       \* is the current commit Immediate?
    mark,      \* file length remembered before the append (Wal::position)
    acked, ackedSync, failed,
    faults, dead

vars == <<file, synced, buf, pend, next, ph, imm, mark, acked, ackedSync, failed, faults, dead>>

Init ==
    /\ file = <<>> /\ synced = 0 /\ buf = <<>> /\ pend = FALSE
    /\ next = 1 /\ ph = "idle" /\ imm = FALSE /\ mark = 0
    /\ acked = {} /\ ackedSync = {} /\ failed = {} /\ faults = 0 /\ dead = FALSE

Begin(i) ==
    /\ ph = "idle" /\ next <= MaxTxn /\ ~dead
    /\ imm' = i /\ mark' = Len(file)             \* position(): the buffer is empty between commits
    /\ buf' = Append(buf, [t |-> next, full |-> TRUE]) /\ ph' = "buffered"
    /\ UNCHANGED <<file, synced, pend, next, acked, ackedSync, failed, faults, dead>>

\* BufWriter::flush: everything goes out
FlushOk ==
    /\ ph = "buffered"
    /\ file' = file \o buf /\ buf' = <<>> /\ pend' = TRUE /\ ph' = "written"
    /\ UNCHANGED <<synced, next, imm, mark, acked, ackedSync, failed, faults, dead>>

\* a failing write: nothing (EIO) or a part (short write) of the first buffered record reaches the file; the buffer keeps
\* the record (BufWriter removes only what was written; the rest of a torn record is garbage behind its part)
FlushFail(partial) ==
    /\ ph = "buffered" /\ faults < MaxFaults
    /\ faults' = faults + 1
    /\ file' = IF partial THEN Append(file, [t |-> Head(buf).t, full |-> FALSE]) ELSE file
    /\ pend' = (pend \/ partial)
    /\ ph' = "failed"
    /\ UNCHANGED <<synced, buf, next, imm, mark, acked, ackedSync, failed, dead>>

SyncOk ==
    /\ ph = "written" /\ imm
    /\ synced' = Len(file) /\ pend' = FALSE
    /\ acked' = acked \cup {next} /\ ackedSync' = acked \cup {next}
    /\ next' = next + 1 /\ ph' = "idle"
    /\ UNCHANGED <<file, buf, imm, mark, failed, faults, dead>>

SyncFail ==
    /\ ph = "written" /\ imm /\ faults < MaxFaults
    /\ faults' = faults + 1 /\ ph' = "failed"
    /\ UNCHANGED <<file, synced, buf, pend, next, imm, mark, acked, ackedSync, failed, dead>>

AckEventual ==
    /\ ph = "written" /\ ~imm
    /\ acked' = acked \cup {next} /\ next' = next + 1 /\ ph' = "idle"
    /\ UNCHANGED <<file, synced, buf, pend, imm, mark, ackedSync, failed, faults, dead>>

\* the commit reports its error
Report ==
    /\ ph = "failed"
    /\ failed' = failed \cup {next} /\ next' = next + 1 /\ ph' = "idle"
    /\ IF OnFailure = "leave" THEN UNCHANGED <<file, synced, buf, pend, dead>>
       ELSE \* drop the old writer (flushes its buffer), cut, fsync, fresh writer
            \/ /\ file' = SubSeq(file, 1, mark) /\ buf' = <<>> /\ pend' = FALSE
               /\ synced' = IF OnFailure = "rollback" THEN mark ELSE IF synced > mark THEN mark ELSE synced
               /\ UNCHANGED dead
            \/ /\ faults < MaxFaults                      \* the cut or its fsync fails as well: stop
               /\ file' = file \o buf /\ buf' = <<>> /\ dead' = TRUE
               /\ UNCHANGED <<synced, pend>>
    /\ faults' = IF dead' /\ ~dead THEN faults + 1 ELSE faults
    /\ UNCHANGED <<imm, mark, acked, ackedSync>>

\* a rotation (or close) syncs the segment - if the writer thinks there is something to sync
RotateSync ==
    /\ ph = "idle" /\ pend
    /\ synced' = Len(file) /\ pend' = FALSE /\ ackedSync' = acked
    /\ UNCHANGED <<file, buf, next, ph, imm, mark, acked, failed, faults, dead>>

Next == (\E i \in BOOLEAN : Begin(i)) \/ FlushOk \/ (\E p \in BOOLEAN : FlushFail(p)) \/ SyncOk \/ SyncFail
        \/ AckEventual \/ Report \/ RotateSync

Spec == Init /\ [][Next]_vars

-----------------------------------------------------------------------------
RECURSIVE Readable(_)
\* the complete records up to the first torn one
Readable(s) == IF s = <<>> THEN {} ELSE IF Head(s).full THEN {Head(s).t} \cup Readable(Tail(s)) ELSE {}

RecoveredProcess == Readable(file)                    \* the buffer is lost with the process
RecoveredPower(n) == Readable(SubSeq(file, 1, n))

\* a commit in flight is neither acknowledged nor failed
\* (not when cutting the record back failed as well: then the record may stay and the store stops - `dead`)
NoTraceOfFailed == ~dead => \A n \in synced..Len(file) : RecoveredPower(n) \cap failed = {}
AckedDurable ==
    /\ acked \subseteq RecoveredProcess
    /\ \A n \in synced..Len(file) : ackedSync \subseteq RecoveredPower(n)
\* what a later rotation believes: unsynced acknowledged records are covered by `pend`
SyncOwed == (ph = "idle" /\ ~pend) => acked \subseteq RecoveredPower(synced)
=============================================================================
