SPECIFICATION Spec
CONSTANTS
    MaxTxn = 4
    MaxFaults = 2
    OnFailure = "rollback"
INVARIANTS NoTraceOfFailed AckedDurable SyncOwed
CHECK_DEADLOCK FALSE
