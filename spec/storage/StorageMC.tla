----------------------------- MODULE StorageMC ------------------------------
(* Bounded instance of Storage: every reachable state is a crash instant. *)
EXTENDS Storage
=============================================================================
