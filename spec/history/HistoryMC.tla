----------------------------- MODULE HistoryMC -----------------------------
(* Bounded instance of History: exhaustive check of the read path against   *)
(* the property-level oracle, and export of one replayable scenario per      *)
(* explored transition (with the oracle of the state reached) for the two    *)
(* real Trees of harness/history_run.                                        *)
EXTENDS History, Json

CONSTANTS MaxCommits, MaxFlushes, MaxCompactions, MaxReopens, MaxTicks, MaxSteps,
          WithReader,    \* BOOLEAN: a reader may begin / end
          NKeys          \* 1..3 user keys (KeyOrder <- KeyOrderMC)

KeyOrderMC == SubSeq(<<"k1", "k2", "k3">>, 1, NKeys)

VARIABLES nflush, ncompact, nreopen, ntick, log, steps
mcvars == <<vars, nflush, ncompact, nreopen, ntick, log, steps>>

Op(name, k, kind, ts) == [op |-> name, k |-> k, kind |-> kind, ts |-> ts]
Log(r) == log' = Append(log, r) /\ steps' = steps + 1

MCInit == Init /\ nflush = 0 /\ ncompact = 0 /\ nreopen = 0 /\ ntick = 0 /\ log = <<>> /\ steps = 0

MCNext ==
    \/ \E d \in TickSteps :
         /\ ntick < MaxTicks
         /\ Tick(d) /\ Log(Op("Tick", "", "", now + d)) /\ ntick' = ntick + 1 /\ UNCHANGED <<nflush, ncompact, nreopen>>
    \/ \E k \in Keys, kind \in CommitKinds, ts \in 1..MaxClock :
         /\ visible < MaxCommits
         /\ Commit(k, kind, ts) /\ Log(Op("Commit", k, kind, ts)) /\ UNCHANGED <<nflush, ncompact, nreopen, ntick>>
    \/ Rotate /\ Log(Op("Rotate", "", "", 0)) /\ UNCHANGED <<nflush, ncompact, nreopen, ntick>>
    \/ /\ nflush < MaxFlushes
       /\ Flush /\ Log(Op("Flush", "", "", 0)) /\ nflush' = nflush + 1 /\ UNCHANGED <<ncompact, nreopen, ntick>>
    \/ \E l \in 0..(NLevels - 1) :
         /\ ncompact < MaxCompactions
         /\ Compact(l) /\ Log(Op("Compact", "", "", l)) /\ ncompact' = ncompact + 1 /\ UNCHANGED <<nflush, nreopen, ntick>>
    \/ \E m \in {"flush", "replay"} :
         /\ nreopen < MaxReopens
         /\ hist # {}
         /\ Reopen(m) /\ Log(Op("Reopen", "", m, 0)) /\ nreopen' = nreopen + 1 /\ UNCHANGED <<nflush, ncompact, ntick>>
    \/ /\ WithReader
       /\ \/ Begin /\ Log(Op("Begin", "", "", 0))
          \/ End /\ Log(Op("End", "", "", 0))
       /\ UNCHANGED <<nflush, ncompact, nreopen, ntick>>

StepBound == steps <= MaxSteps

(* ---- what the PROPERTY prescribes in the state after the last step ---- *)
VerJ(v) == [seq |-> v.seq, kind |-> v.kind, ts |-> v.ts]
SeqJ(s) == [i \in 1..Len(s) |-> VerJ(s[i])]
KeyExp(k, h) ==
    LET may == May(k, h)
        must == Must(k, h)
    IN
    [all |-> SeqJ(BySeqDesc(Visible(k, h))),
     alive |-> SeqJ(BySeqDesc(may)),
     must |-> {v.seq : v \in must},
     tainted |-> tainted[k],
     collided |-> collided[k],
     unflushed |-> {v.seq : v \in OfKey(Unflushed, k)},
     getat |-> [i \in 1..(MaxClock + 2) |-> GetAtFrom(may, must, i - 1)]]

(* the specification's own option filter, for the driver's cross-check *)
SampleOpt == Opt(visible % 2 = 0, <<1 + (visible % 2), now>>, 0, 1, Len(KeyOrder) + 1)
OptSample ==
    LET l == MayList(SampleOpt, visible) IN
    [tomb |-> SampleOpt.tomb, lo |-> SampleOpt.ts[1], hi |-> SampleOpt.ts[2],
     list |-> [i \in 1..Len(l) |-> [k |-> l[i].k, seq |-> l[i].seq]]]

Expect ==
    [now |-> now, visible |-> visible,
     latest |-> [k \in Keys |-> KeyExp(k, visible)],
     reader |-> [open |-> pcR = "open", snap |-> snapR,
                 keys |-> IF pcR = "open" THEN [k \in Keys |-> KeyExp(k, snapR)] ELSE [k \in {} |-> 0]],
     optsample |-> OptSample]

(* Exported as a state CONSTRAINT placed after StepBound: TLC evaluates it on every successor it generates  *)
(* (one line per explored transition), in the unprimed context where LET values are cached.               *)
Export == PrintT("REPLAY " \o ToJson([ops |-> log, cfg |-> [retention |-> RetentionNs, ooo |-> OutOfOrder],
                                      expect |-> Expect]))

(* the action property of History.tla over the variables of this module *)
ErasedStaysErasedMC == [][\A k \in Keys : May(k, visible)' \cap OfKey(hist, k) \subseteq May(k, visible)]_mcvars

(* Teeth run (Impl = "pinned", Known = {}): the model of the code before the repairs must still violate the   *)
(* read-path properties; every violating state is exported and replayed on the code as it is now, where it  *)
(* must NOT fail (checks/c10.py).                                                                           *)
Teeth == (ReadPathOK /\ LimitOK) \/ (Export /\ FALSE)

View == <<vars, nflush, ncompact, nreopen, ntick>>
=============================================================================
