------------------------------ MODULE History ------------------------------
(***************************************************************************)
(* Time-travel reads and version history (C10), read side and engine      *)
(* level.                                                                  *)
(*                                                                         *)
(* A store with versioning keeps every committed version                   *)
(* [k, seq, kind, ts, val] of a key.  Two read operations look at them:    *)
(*   get_at(k, T)   the value at timestamp T                               *)
(*   history(lo, hi, options)   a cursor over the retained versions        *)
(*                                                                         *)
(* PROPERTY LEVEL (ghost `hist` = every committed version, `now` = the     *)
(* logical clock).  Over the versions of k visible at horizon h:           *)
(*   - a hard delete or a replace is a BARRIER: everything committed       *)
(*     earlier is erased for good; the delete itself is never listed, the  *)
(*     replace is (Retention!Alive - one source of truth with the          *)
(*     compaction rule);                                                   *)
(*   - with a finite retention window the versions older than the window   *)
(*     may be gone, the others must be there (May / Must: an interval);    *)
(*   - history lists them keys ascending, newest first, each exactly once  *)
(*     (ListOK), get_at answers the value of the greatest timestamp <= T   *)
(*     (GetAtAccept).                                                      *)
(*                                                                         *)
(* IMPLEMENTATION LEVEL (what the code does, src/snapshot.rs, src/lsm.rs): *)
(* versions sit in the active memtable, immutable memtables, level-0       *)
(* tables, deeper levels and - when the B+tree version index is on - in    *)
(* `index`, which a flush fills BEFORE the manifest switches.  Compaction  *)
(* applies Retention!Rule and never touches the index except for the       *)
(* clean-up of entries whose value-log file is gone.                       *)
(* history() merges the sources of the chosen back-end (k-way merge: the   *)
(* index back-end by timestamp, the LSM back-end in commit order) and      *)
(* filters the merged stream as HistoryIterator::skip_to_valid_forward /   *)
(* collect_user_key_backward do: horizon, first-visible hard delete,       *)
(* barrier_seen, tombstones, timestamp range, limit - in that order.       *)
(*                                                                         *)
(* Impl = "repo" is the code as it is now.  Impl = "pinned" is the read    *)
(* path before the repairs of C10 (known_findings.json, status fixed):     *)
(* timestamp range applied before the barrier rule and the LSM back-end    *)
(* merged by timestamp when a range is given; TimestampComparator =        *)
(* (key, timestamp) only, so equal timestamps are merged in source order   *)
(* and share one index slot (the slot keeps its key bytes and takes the    *)
(* new value); a backward walk ends at a key with nothing to show.  The    *)
(* pinned model is kept for the teeth run (HistoryMC!Teeth).               *)
(***************************************************************************)
EXTENDS Retention, TLC

CONSTANTS
    KeyOrder,      \* sequence of user keys, ascending
    CommitKinds,   \* subset of Kinds used by committers
    NLevels,       \* levels 0 .. NLevels-1; the last one is the bottom
    RetentionNs,   \* 0 = unlimited retention; else the window length in clock units
    OutOfOrder,    \* BOOLEAN: a set may carry a timestamp below the key's newest one (version index only)
    EqualTs,       \* BOOLEAN: two versions of one key may carry the same timestamp
    MaxClock,      \* the clock runs 1 .. MaxClock
    TickSteps,     \* set of clock increments
    RuleVariant,   \* variant of Retention!Rule used by compaction ("repo" | "ideal")
    IndexGC,       \* BOOLEAN: one value-log file per value, stale index entries are cleaned after flush / compaction
    Impl           \* read side modelled: "repo" = the code as it is (barrier rule before the timestamp range, versions
                   \* with one timestamp ordered by sequence number, a key with nothing to show does not end a
                   \* backward walk) | "pinned" = the code before those repairs (kept for the teeth run)

VARIABLES
    hist,      \* ghost: all committed versions
    visible,   \* highest published sequence number
    now,       \* the logical clock
    mem,       \* active memtable (set of versions)
    imm,       \* immutable memtables, oldest first
    l0,        \* level-0 tables, newest first
    deep,      \* [1..NLevels-1 -> set of versions]
    index,     \* B+tree version index: set of entries, at most one per (k, ts)
    tainted,   \* ghost: [key -> BOOLEAN] compaction discarded an expired barrier of the key (finding C10-expired-barrier)
    collided,  \* ghost: [key -> BOOLEAN] two versions of the key met in one index slot
    pcR,       \* the reader: "idle" | "open" | "done"
    snapR      \* its horizon
vars == <<hist, visible, now, mem, imm, l0, deep, index, tainted, collided, pcR, snapR>>

Keys == {KeyOrder[i] : i \in 1..Len(KeyOrder)}
Finite == RetentionNs > 0
InWindow(ts, clock) == (~Finite) \/ (clock <= ts) \/ (clock - ts <= RetentionNs)

OfKey(S, k) == {v \in S : v.k = k}
MaxTs(S) == IF S = {} THEN 0 ELSE (CHOOSE v \in S : \A w \in S : w.ts <= v.ts).ts

-----------------------------------------------------------------------------
(* PROPERTY LEVEL                                                          *)

Visible(k, h) == AtOrBelow(OfKey(hist, k), h)

(* barrier by commit order (sequence number): Retention!Alive.  With       *)
(* out-of-order timestamps "earlier" can also be read as "older timestamp": *)
(* the property does not choose, so both readings bound the answer.         *)
TsLess(a, b) == a.ts < b.ts \/ (a.ts = b.ts /\ a.seq < b.seq)
AliveByTs(V) ==
    LET Bs == {v \in V : IsBarrier(v)} IN
    {v \in V : v.kind # "Del" /\ \A b \in Bs : ~TsLess(v, b)}

May(k, h) == Alive(OfKey(hist, k), h) \cup (IF OutOfOrder THEN AliveByTs(Visible(k, h)) ELSE {})
Must(k, h) ==
    {v \in Alive(OfKey(hist, k), h) :
        /\ InWindow(v.ts, now)
        /\ OutOfOrder => v \in AliveByTs(Visible(k, h))}

(* options of history(): tomb = include soft-delete tombstones; ts = <<>> or <<lo, hi>> inclusive;      *)
(* limit = 0 (none) or n; lo / hi = key index range [lo, hi) into KeyOrder                               *)
Opt(tomb, ts, limit, lo, hi) == [tomb |-> tomb, ts |-> ts, limit |-> limit, lo |-> lo, hi |-> hi]
InTs(v, o) == o.ts = <<>> \/ (o.ts[1] <= v.ts /\ v.ts <= o.ts[2])
Shown(v, o) == (o.tomb \/ v.kind # "SoftDel") /\ InTs(v, o)

RECURSIVE BySeqDesc(_)
BySeqDesc(S) ==
    IF S = {} THEN <<>>
    ELSE LET m == CHOOSE v \in S : \A w \in S : w.seq <= v.seq IN <<m>> \o BySeqDesc(S \ {m})

RECURSIVE Flatten(_)
Flatten(ss) == IF ss = <<>> THEN <<>> ELSE Head(ss) \o Flatten(Tail(ss))
(* F(lo) \o F(lo+1) \o ... \o F(hi-1) *)
Concat(F(_), lo, hi) == Flatten([j \in 1..(IF hi > lo THEN hi - lo ELSE 0) |-> F(lo + j - 1)])

ToSet(s) == {s[i] : i \in 1..Len(s)}
Take(s, n) == IF Len(s) <= n THEN s ELSE SubSeq(s, 1, n)
TakeLast(s, n) == IF Len(s) <= n THEN s ELSE SubSeq(s, Len(s) - n + 1, Len(s))

(* everything a listing may contain, canonical order (= the exact list when the oracle is exact: unlimited  *)
(* retention, in-order timestamps)                                                                         *)
MayList(o, h) ==
    LET F(i) == BySeqDesc({v \in May(KeyOrder[i], h) : Shown(v, o)}) IN Concat(F, o.lo, o.hi)

KeyIdx(k) == CHOOSE i \in 1..Len(KeyOrder) : KeyOrder[i] = k

(* Is `L` (a sequence of versions, canonical direction) an acceptable answer of a COMPLETE traversal?     *)
(* backward = the traversal ran from the end (the limit then keeps the last entries)                     *)
ListOK(L, o, h, backward) ==
    LET n == Len(L)
        may == UNION {{v \in May(KeyOrder[i], h) : Shown(v, o)} : i \in o.lo..(o.hi - 1)}
        must == UNION {{v \in Must(KeyOrder[i], h) : Shown(v, o)} : i \in o.lo..(o.hi - 1)}
        Pos(v) == CHOOSE i \in 1..n : L[i] = v
        Before(a, b) == KeyIdx(a.k) < KeyIdx(b.k) \/ (a.k = b.k /\ (a.seq > b.seq \/ a.ts = b.ts \/ (OutOfOrder /\ a.ts > b.ts)))
        \* a precedes b in every acceptable order (equal timestamps may come either way; with out-of-order
        \* timestamps "newest" may be read by sequence number or by timestamp)
        MustPrecede(a, b) == KeyIdx(a.k) < KeyIdx(b.k) \/ (a.k = b.k /\ a.seq > b.seq /\ a.ts > b.ts)
        cut == o.limit > 0 /\ n >= o.limit
    IN  /\ \A i \in 1..n : L[i] \in may                                      \* nothing erased, nothing foreign
        /\ \A i, j \in 1..n : i < j => L[i] # L[j]                            \* exactly once
        /\ \A i \in 1..(n - 1) : Before(L[i], L[i + 1])                       \* keys ascending, newest first
        /\ o.limit > 0 => n <= o.limit
        /\ \A m \in must :                                                   \* nothing retained is missing
             \/ m \in ToSet(L)
             \/ cut /\ (~backward) /\ \A i \in 1..n : ~MustPrecede(m, L[i])
             \/ cut /\ backward /\ \A i \in 1..n : ~MustPrecede(L[i], m)

(* Acceptable answers of get_at(k, T) at horizon h: value identities, 0 = nothing *)
GetAtFrom(may, must, T) ==
    LET C == {v \in may : v.ts <= T}
        IsTop(c) == \A m \in must : (m.ts <= T) => (m.ts <= c.ts)
        Ans(c) == IF c.kind = "SoftDel" THEN 0 ELSE c.val
    IN  {Ans(c) : c \in {c \in C : IsTop(c)}} \cup (IF \A m \in must : m.ts > T THEN {0} ELSE {})
GetAtAccept(k, T, h) == GetAtFrom(May(k, h), Must(k, h), T)

-----------------------------------------------------------------------------
(* IMPLEMENTATION LEVEL: the read path                                     *)

Backends == IF OutOfOrder THEN {"index"} ELSE {"index", "lsm"}

RECURSIVE ByTsDesc(_)
ByTsDesc(S) ==
    IF S = {} THEN <<>>
    ELSE LET m == CHOOSE v \in S : \A w \in S : ~TsLess(v, w) IN <<m>> \o ByTsDesc(S \ {m})

(* the runs history() merges for key k: every run in its own storage order *)
SeqOfSets(s) == [i \in 1..Len(s) |-> s[i]]
Runs(b, k) ==
    LET memRuns == <<BySeqDesc(OfKey(mem, k))>> \o [i \in 1..Len(imm) |-> BySeqDesc(OfKey(imm[i], k))]
    IN  IF b = "index"
        THEN memRuns \o <<ByTsDesc(OfKey(index, k))>>
        ELSE memRuns \o [i \in 1..Len(l0) |-> BySeqDesc(OfKey(l0[i], k))]
                     \o [i \in 1..(NLevels - 1) |-> BySeqDesc(OfKey(deep[i], k))]

(* KMergeIterator::find_winner: the smallest head, ties to the earlier source *)
RECURSIVE KMerge(_, _)
KMerge(runs, byTs) ==
    LET live == {i \in 1..Len(runs) : runs[i] # <<>>} IN
    IF live = {} THEN <<>>
    ELSE LET Before(a, b) == IF byTs THEN a.ts > b.ts \/ (Impl = "repo" /\ a.ts = b.ts /\ a.seq > b.seq)
                                     ELSE a.seq > b.seq
             w == CHOOSE i \in live :
                    \A j \in live : /\ (j < i) => Before(Head(runs[i]), Head(runs[j]))
                                    /\ (j > i) => ~Before(Head(runs[j]), Head(runs[i]))
         IN <<Head(runs[w])>> \o KMerge([runs EXCEPT ![w] = Tail(@)], byTs)

(* the index back-end always merges by timestamp; the LSM one in commit order (pinned: by timestamp when a *)
(* timestamp range is given)                                                                              *)
LsmByTs(ts) == Impl = "pinned" /\ ts # <<>>
Merged(b, k, o) == KMerge(Runs(b, k), b = "index" \/ LsmByTs(o.ts))

IsTomb(v) == v.kind \in {"Del", "SoftDel"}

(* HistoryIterator::skip_to_valid_forward over the merged versions of one key.                           *)
(* st = [first, hard, barrier]; Impl = "repo" applies the barrier logic before the timestamp filter.    *)
RECURSIVE FwdKey(_, _, _, _, _)
FwdKey(L, i, h, o, st) ==
    IF i > Len(L) THEN <<>>
    ELSE LET e == L[i]
             skip == FwdKey(L, i + 1, h, o, st)
             tsAbove == o.ts # <<>> /\ e.ts > o.ts[2]
             tsBelow == o.ts # <<>> /\ e.ts < o.ts[1]
         IN  IF e.seq > h THEN skip
             ELSE IF Impl = "pinned" /\ tsAbove THEN skip
             ELSE IF Impl = "pinned" /\ tsBelow THEN <<>>          \* advance_to_next_user_key
             ELSE LET st1 == IF st.first THEN st ELSE [st EXCEPT !.first = TRUE, !.hard = (e.kind = "Del")]
                      rest(s) == FwdKey(L, i + 1, h, o, s)
                  IN  IF st1.hard THEN rest(st1)
                      ELSE IF st1.barrier THEN rest(st1)
                      ELSE IF e.kind = "Del" THEN rest([st1 EXCEPT !.barrier = TRUE])
                      ELSE LET st2 == IF e.kind = "Replace" THEN [st1 EXCEPT !.barrier = TRUE] ELSE st1 IN
                           IF (~o.tomb) /\ IsTomb(e) THEN rest(st2)
                           ELSE IF Impl = "repo" /\ (tsAbove \/ tsBelow) THEN rest(st2)
                           ELSE <<e>> \o rest(st2)

St0 == [first |-> FALSE, hard |-> FALSE, barrier |-> FALSE]

(* collect_user_key_backward: filter first, then the barrier search from the newest end *)
BwdKey(L, h, o) ==
    LET P(e) == e.seq <= h /\ (Impl = "repo" \/ InTs(e, o))
        V == SelectSeq(L, P)
    IN  IF V = <<>> THEN <<>>
        ELSE IF V[1].kind = "Del" THEN <<>>
        ELSE LET bs == {i \in 1..Len(V) : V[i].kind \in {"Del", "Replace"}}
                 b == IF bs = {} THEN 0 ELSE CHOOSE i \in bs : \A j \in bs : i <= j
                 upto == IF b = 0 THEN Len(V) ELSE IF V[b].kind = "Del" THEN b - 1 ELSE b
                 Q(e) == e.kind # "Del" /\ (o.tomb \/ ~IsTomb(e)) /\ InTs(e, o)
             IN SelectSeq(SubSeq(V, 1, upto), Q)

(* collect_user_key_backward returns "nothing more" when the key it stands on has nothing to show: the    *)
(* backward traversal ends there although keys before it may have versions                               *)
HiddenKey(b, i, o, h) ==
    LET M == Merged(b, KeyOrder[i], o) IN M # <<>> /\ BwdKey(M, h, o) = <<>>

(* a complete traversal, canonical direction *)
CodeList(b, o, h, backward) ==
    LET F(i) == IF backward THEN BwdKey(Merged(b, KeyOrder[i], o), h, o)
                ELSE FwdKey(Merged(b, KeyOrder[i], o), 1, h, o, St0)
        stops == {i \in o.lo..(o.hi - 1) : HiddenKey(b, i, o, h)}
        from == IF backward /\ Impl = "pinned" /\ stops # {}
                THEN (CHOOSE i \in stops : \A j \in stops : j <= i) + 1 ELSE o.lo
        all == Concat(F, from, o.hi)
    IN  IF o.limit = 0 THEN all ELSE IF backward THEN TakeLast(all, o.limit) ELSE Take(all, o.limit)

(* Snapshot::get_at: the best timestamp <= T over the forward listing with tombstones; a later entry wins ties *)
RECURSIVE Best(_, _, _, _)
Best(L, i, T, best) ==
    IF i > Len(L) THEN best
    ELSE LET e == L[i] IN
         IF e.ts <= T /\ (best = <<>> \/ e.ts >= best[1].ts) THEN Best(L, i + 1, T, <<e>>) ELSE Best(L, i + 1, T, best)

CodeGetAt(b, k, T, h) ==
    LET o == Opt(TRUE, <<>>, 0, KeyIdx(k), KeyIdx(k) + 1)
        r == Best(FwdKey(Merged(b, k, o), 1, h, o, St0), 1, T, <<>>)
    IN  IF r = <<>> THEN 0 ELSE IF IsTomb(r[1]) THEN 0 ELSE r[1].val

-----------------------------------------------------------------------------
(* IMPLEMENTATION LEVEL: writes, placement                                 *)

Init ==
    /\ hist = {} /\ visible = 0 /\ now = 1 /\ mem = {} /\ imm = <<>> /\ l0 = <<>>
    /\ deep = [i \in 1..(NLevels - 1) |-> {}]
    /\ index = {}
    /\ tainted = [k \in Keys |-> FALSE]
    /\ collided = [k \in Keys |-> FALSE]
    /\ pcR = "idle" /\ snapR = 0

Tick(d) ==
    /\ now + d <= MaxClock
    /\ now' = now + d
    /\ UNCHANGED <<hist, visible, mem, imm, l0, deep, index, tainted, collided, pcR, snapR>>

(* set_at carries an explicit timestamp; soft_delete / delete / replace take the commit time *)
Commit(k, kind, ts) ==
    LET mine == OfKey(hist, k)
        v == [k |-> k, seq |-> visible + 1, kind |-> kind, ts |-> ts,
              val |-> IF kind \in {"Del", "SoftDel"} THEN 0 ELSE visible + 1]
    IN  /\ ts >= 1 /\ ts <= now
        /\ kind # "Set" => ts = now
        /\ (~OutOfOrder) => ts >= MaxTs(mine)
        /\ (~EqualTs) => \A w \in mine : w.ts # ts
        /\ hist' = hist \cup {v}
        /\ mem' = mem \cup {v}
        /\ visible' = visible + 1
        /\ UNCHANGED <<now, imm, l0, deep, index, tainted, collided, pcR, snapR>>

Rotate ==
    /\ mem # {}
    /\ imm' = Append(imm, mem)
    /\ mem' = {}
    /\ UNCHANGED <<hist, visible, now, l0, deep, index, tainted, collided, pcR, snapR>>

(* B+tree insert under TimestampComparator: same (key, timestamp) = same slot; the slot keeps its key bytes *)
SameSlot(e, v) == e.k = v.k /\ e.ts = v.ts /\ (Impl = "repo" => e.seq = v.seq)
IdxInsert(idx, v) ==
    IF \E e \in idx : SameSlot(e, v)
    THEN LET e == CHOOSE e \in idx : SameSlot(e, v) IN (idx \ {e}) \cup {[e EXCEPT !.val = v.val]}
    ELSE idx \cup {v}

RECURSIVE IdxInsertAll(_, _)
IdxInsertAll(idx, s) == IF s = <<>> THEN idx ELSE IdxInsertAll(IdxInsert(idx, Head(s)), Tail(s))

(* memtable order: keys ascending, per key newest sequence number first *)
MemOrder(S) == LET F(i) == BySeqDesc(OfKey(S, KeyOrder[i])) IN Concat(F, 1, Len(KeyOrder) + 1)

Collides(idx, S) ==
    [k \in Keys |-> \/ \E v, w \in OfKey(S, k) : v # w /\ v.ts = w.ts
                    \/ \E v \in OfKey(S, k), e \in OfKey(idx, k) : e.ts = v.ts /\ e.seq # v.seq]

(* stale index entries: value pointers into value-log files that no table references any more            *)
(* (one file per value: the file id grows with the sequence number; clean-up is by a minimum file id)    *)
Tables(z, d) == UNION {z[i] : i \in 1..Len(z)} \cup UNION {d[i] : i \in 1..(NLevels - 1)}
IdxClean(idx, z, d) ==
    IF ~IndexGC THEN idx
    ELSE LET live == {v.val : v \in {w \in Tables(z, d) : w.val # 0}}
         IN  IF live = {} THEN idx
             ELSE LET lo == CHOOSE x \in live : \A y \in live : x <= y
                  IN {e \in idx : e.val = 0 \/ e.val >= lo}

FlushSet(S, z) ==
    LET idx1 == IdxInsertAll(index, MemOrder(S)) IN
    /\ index' = IdxClean(idx1, z, deep)
    /\ collided' = [k \in Keys |-> collided[k] \/ (Impl = "pinned" /\ Collides(index, S)[k])]

Flush ==
    /\ imm # <<>>
    /\ l0' = <<Head(imm)>> \o l0
    /\ imm' = Tail(imm)
    /\ FlushSet(Head(imm), l0')
    /\ UNCHANGED <<hist, visible, now, mem, deep, tainted, pcR, snapR>>

(* one compaction round out of level src into src+1 (or within the last level); Retention!Rule per key *)
Registered == IF pcR = "open" THEN {snapR} ELSE {}
WithWin(S) == {[seq |-> v.seq, kind |-> v.kind, win |-> InWindow(v.ts, now)] : v \in S}
KeyList(S, k) == BySeqDesc(WithWin(OfKey(S, k)))
KeptSeqs(S, k, bottom) == {v.seq : v \in Rule(KeyList(S, k), Registered, bottom, TRUE, Finite, RuleVariant)}
Compacted(S, bottom) == {v \in S : v.seq \in KeptSeqs(S, v.k, bottom)}

(* signature of the recorded finding: a barrier that is neither the newest version of its key in the      *)
(* input nor inside the retention window is discarded                                                    *)
ExpiredBarrierDropped(S, out, k) ==
    /\ Finite
    /\ \E b \in OfKey(S, k) \ out :
         /\ IsBarrier(b) /\ ~InWindow(b.ts, now)
         /\ \E w \in OfKey(S, k) : w.seq > b.seq

Compact(src) ==
    /\ src \in 0..(NLevels - 1)
    /\ LET tgt == IF src = NLevels - 1 THEN src ELSE src + 1
           input == (IF src = 0 THEN UNION {l0[i] : i \in 1..Len(l0)} ELSE deep[src]) \cup deep[tgt]
           bottom == tgt = NLevels - 1
           out == Compacted(input, bottom)
       IN /\ src = 0 => l0 # <<>>
          /\ src > 0 => deep[src] # {}
          /\ deep' = [i \in 1..(NLevels - 1) |-> IF i = tgt THEN out ELSE IF i = src THEN {} ELSE deep[i]]
          /\ l0' = IF src = 0 THEN <<>> ELSE l0
          /\ tainted' = [k \in Keys |-> tainted[k] \/ ExpiredBarrierDropped(input, out, k)]
          /\ index' = IdxClean(index, l0', deep')
    /\ UNCHANGED <<hist, visible, now, mem, imm, collided, pcR, snapR>>

(* close + open.  "flush": flush_on_close - immutables (oldest first) and the active memtable become      *)
(* level-0 tables and enter the index; "replay": nothing is flushed, the commit log brings the unflushed  *)
(* versions back into one memtable.                                                                      *)
RECURSIVE FlushAll(_, _, _)
FlushAll(idx, z, s) ==     \* s: sequence of version sets, oldest first; returns <<index, l0>>
    IF s = <<>> THEN <<idx, z>>
    ELSE LET z1 == <<Head(s)>> \o z IN FlushAll(IdxClean(IdxInsertAll(idx, MemOrder(Head(s))), z1, deep), z1, Tail(s))

Reopen(mode) ==
    /\ pcR # "open"
    /\ IF mode = "flush"
       THEN LET pend == imm \o (IF mem = {} THEN <<>> ELSE <<mem>>)
                r == FlushAll(index, l0, pend)
                all == mem \cup UNION {imm[i] : i \in 1..Len(imm)}
            IN /\ index' = r[1] /\ l0' = r[2] /\ mem' = {} /\ imm' = <<>>
               /\ collided' = [k \in Keys |-> collided[k] \/ (Impl = "pinned" /\ Collides(index, all)[k])]
       ELSE /\ mem' = mem \cup UNION {imm[i] : i \in 1..Len(imm)}
            /\ imm' = <<>>
            /\ UNCHANGED <<index, l0, collided>>
    /\ UNCHANGED <<hist, visible, now, deep, tainted, pcR, snapR>>

Begin ==
    /\ pcR = "idle"
    /\ pcR' = "open" /\ snapR' = visible
    /\ UNCHANGED <<hist, visible, now, mem, imm, l0, deep, index, tainted, collided>>

End ==
    /\ pcR = "open"
    /\ pcR' = "done"
    /\ UNCHANGED <<hist, visible, now, mem, imm, l0, deep, index, tainted, collided, snapR>>

Next ==
    \/ \E d \in TickSteps : Tick(d)
    \/ \E k \in Keys, kind \in CommitKinds, ts \in 1..MaxClock : Commit(k, kind, ts)
    \/ Rotate \/ Flush
    \/ \E l \in 0..(NLevels - 1) : Compact(l)
    \/ \E m \in {"flush", "replay"} : Reopen(m)
    \/ Begin \/ End

Spec == Init /\ [][Next]_vars

-----------------------------------------------------------------------------
(* PROPERTIES of the implementation-level read path against the property   *)
(* level.  `Known` carves out recorded findings by their structural        *)
(* signature (ghosts tainted / collided, a barrier outside the timestamp   *)
(* range); with Known = {} these are the plain properties.                 *)
CONSTANT Known

ReadHorizons == {visible} \cup (IF pcR = "open" THEN {snapR} ELSE {})

(* the timestamp ranges the invariants range over (the driver tries many more on the real code) *)
TsChoices == {<<>>, <<1, 1>>, <<2, 2>>, <<2, MaxClock>>, <<1, 2>>}

(* finding "ts_filter_before_barrier": history applies the timestamp range before the barrier rule, so a  *)
(* hard delete / replace outside the range does not hide the versions it erased                           *)
BarrierOutsideRange(k, ts, h) ==
    ts # <<>> /\ \E b \in Visible(k, h) : IsBarrier(b) /\ ~(ts[1] <= b.ts /\ b.ts <= ts[2])

(* finding "index_equal_ts": TimestampComparator orders by (key, timestamp) only - wherever history merges   *)
(* under it (index back-end; LSM back-end with a timestamp range) two versions of a key with one timestamp  *)
(* come in source order, and in the index they share one slot                                              *)
HasEqualTs(k, h) == \E v, w \in Visible(k, h) : v # w /\ v.ts = w.ts
(* finding "index_ooo_unflushed": memtables are ordered by sequence number, the index back-end merges and   *)
(* filters by timestamp - wrong as soon as an unflushed version is older (by timestamp) than an earlier one *)
Unflushed == mem \cup UNION {imm[i] : i \in 1..Len(imm)}
HasOooUnflushed(k, h) ==
    \E v \in Visible(k, h) \cap Unflushed, w \in Visible(k, h) : w.seq < v.seq /\ w.ts > v.ts

ExcusedKey(b, k, ts, h) ==
    \/ "expired_barrier" \in Known /\ tainted[k]
    \/ "index_equal_ts" \in Known /\ (b = "index" \/ LsmByTs(ts)) /\ HasEqualTs(k, h)
    \/ "index_ooo_unflushed" \in Known /\ b = "index" /\ HasOooUnflushed(k, h)
    \/ "ts_filter_before_barrier" \in Known /\ BarrierOutsideRange(k, ts, h)

(* one key, no limit: the listing of the key's versions is acceptable *)
KeyListOK(L, may, must) ==
    LET n == Len(L)
        Before(a, b) == a.seq > b.seq \/ a.ts = b.ts \/ (OutOfOrder /\ a.ts > b.ts)
    IN  /\ \A i \in 1..n : L[i] \in may
        /\ \A i, j \in 1..n : i < j => L[i] # L[j]
        /\ \A i \in 1..(n - 1) : Before(L[i], L[i + 1])
        /\ \A m \in must : \E i \in 1..n : L[i] = m

(* every complete traversal (forward, backward) of every key under every option set lists what it must *)
HistoryOK ==
    \A b \in Backends, k \in Keys :
        LET runs == Runs(b, k)
            Ms == KMerge(runs, FALSE)
            Mt == KMerge(runs, TRUE)
            ki == KeyIdx(k)
        IN \A h \in ReadHorizons :
            LET mayK == May(k, h)
                mustK == Must(k, h)
            IN \A tomb \in BOOLEAN, ts \in TsChoices :
                LET o == Opt(tomb, ts, 0, ki, ki + 1)
                    M == IF b = "index" \/ LsmByTs(ts) THEN Mt ELSE Ms
                    may == {v \in mayK : Shown(v, o)}
                    must == {v \in mustK : Shown(v, o)}
                IN \/ ExcusedKey(b, k, ts, h)
                   \/ /\ KeyListOK(FwdKey(M, 1, h, o, St0), may, must)
                      /\ KeyListOK(BwdKey(M, h, o), may, must)

(* several keys and the limit: keys ascending, the limit cuts the traversal where it stands *)
LimitOK ==
    \A b \in Backends, h \in ReadHorizons, backward \in BOOLEAN, limit \in {0, 1, 2} :
        LET o == Opt(TRUE, <<>>, limit, 1, Len(KeyOrder) + 1) IN
        \/ \E k \in Keys : ExcusedKey(b, k, <<>>, h)
        \/ "backward_stops_at_hidden_key" \in Known /\ backward /\ \E i \in 1..Len(KeyOrder) : HiddenKey(b, i, o, h)
        \/ ListOK(CodeList(b, o, h, backward), o, h, backward)

GetAtOK ==
    \A b \in Backends, k \in Keys :
        LET ki == KeyIdx(k)
            o == Opt(TRUE, <<>>, 0, ki, ki + 1)
            M == Merged(b, k, o)
        IN \A h \in ReadHorizons :
            LET L == FwdKey(M, 1, h, o, St0)
                may == May(k, h)
                must == Must(k, h)
            IN
            \/ ExcusedKey(b, k, <<>>, h)
            \/ \A T \in 0..(MaxClock + 1) :
                 LET r == Best(L, 1, T, <<>>)
                     got == IF r = <<>> THEN 0 ELSE IF IsTomb(r[1]) THEN 0 ELSE r[1].val
                 IN got \in GetAtFrom(may, must, T)

(* the same answers with and without the version index (in-order timestamps).  With a finite window the    *)
(* index may still hold what compaction discarded: both answers are then only required to be acceptable.  *)
BackendsAgree ==
    (~OutOfOrder /\ ~Finite) =>
        \A k \in Keys :
            LET ri == Runs("index", k)
                rl == Runs("lsm", k)
                It == KMerge(ri, TRUE)
                Ls == KMerge(rl, FALSE)
                Lt == KMerge(rl, TRUE)
                ki == KeyIdx(k)
            IN \A h \in ReadHorizons, tomb \in BOOLEAN, ts \in TsChoices :
                LET o == Opt(tomb, ts, 0, ki, ki + 1)
                    L == IF LsmByTs(ts) THEN Lt ELSE Ls
                IN \/ ExcusedKey("index", k, ts, h)
                   \/ /\ FwdKey(It, 1, h, o, St0) = FwdKey(L, 1, h, o, St0)
                      /\ BwdKey(It, h, o) = BwdKey(L, h, o)

(* HistoryOK /\ GetAtOK /\ BackendsAgree in one pass (the merged streams of a key are computed once): this  *)
(* is the invariant TLC checks; the three above state its parts one by one.                                 *)
ReadPathOK ==
    \A k \in Keys :
        LET ki == KeyIdx(k)
            It == KMerge(Runs("index", k), TRUE)
            rl == IF OutOfOrder THEN <<>> ELSE Runs("lsm", k)
            Ls == KMerge(rl, FALSE)
            Lt == KMerge(rl, TRUE)
        IN \A h \in ReadHorizons :
            LET mayK == May(k, h)
                mustK == Must(k, h)
                GetOK(b, M) ==
                    LET o == Opt(TRUE, <<>>, 0, ki, ki + 1)
                        L == FwdKey(M, 1, h, o, St0)
                    IN \/ ExcusedKey(b, k, <<>>, h)
                       \/ \A T \in 0..(MaxClock + 1) :
                            LET r == Best(L, 1, T, <<>>)
                                got == IF r = <<>> THEN 0 ELSE IF IsTomb(r[1]) THEN 0 ELSE r[1].val
                            IN got \in GetAtFrom(mayK, mustK, T)
            IN /\ GetOK("index", It)
               /\ OutOfOrder \/ GetOK("lsm", Ls)
               /\ \A tomb \in BOOLEAN, ts \in TsChoices :
                    LET o == Opt(tomb, ts, 0, ki, ki + 1)
                        Ml == IF LsmByTs(ts) THEN Lt ELSE Ls
                        may == {v \in mayK : Shown(v, o)}
                        must == {v \in mustK : Shown(v, o)}
                        Fi == FwdKey(It, 1, h, o, St0)
                        Bi == BwdKey(It, h, o)
                        Fl == FwdKey(Ml, 1, h, o, St0)
                        Bl == BwdKey(Ml, h, o)
                        xi == ExcusedKey("index", k, ts, h)
                        xl == ExcusedKey("lsm", k, ts, h)
                    IN /\ xi \/ (KeyListOK(Fi, may, must) /\ KeyListOK(Bi, may, must))
                       /\ OutOfOrder \/ xl \/ (KeyListOK(Fl, may, must) /\ KeyListOK(Bl, may, must))
                       /\ OutOfOrder \/ Finite \/ xi \/ xl \/ (Fi = Fl /\ Bi = Bl)

(* with in-order timestamps both readings of "earlier" coincide: the oracle is exact *)
OracleExact ==
    (~OutOfOrder) => \A k \in Keys, h \in ReadHorizons : AliveByTs(Visible(k, h)) = Alive(OfKey(hist, k), h)

(* erased stays erased: once a version is outside May it never returns (stated on the ghost, any horizon) *)
ErasedStaysErased ==
    [][\A k \in Keys : May(k, visible)' \cap OfKey(hist, k) \subseteq May(k, visible)]_vars
=============================================================================
