#!/usr/bin/env python3
"""Hand-written scenario for harness/history_run (directed probes; no oracle).

  python3 spec/history/mk_scenario.py "Tick 2;Commit k1 Set 1;Commit k1 Del 2" > /tmp/p.ndjson
  harness/target/release/history_run /tmp/p.ndjson --jobs 1 --program "0;0-1;none;00:ffff;seek_first,next"

--program "<tombstones 0|1>;<ts lo-hi|none>;<limit|none>;<range lo:hi hex>;<seek_first|seek_last|next|prev|k1..k3|hex:..>,.."
prints every cursor step on both Trees (version index on / off) and get_at(k, 0..5).
Steps: Tick <clock> | Commit <key> <Set|Del|SoftDel|Replace> <ts> | Rotate | Flush | Compact <level> | Reopen <flush|replay> | Begin | End"""
import json,sys
# usage: mk.py "Tick 2;Commit k1 Set 1;Rotate;Flush;Compact 0;Reopen flush" > file   (expect left empty)
ops=[]
for t in sys.argv[1].split(';'):
    f=t.split()
    if f[0]=='Commit': ops.append({"op":"Commit","k":f[1],"kind":f[2],"ts":int(f[3])})
    elif f[0]=='Tick': ops.append({"op":"Tick","k":"","kind":"","ts":int(f[1])})
    elif f[0]=='Compact': ops.append({"op":"Compact","k":"","kind":"","ts":int(f[1])})
    elif f[0]=='Reopen': ops.append({"op":"Reopen","k":"","kind":f[1],"ts":0})
    else: ops.append({"op":f[0],"k":"","kind":"","ts":0})
exp={"now":1,"visible":sum(1 for o in ops if o['op']=='Commit'),"latest":{},"reader":{"open":False,"snap":0,"keys":{}}}
print(json.dumps({"ops":ops,"cfg":{"retention":int(sys.argv[2]) if len(sys.argv)>2 else 0,"ooo":False},"expect":exp}))
