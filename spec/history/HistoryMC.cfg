CONSTANTS
    Absent = 0
    KeyOrder <- KeyOrderMC
    NKeys = 2
    CommitKinds = {"Set", "Del", "SoftDel", "Replace"}
    NLevels = 2
    RetentionNs = 0
    OutOfOrder = FALSE
    EqualTs = FALSE
    MaxClock = 3
    TickSteps = {1}
    RuleVariant = "repo"
    IndexGC = FALSE
    Impl = "repo"
    Known = {"expired_barrier", "index_ooo_unflushed"}
    MaxCommits = 3
    MaxFlushes = 2
    MaxCompactions = 1
    MaxReopens = 1
    MaxTicks = 2
    MaxSteps = 7
    WithReader = FALSE
INIT MCInit
NEXT MCNext
CONSTRAINT StepBound
VIEW View
INVARIANTS ReadPathOK LimitOK OracleExact
PROPERTY ErasedStaysErasedMC
CHECK_DEADLOCK FALSE
