---- MODULE CommitMC_TTrace_1790368201 ----
EXTENDS Sequences, TLCExt, Toolbox, CommitMC, Naturals, TLC

_expression ==
    LET CommitMC_TEExpression == INSTANCE CommitMC_TEExpression
    IN CommitMC_TEExpression!expression
----

_trace ==
    LET CommitMC_TETrace == INSTANCE CommitMC_TETrace
    IN CommitMC_TETrace!trace
----

_inv ==
    ~(
        TLCGet("level") = Len(_TETrace)
        /\
        sinceGc = (3)
        /\
        res = ([t1 |-> "none", t2 |-> "ErrLog", t3 |-> "none", t4 |-> "ErrLog"])
        /\
        flag = ([t1 |-> FALSE, t2 |-> TRUE, t3 |-> FALSE, t4 |-> TRUE])
        /\
        visible = (0)
        /\
        oracle = ([k1 |-> 1, k2 |-> 0])
        /\
        log = (<<[t |-> "t2", a |-> "Begin", x |-> 0], [t |-> "t1", a |-> "Begin", x |-> 0], [t |-> "t2", a |-> "Enter", x |-> 0], [t |-> "t1", a |-> "Enter", x |-> 0], [t |-> "t1", a |-> "Critical", x |-> 0], [t |-> "t3", a |-> "Begin", x |-> 0], [t |-> "t2", a |-> "CriticalLogFail", x |-> 0], [t |-> "t4", a |-> "Begin", x |-> 0], [t |-> "t2", a |-> "PStep", x |-> 0], [t |-> "t4", a |-> "Enter", x |-> 0], [t |-> "t4", a |-> "CriticalLogFail", x |-> 0], [t |-> "t4", a |-> "PStep", x |-> 0], [t |-> "t3", a |-> "Enter", x |-> 0]>>)
        /\
        prev = ([t1 |-> [k1 |-> 0, k2 |-> 0], t2 |-> [k1 |-> 1, k2 |-> 0], t3 |-> [k1 |-> 0, k2 |-> 0], t4 |-> [k1 |-> 1, k2 |-> 0]])
        /\
        start = ([t1 |-> 0, t2 |-> 0, t3 |-> 0, t4 |-> 0])
        /\
        logSeq = (4)
        /\
        memt = ({})
        /\
        steps = (13)
        /\
        dq = ([t1 |-> "-", t2 |-> "-", t3 |-> "-", t4 |-> "-"])
        /\
        faults = (2)
        /\
        pc = ([t1 |-> "logged", t2 |-> "done", t3 |-> "permit", t4 |-> "done"])
        /\
        permits = (0)
        /\
        compl = ([t1 |-> "none", t2 |-> "Err", t3 |-> "none", t4 |-> "Err"])
        /\
        keptSince = (0)
        /\
        seq = ([t1 |-> 1, t2 |-> 2, t3 |-> 0, t4 |-> 3])
        /\
        shutdown = (FALSE)
        /\
        queue = (<<"t1", "t2", "t4">>)
        /\
        live = ({"t1", "t3"})
    )
----

_init ==
    /\ flag = _TETrace[1].flag
    /\ seq = _TETrace[1].seq
    /\ shutdown = _TETrace[1].shutdown
    /\ steps = _TETrace[1].steps
    /\ permits = _TETrace[1].permits
    /\ visible = _TETrace[1].visible
    /\ start = _TETrace[1].start
    /\ log = _TETrace[1].log
    /\ prev = _TETrace[1].prev
    /\ keptSince = _TETrace[1].keptSince
    /\ pc = _TETrace[1].pc
    /\ dq = _TETrace[1].dq
    /\ faults = _TETrace[1].faults
    /\ sinceGc = _TETrace[1].sinceGc
    /\ res = _TETrace[1].res
    /\ queue = _TETrace[1].queue
    /\ compl = _TETrace[1].compl
    /\ live = _TETrace[1].live
    /\ logSeq = _TETrace[1].logSeq
    /\ memt = _TETrace[1].memt
    /\ oracle = _TETrace[1].oracle
----

_next ==
    /\ \E i,j \in DOMAIN _TETrace:
        /\ \/ /\ j = i + 1
              /\ i = TLCGet("level")
        /\ flag  = _TETrace[i].flag
        /\ flag' = _TETrace[j].flag
        /\ seq  = _TETrace[i].seq
        /\ seq' = _TETrace[j].seq
        /\ shutdown  = _TETrace[i].shutdown
        /\ shutdown' = _TETrace[j].shutdown
        /\ steps  = _TETrace[i].steps
        /\ steps' = _TETrace[j].steps
        /\ permits  = _TETrace[i].permits
        /\ permits' = _TETrace[j].permits
        /\ visible  = _TETrace[i].visible
        /\ visible' = _TETrace[j].visible
        /\ start  = _TETrace[i].start
        /\ start' = _TETrace[j].start
        /\ log  = _TETrace[i].log
        /\ log' = _TETrace[j].log
        /\ prev  = _TETrace[i].prev
        /\ prev' = _TETrace[j].prev
        /\ keptSince  = _TETrace[i].keptSince
        /\ keptSince' = _TETrace[j].keptSince
        /\ pc  = _TETrace[i].pc
        /\ pc' = _TETrace[j].pc
        /\ dq  = _TETrace[i].dq
        /\ dq' = _TETrace[j].dq
        /\ faults  = _TETrace[i].faults
        /\ faults' = _TETrace[j].faults
        /\ sinceGc  = _TETrace[i].sinceGc
        /\ sinceGc' = _TETrace[j].sinceGc
        /\ res  = _TETrace[i].res
        /\ res' = _TETrace[j].res
        /\ queue  = _TETrace[i].queue
        /\ queue' = _TETrace[j].queue
        /\ compl  = _TETrace[i].compl
        /\ compl' = _TETrace[j].compl
        /\ live  = _TETrace[i].live
        /\ live' = _TETrace[j].live
        /\ logSeq  = _TETrace[i].logSeq
        /\ logSeq' = _TETrace[j].logSeq
        /\ memt  = _TETrace[i].memt
        /\ memt' = _TETrace[j].memt
        /\ oracle  = _TETrace[i].oracle
        /\ oracle' = _TETrace[j].oracle

\* Uncomment the ASSUME below to write the states of the error trace
\* to the given file in Json format. Note that you can pass any tuple
\* to `JsonSerialize`. For example, a sub-sequence of _TETrace.
    \* ASSUME
    \*     LET J == INSTANCE Json
    \*         IN J!JsonSerialize("CommitMC_TTrace_1790368201.json", _TETrace)

=============================================================================

 Note that you can extract this module `CommitMC_TEExpression`
  to a dedicated file to reuse `expression` (the module in the 
  dedicated `CommitMC_TEExpression.tla` file takes precedence 
  over the module `CommitMC_TEExpression` below).

---- MODULE CommitMC_TEExpression ----
EXTENDS Sequences, TLCExt, Toolbox, CommitMC, Naturals, TLC

expression == 
    [
        \* To hide variables of the `CommitMC` spec from the error trace,
        \* remove the variables below.  The trace will be written in the order
        \* of the fields of this record.
        flag |-> flag
        ,seq |-> seq
        ,shutdown |-> shutdown
        ,steps |-> steps
        ,permits |-> permits
        ,visible |-> visible
        ,start |-> start
        ,log |-> log
        ,prev |-> prev
        ,keptSince |-> keptSince
        ,pc |-> pc
        ,dq |-> dq
        ,faults |-> faults
        ,sinceGc |-> sinceGc
        ,res |-> res
        ,queue |-> queue
        ,compl |-> compl
        ,live |-> live
        ,logSeq |-> logSeq
        ,memt |-> memt
        ,oracle |-> oracle
        
        \* Put additional constant-, state-, and action-level expressions here:
        \* ,_stateNumber |-> _TEPosition
        \* ,_flagUnchanged |-> flag = flag'
        
        \* Format the `flag` variable as Json value.
        \* ,_flagJson |->
        \*     LET J == INSTANCE Json
        \*     IN J!ToJson(flag)
        
        \* Lastly, you may build expressions over arbitrary sets of states by
        \* leveraging the _TETrace operator.  For example, this is how to
        \* count the number of times a spec variable changed up to the current
        \* state in the trace.
        \* ,_flagModCount |->
        \*     LET F[s \in DOMAIN _TETrace] ==
        \*         IF s = 1 THEN 0
        \*         ELSE IF _TETrace[s].flag # _TETrace[s-1].flag
        \*             THEN 1 + F[s-1] ELSE F[s-1]
        \*     IN F[_TEPosition - 1]
    ]

=============================================================================



Parsing and semantic processing can take forever if the trace below is long.
 In this case, it is advised to uncomment the module below to deserialize the
 trace from a generated binary file.

\*
\*---- MODULE CommitMC_TETrace ----
\*EXTENDS IOUtils, CommitMC, TLC
\*
\*trace == IODeserialize("CommitMC_TTrace_1790368201.bin", TRUE)
\*
\*=============================================================================
\*

---- MODULE CommitMC_TETrace ----
EXTENDS CommitMC, TLC

trace == 
    <<
    ([sinceGc |-> 0,res |-> [t1 |-> "none", t2 |-> "none", t3 |-> "none", t4 |-> "none"],flag |-> [t1 |-> FALSE, t2 |-> FALSE, t3 |-> FALSE, t4 |-> FALSE],visible |-> 0,oracle |-> [k1 |-> 0, k2 |-> 0],log |-> <<>>,prev |-> [t1 |-> [k1 |-> 0, k2 |-> 0], t2 |-> [k1 |-> 0, k2 |-> 0], t3 |-> [k1 |-> 0, k2 |-> 0], t4 |-> [k1 |-> 0, k2 |-> 0]],start |-> [t1 |-> 0, t2 |-> 0, t3 |-> 0, t4 |-> 0],logSeq |-> 1,memt |-> {},steps |-> 0,dq |-> [t1 |-> "-", t2 |-> "-", t3 |-> "-", t4 |-> "-"],faults |-> 0,pc |-> [t1 |-> "idle", t2 |-> "idle", t3 |-> "idle", t4 |-> "idle"],permits |-> 2,compl |-> [t1 |-> "none", t2 |-> "none", t3 |-> "none", t4 |-> "none"],keptSince |-> 0,seq |-> [t1 |-> 0, t2 |-> 0, t3 |-> 0, t4 |-> 0],shutdown |-> FALSE,queue |-> <<>>,live |-> {}]),
    ([sinceGc |-> 0,res |-> [t1 |-> "none", t2 |-> "none", t3 |-> "none", t4 |-> "none"],flag |-> [t1 |-> FALSE, t2 |-> FALSE, t3 |-> FALSE, t4 |-> FALSE],visible |-> 0,oracle |-> [k1 |-> 0, k2 |-> 0],log |-> <<[t |-> "t2", a |-> "Begin", x |-> 0]>>,prev |-> [t1 |-> [k1 |-> 0, k2 |-> 0], t2 |-> [k1 |-> 0, k2 |-> 0], t3 |-> [k1 |-> 0, k2 |-> 0], t4 |-> [k1 |-> 0, k2 |-> 0]],start |-> [t1 |-> 0, t2 |-> 0, t3 |-> 0, t4 |-> 0],logSeq |-> 1,memt |-> {},steps |-> 1,dq |-> [t1 |-> "-", t2 |-> "-", t3 |-> "-", t4 |-> "-"],faults |-> 0,pc |-> [t1 |-> "idle", t2 |-> "begun", t3 |-> "idle", t4 |-> "idle"],permits |-> 2,compl |-> [t1 |-> "none", t2 |-> "none", t3 |-> "none", t4 |-> "none"],keptSince |-> 0,seq |-> [t1 |-> 0, t2 |-> 0, t3 |-> 0, t4 |-> 0],shutdown |-> FALSE,queue |-> <<>>,live |-> {"t2"}]),
    ([sinceGc |-> 0,res |-> [t1 |-> "none", t2 |-> "none", t3 |-> "none", t4 |-> "none"],flag |-> [t1 |-> FALSE, t2 |-> FALSE, t3 |-> FALSE, t4 |-> FALSE],visible |-> 0,oracle |-> [k1 |-> 0, k2 |-> 0],log |-> <<[t |-> "t2", a |-> "Begin", x |-> 0], [t |-> "t1", a |-> "Begin", x |-> 0]>>,prev |-> [t1 |-> [k1 |-> 0, k2 |-> 0], t2 |-> [k1 |-> 0, k2 |-> 0], t3 |-> [k1 |-> 0, k2 |-> 0], t4 |-> [k1 |-> 0, k2 |-> 0]],start |-> [t1 |-> 0, t2 |-> 0, t3 |-> 0, t4 |-> 0],logSeq |-> 1,memt |-> {},steps |-> 2,dq |-> [t1 |-> "-", t2 |-> "-", t3 |-> "-", t4 |-> "-"],faults |-> 0,pc |-> [t1 |-> "begun", t2 |-> "begun", t3 |-> "idle", t4 |-> "idle"],permits |-> 2,compl |-> [t1 |-> "none", t2 |-> "none", t3 |-> "none", t4 |-> "none"],keptSince |-> 0,seq |-> [t1 |-> 0, t2 |-> 0, t3 |-> 0, t4 |-> 0],shutdown |-> FALSE,queue |-> <<>>,live |-> {"t1", "t2"}]),
    ([sinceGc |-> 0,res |-> [t1 |-> "none", t2 |-> "none", t3 |-> "none", t4 |-> "none"],flag |-> [t1 |-> FALSE, t2 |-> FALSE, t3 |-> FALSE, t4 |-> FALSE],visible |-> 0,oracle |-> [k1 |-> 0, k2 |-> 0],log |-> <<[t |-> "t2", a |-> "Begin", x |-> 0], [t |-> "t1", a |-> "Begin", x |-> 0], [t |-> "t2", a |-> "Enter", x |-> 0]>>,prev |-> [t1 |-> [k1 |-> 0, k2 |-> 0], t2 |-> [k1 |-> 0, k2 |-> 0], t3 |-> [k1 |-> 0, k2 |-> 0], t4 |-> [k1 |-> 0, k2 |-> 0]],start |-> [t1 |-> 0, t2 |-> 0, t3 |-> 0, t4 |-> 0],logSeq |-> 1,memt |-> {},steps |-> 3,dq |-> [t1 |-> "-", t2 |-> "-", t3 |-> "-", t4 |-> "-"],faults |-> 0,pc |-> [t1 |-> "begun", t2 |-> "permit", t3 |-> "idle", t4 |-> "idle"],permits |-> 1,compl |-> [t1 |-> "none", t2 |-> "none", t3 |-> "none", t4 |-> "none"],keptSince |-> 0,seq |-> [t1 |-> 0, t2 |-> 0, t3 |-> 0, t4 |-> 0],shutdown |-> FALSE,queue |-> <<>>,live |-> {"t1", "t2"}]),
    ([sinceGc |-> 0,res |-> [t1 |-> "none", t2 |-> "none", t3 |-> "none", t4 |-> "none"],flag |-> [t1 |-> FALSE, t2 |-> FALSE, t3 |-> FALSE, t4 |-> FALSE],visible |-> 0,oracle |-> [k1 |-> 0, k2 |-> 0],log |-> <<[t |-> "t2", a |-> "Begin", x |-> 0], [t |-> "t1", a |-> "Begin", x |-> 0], [t |-> "t2", a |-> "Enter", x |-> 0], [t |-> "t1", a |-> "Enter", x |-> 0]>>,prev |-> [t1 |-> [k1 |-> 0, k2 |-> 0], t2 |-> [k1 |-> 0, k2 |-> 0], t3 |-> [k1 |-> 0, k2 |-> 0], t4 |-> [k1 |-> 0, k2 |-> 0]],start |-> [t1 |-> 0, t2 |-> 0, t3 |-> 0, t4 |-> 0],logSeq |-> 1,memt |-> {},steps |-> 4,dq |-> [t1 |-> "-", t2 |-> "-", t3 |-> "-", t4 |-> "-"],faults |-> 0,pc |-> [t1 |-> "permit", t2 |-> "permit", t3 |-> "idle", t4 |-> "idle"],permits |-> 0,compl |-> [t1 |-> "none", t2 |-> "none", t3 |-> "none", t4 |-> "none"],keptSince |-> 0,seq |-> [t1 |-> 0, t2 |-> 0, t3 |-> 0, t4 |-> 0],shutdown |-> FALSE,queue |-> <<>>,live |-> {"t1", "t2"}]),
    ([sinceGc |-> 1,res |-> [t1 |-> "none", t2 |-> "none", t3 |-> "none", t4 |-> "none"],flag |-> [t1 |-> FALSE, t2 |-> FALSE, t3 |-> FALSE, t4 |-> FALSE],visible |-> 0,oracle |-> [k1 |-> 1, k2 |-> 0],log |-> <<[t |-> "t2", a |-> "Begin", x |-> 0], [t |-> "t1", a |-> "Begin", x |-> 0], [t |-> "t2", a |-> "Enter", x |-> 0], [t |-> "t1", a |-> "Enter", x |-> 0], [t |-> "t1", a |-> "Critical", x |-> 0]>>,prev |-> [t1 |-> [k1 |-> 0, k2 |-> 0], t2 |-> [k1 |-> 0, k2 |-> 0], t3 |-> [k1 |-> 0, k2 |-> 0], t4 |-> [k1 |-> 0, k2 |-> 0]],start |-> [t1 |-> 0, t2 |-> 0, t3 |-> 0, t4 |-> 0],logSeq |-> 2,memt |-> {},steps |-> 5,dq |-> [t1 |-> "-", t2 |-> "-", t3 |-> "-", t4 |-> "-"],faults |-> 0,pc |-> [t1 |-> "logged", t2 |-> "permit", t3 |-> "idle", t4 |-> "idle"],permits |-> 0,compl |-> [t1 |-> "none", t2 |-> "none", t3 |-> "none", t4 |-> "none"],keptSince |-> 0,seq |-> [t1 |-> 1, t2 |-> 0, t3 |-> 0, t4 |-> 0],shutdown |-> FALSE,queue |-> <<"t1">>,live |-> {"t1", "t2"}]),
    ([sinceGc |-> 1,res |-> [t1 |-> "none", t2 |-> "none", t3 |-> "none", t4 |-> "none"],flag |-> [t1 |-> FALSE, t2 |-> FALSE, t3 |-> FALSE, t4 |-> FALSE],visible |-> 0,oracle |-> [k1 |-> 1, k2 |-> 0],log |-> <<[t |-> "t2", a |-> "Begin", x |-> 0], [t |-> "t1", a |-> "Begin", x |-> 0], [t |-> "t2", a |-> "Enter", x |-> 0], [t |-> "t1", a |-> "Enter", x |-> 0], [t |-> "t1", a |-> "Critical", x |-> 0], [t |-> "t3", a |-> "Begin", x |-> 0]>>,prev |-> [t1 |-> [k1 |-> 0, k2 |-> 0], t2 |-> [k1 |-> 0, k2 |-> 0], t3 |-> [k1 |-> 0, k2 |-> 0], t4 |-> [k1 |-> 0, k2 |-> 0]],start |-> [t1 |-> 0, t2 |-> 0, t3 |-> 0, t4 |-> 0],logSeq |-> 2,memt |-> {},steps |-> 6,dq |-> [t1 |-> "-", t2 |-> "-", t3 |-> "-", t4 |-> "-"],faults |-> 0,pc |-> [t1 |-> "logged", t2 |-> "permit", t3 |-> "begun", t4 |-> "idle"],permits |-> 0,compl |-> [t1 |-> "none", t2 |-> "none", t3 |-> "none", t4 |-> "none"],keptSince |-> 0,seq |-> [t1 |-> 1, t2 |-> 0, t3 |-> 0, t4 |-> 0],shutdown |-> FALSE,queue |-> <<"t1">>,live |-> {"t1", "t2", "t3"}]),
    ([sinceGc |-> 2,res |-> [t1 |-> "none", t2 |-> "ErrLog", t3 |-> "none", t4 |-> "none"],flag |-> [t1 |-> FALSE, t2 |-> TRUE, t3 |-> FALSE, t4 |-> FALSE],visible |-> 0,oracle |-> [k1 |-> 1, k2 |-> 0],log |-> <<[t |-> "t2", a |-> "Begin", x |-> 0], [t |-> "t1", a |-> "Begin", x |-> 0], [t |-> "t2", a |-> "Enter", x |-> 0], [t |-> "t1", a |-> "Enter", x |-> 0], [t |-> "t1", a |-> "Critical", x |-> 0], [t |-> "t3", a |-> "Begin", x |-> 0], [t |-> "t2", a |-> "CriticalLogFail", x |-> 0]>>,prev |-> [t1 |-> [k1 |-> 0, k2 |-> 0], t2 |-> [k1 |-> 1, k2 |-> 0], t3 |-> [k1 |-> 0, k2 |-> 0], t4 |-> [k1 |-> 0, k2 |-> 0]],start |-> [t1 |-> 0, t2 |-> 0, t3 |-> 0, t4 |-> 0],logSeq |-> 3,memt |-> {},steps |-> 7,dq |-> [t1 |-> "-", t2 |-> "-", t3 |-> "-", t4 |-> "-"],faults |-> 1,pc |-> [t1 |-> "logged", t2 |-> "pub", t3 |-> "begun", t4 |-> "idle"],permits |-> 0,compl |-> [t1 |-> "none", t2 |-> "Err", t3 |-> "none", t4 |-> "none"],keptSince |-> 0,seq |-> [t1 |-> 1, t2 |-> 2, t3 |-> 0, t4 |-> 0],shutdown |-> FALSE,queue |-> <<"t1", "t2">>,live |-> {"t1", "t2", "t3"}]),
    ([sinceGc |-> 2,res |-> [t1 |-> "none", t2 |-> "ErrLog", t3 |-> "none", t4 |-> "none"],flag |-> [t1 |-> FALSE, t2 |-> TRUE, t3 |-> FALSE, t4 |-> FALSE],visible |-> 0,oracle |-> [k1 |-> 1, k2 |-> 0],log |-> <<[t |-> "t2", a |-> "Begin", x |-> 0], [t |-> "t1", a |-> "Begin", x |-> 0], [t |-> "t2", a |-> "Enter", x |-> 0], [t |-> "t1", a |-> "Enter", x |-> 0], [t |-> "t1", a |-> "Critical", x |-> 0], [t |-> "t3", a |-> "Begin", x |-> 0], [t |-> "t2", a |-> "CriticalLogFail", x |-> 0], [t |-> "t4", a |-> "Begin", x |-> 0]>>,prev |-> [t1 |-> [k1 |-> 0, k2 |-> 0], t2 |-> [k1 |-> 1, k2 |-> 0], t3 |-> [k1 |-> 0, k2 |-> 0], t4 |-> [k1 |-> 0, k2 |-> 0]],start |-> [t1 |-> 0, t2 |-> 0, t3 |-> 0, t4 |-> 0],logSeq |-> 3,memt |-> {},steps |-> 8,dq |-> [t1 |-> "-", t2 |-> "-", t3 |-> "-", t4 |-> "-"],faults |-> 1,pc |-> [t1 |-> "logged", t2 |-> "pub", t3 |-> "begun", t4 |-> "begun"],permits |-> 0,compl |-> [t1 |-> "none", t2 |-> "Err", t3 |-> "none", t4 |-> "none"],keptSince |-> 0,seq |-> [t1 |-> 1, t2 |-> 2, t3 |-> 0, t4 |-> 0],shutdown |-> FALSE,queue |-> <<"t1", "t2">>,live |-> {"t1", "t2", "t3", "t4"}]),
    ([sinceGc |-> 2,res |-> [t1 |-> "none", t2 |-> "ErrLog", t3 |-> "none", t4 |-> "none"],flag |-> [t1 |-> FALSE, t2 |-> TRUE, t3 |-> FALSE, t4 |-> FALSE],visible |-> 0,oracle |-> [k1 |-> 1, k2 |-> 0],log |-> <<[t |-> "t2", a |-> "Begin", x |-> 0], [t |-> "t1", a |-> "Begin", x |-> 0], [t |-> "t2", a |-> "Enter", x |-> 0], [t |-> "t1", a |-> "Enter", x |-> 0], [t |-> "t1", a |-> "Critical", x |-> 0], [t |-> "t3", a |-> "Begin", x |-> 0], [t |-> "t2", a |-> "CriticalLogFail", x |-> 0], [t |-> "t4", a |-> "Begin", x |-> 0], [t |-> "t2", a |-> "PStep", x |-> 0]>>,prev |-> [t1 |-> [k1 |-> 0, k2 |-> 0], t2 |-> [k1 |-> 1, k2 |-> 0], t3 |-> [k1 |-> 0, k2 |-> 0], t4 |-> [k1 |-> 0, k2 |-> 0]],start |-> [t1 |-> 0, t2 |-> 0, t3 |-> 0, t4 |-> 0],logSeq |-> 3,memt |-> {},steps |-> 9,dq |-> [t1 |-> "-", t2 |-> "-", t3 |-> "-", t4 |-> "-"],faults |-> 1,pc |-> [t1 |-> "logged", t2 |-> "done", t3 |-> "begun", t4 |-> "begun"],permits |-> 1,compl |-> [t1 |-> "none", t2 |-> "Err", t3 |-> "none", t4 |-> "none"],keptSince |-> 0,seq |-> [t1 |-> 1, t2 |-> 2, t3 |-> 0, t4 |-> 0],shutdown |-> FALSE,queue |-> <<"t1", "t2">>,live |-> {"t1", "t3", "t4"}]),
    ([sinceGc |-> 2,res |-> [t1 |-> "none", t2 |-> "ErrLog", t3 |-> "none", t4 |-> "none"],flag |-> [t1 |-> FALSE, t2 |-> TRUE, t3 |-> FALSE, t4 |-> FALSE],visible |-> 0,oracle |-> [k1 |-> 1, k2 |-> 0],log |-> <<[t |-> "t2", a |-> "Begin", x |-> 0], [t |-> "t1", a |-> "Begin", x |-> 0], [t |-> "t2", a |-> "Enter", x |-> 0], [t |-> "t1", a |-> "Enter", x |-> 0], [t |-> "t1", a |-> "Critical", x |-> 0], [t |-> "t3", a |-> "Begin", x |-> 0], [t |-> "t2", a |-> "CriticalLogFail", x |-> 0], [t |-> "t4", a |-> "Begin", x |-> 0], [t |-> "t2", a |-> "PStep", x |-> 0], [t |-> "t4", a |-> "Enter", x |-> 0]>>,prev |-> [t1 |-> [k1 |-> 0, k2 |-> 0], t2 |-> [k1 |-> 1, k2 |-> 0], t3 |-> [k1 |-> 0, k2 |-> 0], t4 |-> [k1 |-> 0, k2 |-> 0]],start |-> [t1 |-> 0, t2 |-> 0, t3 |-> 0, t4 |-> 0],logSeq |-> 3,memt |-> {},steps |-> 10,dq |-> [t1 |-> "-", t2 |-> "-", t3 |-> "-", t4 |-> "-"],faults |-> 1,pc |-> [t1 |-> "logged", t2 |-> "done", t3 |-> "begun", t4 |-> "permit"],permits |-> 0,compl |-> [t1 |-> "none", t2 |-> "Err", t3 |-> "none", t4 |-> "none"],keptSince |-> 0,seq |-> [t1 |-> 1, t2 |-> 2, t3 |-> 0, t4 |-> 0],shutdown |-> FALSE,queue |-> <<"t1", "t2">>,live |-> {"t1", "t3", "t4"}]),
    ([sinceGc |-> 3,res |-> [t1 |-> "none", t2 |-> "ErrLog", t3 |-> "none", t4 |-> "ErrLog"],flag |-> [t1 |-> FALSE, t2 |-> TRUE, t3 |-> FALSE, t4 |-> TRUE],visible |-> 0,oracle |-> [k1 |-> 1, k2 |-> 0],log |-> <<[t |-> "t2", a |-> "Begin", x |-> 0], [t |-> "t1", a |-> "Begin", x |-> 0], [t |-> "t2", a |-> "Enter", x |-> 0], [t |-> "t1", a |-> "Enter", x |-> 0], [t |-> "t1", a |-> "Critical", x |-> 0], [t |-> "t3", a |-> "Begin", x |-> 0], [t |-> "t2", a |-> "CriticalLogFail", x |-> 0], [t |-> "t4", a |-> "Begin", x |-> 0], [t |-> "t2", a |-> "PStep", x |-> 0], [t |-> "t4", a |-> "Enter", x |-> 0], [t |-> "t4", a |-> "CriticalLogFail", x |-> 0]>>,prev |-> [t1 |-> [k1 |-> 0, k2 |-> 0], t2 |-> [k1 |-> 1, k2 |-> 0], t3 |-> [k1 |-> 0, k2 |-> 0], t4 |-> [k1 |-> 1, k2 |-> 0]],start |-> [t1 |-> 0, t2 |-> 0, t3 |-> 0, t4 |-> 0],logSeq |-> 4,memt |-> {},steps |-> 11,dq |-> [t1 |-> "-", t2 |-> "-", t3 |-> "-", t4 |-> "-"],faults |-> 2,pc |-> [t1 |-> "logged", t2 |-> "done", t3 |-> "begun", t4 |-> "pub"],permits |-> 0,compl |-> [t1 |-> "none", t2 |-> "Err", t3 |-> "none", t4 |-> "Err"],keptSince |-> 0,seq |-> [t1 |-> 1, t2 |-> 2, t3 |-> 0, t4 |-> 3],shutdown |-> FALSE,queue |-> <<"t1", "t2", "t4">>,live |-> {"t1", "t3", "t4"}]),
    ([sinceGc |-> 3,res |-> [t1 |-> "none", t2 |-> "ErrLog", t3 |-> "none", t4 |-> "ErrLog"],flag |-> [t1 |-> FALSE, t2 |-> TRUE, t3 |-> FALSE, t4 |-> TRUE],visible |-> 0,oracle |-> [k1 |-> 1, k2 |-> 0],log |-> <<[t |-> "t2", a |-> "Begin", x |-> 0], [t |-> "t1", a |-> "Begin", x |-> 0], [t |-> "t2", a |-> "Enter", x |-> 0], [t |-> "t1", a |-> "Enter", x |-> 0], [t |-> "t1", a |-> "Critical", x |-> 0], [t |-> "t3", a |-> "Begin", x |-> 0], [t |-> "t2", a |-> "CriticalLogFail", x |-> 0], [t |-> "t4", a |-> "Begin", x |-> 0], [t |-> "t2", a |-> "PStep", x |-> 0], [t |-> "t4", a |-> "Enter", x |-> 0], [t |-> "t4", a |-> "CriticalLogFail", x |-> 0], [t |-> "t4", a |-> "PStep", x |-> 0]>>,prev |-> [t1 |-> [k1 |-> 0, k2 |-> 0], t2 |-> [k1 |-> 1, k2 |-> 0], t3 |-> [k1 |-> 0, k2 |-> 0], t4 |-> [k1 |-> 1, k2 |-> 0]],start |-> [t1 |-> 0, t2 |-> 0, t3 |-> 0, t4 |-> 0],logSeq |-> 4,memt |-> {},steps |-> 12,dq |-> [t1 |-> "-", t2 |-> "-", t3 |-> "-", t4 |-> "-"],faults |-> 2,pc |-> [t1 |-> "logged", t2 |-> "done", t3 |-> "begun", t4 |-> "done"],permits |-> 1,compl |-> [t1 |-> "none", t2 |-> "Err", t3 |-> "none", t4 |-> "Err"],keptSince |-> 0,seq |-> [t1 |-> 1, t2 |-> 2, t3 |-> 0, t4 |-> 3],shutdown |-> FALSE,queue |-> <<"t1", "t2", "t4">>,live |-> {"t1", "t3"}]),
    ([sinceGc |-> 3,res |-> [t1 |-> "none", t2 |-> "ErrLog", t3 |-> "none", t4 |-> "ErrLog"],flag |-> [t1 |-> FALSE, t2 |-> TRUE, t3 |-> FALSE, t4 |-> TRUE],visible |-> 0,oracle |-> [k1 |-> 1, k2 |-> 0],log |-> <<[t |-> "t2", a |-> "Begin", x |-> 0], [t |-> "t1", a |-> "Begin", x |-> 0], [t |-> "t2", a |-> "Enter", x |-> 0], [t |-> "t1", a |-> "Enter", x |-> 0], [t |-> "t1", a |-> "Critical", x |-> 0], [t |-> "t3", a |-> "Begin", x |-> 0], [t |-> "t2", a |-> "CriticalLogFail", x |-> 0], [t |-> "t4", a |-> "Begin", x |-> 0], [t |-> "t2", a |-> "PStep", x |-> 0], [t |-> "t4", a |-> "Enter", x |-> 0], [t |-> "t4", a |-> "CriticalLogFail", x |-> 0], [t |-> "t4", a |-> "PStep", x |-> 0], [t |-> "t3", a |-> "Enter", x |-> 0]>>,prev |-> [t1 |-> [k1 |-> 0, k2 |-> 0], t2 |-> [k1 |-> 1, k2 |-> 0], t3 |-> [k1 |-> 0, k2 |-> 0], t4 |-> [k1 |-> 1, k2 |-> 0]],start |-> [t1 |-> 0, t2 |-> 0, t3 |-> 0, t4 |-> 0],logSeq |-> 4,memt |-> {},steps |-> 13,dq |-> [t1 |-> "-", t2 |-> "-", t3 |-> "-", t4 |-> "-"],faults |-> 2,pc |-> [t1 |-> "logged", t2 |-> "done", t3 |-> "permit", t4 |-> "done"],permits |-> 0,compl |-> [t1 |-> "none", t2 |-> "Err", t3 |-> "none", t4 |-> "Err"],keptSince |-> 0,seq |-> [t1 |-> 1, t2 |-> 2, t3 |-> 0, t4 |-> 3],shutdown |-> FALSE,queue |-> <<"t1", "t2", "t4">>,live |-> {"t1", "t3"}])
    >>
----


=============================================================================

---- CONFIG CommitMC_TTrace_1790368201 ----
CONSTANTS
    Txns = { "t1" , "t2" , "t3" , "t4" }
    Keys = { "k1" , "k2" }
    Wr <- MCWr2
    Slots = 3
    GcInterval = 2
    MaxFaults = 2
    Variant = "orig"
    MaxSteps = 30
    AllowShutdown = FALSE

INVARIANT
    _inv

CHECK_DEADLOCK
    \* CHECK_DEADLOCK off because of PROPERTY or INVARIANT above.
    FALSE

INIT
    _init

NEXT
    _next

CONSTANT
    _TETrace <- _trace

ALIAS
    _expression
=============================================================================
\* Generated on Fri Sep 25 20:30:05 UTC 2026