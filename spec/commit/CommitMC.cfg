CONSTANTS
    Txns = {"t1", "t2", "t3"}
    Keys = {"k1", "k2"}
    Wr <- MCWr
    Dup <- MCDup
    Slots = 3
    GcInterval = 2
    MaxFaults = 1
    Variant = "repo"
    MaxSteps = 30
    AllowShutdown = FALSE
INIT MCInit
NEXT MCNext
CONSTRAINT StepBound
VIEW View
INVARIANTS TypeOK PermitsSane FCW LoserLeavesNothing NoSpuriousConflict AtomicVis RealTime PrefixVis FailedInvisibleK NoOverflow
CHECK_DEADLOCK FALSE
