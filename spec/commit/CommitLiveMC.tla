---------------------------- MODULE CommitLiveMC ----------------------------
(* Liveness instance: every commit call returns under weak fairness of every thread. *)
EXTENDS Commit
MCDup == [t \in Txns |-> IF t = "t2" THEN 1 ELSE 0]
MCWr == [t \in Txns |-> CASE t = "t1" -> {"k1"} [] t = "t2" -> {"k1", "k2"} [] t = "t3" -> {"k1"} [] OTHER -> {"k2"}]
=============================================================================
