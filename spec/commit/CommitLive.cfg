CONSTANTS
    Txns = {"t1", "t2", "t3"}
    Keys = {"k1", "k2"}
    Wr <- MCWr
    Dup <- MCDup
    Slots = 3
    GcInterval = 2
    MaxFaults = 1
    Variant = "repo"
SPECIFICATION FairSpec
PROPERTY AllReturn
CHECK_DEADLOCK FALSE
