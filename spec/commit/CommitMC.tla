------------------------------ MODULE CommitMC ------------------------------
(* Bounded instance of Commit: exhaustive check, and export of one schedule per   *)
(* explored transition for replay on the real pipeline under the gate scheduler. *)
EXTENDS Commit, Json

CONSTANTS MaxSteps, AllowShutdown

VARIABLES log, steps

MCDup == [t \in Txns |-> IF t = "t2" THEN 1 ELSE 0]
MCWr == [t \in Txns |-> CASE t = "t1" -> {"k1"} [] t = "t2" -> {"k1", "k2"} [] t = "t3" -> {"k1"} [] OTHER -> {"k2"}]

(* one writer of k1, the others write k2 (disjoint from the first) *)
MCWr2 == [t \in Txns |-> IF t = "t1" THEN {"k1"} ELSE {"k2"}]

St(a, t, x) == [a |-> a, t |-> t, x |-> x]
Log(r) == log' = Append(log, r) /\ steps' = steps + 1

MCInit == Init /\ log = <<>> /\ steps = 0

MCNext ==
    \/ \E t \in Txns :
        \/ Begin(t) /\ Log(St("Begin", t, 0))
        \/ Enter(t) /\ Log(St("Enter", t, 0))
        \/ Critical(t, FALSE) /\ Log(St("Critical", t, 0))
        \/ Critical(t, TRUE) /\ pc'[t] = "pub" /\ Log(St("CriticalLogFail", t, 0))
        \/ ApplyOk(t) /\ Log(St("ApplyOk", t, 0))
        \/ (\E j \in 0..(Cnt(t) - 1) : ApplyFail(t, j) /\ Log(St("ApplyFail", t, j)))
        \/ Mark(t) /\ Log(St("Mark", t, 0))
        \/ PStep(t) /\ Log(St("PStep", t, 0))
        \/ Await(t) /\ Log(St("Await", t, 0))
    \/ AllowShutdown /\ Shutdown /\ Log(St("Shutdown", "", 0))

StepBound == steps <= MaxSteps

Export ==
    PrintT("REPLAY " \o ToJson([wr |-> Wr, dup |-> Dup, steps |-> log',
                                 expect |-> [res |-> res', start |-> start', seq |-> seq', visible |-> visible',
                                             pc |-> pc', kept |-> keptSince']]))
(* Counterexample export: the first state violating P prints its schedule and stops TLC.        *)
(* Used with Variant = "orig" to derive directed schedules for defects that have been repaired:  *)
(* replayed on the repaired code they must NOT reproduce (checks/c04.py).                        *)
Cex(name, P) == P \/ (PrintT("REPLAY " \o ToJson([cex |-> name, wr |-> Wr, dup |-> Dup, steps |-> log,
                                                     expect |-> [res |-> res]])) /\ FALSE)
CexFCW == Cex("FCW", FCW)
(* the overflowing enqueue itself is the next step of the transaction that is about to panic *)
CexNoOverflow ==
    NoOverflow \/ (PrintT("REPLAY " \o ToJson([cex |-> "NoOverflow", wr |-> Wr, dup |-> Dup,
                        steps |-> Append(log, St("Critical", CHOOSE t \in Txns : Overflow(t), 0)),
                        expect |-> [res |-> res]])) /\ FALSE)
CexFailedInvisible == Cex("FailedInvisible", FailedInvisible)
CexAtomicVis == Cex("AtomicVis", AtomicVis)
CexPrefixVis == Cex("PrefixVis", PrefixVis)

View == vars
=============================================================================
