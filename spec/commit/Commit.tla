------------------------------- MODULE Commit -------------------------------
(***************************************************************************)
(* The commit pipeline (src/commit.rs CommitPipeline::commit, publish;      *)
(* src/oracle.rs CommitOracle; src/tracker.rs) as the code runs it:         *)
(*                                                                         *)
(*   begin       load the visible horizon, register it as a live start      *)
(*   enter       shutdown / background-error check, take a permit           *)
(*   critical    under write_mutex, one step: oracle.check (Retry if the     *)
(*               start is below kept_since, Conflict if a key carries a      *)
(*               newer stamp) - allocate the sequence range - oracle.publish *)
(*               (stamp = last seq of the batch; every GcInterval publishes  *)
(*               prune below min(oldest live start, own start)) - enqueue -  *)
(*               append to the commit log (may fail: stamps rolled back,     *)
(*               completion = Err, batch marked applied)                     *)
(*   apply       OUTSIDE the mutex: entries go to the memtable one by one;   *)
(*               may fail after j entries (stamps rolled back, Err)          *)
(*   mark        applied flag                                               *)
(*   publish     loop: dequeue the head of the queue iff it is applied,      *)
(*               raise `visible` to its last seq, complete it                *)
(*   await       own completion -> result; permit released on return         *)
(*                                                                         *)
(* `Variant` selects what the repository does: "orig" = pinned commit        *)
(* (rollback deletes the stamp it finds, so the stamp of an earlier          *)
(* committer is lost; a failed apply publishes its partial entries);         *)
(* "repo" = after the fix commits recorded in DESIGN §8.                     *)
(***************************************************************************)
EXTENDS Naturals, Sequences, FiniteSets, TLC

CONSTANTS
    Txns,         \* committing transactions
    Keys,
    Wr,           \* [Txns -> SUBSET Keys \ {{}}]: write set of each transaction
    Dup,          \* [Txns -> Nat]: extra entries of the batch that repeat a key (savepoint history)
    Slots,        \* queue capacity (MAX_CONCURRENT_COMMITS); permits = Slots - 1
    GcInterval,   \* GC_INTERVAL
    MaxFaults,    \* how many injected log / apply failures a behaviour may contain
    Variant

None == 0
NoTxn == "-"

VARIABLES
    pc,        \* [Txns -> control state]
    start,     \* [Txns -> horizon loaded at begin]
    seq,       \* [Txns -> first sequence number of the batch, 0 = not allocated]
    res,       \* [Txns -> "none" | "Ok" | "Conflict" | "Retry" | "ErrLog" | "ErrApply"]
    compl,     \* [Txns -> "none" | "Ok" | "Err"]   the batch's completion channel
    flag,      \* [Txns -> BOOLEAN]                 CommitBatch.applied
    visible, logSeq,
    oracle,    \* [Keys -> stamp | None]            recent_writes
    prev,      \* [Txns -> [Keys -> stamp | None]]  what publish overwrote ("repo" rollback restores it)
    keptSince, sinceGc,
    live,      \* set of transactions registered in the live-start tracker
    queue,     \* Seq(Txns): pending, head first
    dq,        \* [Txns -> Txns \cup {NoTxn}]: batch a thread's publish loop holds between dequeue and publish
    permits,
    memt,      \* set of <<t, i>>: entries physically in the memtable (i-th entry of t's batch)
    faults,
    shutdown
vars == <<pc, start, seq, res, compl, flag, visible, logSeq, oracle, prev, keptSince, sinceGc, live,
          queue, dq, permits, memt, faults, shutdown>>

Cnt(t) == Cardinality(Wr[t]) + Dup[t]
Last(t) == seq[t] + Cnt(t) - 1
Max(a, b) == IF a >= b THEN a ELSE b
Min(a, b) == IF a <= b THEN a ELSE b
MinSet(S) == CHOOSE x \in S : \A y \in S : x <= y

Init ==
    /\ pc = [t \in Txns |-> "idle"]
    /\ start = [t \in Txns |-> 0] /\ seq = [t \in Txns |-> 0]
    /\ res = [t \in Txns |-> "none"] /\ compl = [t \in Txns |-> "none"]
    /\ flag = [t \in Txns |-> FALSE]
    /\ visible = 0 /\ logSeq = 1
    /\ oracle = [k \in Keys |-> None]
    /\ prev = [t \in Txns |-> [k \in Keys |-> None]]
    /\ keptSince = 0 /\ sinceGc = 0
    /\ live = {} /\ queue = <<>>
    /\ dq = [t \in Txns |-> NoTxn]
    /\ permits = Slots - 1
    /\ memt = {} /\ faults = 0 /\ shutdown = FALSE

Begin(t) ==
    /\ pc[t] = "idle"
    /\ start' = [start EXCEPT ![t] = visible]
    /\ live' = live \cup {t}
    /\ pc' = [pc EXCEPT ![t] = "begun"]
    /\ UNCHANGED <<seq, res, compl, flag, visible, logSeq, oracle, prev, keptSince, sinceGc, queue, dq,
                   permits, memt, faults, shutdown>>

(* commit(): shutdown check, then the permit *)
Enter(t) ==
    /\ pc[t] = "begun"
    /\ IF shutdown
       THEN /\ res' = [res EXCEPT ![t] = "ErrShutdown"]
            /\ pc' = [pc EXCEPT ![t] = "done"]
            /\ live' = live \ {t}
            /\ UNCHANGED permits
       ELSE /\ permits > 0
            /\ permits' = permits - 1
            /\ pc' = [pc EXCEPT ![t] = "permit"]
            /\ UNCHANGED <<res, live>>
    /\ UNCHANGED <<start, seq, compl, flag, visible, logSeq, oracle, prev, keptSince, sinceGc, queue, dq,
                   memt, faults, shutdown>>

OldestLive == IF live = {} THEN visible ELSE MinSet({start[u] : u \in live})

(* the oracle after publish(keys, seq, count, oldest) *)
Published(t, s) ==
    LET stamp == s + Cnt(t) - 1
        o1 == [k \in Keys |-> IF k \in Wr[t] THEN stamp ELSE oracle[k]]
        n == sinceGc + 1
        oldest == Min(OldestLive, start[t])
        gc == n >= GcInterval /\ oldest > keptSince
    IN [oracle |-> IF gc THEN [k \in Keys |-> IF o1[k] # None /\ o1[k] >= oldest THEN o1[k] ELSE None] ELSE o1,
        kept |-> IF gc THEN oldest ELSE keptSince,
        n |-> IF gc THEN 0 ELSE n]

(* rollback(keys, stamp): entries that still carry my stamp *)
RolledBack(o, t, stamp) ==
    [k \in Keys |->
        IF k \in Wr[t] /\ o[k] = stamp
        THEN IF Variant = "orig" THEN None
             ELSE IF prev[t][k] # None /\ prev[t][k] >= keptSince THEN prev[t][k] ELSE None
        ELSE o[k]]

Critical(t, logFails) ==
    /\ pc[t] = "permit"
    /\ IF start[t] < keptSince
       THEN /\ res' = [res EXCEPT ![t] = "Retry"]
            /\ pc' = [pc EXCEPT ![t] = "done"] /\ permits' = permits + 1 /\ live' = live \ {t}
            /\ UNCHANGED <<seq, compl, flag, logSeq, oracle, prev, keptSince, sinceGc, queue, faults>>
       ELSE IF \E k \in Wr[t] : oracle[k] # None /\ oracle[k] > start[t]
       THEN /\ res' = [res EXCEPT ![t] = "Conflict"]
            /\ pc' = [pc EXCEPT ![t] = "done"] /\ permits' = permits + 1 /\ live' = live \ {t}
            /\ UNCHANGED <<seq, compl, flag, logSeq, oracle, prev, keptSince, sinceGc, queue, faults>>
       ELSE LET p == Published(t, logSeq) IN
            /\ seq' = [seq EXCEPT ![t] = logSeq]
            /\ logSeq' = logSeq + Cnt(t)
            /\ prev' = [prev EXCEPT ![t] = oracle]
            /\ keptSince' = p.kept /\ sinceGc' = p.n
            /\ Len(queue) < Slots                    \* else: panic "commit queue overflow"
            /\ queue' = Append(queue, t)
            /\ IF logFails
               THEN /\ faults < MaxFaults /\ faults' = faults + 1
                    /\ oracle' = [k \in Keys |->
                                    IF k \in Wr[t] /\ p.oracle[k] = logSeq + Cnt(t) - 1
                                    THEN IF Variant = "orig" THEN None
                                         ELSE IF oracle[k] # None /\ oracle[k] >= p.kept THEN oracle[k] ELSE None
                                    ELSE p.oracle[k]]
                    /\ compl' = [compl EXCEPT ![t] = "Err"]
                    /\ flag' = [flag EXCEPT ![t] = TRUE]
                    /\ res' = [res EXCEPT ![t] = "ErrLog"]
                    /\ pc' = [pc EXCEPT ![t] = "pub"]
               ELSE /\ oracle' = p.oracle
                    /\ pc' = [pc EXCEPT ![t] = "logged"]
                    /\ UNCHANGED <<compl, flag, res, faults>>
            /\ UNCHANGED <<permits, live>>
    /\ UNCHANGED <<start, visible, dq, memt, shutdown>>

(* the enqueue guard above, negated: the state in which the code would panic *)
Overflow(t) ==
    /\ pc[t] = "permit" /\ start[t] >= keptSince
    /\ ~(\E k \in Wr[t] : oracle[k] # None /\ oracle[k] > start[t])
    /\ Len(queue) >= Slots

ApplyOk(t) ==
    /\ pc[t] = "logged"
    /\ memt' = memt \cup {<<t, i>> : i \in 1..Cnt(t)}
    /\ pc' = [pc EXCEPT ![t] = "applied"]
    /\ UNCHANGED <<start, seq, res, compl, flag, visible, logSeq, oracle, prev, keptSince, sinceGc, live, queue, dq,
                   permits, faults, shutdown>>

(* apply fails after j entries (a batch that does not fit a memtable; an injected failure) *)
ApplyFail(t, j) ==
    /\ pc[t] = "logged" /\ faults < MaxFaults /\ j \in 0..(Cnt(t) - 1)
    /\ faults' = faults + 1
    /\ memt' = memt \cup {<<t, i>> : i \in 1..j}
    /\ res' = [res EXCEPT ![t] = "ErrApply"]
    /\ pc' = [pc EXCEPT ![t] = "applied"]
    /\ UNCHANGED <<start, seq, compl, flag, visible, logSeq, oracle, prev, keptSince, sinceGc, live, queue, dq,
                   permits, shutdown>>

(* after the apply: on failure roll the stamps back and complete with Err first, then the flag *)
Mark(t) ==
    /\ pc[t] = "applied"
    /\ IF res[t] = "ErrApply"
       THEN /\ oracle' = RolledBack(oracle, t, Last(t))
            /\ compl' = [compl EXCEPT ![t] = "Err"]
       ELSE UNCHANGED <<oracle, compl>>
    /\ flag' = [flag EXCEPT ![t] = TRUE]
    /\ pc' = [pc EXCEPT ![t] = "pub"]
    /\ UNCHANGED <<start, seq, res, visible, logSeq, prev, keptSince, sinceGc, live, queue, dq,
                   permits, memt, faults, shutdown>>

(* One turn of the publish() loop as a thread executes it between two yield points: finish the
   batch it holds (raise `visible`, complete it), then try to dequeue the next applied head.
   Leaving the loop: the error paths return at once, the normal path goes on to await. *)
PStep(t) ==
    /\ pc[t] = "pub"
    /\ LET b == dq[t]
           vis1 == IF b # NoTxn THEN Max(visible, Last(b)) ELSE visible
           compl1 == IF b # NoTxn THEN [compl EXCEPT ![b] = IF @ = "none" THEN "Ok" ELSE @] ELSE compl
           \* "repo": the permit travels with the batch and is returned when the batch is dropped
           perm1 == IF b # NoTxn /\ Variant # "orig" THEN permits + 1 ELSE permits
       IN /\ visible' = vis1
          /\ compl' = compl1
          /\ IF queue # <<>> /\ flag[Head(queue)]
             THEN /\ dq' = [dq EXCEPT ![t] = Head(queue)]
                  /\ queue' = Tail(queue)
                  /\ permits' = perm1
                  /\ UNCHANGED <<pc, live>>
             ELSE /\ dq' = [dq EXCEPT ![t] = NoTxn]
                  /\ UNCHANGED queue
                  /\ IF res[t] \in {"ErrLog", "ErrApply"}
                     THEN /\ pc' = [pc EXCEPT ![t] = "done"]
                          /\ permits' = IF Variant = "orig" THEN perm1 + 1 ELSE perm1
                          /\ live' = live \ {t}
                     ELSE /\ pc' = [pc EXCEPT ![t] = "await"]
                          /\ permits' = perm1
                          /\ UNCHANGED live
    /\ UNCHANGED <<start, seq, res, flag, logSeq, oracle, prev, keptSince, sinceGc, memt, faults, shutdown>>

Await(t) ==
    /\ pc[t] = "await" /\ compl[t] # "none"
    /\ res' = [res EXCEPT ![t] = compl[t]]
    /\ pc' = [pc EXCEPT ![t] = "done"]
    /\ permits' = IF Variant = "orig" THEN permits + 1 ELSE permits
    /\ live' = live \ {t}
    /\ UNCHANGED <<start, seq, compl, flag, visible, logSeq, oracle, prev, keptSince, sinceGc, queue, dq, memt,
                   faults, shutdown>>

Shutdown ==
    /\ ~shutdown /\ shutdown' = TRUE
    /\ UNCHANGED <<pc, start, seq, res, compl, flag, visible, logSeq, oracle, prev, keptSince, sinceGc, live, queue,
                   dq, permits, memt, faults>>

Step(t) ==
    \/ Begin(t) \/ Enter(t) \/ Critical(t, FALSE) \/ Critical(t, TRUE)
    \/ ApplyOk(t) \/ (\E j \in 0..(Cnt(t) - 1) : ApplyFail(t, j))
    \/ Mark(t) \/ PStep(t) \/ Await(t)

Next == (\E t \in Txns : Step(t)) \/ Shutdown

Spec == Init /\ [][Next]_vars
FairSpec == Spec /\ \A t \in Txns : WF_vars(Step(t))

-----------------------------------------------------------------------------
(* Properties *)
Allocated == {t \in Txns : seq[t] # 0}
Failed(t) == res[t] \in {"ErrLog", "ErrApply"}
Committed(t) == res[t] = "Ok"
SeqOf(e) == seq[e[1]] + e[2] - 1
VisibleEntries == {e \in memt : SeqOf(e) <= visible}
EntriesOf(t) == {<<t, i>> : i \in 1..Cnt(t)}

(* C04 first committer wins: two committed overlapping writers never overlap in time *)
FCW == \A a, b \in Txns :
         (a # b /\ Committed(a) /\ Committed(b) /\ Wr[a] \cap Wr[b] # {} /\ seq[a] < seq[b])
            => start[b] >= Last(a)
(* also against batches that are acknowledged later: a writer past its critical section that will
   succeed counts as well - checked through res at the end; FCW above is evaluated in every state *)

LoserLeavesNothing == \A t \in Txns :
    res[t] \in {"Conflict", "Retry", "ErrShutdown"} => (seq[t] = 0 /\ EntriesOf(t) \cap memt = {})

(* a conflict is only reported against a real newer committer of one of the keys (fault-free runs) *)
NoSpuriousConflict == \A t \in Txns :
    (res[t] = "Conflict" /\ faults = 0) =>
        \E u \in Txns : u # t /\ seq[u] # 0 /\ Wr[u] \cap Wr[t] # {} /\ Last(u) > start[t]

(* C05 atomic visibility: the horizon is never inside a batch, and what it covers is complete *)
AtomicVis == \A t \in Allocated :
    /\ ~(visible >= seq[t] /\ visible < Last(t))
    /\ (visible >= Last(t) /\ ~Failed(t)) => EntriesOf(t) \subseteq memt
(* C05 real time: an acknowledged commit is visible to every later begin *)
RealTime == \A t \in Txns : Committed(t) => visible >= Last(t)
(* C05 prefix: whatever is visible is a prefix of the commit order (no gaps) *)
PrefixVis == \A a, b \in Allocated :
    (seq[a] < seq[b] /\ visible >= Last(b) /\ ~Failed(a)) => EntriesOf(a) \subseteq memt

(* C15 a failed commit leaves no trace *)
FailedInvisible == \A t \in Txns : Failed(t) => EntriesOf(t) \cap VisibleEntries = {}

(* ... apart from the recorded finding "apply failure after the log append" (DESIGN §8): an apply that
   fails after part of the batch went in (an I/O failure while rotating the memtable) still publishes *)
FailedInvisibleK == \A t \in Txns : (Failed(t) /\ res[t] # "ErrApply") => EntriesOf(t) \cap VisibleEntries = {}

(* C17 the queue never overflows *)
NoOverflow == \A t \in Txns : ~Overflow(t)
PermitsSane == permits >= 0 /\ permits <= Slots - 1

(* C17 every commit call returns (under fairness of every thread) *)
AllReturn == \A t \in Txns : (pc[t] = "begun") ~> (pc[t] = "done")

TypeOK ==
    /\ visible \in Nat /\ logSeq \in Nat /\ permits \in Nat
    /\ \A t \in Txns : res[t] \in {"none", "Ok", "Err", "Conflict", "Retry", "ErrLog", "ErrApply", "ErrShutdown"}
=============================================================================
