"""C11 — separated large values stay intact and reachable.

Spec: spec/vlog/Vlog.tla (+VlogMC, VlogTrace). See checks/_vlog.py for the three bindings to the real code."""
from checks import _vlog
from vlib import core

MANIFEST = {
    "engine": {"name": "vlog", "path": "spec/vlog, shim/fsrec.c",
               "kind_free_text": "TLA+ Vlog/VlogMC (TLC exhaustive + edge-cover export + counterexample export) -> harness vlog_run "
                                 "replay on a real Tree (pointer walk, gates in flush / compaction); fsrec crash images -> "
                                 "vlog_run reopen; recorded operation logs -> VlogTrace (TLC)"},
    "category": "model_checking",
    "text": ("TLC checks Reachable (every pointer of a live table / index entry / pinned cursor resolves: file present, long "
             "enough, slot holds what was written; fsynced before the table is installed) and Intact (every read returns the "
             "value identity the history prescribes) on every reachable state of the bounded Vlog model - separation at "
             "flush time with rotation inside one flush, compaction dropping versions, clean-up below the live minimum, "
             "readers and pinned range / history cursors, the handle cache, two-phase flush / compaction interleavings, "
             "process and power-loss crashes at every durable step, recovery. Every explored transition is exported and "
             "executed on a real Tree with values of every size class around the threshold; a read-only walk of the live "
             "tables and the index is checked against the directory after each scenario and every read is compared byte "
             "for byte. Crash images of recorded workloads (byte-granular cuts of the value-log files) are reopened by the "
             "real recovery code, and the recorded file-system operations are validated against the trace spec."),
    "design_ref": "DESIGN.md §4 C11",
    "note": ("Bounds: 1-2 keys, <= 3 commits (big / small / delete), 1 reader, <= 2 flushes, <= 1-2 compactions, 2 levels "
             "(thorough: 3), file capacity 1 / 2 / unbounded, scenarios <= 7-10 steps, random ones <= 18; crash model of C02. "
             "Trusted: TLC, the driver's byte comparison and file parsing, the fsrec recorder, the pointer-walk hook."),
    "technique": "TLA+ model checking (TLC) + scenario replay on the real engine + crash-image enumeration + trace validation",
}

FLUSH_ACTIONS = ["MC_Commit", "MC_Rotate", "MC_FlushBegin", "MC_FlushWrite", "MC_FlushInstall", "MC_FlushCleanup",
                 "MC_CompactWrite", "MC_CompactInstall", "MC_CompactCleanup", "MC_Begin", "MC_OpenCursor", "MC_End"]
CRASH_ACTIONS = ["MC_Commit", "MC_Rotate", "MC_FlushBegin", "MC_FlushWrite", "MC_FlushInstall", "MC_FlushCleanup",
                 "MC_CompactWrite", "MC_CompactInstall", "MC_CompactCleanup", "MC_Crash", "MC_Recover"]
BIG = '{"SetB", "Del"}'
ALL = '{"SetB", "SetS", "Del"}'


def run(ctx):
    core.build_harness(["vlog_run"])
    q = ctx.quick
    # ---- 1. the bounded model, exhaustively: scenario part and crash part -----------------------------------------
    _vlog.model_check(ctx, "scen", _vlog.SCENARIO_INVS, actions=FLUSH_ACTIONS, MaxSteps=ctx.pick(7, 8),
                      CommitChoices=ctx.pick(BIG, ALL))
    _vlog.model_check(ctx, "two", _vlog.SCENARIO_INVS, TwoPhase="TRUE", HandleSteps="TRUE", CommitChoices=BIG,
                      MaxSteps=ctx.pick(6, 9), MaxCompactions=ctx.pick(1, 2))
    _vlog.model_check(ctx, "crash", _vlog.CRASH_INVS, actions=CRASH_ACTIONS, Granular="TRUE",
                      MaxCrashes=ctx.pick(1, 2), Readers="{}", CursorKinds="{}", CommitChoices=BIG,
                      MaxSteps=ctx.pick(7, 8), FileCap=ctx.pick(1, 2))
    if not q:
        _vlog.model_check(ctx, "crashidx", _vlog.CRASH_INVS, Granular="TRUE", MaxCrashes=2, Readers="{}", CursorKinds="{}",
                          CommitChoices=BIG, MaxSteps=8, Versioning="TRUE", UseIndex="TRUE", Keys='{"k1"}')
        _vlog.model_check(ctx, "l3", _vlog.SCENARIO_INVS, NLevels=3, MaxCompactions=2, CommitChoices=BIG, MaxSteps=8)
        _vlog.model_check(ctx, "vers", _vlog.SCENARIO_INVS, Versioning="TRUE", Finite="TRUE", CommitChoices=BIG, MaxSteps=8)
        _vlog.model_check(ctx, "versidx", _vlog.SCENARIO_INVS, Versioning="TRUE", Finite="TRUE", UseIndex="TRUE", Keys='{"k1"}',
                          CommitChoices=BIG, MaxSteps=9, MaxReopens=1)
        _vlog.model_check(ctx, "reopen", _vlog.SCENARIO_INVS, MaxReopens=1, CommitChoices=BIG, MaxSteps=8)
    # ---- 2. spec -> impl: edge cover of the state graph replayed on a real Tree ------------------------------------
    _vlog.export_and_replay(ctx, "base", ["--thr", "64", "--filecap", "1", "--plan", str(ctx.seed)],
                            MaxSteps=ctx.pick(5, 7), CommitChoices=ALL)
    _vlog.export_and_replay(ctx, "two", ["--thr", "1", "--filecap", "1", "--plan", str(ctx.seed + 1)], TwoPhase="TRUE",
                            CommitChoices=BIG, MaxCommits=2, MaxSteps=ctx.pick(7, 8), MaxCompactions=ctx.pick(1, 2))
    # flushes (with their clean-up) while a compaction sits between writing its output and installing it - deep enough for
    # "flush, compaction written, another flush in a newer file, compaction installed"
    _vlog.export_and_replay(ctx, "cpflush", ["--thr", "1", "--filecap", "1", "--plan", str(ctx.seed + 3)], TwoPhase="TRUE",
                            CommitChoices='{"SetB"}', Readers="{}", CursorKinds="{}", MaxCommits=3, MaxFlushes=3,
                            MaxCompactions=2, MaxSteps=ctx.pick(12, 14))
    _vlog.export_and_replay(ctx, "cap2", ["--thr", "300", "--filecap", "2", "--plan", str(ctx.seed), "--full-checksum"],
                            FileCap=2, CommitChoices=BIG, MaxSteps=ctx.pick(5, 7))
    # versions expiring under pinned range / history cursors (clean-up waits for open cursors since 56ef569)
    _vlog.export_and_replay(ctx, "vers", ["--versioning", "--finite", "--plan", str(ctx.seed)],
                            cex=("CexHistCursor", "HistCursorIntact", "pinned_history_value_error"), Versioning="TRUE",
                            Finite="TRUE", CommitChoices='{"SetB"}', Keys='{"k1"}', CursorKinds='{"range", "hist"}',
                            MaxCommits=2, MaxSteps=10)
    # teeth: the pinned behaviour (clean-up ignores open cursors) still breaks HistCursorIntact in the model; its
    # schedules must pass on the repaired engine
    _vlog.teeth(ctx, "hist", "CexHistCursor", "HistCursorIntact", ["--versioning", "--finite", "--plan", str(ctx.seed)],
                Versioning="TRUE", Finite="TRUE", CommitChoices='{"SetB"}', Keys='{"k1"}', CursorKinds='{"hist"}',
                MaxCommits=2, MaxSteps=10)
    # versioned index: its entries outlive the tables' (compaction does not touch it); clean-up must drop them with the files
    _vlog.export_and_replay(ctx, "idx", ["--versioning", "--finite", "--index", "--plan", str(ctx.seed)], Versioning="TRUE",
                            Finite="TRUE", UseIndex="TRUE", Keys='{"k1"}', CommitChoices=ctx.pick('{"SetB"}', BIG), MaxCommits=ctx.pick(2, 3),
                            MaxSteps=ctx.pick(8, 9), MaxReopens=1)
    if not q:
        _vlog.export_and_replay(ctx, "cap0", ["--thr", "4096", "--filecap", "0", "--plan", str(ctx.seed), "--cache", "1048576"],
                                FileCap=99, CommitChoices=ALL, MaxSteps=6)
        _vlog.export_and_replay(ctx, "l3", ["--thr", "64", "--filecap", "1", "--levels", "3", "--plan", str(ctx.seed + 2)],
                                NLevels=3, MaxCompactions=2, CommitChoices=BIG, MaxSteps=7)
        _vlog.export_and_replay(ctx, "reopen", ["--thr", "64", "--filecap", "2", "--plan", str(ctx.seed + 1)], FileCap=2,
                                MaxReopens=1, CommitChoices=BIG, MaxSteps=7)
        _vlog.export_and_replay(ctx, "versall", ["--versioning", "--plan", str(ctx.seed)], Versioning="TRUE",
                                CommitChoices=ALL, CursorKinds='{"range", "hist"}', MaxSteps=6)
    # long random behaviours of the same spec: every prefix is a scenario
    _vlog.export_and_replay(ctx, "sim", ["--thr", "64", "--filecap", "1", "--levels", "3", "--plan", str(ctx.seed)],
                            sim=ctx.pick(60, 500), depth=ctx.pick(16, 18), NLevels=3, FileCap=1, TwoPhase="TRUE",
                            CommitChoices=ALL, MaxCommits=6, MaxFlushes=4, MaxCompactions=4, MaxReopens=1, MaxSteps=ctx.pick(16, 18))
    _vlog.export_and_replay(ctx, "simv", ["--versioning", "--finite", "--filecap", "2", "--plan", str(ctx.seed)],
                            sim=ctx.pick(40, 350), depth=ctx.pick(16, 18), Versioning="TRUE", Finite="TRUE", FileCap=2,
                            CommitChoices=ALL, CursorKinds='{"range"}', MaxCommits=5, MaxFlushes=4, MaxCompactions=3,
                            MaxSteps=ctx.pick(16, 18))
    # ---- 3. crash images of recorded workloads, and the recorded operations against the trace spec -------------------
    results, tot = _vlog.run_sweep(ctx, ctx.pick(6, 30), ctx.pick(40, 220))
    # teeth: the pinned behaviour (a value-log file shorter than its header is validated) still breaks Reopens in the
    # model; the images with a torn header (every sweep builds them) open on the repaired engine, else the sweep reported them
    _vlog.teeth(ctx, "torn", "CexReopens", "Reopens", None, Granular="TRUE", MaxCrashes=1, Readers="{}", CursorKinds="{}",
                CommitChoices='{"SetB"}', Keys='{"k1"}', MaxCommits=2, MaxSteps=6)
    refused = sum(1 for r in results for v in r["violations"] if v["class"] == "reopen_refused" and v.get("torn_header"))
    ctx.cov["crash_sweep"]["refused_with_torn_header"] = refused
    ctx.cov["crash_sweep"]["torn_header_images"] = sum(r.get("torn_images", 0) for r in results)
    if ctx.cov["crash_sweep"]["torn_header_images"] == 0:
        raise core.ToolError("the crash sweep built no image with a torn value-log header (vacuous for Reopens)")
    _vlog.validate_traces(ctx, results)
    ctx.cov["exhaustive"] = True
    ctx.cov["rule"] = ("edge cover of the bounded Vlog state graph + random behaviours (-simulate), each replayed on a real Tree; "
                       "crash images at value-log / manifest operation boundaries of recorded workloads")
    ctx.assumptions += [
        "bounds of the exhaustive part: 1-2 keys, <= 3 commits, 1 reader, <= 2 flushes, <= 1-2 compactions, 2-3 levels",
        "sizes are abstracted to big / small in the model; the driver maps them to 0, thr-1, thr, 27 (= an encoded pointer), "
        "thr+1, thr+2, multi-block, > value-log file and compares bytes",
        "crash model of C02 (process crash: all completed writes; power loss: per file only fsynced data guaranteed, unsynced "
        "appended bytes wholly or partly missing, namespace operations kept in order); commits are taken to be in the commit log",
        "observations are made only at the end of a scenario (a read leaves the value in the block cache); the block cache is "
        "1 byte except in the cap0 configuration",
        "a history cursor is not held across maintenance steps when the versioned index is on (it holds the index lock)",
    ]


def replay(ctx, doc):
    _vlog.replay(ctx, doc["replay"])
