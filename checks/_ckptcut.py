"""Two small modules about create_checkpoint() next to the background tasks, each with the pinned variant as teeth:
spec/ckpt/CheckpointCut.tla  (copies of tables and manifest are one cut; 823910f)  - bound to the code by ckpt_race
spec/background/FlushQueue.tla (one flusher at a time per immutable memtable; 8f08f9e) - bound by ckpt_flush_gate (directed,
gate flush.written) and ckpt_race (hook-free)"""
import json

from vlib import core, tlc


def _run(ctx, sub, module, name, consts, invs, props=None, must_pass=True, workers=2):
    text = "SPECIFICATION Spec\nCONSTANTS\n" + "".join("    %s = %s\n" % kv for kv in consts.items())
    text += "INVARIANTS " + " ".join(invs) + "\n"
    if props:
        text += "PROPERTIES " + " ".join(props) + "\n"
    text += "CHECK_DEADLOCK FALSE\n"
    return tlc.run(sub, module, "%s_%s.cfg" % (module, name), cfg_text=text, timeout=600, coverage=False, workers=workers,
                   must_pass=must_pass, out_name="%s_%s_%s" % (module, name, ctx.pid))


def checkpoint_cut(ctx):
    r = _run(ctx, "ckpt", "CheckpointCut", "repo", {"MaxCompactions": ctx.pick(2, 4), "CutRule": '"one_lock"'},
             ["CheckpointOpens", "LiveOpens"])
    r["constants"] = ["MaxCompactions=%d" % ctx.pick(2, 4), 'CutRule="one_lock"']
    r["invariants"] = ["CheckpointOpens", "LiveOpens"]
    ctx.add_tlc(r)
    t = _run(ctx, "ckpt", "CheckpointCut", "steps", {"MaxCompactions": 2, "CutRule": '"steps"'}, ["CheckpointOpens"], must_pass=False)
    if "CheckpointOpens" not in t["violated"]:
        raise core.ToolError('CheckpointCut with CutRule = "steps" no longer violates CheckpointOpens')


def flush_queue(ctx):
    consts = {"Flushers": '{"task", "checkpoint"}', "MaxRot": ctx.pick(3, 4), "LockRule": '"mutex"'}
    invs = ["OneWriterPerFile", "InstalledOnce", "InOrder"]
    r = _run(ctx, "background", "FlushQueue", "repo", consts, invs, props=["EveryMemtableFlushed"])
    r["constants"] = ["%s=%s" % kv for kv in consts.items()]
    r["invariants"] = invs + ["PROPERTY EveryMemtableFlushed"]
    ctx.add_tlc(r)
    t = _run(ctx, "background", "FlushQueue", "none", dict(consts, LockRule='"none"', MaxRot=3), ["OneWriterPerFile"], must_pass=False)
    if "OneWriterPerFile" not in t["violated"]:
        raise core.ToolError('FlushQueue with LockRule = "none" no longer violates OneWriterPerFile')


def flush_gate(ctx, own_kinds=None):
    """directed: the flush task held at flush.written, create_checkpoint() on another thread"""
    core.build_harness(["ckpt_flush_gate"])
    s = core.run_driver("ckpt_flush_gate", [], timeout=600)
    if s["cases"] == 0:
        raise core.ToolError("ckpt_flush_gate ran no case")
    ctx.add_driver(s)
    for v in s["violations"]:
        ctx.violation({"driver": "ckpt_flush_gate"}, {"class": str(v.get("kind")), "driver": "ckpt_flush_gate"},
                      "%s: %s" % (v.get("kind"), json.dumps({k: v[k] for k in v if k != "kind"})[:300]))


def stall_wake(ctx):
    """spec/background/StallWake.tla: a checkpoint's own flushes fill level 0 as well - somebody has to wake the compaction
    task (a3aa3c7); the pinned variant must still leave the writer stalled for ever. Bound to the code by ckpt_race."""
    consts = {"L0Limit": 2, "MaxFlushes": ctx.pick(5, 8), "CkptWake": '"wake"'}
    r = _run(ctx, "background", "StallWake", "repo", consts, ["CompactionScheduled"], props=["WriterGoesOn"])
    r["constants"] = ["%s=%s" % kv for kv in consts.items()]
    r["invariants"] = ["CompactionScheduled", "PROPERTY WriterGoesOn"]
    ctx.add_tlc(r)
    t = _run(ctx, "background", "StallWake", "none", dict(consts, CkptWake='"none"', MaxFlushes=5), ["CompactionScheduled"], must_pass=False)
    if "CompactionScheduled" not in t["violated"]:
        raise core.ToolError('StallWake with CkptWake = "none" no longer violates CompactionScheduled')
