"""Single source for MANIFEST.json (tools/gen_manifest.py). One entry per property that has a working check."""

BASELINE_OFF = ("cd /repo && (cargo nextest run --workspace --no-fail-fast --test-threads 8 --offline "
                "|| cargo test --workspace --no-fail-fast --offline)")

ENGINES = [
    {"name": "txn", "path": "spec/txn", "serves_properties": ["C08"],
     "kind_free_text": "TLA+ Txn/TxnMC (TLC exhaustive + edge-cover export) -> harness txn_replay on real Transaction"},
]

CHECKS = {
    "C08": {
        "engine": "txn",
        "category": "model_checking",
        "text": ("TLC checks read-your-writes, exact savepoints, discard, mode errors and commit order on every "
                 "reachable state of the bounded Txn model (the code's write-set representation next to ghost "
                 "variables that state the property); every transition TLC explores is exported as a program and "
                 "executed on a real Transaction, with probe reads after the last step, a concurrent reader and a "
                 "fresh reader after drop / commit. Long random behaviours of the same spec (-simulate) extend the depth."),
        "design_ref": "DESIGN.md §4 C08",
        "note": ("Bounds: 2-3 keys, 2 values, 2 explicit timestamps, savepoint depth <= 3, exhaustive programs <= 5 steps, "
                 "random ones <= 30. Trusted: TLC, the key/value byte mapping in harness/src/keys.rs, the driver's comparison."),
        "technique": "TLA+ model checking (TLC) + spec-to-implementation transition replay",
    },
}

NOT_YET = {
}
