"""Shared constants for tools/gen_manifest.py. Each checks/cXX.py carries its own MANIFEST dict."""

BASELINE_OFF = ("cd /repo && (cargo nextest run --workspace --no-fail-fast --test-threads 8 --offline "
                "|| cargo test --workspace --no-fail-fast --offline)")

# reason per property that is not (yet) claimed
NOT_CLAIMED = {
}
