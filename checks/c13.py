"""C13 — sorted tables return exactly what was written.

Spec: spec/sst/Separator.tla (the shortened index keys: BytewiseComparator / InternalKeyComparator /
TimestampComparator separator + successor) and spec/sst/Sst.tla (writer cutting the ordered entries into
data blocks and index partitions at *any* boundary, Table::get's filter -> top-level index -> partition ->
block-seek path, the two-level TableIterator, the range shortcuts) with SeparatorMC / SstMC.

TLC checks the property invariants on every reachable state of the bounded models and exports
  * every separator pair (SEPCASE),
  * every finished table = (entry set, placement of block and partition cuts) with what the property
    prescribes for every lookup / seek / bounded scan / range shortcut (SSTCASE),
  * one cursor program per transition of the TableIterator's state graph (SSTPROG);
`sst_run` writes each table with the real TableWriter under several table-format option sets (steering the
real writer to the model's placement of the cuts, and natural sizes), reads it with the real Table /
TableIterator and judges every answer."""
import json
import os
import tempfile

from vlib import core, tlc

MANIFEST = {
    "engine": {"name": "sst", "path": "spec/sst",
               "kind_free_text": "TLA+ Separator/Sst (TLC exhaustive over entry sets x cut placements, cursor state "
                                 "graph edge cover, -simulate for long tables) -> harness sst_run on real "
                                 "TableWriter / Table / TableIterator / comparators"},
    "category": "model_checking",
    "text": ("TLC checks, for every strictly ordered entry set of the bounded universe and every placement of data-block "
             "and index-partition boundaries, that the code-shaped lookup path (filter -> top-level index -> partition -> "
             "block seek over restart points, no advance) returns the newest entry at or below the snapshot, that the "
             "two-level cursor (seek / next / prev / bounds) equals the sorted list, that range shortcuts never exclude a "
             "table holding a key in range, and that the shortened separators satisfy a <= sep < b. Every separator pair, "
             "every finished table and every transition of the cursor's state graph is exported and executed on the real "
             "code under block sizes 8..4096, restart 1/2/16, partition sizes 1..16384, snappy on/off, filter on/off, "
             "with long shared prefixes, 0xff keys, empty / pointer / oversized values; panics and hangs are caught in "
             "child processes."),
    "design_ref": "DESIGN.md §4 C13",
    "note": ("Bounds: user keys from {a, a\\x00, a\\xff, a\\xff\\xff, b, b\\x00, \\xff} (3-7 of them), 2-5 versions per key, "
             "exhaustive tables <= 4-6 entries (all cut placements), cursor graph on tables <= 3 entries x 25 bound pairs, "
             "random tables up to 44 entries (blocks > 16 entries) in the thorough tier; separator pairs: all byte strings "
             "of length <= 3 over {00,61,(62,)fe,ff}. Trusted: TLC, the byte mapping and comparison code of sst_run, "
             "the data-only wrappers in src/verif/sst.rs. See spec/sst/NOTES.md."),
    "technique": "TLA+ model checking (TLC) + spec-to-implementation replay of exported tables and cursor programs",
}

INVS = ("Ordered Mech_BlocksPartitionE Mech_SeparatorsBound GetOK FilterNoFalseNegative RangePredicatesSound "
        "KeyRangeSound SeqRangeSound CursorOK FullScanOK").split()
WORKERS = int(os.environ.get("VERIF_WORKERS", "8"))


def report(ctx, s):
    for v in s["violations"]:
        sig = dict({"kind": v.get("kind")}, **(v.get("sig") or {}))
        ctx.violation(v.get("replay"), signature=sig, what="%s: %s" % (v.get("kind"), v.get("what", "")))
    # the driver keeps replay documents for the first violations of every distinct (kind, signature)
    extra = s["violation_count"] - len(s["violations"])
    if extra > 0:
        core.log("  (+%d further violations with the same signatures: %s)" % (extra, json.dumps(s["extra"].get("violation_kinds"))))


def model_and_replay(ctx, name, module, cfg, subst=None, add=None, drop=None, sim=None, depth=None, timeout=900,
                     need=(), tlc_workers=None):
    """One TLC run (invariants on, exports on) followed by the driver on what TLC printed."""
    text = tlc.cfg_variant("sst", cfg, subst=subst or {}, add=add or [], drop=drop or [])
    r = tlc.run("sst", module, "%s_%s.cfg" % (os.path.splitext(cfg)[0], name), cfg_text=text, coverage=False,
                workers=tlc_workers or WORKERS, timeout=timeout, out_name="c13_%s_%s" % (name, ctx.tier), must_pass=False,
                mode="sim" if sim else "bfs", sim=sim, depth=depth, seed=ctx.seed)
    r["constants"] = [ln.strip() for ln in text.splitlines()
                      if ("=" in ln or "<-" in ln) and not ln.strip().startswith("\\*")]
    r["invariants"] = [i for i in INVS if i in text] or tlc._parse_cfg_list(os.path.join(core.SPEC, "sst", cfg), "INVARIANT")
    if (r["exit"] != 0 or r["errors"]) and not r["violated"]:
        raise core.ToolError("TLC failed on %s %s (exit %s): %s (see %s)" % (module, name, r["exit"], r["errors"][:3], r["out"]))
    ctx.add_tlc(r)
    s = core.run_driver("sst_run", ["run", r["out"], "--tier", ctx.tier, "--seed", ctx.seed, "--workers", WORKERS],
                        timeout=3000)
    if s["cases"] == 0 and s["violation_count"] == 0:
        raise core.ToolError("TLC exported nothing for %s (see %s)" % (name, r["out"]))
    ctx.add_driver(s)
    n0 = len(ctx.violations) + sum(ctx.known_hits.values())
    report(ctx, s)
    found = len(ctx.violations) + sum(ctx.known_hits.values()) - n0
    if r["violated"] and not found:
        # a counterexample in the model that the real code does not reproduce: the model is wrong
        raise core.ToolError("model invariant %s violated in %s %s but not reproduced on the real code (see %s)"
                             % (r["violated"], module, name, r["out"]))
    if not ctx.violations:
        # vacuity guards (only meaningful when the real code let the run get through)
        for k in need:
            if not s["extra"].get(k):
                raise core.ToolError("driver counter %s is zero in run %s: %s" % (k, name, json.dumps(s["extra"])))
        if s["extra"].get("workers_given_up"):
            raise core.ToolError("driver gave up on part of the input in run %s" % name)
    core.log("[c13] %s: %d cases, %d judged answers, %d violations, %d drift, driver %.1fs" % (
        name, s["cases"], s["steps"], s["violation_count"], s.get("drift_count", 0), s["_wall_s"]))
    os.remove(r["out"])
    return r, s


TABLE_NEED = ("real_tables", "gets", "seeks", "range_scans", "range_predicates", "layout_exact", "tables_multi_block",
              "tables_multi_partition", "tables_key_versions_span_blocks", "tables_key_versions_span_partitions",
              "tables_filter_on", "tables_snappy", "separators_compared")


def run(ctx):
    core.build_harness(["sst_run"])
    try:
        steps(ctx)
    except core.ToolError as e:
        if not ctx.violations:
            raise
        # the verdict is settled by what was observed on the real code; tool trouble afterwards
        # (typically a consequence of the same defect) must not turn exit 1 into exit 2
        core.log("TOOL-ERROR after violations (does not change the verdict): %s" % str(e)[:300])


def steps(ctx):
    q = ctx.quick
    # 1. separators: all pairs of byte strings / internal keys, exhaustive
    model_and_replay(ctx, "sep", "SeparatorMC", "SeparatorMC.cfg",
                     subst={"Vers": "{0, 1, 9}"} if q else {"Alphabet": "{0, 97, 98, 254, 255}"},
                     add=["ACTION_CONSTRAINT Export"], need=("separator_pairs",))
    # 2. tables: every entry set x every placement of block / partition cuts; probes on each
    exp_t = {"drop": ["INVARIANTS"], "add": ["INVARIANTS " + " ".join(INVS) + " ExportTables"]}
    model_and_replay(ctx, "tables", "SstMC", "SstMC.cfg",
                     subst={"BoundKeySeq": "B3"} if q else {"UserKeys": "UK5"},
                     need=TABLE_NEED, **exp_t)
    if not q:
        model_and_replay(ctx, "deep", "SstMC", "SstMC.cfg",
                         subst={"Seqs": "{0, 2}", "MaxEntries": 6, "Restarts": "{1, 3}"}, need=TABLE_NEED, **exp_t)
    # 3. cursors: edge cover of the TableIterator's state graph on small tables, all bound pairs
    exp_c = {"drop": ["INVARIANTS"], "add": ["INVARIANTS " + " ".join(INVS) + " ExportTables", "ACTION_CONSTRAINT ExportProgs"]}
    r, s = model_and_replay(ctx, "cursor", "SstMC", "SstCursorMC.cfg",
                            subst={} if q else {"TargetSeq": "T5", "SnapSeq": "S3", "Restarts": "{1, 2, 3}"},
                            need=("programs", "program_ops", "tables_multi_partition"), **exp_c)
    ctx.cov["cursor_graph_transitions"] = r["generated"]
    # 4. long random behaviours of the same spec (tlc -simulate): many versions per key, many blocks / partitions,
    #    and (second configuration) blocks of more than 16 entries
    model_and_replay(ctx, "sim", "SstMC", "SstSimMC.cfg", sim=ctx.pick(6, 30), depth=70,
                     tlc_workers=ctx.pick(4, WORKERS), need=("programs", "real_tables", "tables_key_versions_span_partitions"))
    if not q:
        model_and_replay(ctx, "simbig", "SstMC", "SstSimMC.cfg", sim=20, depth=90,
                         subst={"CutMin": 18, "MaxEntries": 44, "MinEntries": 30},
                         need=("programs", "real_tables", "tables_block_with_several_restart_points"))
    ctx.cov["exhaustive"] = True
    ctx.cov["rule"] = ("every separator pair, every finished table (entry set x cut placement) and every transition of the "
                       "cursor state graph that TLC explores in the bounded models is exported and executed on the real "
                       "table code under 3 (quick) / 5-6 (thorough) table-format option sets each")
    ctx.assumptions += [
        "bounds: see MANIFEST note / spec/sst/NOTES.md; exhaustive results hold for the stated constants, beyond them "
        "evidence is TLC -simulate behaviours replayed on the real code",
        "byte fidelity (encodings, checksums, compression) is outside the spec: the driver compares real bytes under "
        "the spec's oracle; block / partition boundaries are nondeterministic in the spec",
        "not judged (left open by the property): next/prev on a cursor that is not valid, seek below a lower bound, "
        "empty tables, block_restart_interval 0; which error variant comes back",
        "bloom false positives are allowed (modelled as any answer for an absent key); no false negative is allowed",
    ]


def replay(ctx, doc):
    with tempfile.NamedTemporaryFile("w", suffix=".json", delete=False) as f:
        json.dump(doc, f)
    try:
        s = core.run_driver("sst_run", ["replay", f.name], timeout=300)
    finally:
        os.remove(f.name)
    report(ctx, s)
