"""C10 — time-travel reads and version history are exact and permanent.

(a) spec/retention (checks/_retention.py): the compaction retention rule, every case up to 3-4 versions of a key, on
    the REAL CompactionIterator; HistoryPreserved (nothing retained is lost, nothing erased comes back) is evaluated by
    TLC on the real outputs.
(b) spec/history: History.tla states what get_at / history must answer over the committed versions visible at the
    reader's horizon (barrier rule shared with Retention.tla, retention window as an interval, options, order, exactly
    once) next to an implementation-shaped model of the read path (k-way merge of memtables + tables or + version index,
    HistoryIterator's filter order, index slots keyed by (key, timestamp)) and of where versions physically are
    (Commit / Tick / Rotate / Flush / Compact / Reopen).  TLC checks the read path against the oracle on every reachable
    state of the bounded model and exports one scenario per explored transition (+ long random behaviours) with the
    oracle of the state reached; `history_run` replays each on TWO real Trees in lock-step (version index on / off) and
    judges get_at at every timestamp and history under every option set, forward, backward, with seeks and reversals.
(c) crash images: scenarios ending in a flush run under shim/fsrec.so; the directory is rebuilt at every file-system
    operation boundary of that flush (process-crash model: the version index is updated in place before the manifest
    switches), reopened by the real recovery code in a child process and judged with the same oracle - as recovered,
    after one more flush, and after a clean reopen."""
import json
import os
import shutil
import subprocess
import time
from concurrent.futures import ThreadPoolExecutor

from checks import _retention, _storage
from vlib import core, fsimage, tlc

MANIFEST = {
    "engine": {"name": "history+retention+storage", "path": "spec/history, spec/retention, shim/fsrec.c",
               "kind_free_text": "TLA+ History/HistoryMC (+ Retention/RetentionMC/RetentionTrace) checked by TLC -> harness history_run "
                                 "(twin real Trees, version index on/off; crash images of a flush) and retention_run (real CompactionIterator)"},
    "category": "model_checking",
    "text": ("TLC checks, on every reachable state of the bounded History model (commits with timestamps, clock ticks, rotate / "
             "flush / compaction / reopen, the B+tree version index filled at flush), that the implementation-shaped read path of both "
             "back-ends lists exactly what the property-level oracle prescribes (barrier rule of Retention.tla, retention window as an "
             "interval, options, order, exactly once) and that get_at answers the greatest timestamp not above T; every explored "
             "transition is exported with the oracle of the state reached and replayed on two real Trees in lock-step (index on / off): "
             "get_at at every timestamp, history over the whole range and sub-ranges under every option combination, complete forward "
             "and backward traversals, seeks, reversals. Scenarios ending in a flush are re-run under a file-system recorder and every "
             "operation boundary of that flush becomes a crash image that the real recovery code reopens and the same oracle judges. "
             "The compaction retention rule is covered case-exhaustively on the real CompactionIterator (spec/retention)."),
    "design_ref": "DESIGN.md §4 C10",
    "note": ("Bounds: 2-3 keys, <= 3-4 commits (exhaustive) / <= 7 (random behaviours), clock 1..3-6, <= 2-3 flushes, <= 1-3 compactions, "
             "<= 1-2 reopens, retention 0 and a finite window under the manual clock, equal timestamps, out-of-order timestamps "
             "(version index only). Write-set (read-your-writes) history is C08's subject and not judged here. Trusted: TLC, the "
             "driver's option filter (cross-checked against the specification on every scenario), key/value byte mapping."),
    "technique": "TLA+ model checking (TLC) + scenario replay on twin real engines + crash-image enumeration of the flush",
}

SUB = "history"
BASE = {"NKeys": 2, "CommitKinds": '{"Set", "Del", "SoftDel", "Replace"}', "NLevels": 2, "RetentionNs": 0,
        "OutOfOrder": "FALSE", "EqualTs": "FALSE", "MaxClock": 3, "TickSteps": "{1}", "RuleVariant": '"repo"',
        "IndexGC": "FALSE", "Impl": '"repo"',
        "Known": '{"expired_barrier", "index_ooo_unflushed"}',
        "MaxCommits": 3, "MaxFlushes": 2, "MaxCompactions": 1, "MaxReopens": 1, "MaxTicks": 2, "MaxSteps": 6,
        "WithReader": "FALSE"}
INVARIANTS = ["ReadPathOK (= HistoryOK /\\ GetAtOK /\\ BackendsAgree)", "LimitOK", "OracleExact", "ErasedStaysErasedMC (action property)"]


def model_check(ctx, name, timeout=1500, **over):
    c = dict(BASE, **over)
    text = tlc.cfg_variant(SUB, "HistoryMC.cfg", subst=c)
    r = tlc.run(SUB, "HistoryMC", "HistoryMC_%s.cfg" % name, cfg_text=text, timeout=timeout, coverage=False,
                out_name="hist_mc_%s_%s" % (name, ctx.tier))
    r["constants"] = ["%s=%s" % kv for kv in sorted(c.items())]
    r["invariants"] = INVARIANTS
    ctx.add_tlc(r)
    os.remove(r["out"])
    return r


def _report(ctx, s, driver_args, extra=None):
    """one ctx.violation per structural group of the driver's findings (smallest scenario of the group as replay)"""
    for g in (s.get("extra") or {}).get("groups", []):
        ex = g["example"]
        sig = dict(g["signature"])
        # the recorded finding of spec/retention, seen from the read side: an erased version is back on a key whose
        # expired barrier a compaction discarded (ghost `tainted` of the specification)
        if sig.get("tainted") and sig.get("finite") and sig["class"] in ("erased_version_listed", "get_at_returns_erased_version"):
            sig["class"] = "expired_barrier_dropped"
        rp = {"driver": "history_run", "args": driver_args, "seed": ctx.seed, "scenario": ex.get("scenario"), "signature": sig}
        if extra:
            rp.update(extra)
        ops = " ".join("%s(%s)" % (o["op"], ",".join(str(o[k]) for k in ("k", "kind", "ts") if o[k] not in ("", 0)))
                       for o in (ex.get("scenario") or {}).get("ops", []))
        ctx.violation(rp, sig, "%s%s [%s back-end, %s, opts %s, key %s] x%d after: %s :: %s" % (
            sig["class"], (" (" + sig["cause"] + ")") if sig.get("cause") else "", sig.get("backend"), sig.get("mode"),
            json.dumps(ex.get("opts")), ex.get("key"), g["count"], ops, json.dumps(ex.get("detail"))[:300]))
    for v in s.get("violations", []):
        sig = {"class": v.get("kind"), "mode": v.get("mode", "replay")}
        ctx.violation({"driver": "history_run", "args": driver_args, "scenario": v.get("scenario")}, sig,
                      "%s: %s" % (v.get("kind"), v.get("error") or v.get("message")))


def export(ctx, name, sim=None, depth=None, **over):
    c = dict(BASE, **over)
    text = tlc.cfg_variant(SUB, "HistoryMC.cfg", subst=c, drop=["INVARIANTS", "PROPERTY"], add=["CONSTRAINT Export"])
    return tlc.run(SUB, "HistoryMC", "HistoryMC_%s_x.cfg" % name, cfg_text=text, timeout=1500, coverage=False,
                   out_name="hist_x_%s_%s" % (name, ctx.tier), mode="sim" if sim else "bfs", sim=sim, depth=depth,
                   seed=ctx.seed, workers=4 if sim else None)


def export_and_replay(ctx, name, driver_args, sim=None, depth=None, keep=False, **over):
    r = export(ctx, name, sim=sim, depth=depth, **over)
    args = [r["out"]] + driver_args + ["--jobs", "14", "--seed", str(ctx.seed)]
    s = core.run_driver("history_run", args, timeout=3000)
    if not keep:
        os.remove(r["out"])
    if s["cases"] == 0:
        raise core.ToolError("no history scenarios exported (%s)" % name)
    ctx.add_driver(s)
    ctx.cov["answers_judged"] = ctx.cov.get("answers_judged", 0) + (s.get("extra") or {}).get("answers_judged", 0)
    ops = (s.get("extra") or {}).get("ops_executed", {})
    tot = ctx.cov.setdefault("ops_executed", {})
    for k, v in ops.items():
        tot[k] = tot.get(k, 0) + v
    _report(ctx, s, driver_args)
    return r, s


# ---------------------------------------------------------------------------------------------------------------
# crash images of a flush

def _pick_flush_scenarios(path, n, seed):
    """scenarios whose last step is a Flush with at least two commits before it, spread over the export"""
    import random
    cands = []
    for line in open(path, errors="replace"):
        if not line.startswith('"REPLAY '):
            continue
        sc = json.loads(json.loads(line)[len("REPLAY "):])
        ops = sc["ops"]
        if not ops or ops[-1]["op"] != "Flush":
            continue
        if sum(1 for o in ops if o["op"] == "Commit") < 2:
            continue
        cands.append(sc)
    random.Random(seed).shuffle(cands)
    # prefer scenarios with barriers and several keys: they make duplicates / resurrections visible
    cands.sort(key=lambda sc: -len({(o["k"], o["kind"]) for o in sc["ops"] if o["op"] == "Commit"}))
    return cands[:n]


def _child(cmd, env=None, timeout=120):
    e = dict(os.environ, RUST_BACKTRACE="0")
    if env:
        e.update(env)
    try:
        p = subprocess.run(cmd, env=e, stdout=subprocess.PIPE, stderr=subprocess.PIPE, timeout=timeout, text=True, errors="replace")
    except subprocess.TimeoutExpired as ex:
        err = ex.stderr.decode(errors="replace") if isinstance(ex.stderr, bytes) else (ex.stderr or "")
        stages = [l for l in err.splitlines() if l.startswith("stage:")]
        return None, "hang at %s" % (stages[-1] if stages else "?")
    for line in (p.stdout or "").splitlines():
        if line.startswith("SUMMARY "):
            return json.loads(line[len("SUMMARY "):]), None
    return None, "exit=%s %s" % (p.returncode, (p.stderr or "")[-300:].replace("\n", " "))


def _crash_one(task):
    """one (scenario, back-end): record, rebuild every image inside the last flush, judge each. Returns a dict."""
    wid, sc, index, dargs, keep_dir = task
    base = os.path.join(_storage.scratch(), "c10crash-%d-%s" % (os.getpid(), wid))
    shutil.rmtree(base, ignore_errors=True)
    os.makedirs(base)
    out = {"wid": wid, "index": index, "images": 0, "ops": 0, "groups": [], "errors": [], "judged": 0}
    try:
        scp = os.path.join(base, "scenario.ndjson")
        with open(scp, "w") as f:
            f.write(json.dumps(sc) + "\n")
        db = os.path.join(base, "db")
        log = os.path.join(base, "ops.log")
        env = {"FSREC_ROOT": db, "FSREC_LOG": log, "LD_PRELOAD": _storage.SHIM}
        s, err = _child([core.bin_path("history_run"), "--record", scp, "--dir", db, "--index", index] + dargs, env=env)
        if s is None or s.get("violation_count"):
            out["errors"].append({"class": "workload_failed", "detail": err or json.dumps(s.get("violations"))[:400]})
            return out
        ops = fsimage.parse_log(log)
        out["ops"] = len(ops)
        mk = fsimage.marks(ops)
        begins = [m for m in mk if m.get("ev") == "flush_begin"]
        ends = [m for m in mk if m.get("ev") == "flush_end"]
        if not begins or not ends:
            out["errors"].append({"class": "no_flush_marks", "detail": str(mk)[:200]})
            return out
        t0, t1 = begins[-1]["ticket"], ends[-1]["ticket"]
        fs = fsimage.FsState(db)
        for o in ops:
            fs.apply(o)
            if o.ticket < t0 or o.ticket > t1 or o.op in (fsimage.MARK, fsimage.CLOSE):
                continue
            img = os.path.join(base, "img")
            shutil.rmtree(img, ignore_errors=True)
            fs.materialize(img, "process")
            s, err = _child([core.bin_path("history_run"), "--judge-image", scp, "--dir", img, "--index", index] + dargs, timeout=90)
            out["images"] += 1
            where = {"ticket": o.ticket, "after_op": fsimage.NAMES.get(o.op), "path": os.path.relpath(o.p1, db) if o.p1 else ""}
            if s is None:
                out["groups"].append({"signature": {"class": "reopen_hang_or_crash", "mode": "crash", "backend": "index" if index == "on" else "lsm"},
                                      "count": 1, "example": {"detail": err, "where": where, "scenario": sc}})
                continue
            out["judged"] += s.get("steps", 0)
            for g in (s.get("extra") or {}).get("groups", []):
                g["example"]["where"] = where
                g["example"]["scenario"] = sc
                out["groups"].append(g)
            for v in s.get("violations", []):
                out["groups"].append({"signature": {"class": v.get("kind"), "mode": "crash", "backend": v.get("backend")}, "count": 1,
                                      "example": {"detail": v.get("error") or v.get("message") or v.get("detail"), "where": where, "scenario": sc}})
    except Exception as e:  # tool trouble inside a worker
        out["tool_error"] = "%s: %s" % (type(e).__name__, e)
    finally:
        shutil.rmtree(base, ignore_errors=True)
    return out


def crash_sweep(ctx, n_scenarios, dargs, **over):
    """process-crash images at every file-system operation boundary of a flush (the version index is written in place and
    synced BEFORE the manifest switches), both back-ends, judged as recovered / after one more flush / after a clean reopen"""
    core.build_harness(["history_run"])
    _storage.build_shim()
    r = export(ctx, "crash", **over)
    scs = _pick_flush_scenarios(r["out"], n_scenarios, ctx.seed)
    os.remove(r["out"])
    if not scs:
        raise core.ToolError("no scenario ending in a flush was exported")
    tasks = []
    for i, sc in enumerate(scs):
        for index in ("on", "off"):
            tasks.append(("%d-%s" % (i, index), sc, index, dargs, None))
    t0 = time.time()
    with ThreadPoolExecutor(max_workers=12) as ex:
        results = list(ex.map(_crash_one, tasks))
    tot = {"scenarios": len(scs), "runs": len(results), "images": sum(x["images"] for x in results),
           "fs_operations": sum(x["ops"] for x in results), "answers_judged": sum(x["judged"] for x in results),
           "wall_s": round(time.time() - t0, 1)}
    for x in results:
        if x.get("tool_error"):
            raise core.ToolError("crash sweep worker failed: %s" % x["tool_error"])
        for e in x["errors"]:
            raise core.ToolError("crash sweep: %s %s" % (e["class"], e["detail"]))
    if tot["images"] == 0:
        raise core.ToolError("crash sweep produced no images")
    ctx.cov.setdefault("crash_sweep", []).append(tot)
    ctx.cov["traces_validated_against_impl"] += tot["images"]
    ctx.cov["answers_judged"] = ctx.cov.get("answers_judged", 0) + tot["answers_judged"]
    ctx.sample({"crash_scenario": scs[0]["ops"], "images": results[0]["images"], "fs_operations": results[0]["ops"]})
    # merge groups of all workers by signature, keep the smallest example
    merged = {}
    for x in results:
        for g in x["groups"]:
            key = json.dumps(g["signature"], sort_keys=True)
            m = merged.setdefault(key, {"signature": g["signature"], "count": 0, "example": g["example"]})
            m["count"] += g["count"]
            if len(g["example"]["scenario"]["ops"]) < len(m["example"]["scenario"]["ops"]):
                m["example"] = g["example"]
    for m in merged.values():
        ex = m["example"]
        sig = dict(m["signature"])
        rp = {"driver": "history_run", "crash": True, "args": dargs, "seed": ctx.seed, "scenario": ex["scenario"],
              "index": "on" if sig.get("backend") == "index" else "off", "where": ex.get("where"), "signature": sig}
        ops = " ".join("%s(%s)" % (o["op"], ",".join(str(o[k]) for k in ("k", "kind", "ts") if o[k] not in ("", 0)))
                       for o in ex["scenario"]["ops"])
        ctx.violation(rp, sig, "crash image %s: %s%s [%s back-end, %s, opts %s, key %s] x%d after: %s :: %s" % (
            json.dumps(ex.get("where")), sig.get("class"), (" (" + sig["cause"] + ")") if sig.get("cause") else "",
            sig.get("backend"), sig.get("mode"), json.dumps(ex.get("opts")), ex.get("key"), m["count"], ops,
            json.dumps(ex.get("detail"))[:300]))
    core.log("[crash] C10: %s" % json.dumps(tot))
    return tot


def teeth(ctx):
    """The model of the read path BEFORE the repairs (Impl = "pinned", no carve-out) must still violate ReadPathOK / LimitOK;
    every violating state TLC finds is exported with its oracle and replayed on the code as it is now, where it must not fail
    (a failure here = one of the repaired defects is back)."""
    c = dict(BASE, Impl='"pinned"', Known="{}", EqualTs="TRUE", MaxSteps=4)
    text = tlc.cfg_variant(SUB, "HistoryMC.cfg", subst=c, drop=["INVARIANTS", "PROPERTY"], add=["INVARIANT Teeth"])
    r = tlc.run(SUB, "HistoryMC", "HistoryMC_teeth.cfg", cfg_text=text, timeout=900, coverage=False, must_pass=False,
                extra=["-continue"], out_name="hist_teeth_%s" % ctx.tier, workers=4)
    if "Teeth" not in r["violated"]:
        raise core.ToolError("the model of the pinned read path no longer violates ReadPathOK / LimitOK (see %s)" % r["out"])
    dargs = ["--levels", "2"]
    s = core.run_driver("history_run", [r["out"]] + dargs + ["--jobs", "10", "--seed", str(ctx.seed)], timeout=1800)
    os.remove(r["out"])
    if s["cases"] == 0:
        raise core.ToolError("teeth: the pinned model exported no counterexample")
    groups = (s.get("extra") or {}).pop("groups", [])
    s["driver"] = "history_run[teeth]"
    ctx.add_driver(s)
    s["extra"]["groups"] = groups
    ctx.cov["transitions"] += r["generated"]
    ctx.cov["teeth"] = {"pinned_model_violates": ["ReadPathOK", "LimitOK"], "counterexample_states_replayed": s["cases"],
                        "failing_on_current_code": s["violation_count"]}
    _report(ctx, s, dargs, extra={"teeth": True})
    core.log("[c10] teeth: the pinned model violates the read-path invariants in %d states; replayed on the current code: %d findings"
             % (s["cases"], s["violation_count"]))


# name, driver options, model constants, (behaviours, depth) quick, (behaviours, depth) thorough; None = edge cover (BFS)
VARIANTS = [
    ("edge", ["--levels", "2"], {}, None, None),
    ("eq", ["--levels", "2", "--block", "64", "--nobloom"],
     {"EqualTs": "TRUE", "MaxCommits": 4, "MaxFlushes": 3, "MaxCompactions": 2}, (40, 10), (450, 12)),
    ("ooo", ["--levels", "2", "--cache", "0"],
     {"OutOfOrder": "TRUE", "MaxCommits": 5, "MaxClock": 4, "MaxTicks": 3, "MaxFlushes": 3, "MaxCompactions": 2}, (40, 10), (600, 12)),
    ("fin", ["--levels", "3", "--snappy"],
     {"NLevels": 3, "RetentionNs": 2, "TickSteps": "{1, 3}", "MaxClock": 6, "MaxTicks": 3, "MaxCommits": 4, "MaxFlushes": 3,
      "MaxCompactions": 3}, (50, 12), (450, 14)),
    ("l3", ["--levels", "3", "--vlog-file", "1", "--block", "4096", "--memtable", "65536"],
     {"NLevels": 3, "NKeys": 3, "IndexGC": "TRUE", "WithReader": "TRUE", "MaxCommits": 5, "MaxClock": 4, "MaxTicks": 3,
      "MaxFlushes": 4, "MaxCompactions": 4, "MaxReopens": 2}, (40, 14), (300, 16)),
]


def _variant(ctx, v):
    name, dargs, over, q, t = v
    sd = q if ctx.quick else t
    over = dict(over)
    if sd is None:
        over["MaxSteps"] = ctx.pick(4, 5)
        r = export(ctx, name, **over)
    else:
        over["MaxSteps"] = sd[1]
        r = export(ctx, name, sim=sd[0], depth=sd[1], **over)
    args = [r["out"]] + dargs + ["--jobs", "10", "--seed", str(ctx.seed), "--walks", str(ctx.pick(4, 8))]
    s = core.run_driver("history_run", args, timeout=3000)
    os.remove(r["out"])
    return name, dargs, r, s


def run(ctx):
    core.build_harness(["history_run", "retention_run"])
    _storage.build_shim()
    # (a) the compaction retention rule, case-exhaustive on the real CompactionIterator
    _retention.run(ctx, "C10")
    # (b1) TLC: the implementation-shaped read path against the property-level oracle, exhaustive in the bounds
    if ctx.quick:
        model_check(ctx, "q", MaxSteps=4)
    else:
        model_check(ctx, "t", MaxSteps=6)
        model_check(ctx, "eq", EqualTs="TRUE", MaxSteps=5)
        model_check(ctx, "ooo", OutOfOrder="TRUE", MaxSteps=5)
        model_check(ctx, "fin", RetentionNs=1, TickSteps="{1, 2}", MaxClock=4, MaxCompactions=2, MaxSteps=5)
        model_check(ctx, "rd", WithReader="TRUE", MaxSteps=5)
    teeth(ctx)
    # (b2) spec -> impl: every explored transition / random behaviours on twin real Trees
    with ThreadPoolExecutor(max_workers=3) as ex:
        results = list(ex.map(lambda v: _variant(ctx, v), VARIANTS))
    for name, dargs, r, s in results:
        if s["cases"] == 0:
            raise core.ToolError("no history scenarios exported (%s)" % name)
        s["driver"] = "history_run[%s]" % name
        groups = (s.get("extra") or {}).pop("groups", [])     # examples carry whole scenarios: not for the evidence file
        ctx.add_driver(s)
        s["extra"]["groups"] = groups
        ctx.cov["answers_judged"] = ctx.cov.get("answers_judged", 0) + (s.get("extra") or {}).get("answers_judged", 0)
        tot = ctx.cov.setdefault("ops_executed", {})
        for k, v in ((s.get("extra") or {}).get("ops_executed", {})).items():
            tot[k] = tot.get(k, 0) + v
        _report(ctx, s, dargs)
    # vacuity guards: every kind of step and every commit kind was executed on the real engine
    need = ["Commit:Set", "Commit:Del", "Commit:SoftDel", "Commit:Replace", "Tick", "Rotate", "Flush", "Compact", "Reopen", "Begin"]
    missing = [k for k in need if not ctx.cov["ops_executed"].get(k)]
    if missing:
        raise core.ToolError("scenario steps never executed on the real engine: %s" % missing)
    # (c) crash images of a flush
    crash_sweep(ctx, ctx.pick(3, 40), ["--levels", "2"], MaxSteps=ctx.pick(5, 6), MaxCommits=3)
    ctx.cov["exhaustive"] = True
    ctx.cov["rule"] = ("edge cover of the bounded History state graph + random behaviours (-simulate) of five model variants, each "
                       "replayed on two real Trees (version index on / off); crash images at every file-system operation of a flush")
    ctx.assumptions += [
        "bounds: 2-3 keys, <= 3 commits (edge cover) / <= 5 (random behaviours), clock 1..3-6, <= 2-4 flushes, <= 1-4 compactions, <= 1-2 reopens",
        "timestamps are non-decreasing per key except in the out-of-order variant, which runs on the version-index Tree only; there the barrier "
        "rule is accepted in both readings of 'earlier' (commit order / timestamp order) and the order inside a key is compared as drift only",
        "finite retention: every set of versions between the retained ones (inside the window at the current clock) and the alive ones is accepted",
        "versions with equal timestamps may be listed in either order; get_at may return either",
        "value() of a listed soft-delete tombstone is not read (it fails with an I/O error; the repository's own callers test is_tombstone() first)",
        "history / get_at of a transaction's own uncommitted writes (read-your-writes) is C08's subject and not judged here",
        "cursor walks with direction changes are judged only where the oracle is exact; every walk uses a fresh cursor (re-seeking an "
        "exhausted cursor is C09's subject)",
        "crash model: process crash (every completed file-system operation is kept), images inside the last flush of a scenario",
    ]


def replay(ctx, doc):
    rp = doc["replay"]
    if rp.get("driver") == "retention_run":
        return _retention.replay(ctx, rp, "C10")
    core.build_harness(["history_run"])
    if rp.get("crash"):
        _storage.build_shim()
        x = _crash_one(("replay", rp["scenario"], rp.get("index", "on"), rp.get("args", []), None))
        if x.get("tool_error") or x["errors"]:
            raise core.ToolError("crash replay failed: %s %s" % (x.get("tool_error"), x["errors"]))
        core.log("replayed %d crash images of the scenario's last flush" % x["images"])
        merged = {}
        for g in x["groups"]:
            key = json.dumps(g["signature"], sort_keys=True)
            m = merged.setdefault(key, {"signature": g["signature"], "count": 0, "example": g["example"]})
            m["count"] += g["count"]
        for m in merged.values():
            core.log("reproduced: %s x%d at %s" % (json.dumps(m["signature"]), m["count"], json.dumps(m["example"].get("where"))))
            ctx.violation(dict(rp, where=m["example"].get("where"), signature=m["signature"]), m["signature"], "reproduced")
        return
    import tempfile
    with tempfile.NamedTemporaryFile("w", suffix=".ndjson", delete=False, dir=core.WORK) as f:
        f.write(json.dumps(rp["scenario"]) + "\n")
    s = core.run_driver("history_run", [f.name] + rp.get("args", []) + ["--jobs", "1", "--seed", str(rp.get("seed", 1)), "--walks", "40"])
    os.remove(f.name)
    for g in (s.get("extra") or {}).get("groups", []):
        core.log("reproduced: %s x%d" % (json.dumps(g["signature"]), g["count"]))
    _report(ctx, s, rp.get("args", []))
