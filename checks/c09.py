"""C09 — range cursors enumerate exactly the live keys, in order, in both directions.

Spec: spec/cursor/Cursor.tla (+CursorIdeal, CursorMC, CursorTrace).  Cursor.tla is the four-layer cursor of
the code (write-set overlay -> snapshot filter -> k-way merge -> memtable / table iterators) next to an ideal
cursor over the sorted list of live keys; the spec also generates the physical layout (commit / rotate /
flush / compact / begin / pending writes).  TLC checks `CursorMatches` on every reachable state of the
bounded models and exports one case (layout recipe, bounds, cursor program, expected observation after every
call) per explored transition; `cursor_run replay` builds each layout on a real Tree with tiny blocks and
index partitions and judges valid()/key()/value() after every call.  `cursor_run random` adds large seeded
layouts and programs whose recorded observations are validated by TLC against CursorTrace.tla."""
import json
import os
import threading

from vlib import core, tlc

MANIFEST = {
    "engine": {"name": "cursor", "path": "spec/cursor",
               "kind_free_text": "TLA+ Cursor/CursorMC (TLC exhaustive + edge-cover export, -simulate) -> harness "
                                 "cursor_run on a real Tree; cursor_run random -> NDJSON -> TLC CursorTrace"},
    "category": "model_checking",
    "text": ("TLC checks, on every reachable state of bounded models, that the implementation-shaped four-layer "
             "cursor machine (TransactionRangeIterator / SnapshotIterator / KMergeIterator / skiplist and table "
             "iterators with their bound handling) reports what an ideal cursor over the sorted list of live keys "
             "in [lo,hi) reports, for layouts the spec itself generates (versions spread over write-set, active and "
             "immutable memtables, L0/L1/L2 tables, versions committed after the snapshot) and all bounds "
             "(absent, empty, inverted). Every explored transition is exported as (layout recipe, bounds, program, "
             "expected observations) and executed on a real Tree built with 16-256 byte blocks and 1-64 byte index "
             "partitions through range_with_options and range; valid()/key()/value() are compared after every "
             "call, panics / hangs / aborts are violations. Seeded random layouts (up to 90 versions, 24 keys with "
             "shared prefixes and 0x00/0xff bytes, long keys) and programs with reversals at every position are "
             "run the same way and every recorded observation is validated by TLC against CursorTrace.tla."),
    "design_ref": "DESIGN.md §4 C09",
    "note": ("Bounds of the exhaustive models: 3 data keys (+1-2 bound/seek points), <= 3 committed versions, "
             "<= 1 later (invisible) version, <= 2 pending writes, <= 2 rotations / flushes / compactions, programs "
             "<= 8 calls (edge cover of the full cursor state graph per layout); -simulate: 5 data keys, 8 versions, "
             "depth 34. Blocks / partitions / encodings are not in the model (covered by the driver's real tables). "
             "The Bug* constants of the model are set from a probe of the code under test (the spec models the code "
             "as it is). Trusted: TLC, the driver's comparison and key/value byte mapping, for random cases the "
             "driver's 20-line ideal cursor (cross-checked by TLC on every violation-free trace)."),
    "technique": "TLA+ model checking (TLC) + spec-to-implementation transition replay + trace validation",
}

class StopEarly(Exception):
    pass


def scratch_env():
    """Temporary databases go to tmpfs when there is one: a tree build costs ~25 ms of fsync latency on the
    disk and ~2 ms in memory, and nothing this property is about depends on durability."""
    base = "/dev/shm"
    if os.path.isdir(base) and os.access(base, os.W_OK):
        d = os.path.join(base, "verif-c09-%d" % os.getpid())
        os.makedirs(d, exist_ok=True)
        return {"VERIF_WORK": d}
    return {}


def scratch_cleanup():
    import shutil
    shutil.rmtree(os.path.join("/dev/shm", "verif-c09-%d" % os.getpid()), ignore_errors=True)


INVARIANTS = "TypeOK CursorMatches OpenNeverPanics GhostSane SourcesSorted IndexInRange BufferedBackHasEntry"
WORKERS = 8


def probe_flags(ctx):
    """Which known defects does the code under test show?  They select the variant of the model."""
    s = core.run_driver("cursor_run", ["probe"], timeout=120, env=scratch_env())
    flags = s["extra"]["flags"]
    if s["violation_count"]:
        report(ctx, s, "probe")       # a probe that hangs or aborts
    ctx.cov["model_variant"] = flags
    ctx.cov["inverted_sites"] = s["extra"].get("inverted_sites")
    core.log("[c09] code under test shows: %s" % ", ".join(k for k, v in sorted(flags.items()) if v) or "[c09] none")
    return {k: ("TRUE" if v else "FALSE") for k, v in flags.items()}


def report(ctx, s, origin):
    """Driver summary -> verdicts.  The summary lists up to 3 violations per signature."""
    ctx.add_driver(s, traces=origin != "probe")
    stopped = s["extra"].get("stopped_early")
    classes = s["extra"].get("violation_classes", {})
    tot = ctx.cov.setdefault("violation_classes", {})
    for k, v in classes.items():
        tot[k] = tot.get(k, 0) + v
    for v in s["violations"]:
        case = v.pop("case", None)
        calls = v.pop("calls", None)
        sig = v.get("signature") or {"class": v.get("kind")}
        what = "%s [%s] %s lo=%s hi=%s call #%s: want %s got %s" % (
            v.get("kind"), origin, v.get("api", ""), v.get("lo"), v.get("hi"), v.get("step"),
            json.dumps(v.get("want")), json.dumps(v.get("got"))[:300])
        ctx.violation({"driver": "cursor_run", "case": case, "variant": v.get("variant"), "api": v.get("api"),
                       "lo": v.get("lo"), "hi": v.get("hi"), "observed": v.get("observed"), "kind": v.get("kind"),
                       "origin": origin},
                      signature=sig, what=what)
    if stopped:
        # the code under test hangs or aborts again and again: the verdict is settled, every further
        # case would cost a full timeout
        core.log("[c09] driver stopped early (%s): skipping the remaining stages" % stopped)
        raise StopEarly()


def model_and_replay(ctx, name, flags, subst, mode="bfs", sim=None, depth=None, variants=2, timeout=1500):
    """One TLC run = invariants on every state + export of every explored transition; then the driver."""
    sub = dict(flags)
    sub.update(subst)
    text = tlc.cfg_variant("cursor", "CursorMC.cfg", subst=sub, add=["ACTION_CONSTRAINT Export"])
    r = tlc.run("cursor", "CursorMC", "CursorMC_%s.cfg" % name, cfg_text=text, coverage=False, timeout=timeout,
                out_name="c09_%s_%s" % (name, ctx.tier), workers=WORKERS if mode == "bfs" else 4,
                mode=mode, sim=sim, depth=depth, seed=ctx.seed)
    r["constants"] = ["%s=%s" % (k, v) for k, v in sorted(sub.items())]
    r["invariants"] = INVARIANTS.split()
    if mode == "bfs":
        ctx.add_tlc(r)
    else:
        ctx.cov["tlc_runs"].append({k: r[k] for k in ("module", "cfg", "mode", "generated", "wall_s", "constants")})
    args = ["replay", r["out"], "--jobs", WORKERS, "--variants", variants, "--seed", ctx.seed]
    if mode == "sim":
        args.append("--skip-build-only")
    s = core.run_driver("cursor_run", args, timeout=3000, env=scratch_env())
    os.remove(r["out"])
    if s["cases"] == 0:
        raise core.ToolError("no cases exported by TLC (%s)" % name)
    if mode == "bfs" and s["extra"].get("distinct_last_call_outcomes", 0) < 8:
        raise core.ToolError("vacuous export (%s): %s distinct outcomes" % (name, s["extra"].get("distinct_last_call_outcomes")))
    report(ctx, s, "tlc:" + name)
    core.log("[c09] %s: %d cases, %d calls, %d recipes, %d violations (%s), drift %d, driver %.0fs" % (
        name, s["cases"], s["steps"], s["extra"].get("distinct_recipes", 0), s["violation_count"],
        json.dumps(s["extra"].get("violation_classes")), s.get("drift_count", 0), s["_wall_s"]))
    return r, s


PINNED = {"BugNoneBound": "TRUE", "BugInverted": "TRUE", "BugSwitch": "TRUE", "BugMemLast": "TRUE"}
REPAIRED = {k: "FALSE" for k in PINNED}
TEETH = {"BugNoneBound": "CursorMatchesStrict", "BugInverted": "OpenNeverPanicsStrict",
         "BugSwitch": "CursorMatchesStrict", "BugMemLast": "CursorMatchesStrict"}


def teeth(ctx, flags):
    """The model of the PINNED behaviour must still produce its counterexamples (one per defect), and
    they must not reproduce on the code under test once it is repaired.
    1. per defect: TLC on the variant with only that Bug* constant TRUE, the property without exemption
       as invariant -> a counterexample is required;
    2. the pinned variant's cases that run into a defect (taint) are exported with the property's
       expectation and executed on the real code: a reproduced one is a VIOLATION like any other; the
       difference between the pinned model's prediction and the repaired code is expected here and is
       not counted as drift."""
    small = dict(MaxCompact=1, MaxSteps=8)
    found, errs = {}, []

    def one(flag, inv):
        try:
            sub = dict(REPAIRED, **small)
            sub[flag] = "TRUE"
            text = tlc.cfg_variant("cursor", "CursorMC.cfg", subst=sub, drop=["INVARIANT"], add=["INVARIANTS " + inv])
            r = tlc.run("cursor", "CursorMC", "CursorMC_teeth_%s.cfg" % flag, cfg_text=text, coverage=False, timeout=600,
                        out_name="c09_teeth_%s" % flag, workers=2, must_pass=False)
            if inv not in r["violated"]:
                raise core.ToolError("the pinned variant of the model (%s) no longer violates %s (see %s)" % (flag, inv, r["out"]))
            found[flag] = {"invariant": inv, "states_to_counterexample": r["generated"]}
            os.remove(r["out"])
        except Exception as e:  # noqa: BLE001
            errs.append(e)
    th = [threading.Thread(target=one, args=kv) for kv in TEETH.items()]
    for t in th:
        t.start()
    for t in th:
        t.join()
    if errs:
        raise errs[0]
    sub = dict(PINNED, **dict(small, MaxSteps=7))
    text = tlc.cfg_variant("cursor", "CursorMC.cfg", subst=sub, add=["ACTION_CONSTRAINT Export"])
    r = tlc.run("cursor", "CursorMC", "CursorMC_teeth.cfg", cfg_text=text, coverage=False, timeout=600,
                out_name="c09_teeth_%s" % ctx.tier, workers=WORKERS)
    tainted = 0
    with open(r["out"]) as f, open(r["out"] + ".tainted", "w") as g:
        for line in f:
            if line.startswith('"REPLAY') and ('\\"unbounded_side\\"' in line or '\\"inverted_range\\"' in line or
                                               '\\"dir_switch_snapshot_exhausted\\"' in line or
                                               '\\"memtable_upper_node_cached\\"' in line or '\\"Panic\\"' in line):
                g.write(line)
                tainted += 1
    os.remove(r["out"])
    if tainted == 0:
        raise core.ToolError("teeth: the pinned variant exported no case that runs into a defect")
    s = core.run_driver("cursor_run", ["replay", r["out"] + ".tainted", "--jobs", WORKERS, "--variants", 1, "--seed", ctx.seed],
                        timeout=1200, env=scratch_env())
    os.remove(r["out"] + ".tainted")
    differs = s.get("drift_count", 0)
    s["drift_count"], s["drift"] = 0, []
    ctx.cov["teeth"] = {"counterexamples": found, "pinned_cases_into_defects": tainted, "executed": s["cases"],
                        "reproduced_on_code_under_test": s["violation_count"],
                        "prediction_of_pinned_model_differs": differs,
                        "code_shows": {k: v == "TRUE" for k, v in flags.items()}}
    if all(v == "FALSE" for v in flags.values()) and s["violation_count"] == 0 and differs == 0:
        raise core.ToolError("teeth: pinned model and repaired code agree on every case that runs into a defect")
    report(ctx, s, "teeth")
    core.log("[c09] teeth: pinned model violates %s; %d cases into defects executed, %d reproduced, %d where the pinned "
             "prediction differs from the code" % (sorted(set(TEETH.values())), s["cases"], s["violation_count"], differs))


def split_trace(path, parts):
    """Cut an NDJSON trace at `reset` lines into about `parts` files; returns [(file, first_line_number)]."""
    size = os.path.getsize(path)
    target = max(1, size // parts)
    out, cur, cur_size, lineno, start = [], None, 0, 0, 1
    with open(path) as f:
        for line in f:
            lineno += 1
            if cur is None or (cur_size >= target and line.startswith('{"e":"reset"') and len(out) < parts):
                if cur:
                    cur.close()
                name = "%s.%d" % (path, len(out))
                cur = open(name, "w")
                out.append((name, lineno))
                cur_size = 0
            cur.write(line)
            cur_size += len(line)
    if cur:
        cur.close()
    return out


def validate_trace(ctx, path, seed, ncases, parts):
    """impl -> spec: TLC consumes every recorded observation (CursorTrace.tla)."""
    files = split_trace(path, parts)
    results = [None] * len(files)

    def one(i):
        try:
            results[i] = tlc.run("cursor", "CursorTrace", "CursorTrace.cfg", workers=1, timeout=1500, coverage=False,
                                 env={"TRACE": files[i][0]}, out_name="c09_trace_%s_%d" % (ctx.tier, i), must_pass=False,
                                 xmx="3g")
        except Exception as e:  # noqa: BLE001
            results[i] = e
    th = [threading.Thread(target=one, args=(i,)) for i in range(len(files))]
    for t in th:
        t.start()
    for t in th:
        t.join()
    lines = 0
    for (fname, first), r in zip(files, results):
        if isinstance(r, Exception):
            raise r
        lines += max(0, r["distinct"] - 1)
        bad = [v for v in r["violated"] if v.startswith("Obs_")]
        if bad:
            # the last state of the counterexample names the line and shows want / got
            tail = open(r["out"], errors="replace").read()[-3000:]
            ctx.violation({"driver": "cursor_run", "mode": "random", "seed": seed, "cases": ncases,
                           "trace_invariant": bad, "counterexample_tail": tail},
                          signature={"class": "trace_rejected", "invariant": bad[0]},
                          what="TLC rejects a recorded observation (%s): %s" % (bad[0], tail[-600:]))
        elif r["violated"] or r["errors"] or r["exit"] != 0:
            raise core.ToolError("trace validation failed on %s: %s %s (see %s)" % (fname, r["violated"], r["errors"][:2], r["out"]))
        os.remove(fname)
        if os.path.exists(r["out"]):
            os.remove(r["out"])
    ctx.cov["tlc_runs"].append({"module": "CursorTrace", "cfg": "CursorTrace.cfg", "mode": "trace", "lines_validated": lines,
                                "files": len(files), "invariants": ["Obs_Cursor", "Obs_OpenNeverPanics", "Pre_OnlySeeksAfterEnd"]})
    ctx.cov["trace_lines_validated"] = ctx.cov.get("trace_lines_validated", 0) + lines
    return lines


def random_and_trace(ctx, ncases, parts):
    trace = os.path.join(core.WORK, "tmp", "c09_trace_%d.ndjson" % os.getpid())
    os.makedirs(os.path.dirname(trace), exist_ok=True)
    s = core.run_driver("cursor_run", ["random", "--seed", ctx.seed, "--cases", ncases, "--jobs", WORKERS, "--trace", trace],
                        timeout=3000, env=scratch_env())
    report(ctx, s, "random")
    lines = validate_trace(ctx, trace, ctx.seed, ncases, parts)
    os.remove(trace)
    if s["extra"].get("trace_cases", 0) == 0 or s["extra"].get("trace_cases", 0) + s["extra"].get("violating_cases", 0) < ncases:
        raise core.ToolError("random cases neither traced nor reported: %s" % json.dumps(s["extra"]))
    core.log("[c09] random: %d cases, %d calls, %d violations (%s); TLC validated %d trace lines of %d cases" % (
        s["cases"], s["steps"], s["violation_count"], json.dumps(s["extra"].get("violation_classes")), lines,
        s["extra"].get("trace_cases", 0)))
    return s


# constants of the bounded models (CursorMC.cfg holds the `mix` quick values)
OVERLAY = {"MaxRotate": 0, "MaxFlush": 0, "MaxCompact": 0, "MaxLate": 0}
LAYERS = {"MaxWs": 0}
SIM = {"NKeys": 6, "DataKeys": "{1, 2, 3, 4, 5}", "Kinds": '{"Set", "Del", "SoftDel"}', "WsKinds": '{"Set", "Del", "SoftDel"}',
       "MaxCommits": 8, "MaxLate": 2, "MaxWs": 3, "MaxRotate": 3, "MaxFlush": 3, "MaxCompact": 2, "MaxOpen": 3,
       "MaxProg": 8, "BoundPts": "{1, 2, 3, 4, 5, 6}", "SeekPts": "{1, 2, 3, 4, 5, 6}", "MaxSteps": 40}


def run(ctx):
    try:
        run_(ctx)
    except StopEarly:
        ctx.assumptions.append("run cut short: the code under test hung or aborted repeatedly")
    finally:
        scratch_cleanup()


def run_(ctx):
    core.build_harness(["cursor_run"])
    flags = probe_flags(ctx)
    teeth(ctx, flags)
    if ctx.quick:
        # overlay: everything in the active memtable, the write-set overlay in full
        model_and_replay(ctx, "overlay", flags, dict(OVERLAY, MaxCommits=2, MaxWs=2, BoundPts="{3}", MaxSteps=8), variants=1)
        # mix: memtables + one table + one pending write, all shapes of bounds
        model_and_replay(ctx, "mix", flags, dict(MaxSteps=8), variants=2)
        # layers: no write-set; two rotations, two flushes, a compaction
        model_and_replay(ctx, "layers", flags, dict(LAYERS, MaxCommits=2, MaxRotate=2, MaxFlush=2, MaxCompact=1, MaxSteps=10),
                         variants=2)
        # late: a version committed after the snapshot was taken, in the memtables or in a table
        model_and_replay(ctx, "late", flags, dict(LAYERS, MaxCommits=1, MaxLate=1, MaxCompact=0, MaxSteps=9), variants=2)
        model_and_replay(ctx, "sim", flags, SIM, mode="sim", sim=40, depth=34, variants=1)
        random_and_trace(ctx, 3000, 2)
    else:
        # the same families, one or two steps deeper (sized so that the variant of the model without the
        # known defects, whose behaviours are not cut short, still fits the budget)
        model_and_replay(ctx, "overlay", flags, dict(OVERLAY, MaxCommits=3, MaxWs=2, BoundPts="{3}", MaxSteps=10), variants=1)
        model_and_replay(ctx, "overlay3", flags, dict(OVERLAY, MaxCommits=2, MaxWs=3, BoundPts="{3}", MaxSteps=9), variants=1)
        model_and_replay(ctx, "mix", flags, dict(MaxCommits=2, MaxWs=2, MaxCompact=1, MaxSteps=9), variants=2)
        model_and_replay(ctx, "layers", flags, dict(LAYERS, MaxCommits=2, MaxLate=1, MaxRotate=2, MaxFlush=2, MaxCompact=2,
                                                    MaxSteps=11), variants=2)
        model_and_replay(ctx, "layers3", flags, dict(LAYERS, MaxCommits=3, MaxCompact=1, MaxSteps=10,
                                                     Kinds='{"Set", "Del", "SoftDel"}'), variants=2)
        model_and_replay(ctx, "sim", flags, SIM, mode="sim", sim=1000, depth=34, variants=1)
        random_and_trace(ctx, 100000, 8)
    ctx.cov["exhaustive"] = True
    ctx.cov["rule"] = ("every transition TLC explores in the bounded Cursor models (distinct states expanded once; the op "
                       "history is hidden by the VIEW) is exported as a case and executed on a real Tree; random cases are "
                       "validated line by line by TLC against CursorTrace")
    ctx.assumptions += [
        "exhaustive bounds: 3 data keys among 4 key points, <= 3 committed versions, <= 1 version newer than the snapshot, "
        "<= 2 pending writes, <= 2 rotations/flushes/compactions, programs up to 8 calls; larger cases by -simulate and "
        "by the driver's seeded generator",
        "blocks, index partitions and encodings are not modelled; they are exercised on real tables with block_size 16-256, "
        "index_partition_size 1-64, restart interval 1-16, with and without versioning / value log, keys that are prefixes "
        "of one another, contain 0x00/0xff, share prefixes of 60-200 bytes or are longer than a block",
        "after the cursor has run off either end only seek operations are issued; seek targets lie inside the bounds; "
        "next()/prev() on a cursor that was never positioned is not judged (the property leaves it open)",
        "no compaction runs after the transaction under test began (a view lost to compaction is C01/C06, not C09); "
        "get() of every key is compared first and a wrong view is reported under its own class",
        "model variant selected from a probe of the code under test: %s" % json.dumps(ctx.cov.get("model_variant")),
    ]


def replay(ctx, doc):
    import tempfile
    rp = doc["replay"]
    core.build_harness(["cursor_run"])
    if rp.get("case") is None:
        # a trace rejected by TLC: re-run the random batch and validate again
        ctx.tier = "quick"
        random_and_trace(ctx, rp["cases"], 2)
        return
    with tempfile.NamedTemporaryFile("w", suffix=".json", delete=False) as f:
        json.dump({"case": rp["case"]}, f)
    s = core.run_driver("cursor_run", ["one", f.name], timeout=300, env=scratch_env())
    scratch_cleanup()
    os.remove(f.name)
    try:
        report(ctx, s, "replay")
    except StopEarly:
        pass
