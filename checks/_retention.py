"""Shared by C01 / C06 / C10: the compaction retention rule (spec/retention).

1. TLC checks the bounded RetentionMC model (rule as the repository implements it, variant "repo"):
   InvSubset, InvReads (C01/C06), InvHistoryK (C10 modulo the recorded finding "expired_barrier").
2. TLC exports every case; `retention_run` feeds each to the REAL CompactionIterator (two physical
   layouts) and records the real outputs.
3. RetentionTrace.tla (TLC) evaluates the property predicates on the REAL outputs and compares them
   with the spec's rule (conformance). Verdict lines are classified here.
"""
import json
import os

from vlib import core, tlc

SUB = "retention"


def _expired_barrier(rec):
    """structural signature of the recorded finding: finite retention, a non-latest barrier outside
    the window is in the input but not in the real output."""
    if not rec["finite"]:
        return False
    real = set(rec["real"])
    for i, v in enumerate(rec["vin"]):
        if i > 0 and v["kind"] in ("Del", "Replace") and not v["win"] and v["seq"] not in real:
            return True
    return False


def run(ctx, focus):
    """focus: 'C01' | 'C06' | 'C10' — which verdict columns raise violations for this property."""
    core.build_harness(["retention_run"])
    maxlen = ctx.pick(3, 4)
    mono = ctx.pick("TRUE", "FALSE")
    text = tlc.cfg_variant(SUB, "RetentionMC.cfg", subst={"MaxLen": maxlen, "MonotoneWin": mono})
    r = tlc.run(SUB, "RetentionMC", "RetentionMC.cfg", cfg_text=text, timeout=1800, coverage=False,
                out_name="ret_mc_%s_%s" % (focus, ctx.tier))
    r["constants"] = ["MaxLen=%d" % maxlen, "MonotoneWin=%s" % mono, 'Variant="repo"', 'Known={"expired_barrier"}']
    r["invariants"] = ["InvSubset", "InvReads", "InvHistoryK"]
    ctx.add_tlc(r)
    # export all cases (same constants)
    text = tlc.cfg_variant(SUB, "RetentionMC.cfg", subst={"MaxLen": maxlen, "MonotoneWin": mono},
                           drop=["INVARIANTS"], add=["ACTION_CONSTRAINT Export"])
    rx = tlc.run(SUB, "RetentionMC", "RetentionMC_export.cfg", cfg_text=text, timeout=1800, coverage=False,
                 out_name="ret_export_%s_%s" % (focus, ctx.tier))
    trace = os.path.join(core.WORK, "ret_%s_%s.ndjson" % (focus, ctx.tier))
    s = core.run_driver("retention_run", [rx["out"], trace])
    os.remove(rx["out"])
    if s["cases"] == 0:
        raise core.ToolError("no retention cases exported")
    ctx.add_driver(s)
    for v in s["violations"]:
        ctx.violation({"driver": "retention_run", "case": v.get("case")}, signature={"class": v.get("kind")},
                      what="compaction iterator: %s" % v.get("kind"))
    # property predicates evaluated by TLC on the real outputs
    rt = tlc.run(SUB, "RetentionTrace", "RetentionTrace.cfg", timeout=3000, coverage=False,
                 env={"TRACE": trace}, out_name="ret_trace_%s_%s" % (focus, ctx.tier))
    recs = [json.loads(l) for l in open(trace)]
    n = 0
    counts = {"reads_fail": 0, "latest_fail": 0, "lost": 0, "resurrected": 0, "conf_fail": 0}
    for line in open(rt["out"], errors="replace"):
        if not line.startswith('"VERDICT '):
            continue
        v = json.loads(json.loads(line)[len("VERDICT "):])
        rec = recs[v["n"] - 1]
        n += 1
        if not v["conf"]:
            counts["conf_fail"] += 1
        if not v["reads"]:
            counts["reads_fail"] += 1
        if not v["latest"]:
            counts["latest_fail"] += 1
        if v["lost"]:
            counts["lost"] += 1
        if v["resurrected"]:
            counts["resurrected"] += 1
        rp = {"driver": "retention_run", "case": rec}
        if focus == "C01" and not v["reads"]:
            ctx.violation(rp, {"class": "compaction_drops_version_read_by_snapshot", "bottom": rec["bottom"]},
                          "compaction output changes what a registered snapshot reads: %s" % json.dumps(rec))
        if focus == "C06" and not v["latest"]:
            ctx.violation(rp, {"class": "compaction_changes_latest_read", "bottom": rec["bottom"]},
                          "compaction output changes what the latest reader reads: %s" % json.dumps(rec))
        if focus == "C10" and (v["lost"] or v["resurrected"]):
            sig = {"class": "expired_barrier_dropped" if (v["resurrected"] and not v["lost"] and _expired_barrier(rec))
                   else ("retained_version_lost" if v["lost"] else "erased_version_reappears")}
            ctx.violation(rp, sig, "compaction output changes the version history: %s" % json.dumps(rec))
    if n != len(recs):
        raise core.ToolError("trace validation judged %d of %d cases (see %s)" % (n, len(recs), rt["out"]))
    os.remove(rt["out"])
    os.remove(trace)
    ctx.cov["traces_validated_against_impl"] += n
    ctx.cov.setdefault("retention", {}).update({"cases": n, "exhaustive": True, **counts})
    if counts["conf_fail"]:
        ctx.drift(counts["conf_fail"], "real compaction rule differs from spec/retention Rule(variant=repo) in %d cases"
                  % counts["conf_fail"])
    ctx.assumptions.append(
        "retention: all version lists of one key up to %d versions x 4 kinds x all snapshot subsets x bottom x versioning "
        "x retention window flags (%s); `below` = nothing or one older live value" % (maxlen, "monotone" if mono == "TRUE" else "arbitrary"))


def replay(ctx, rp, focus):
    """re-run one recorded case"""
    import tempfile
    core.build_harness(["retention_run"])
    case = rp["case"]
    src = os.path.join(core.WORK, "ret_replay_in.ndjson")
    trace = os.path.join(core.WORK, "ret_replay.ndjson")
    c = dict(case)
    c.setdefault("out", [])
    with open(src, "w") as f:
        f.write(json.dumps(c) + "\n")
    s = core.run_driver("retention_run", [src, trace])
    for v in s["violations"]:
        ctx.violation({"driver": "retention_run", "case": v.get("case")}, {"class": v.get("kind")}, str(v.get("kind")))
    rt = tlc.run(SUB, "RetentionTrace", "RetentionTrace.cfg", timeout=600, coverage=False, env={"TRACE": trace},
                 out_name="ret_trace_replay")
    recs = [json.loads(l) for l in open(trace)]
    for line in open(rt["out"], errors="replace"):
        if line.startswith('"VERDICT '):
            v = json.loads(json.loads(line)[len("VERDICT "):])
            rec = recs[v["n"] - 1]
            bad = ((focus == "C01" and not v["reads"]) or (focus == "C06" and not v["latest"]) or
                   (focus == "C10" and (v["lost"] or v["resurrected"])))
            core.log("replayed case: real output %s, verdict %s" % (rec["real"], v))
            if bad:
                sig = {"class": "expired_barrier_dropped"} if (focus == "C10" and v["resurrected"] and not v["lost"]
                                                              and _expired_barrier(rec)) else {"class": "replayed"}
                ctx.violation({"driver": "retention_run", "case": rec}, sig, "reproduced")
