"""C17 — commits and shutdown always complete (pipeline part; see checks/_commit.py)."""
from checks import _background, _commit
from vlib import core

MANIFEST = {
    "engine": _commit.ENGINE, "category": "model_checking",
    "text": ("NoOverflow / PermitsSane (safety) and AllReturn (liveness: every commit call returns, under weak fairness of every "
             "thread; TLC with the fair specification, no state constraint) are model checked; " + _commit.COMMON_TEXT +
             " C17 judges: after every schedule all committers are released and every commit() must return; a panic "
             "(queue overflow) or a committer that never returns is a violation."),
    "design_ref": "DESIGN.md §4 C17",
    "note": _commit.COMMON_NOTE + " Write stalls, background flush wake-ups and close() racing commits are not in this model yet.",
    "technique": "TLA+ model checking incl. liveness (TLC) + interleaving replay on the real commit pipeline",
}


def run(ctx):
    core.build_harness(["commit_sched", "close_race", "bg_sched", "visibility_stress"])
    _commit.model_check(ctx, faults=1)
    if not ctx.quick:
        _commit.model_check(ctx, faults=2, txns='{"t1", "t2", "t3", "t4"}', wr="MCWr2")
    _commit.liveness(ctx)
    _commit.directed(ctx)
    _commit.close_race(ctx)
    _commit.replay_schedules(ctx, "edge", faults=1)
    if not ctx.quick:
        _commit.replay_schedules(ctx, "edge4", faults=2, txns='{"t1", "t2", "t3", "t4"}', wr="MCWr2",
                                 extra={"MaxSteps": 14})
    # the background protocol: write stall, flush task, level task, close (spec/background)
    _background.model_check(ctx)
    _background.teeth(ctx)
    _background.replay_schedules(ctx)
    _background.stall_stress(ctx)
    ctx.cov["exhaustive"] = True
    ctx.cov["rule"] = "edge cover of the bounded Commit state graph; every schedule drained to completion"


def replay(ctx, doc):
    if doc["replay"].get("driver") == "bg_sched":
        _background.replay(ctx, doc["replay"])
    else:
        _commit.replay(ctx, doc["replay"])
