"""C17 — commits and shutdown always complete (pipeline part; see checks/_commit.py)."""
from checks import _background, _commit
from vlib import core

MANIFEST = {
    "engine": _commit.ENGINE, "category": "model_checking",
    "text": ("NoOverflow / PermitsSane (safety) and AllReturn (liveness: every commit call returns, under weak fairness of every "
             "thread; TLC with the fair specification, no state constraint) are model checked; " + _commit.COMMON_TEXT +
             " C17 judges: after every schedule all committers are released and every commit() must return; a panic "
             "(queue overflow) or a committer that never returns is a violation. The background protocol (write stall, "
             "rotation, flush task, level-compaction task with the real level scores, close) is a second module, "
             "spec/background/Background.tla: TLC checks FlushScheduled / CompactionScheduled / ImmBounded / NeverStuck and "
             "the liveness properties CommitReturns / CloseReturns under weak fairness; the model of the pinned behaviour must "
             "still yield its two deadlock counterexamples, which run as directed schedules on the real engine; the edge cover "
             "and long random behaviours of the current model are enforced on a real Tree (writers, both background tasks and "
             "close() held at hook gates), the model state is compared after every schedule and then everything runs freely "
             "and must come to an end; hook-free stall stress with tiny level targets."),
    "design_ref": "DESIGN.md §4 C17",
    "note": _commit.COMMON_NOTE + " Background model: 2-3 writers, every commit fills a memtable, limits 2-3, 3-4 levels with targets of 1-2 "
            "memtables, <= 12 commits; flush / compaction failures and the error handler are not modelled.",
    "technique": "TLA+ model checking incl. liveness (TLC) of the commit pipeline and of the background protocol + interleaving replay of TLC schedules on a real Tree (gate scheduler) + hook-free stall stress",
}


def run(ctx):
    core.build_harness(["commit_sched", "close_race", "bg_sched", "visibility_stress"])
    _commit.model_check(ctx, faults=1)
    if not ctx.quick:
        _commit.model_check(ctx, faults=2, txns='{"t1", "t2", "t3", "t4"}', wr="MCWr2")
    _commit.liveness(ctx)
    _commit.directed(ctx)
    _commit.close_race(ctx)
    _commit.replay_schedules(ctx, "edge", faults=1)
    if not ctx.quick:
        _commit.replay_schedules(ctx, "edge4", faults=2, txns='{"t1", "t2", "t3", "t4"}', wr="MCWr2",
                                 extra={"MaxSteps": 14})
    # the background protocol: write stall, flush task, level task, close (spec/background)
    _background.model_check(ctx)
    _background.model_check_failures(ctx)
    from checks import _ckptcut
    _ckptcut.stall_wake(ctx)     # the second flusher (create_checkpoint) and the compaction task's wake-up
    _background.teeth(ctx)
    _background.replay_schedules(ctx)
    _background.stall_stress(ctx)
    ctx.cov["exhaustive"] = True
    ctx.cov["rule"] = "edge cover of the bounded Commit state graph; every schedule drained to completion"


def replay(ctx, doc):
    if doc["replay"].get("driver") == "bg_sched":
        _background.replay(ctx, doc["replay"])
    else:
        _commit.replay(ctx, doc["replay"])
