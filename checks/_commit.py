"""Shared by C04 / C05 / C15 / C17: spec/commit (the commit pipeline) <-> the pipeline of a real Tree."""
import json
import os

from vlib import core, tlc

SUB = "commit"

# which violation kinds of the drivers belong to which property
OWNER = {
    "both_overlapping_writers_committed": "C04",
    "final_state_wrong": "C04",
    "not_a_prefix_of_commit_order": "C05",
    "acknowledged_commit_not_visible": "C05",
    "acknowledged_commit_incomplete": "C05",
    "snapshot_changed": "C05",
    "scan_differs_from_get": "C05",
    "commit_error": "C05",
    "failed_commit_visible": "C15",
    "failed_commit_replayed_after_reopen": "C15",
    "later_commit_refused": "C15",
    "wrong_content": "C15",
    "reopen_refused": "C15",
    "commit_never_returns": "C17",
    "close_never_returns": "C17",
    "acknowledged_commit_lost": "C02",
    "panic_in_commit": "C17",
    "panic": "C17",
    "engine_error": "C17",
    "scan_error": "C15",
}


def model_check(ctx, faults=1, txns='{"t1", "t2", "t3"}', wr="MCWr"):
    text = tlc.cfg_variant(SUB, "CommitMC.cfg", subst={"MaxFaults": faults, "Txns": txns, "Wr": wr})
    r = tlc.run(SUB, "CommitMC", "CommitMC.cfg", cfg_text=text, timeout=3000, coverage=False,
                out_name="commit_mc_%s_%s" % (ctx.pid, ctx.tier))
    r["constants"] = ["Txns=%s" % txns, "Keys={k1,k2}", "Wr=%s" % wr, "Slots=3", "GcInterval=2", "MaxFaults=%d" % faults,
                      'Variant="repo"']
    r["invariants"] = tlc._parse_cfg_list(os.path.join(core.SPEC, SUB, "CommitMC.cfg"), "INVARIANT")
    ctx.add_tlc(r)
    return r


def liveness(ctx):
    r = tlc.run(SUB, "CommitLiveMC", "CommitLive.cfg", timeout=3000, coverage=False,
                out_name="commit_live_%s_%s" % (ctx.pid, ctx.tier))
    r["invariants"] = ["PROPERTY AllReturn under FairSpec (WF of every thread's steps)"]
    ctx.add_tlc(r)
    return r


def overflow_schedule(slots=8):
    """TLC's NoOverflow counterexample (Variant "orig", Slots=3: holder in apply, Slots-1 failed commits queued
    behind it, one more commit) scaled to the real MAX_CONCURRENT_COMMITS."""
    wr, steps = {"t1": ["k1"]}, []

    def st(a, t):
        steps.append({"a": a, "t": t, "x": 0})
    st("Begin", "t1"), st("Enter", "t1"), st("Critical", "t1")
    for i in range(2, slots + 1):
        t = "t%d" % i
        wr[t] = ["k2"]
        st("Begin", t), st("Enter", t), st("CriticalLogFail", t), st("PStep", t)
    t = "t%d" % (slots + 1)
    wr[t] = ["k2"]
    st("Begin", t), st("Enter", t), st("Critical", t)
    return {"cex": "NoOverflow(scaled to 8 slots)", "wr": wr, "steps": steps, "expect": {"res": {}}}


# the directed crash / close scenarios run under C02 (and C17): a store that cannot be reopened there has lost the
# acknowledged commits with it
DIRECTED_OWNER = {"reopen_refused": "C02", "commit_after_recovery_shadowed_or_refused": "C02"}


def _report(ctx, s, driver, extra_args=None):
    for v in s["violations"]:
        kind = str(v.get("kind"))
        owner = OWNER.get(kind, ctx.pid)
        if driver in ("close_race", "flush_race", "recovery_split"):
            owner = DIRECTED_OWNER.get(kind, owner)
        if driver == "oracle_gc":
            owner = ctx.pid
        if owner != ctx.pid:
            ctx.cov["reported_by_sibling"] = ctx.cov.get("reported_by_sibling", 0) + 1
            continue
        sig = {"class": kind}
        if v.get("fault"):
            sig["fault"] = v["fault"]
        body = {"driver": driver, "args": extra_args or []}
        if "schedule" in v:
            body["schedule"] = v["schedule"]
        if "case" in v:
            body["case"] = v["case"]
        what = "%s: %s" % (kind, json.dumps({k: v[k] for k in v if k not in ("schedule", "kind")})[:300])
        ctx.violation(body, sig, what)
    # per-kind totals beyond the examples kept by the driver
    for kind, n in (s.get("violation_kinds") or {}).items():
        ctx.cov.setdefault("violation_kinds", {})[kind] = ctx.cov.get("violation_kinds", {}).get(kind, 0) + n


def replay_schedules(ctx, name, faults=1, txns='{"t1", "t2", "t3"}', wr="MCWr", sim=None, depth=None, extra=None):
    text = tlc.cfg_variant(SUB, "CommitMC.cfg", subst=dict({"MaxFaults": faults, "Txns": txns, "Wr": wr}, **(extra or {})),
                           drop=["INVARIANTS"], add=["ACTION_CONSTRAINT Export"])
    r = tlc.run(SUB, "CommitMC", "CommitMC_%s_x.cfg" % name, cfg_text=text, timeout=3000, coverage=False,
                out_name="commit_x_%s_%s_%s" % (ctx.pid, name, ctx.tier),
                mode="sim" if sim else "bfs", sim=sim, depth=depth, seed=ctx.seed, workers=4 if sim else None)
    s = core.run_driver("commit_sched", [r["out"], "--jobs", "12"], timeout=3000)
    os.remove(r["out"])
    if s["cases"] == 0:
        raise core.ToolError("no commit schedules exported (%s)" % name)
    ctx.add_driver(s)
    _report(ctx, s, "commit_sched")
    return s


def directed(ctx):
    """Counterexamples TLC finds for the PINNED behaviour (Variant "orig") become directed schedules: on the repaired
    code they must not reproduce. FCW: rollback erased the previous committer's stamp; NoOverflow: zombie batches."""
    path = os.path.join(core.WORK, "commit_cex_%s.ndjson" % ctx.pid)
    lines = []
    text = tlc.cfg_variant(SUB, "CommitMC.cfg", subst={"Variant": '"orig"', "MaxFaults": 2,
                                                       "Txns": '{"t1", "t2", "t3", "t4"}'},
                           drop=["INVARIANTS"], add=["INVARIANT CexFCW"])
    r = tlc.run(SUB, "CommitMC", "CommitMC_cexfcw.cfg", cfg_text=text, timeout=3000, coverage=False, must_pass=False,
                out_name="commit_cex_fcw_%s" % ctx.pid)
    for ln in open(r["out"], errors="replace"):
        if ln.startswith('"REPLAY '):
            lines.append(json.loads(ln)[len("REPLAY "):])
    os.remove(r["out"])
    if not lines:
        raise core.ToolError('TLC found no FCW counterexample for Variant "orig": the directed schedule is gone')
    lines = lines[:2] + [json.dumps(overflow_schedule())]
    with open(path, "w") as f:
        f.write("\n".join(lines) + "\n")
    s = core.run_driver("commit_sched", [path, "--jobs", "2"], timeout=600)
    os.remove(path)
    # the predictions in these schedules are those of the PINNED behaviour: differing from them is the point
    s["drift_count"], s["drift"] = 0, []
    ctx.add_driver(s)
    _report(ctx, s, "commit_sched")
    ctx.cov["directed_counterexamples"] = s["cases"]


def close_race(ctx):
    """directed: a commit parked at each yield point of the pipeline while close() runs (with and without flush_on_close);
    an acknowledged commit must be there after reopen, close() and commit() must both return."""
    for args in ([], ["--flush-on-close"]):
        s = core.run_driver("close_race", args, timeout=600)
        ctx.add_driver(s)
        _report(ctx, s, "close_race", args)


def flush_race(ctx):
    """directed: a commit parked at each yield point of the pipeline while its memtable is rotated away and flushed by
    someone else (flush all / rotate + flush one / rotate only); after a process crash both acknowledged commits must be
    there"""
    s = core.run_driver("flush_race", [], timeout=600)
    if s["cases"] == 0:
        raise core.ToolError("flush_race ran no case")
    ctx.add_driver(s)
    _report(ctx, s, "flush_race", [])


def recovery_split(ctx):
    """directed: the newest commit-log segment does not fit one memtable on replay (reopened with a smaller memtable), more
    commits follow, crash or close without flush: everything acknowledged must be there"""
    s = core.run_driver("recovery_split", [], timeout=600)
    if s["cases"] == 0:
        raise core.ToolError("recovery_split ran no case")
    ctx.add_driver(s)
    _report(ctx, s, "recovery_split", [])


def visibility_stress(ctx, runs):
    """hook-free: committers with tiny memtables (constant rotation / flush / compaction) and readers that begin right
    after an acknowledgement and must see it, whole and stable"""
    for i in range(runs):
        s = core.run_driver("visibility_stress", ["--commits", 6000, "--committers", 1 + i % 3, "--readers", 4], timeout=600)
        ctx.add_driver(s)
        _report(ctx, s, "visibility_stress", ["--commits", 6000, "--committers", 1 + i % 3])


def size_sweep(ctx, cases):
    s = core.run_driver("commit_size_sweep", ["--seed", ctx.seed, "--cases", cases], timeout=1200)
    ctx.add_driver(s)
    _report(ctx, s, "commit_size_sweep")
    return s


def replay(ctx, rp):
    if rp.get("driver") == "visibility_stress":
        s = core.run_driver("visibility_stress", rp.get("args", []))
        _report(ctx, s, "visibility_stress", rp.get("args", []))
        return
    if rp.get("driver") == "oracle_gc":
        s = core.run_driver("oracle_gc", [])
        _report(ctx, s, "oracle_gc")
        return
    if rp.get("driver") == "recovery_split":
        s = core.run_driver("recovery_split", [])
        _report(ctx, s, "recovery_split", [])
        return
    if rp.get("driver") == "flush_race":
        s = core.run_driver("flush_race", [])
        _report(ctx, s, "flush_race", [])
        return
    if rp.get("driver") == "close_race":
        s = core.run_driver("close_race", rp.get("args", []))
        _report(ctx, s, "close_race", rp.get("args", []))
        return
    if rp.get("driver") == "commit_size_sweep":
        s = core.run_driver("commit_size_sweep", ["--case", json.dumps(rp["case"])])
        _report(ctx, s, "commit_size_sweep")
        return
    path = os.path.join(core.WORK, "commit_replay.ndjson")
    with open(path, "w") as f:
        f.write(json.dumps(rp["schedule"]) + "\n")
    s = core.run_driver("commit_sched", [path, "--jobs", "1"])
    os.remove(path)
    for v in s["violations"]:
        core.log("reproduced: %s" % json.dumps({k: v[k] for k in v if k != "schedule"})[:400])
    _report(ctx, s, "commit_sched")


COMMON_TEXT = ("TLC checks the bounded Commit model (the pipeline as the code runs it: begin, permit, one critical section "
               "under the write mutex with oracle check / sequence allocation / stamp publication with pruning / enqueue / "
               "log append, apply outside the mutex, applied flag, multi-consumer publish loop, completion) with 3-4 "
               "committers, 2 keys, queue of 3 slots, GC interval 2 and injected log / apply failures; every explored "
               "transition is exported as a schedule and replayed on the pipeline of a real Tree, each committer held at "
               "the yield points in CommitPipeline::commit/publish by the gate scheduler, with a probe reader after every "
               "step and a final judgement on the real start / sequence / result values. Zero-drift conformance: the yield "
               "point reached after every step and every result are compared with the spec's prediction.")
COMMON_NOTE = ("Bounds: 3 committers (4 for the directed counterexamples), batches of 1-2 entries, <= 1-2 injected faults; the "
               "real GC interval (1024) is not reached by these schedules (pruning is explored in the model only). "
               "Trusted: TLC, the gate scheduler, the drivers' judgement code.")
ENGINE = {"name": "commit", "path": "spec/commit",
          "kind_free_text": "TLA+ Commit/CommitMC/CommitLiveMC (TLC safety + liveness) -> harness commit_sched (gate scheduler on a "
                            "real Tree), commit_size_sweep"}
