"""C02 — acknowledged commits survive crashes (see checks/_storage.py)."""
from checks import _commit, _storage

MANIFEST = {
    "engine": {"name": "storage", "path": "spec/storage, shim/fsrec.c",
               "kind_free_text": "TLA+ Storage/StorageMC/StorageTrace (TLC); LD_PRELOAD file-system recorder -> crash images at operation boundaries under two crash models "
                                 "-> real recovery in a child process -> oracle from the abstract commit history"},
    "category": "model_checking",
    "text": ("Seeded workloads (tiny memtables so that rotation / flush / compaction / WAL clean-up run constantly; immediate and "
             "eventual durability mixed; explicit WAL flushes) run on a real Tree under a recorder of every file-system "
             "operation; for crash instants around every rename / unlink / fsync / create and every acknowledgement, the "
             "directory is rebuilt as of that instant under the process-crash and the power-loss model, reopened by the real "
             "recovery code, and must contain every transaction acknowledged before that instant (immediate / synced ones for "
             "power loss); a sample of recovered images receives further commits and is crashed again (later sessions)."),
    "design_ref": "DESIGN.md §4 C02",
    "note": ("Single committer per workload (the commit order is the issue order); 8 option sets, two of them with scripted "
             "rotation / flush-one / compaction so that several immutable memtables are pending at the crash instants; directed "
             "gate-scheduler scenarios for a commit in flight during close() and during a rotation + flush by someone else; power-loss images: all unsynced "
             "appended bytes dropped / half of them kept; namespace operations kept in order as the property's crash model says. "
             "spec/storage/Storage.tla is model checked (every reachable state = a crash instant, both models; the model of the "
             "pinned behaviour must still violate all four invariants) and bound to the code by StorageTrace.tla, which "
             "validates the abstracted operation log of every workload: mechanism rules at every real step, Obs_* on every image."),
    "technique": "TLA+ model checking of the storage model (TLC) + trace validation of recorded executions + crash-image enumeration on the real engine",
}


def run(ctx):
    _storage.model_check(ctx)
    tot = _storage.run_sweep(ctx, ctx.pick(18, 96), ctx.pick(120, 2000), ["process", "synced", "mid"], gen2=ctx.pick(1, 4))
    _commit.close_race(ctx)      # a commit in flight while close() flushes and retires the commit log
    _commit.flush_race(ctx)      # ... while its memtable is rotated away and flushed by someone else
    _commit.recovery_split(ctx)  # recovery that has to split the newest segment, then more commits, then a crash
    ctx.cov["evaluations"] = tot["images"] + tot["gen2_images"]
    ctx.cov["distinct_nontrivial"] = tot["images"]
    ctx.cov["rule"] = ("one evaluation = one (workload, crash instant, crash model) image reopened by the real recovery code; "
                       "non-trivial = the image differs from every other by instant or model (counted: images of generation 1)")


def replay(ctx, doc):
    if doc["replay"].get("driver") in ("close_race", "flush_race", "recovery_split"):
        _commit.replay(ctx, doc["replay"])
    else:
        _storage.replay(ctx, doc["replay"])
