"""C04 — no lost updates: first committer wins (see checks/_commit.py)."""
from checks import _commit
from vlib import core

MANIFEST = {
    "engine": _commit.ENGINE, "category": "model_checking",
    "text": ("FCW, LoserLeavesNothing, NoSpuriousConflict (fault-free) and the conflict-window pruning invariants are model "
             "checked; " + _commit.COMMON_TEXT + " C04 judges: no two overlapping writers both commit unless the later began "
             "after the earlier's last sequence number, losers leave nothing, final state = newest committed writer per key."),
    "design_ref": "DESIGN.md §4 C04", "note": _commit.COMMON_NOTE,
    "technique": "TLA+ model checking (TLC) + interleaving replay on the real commit pipeline (gate scheduler)",
}


def run(ctx):
    core.build_harness(["commit_sched", "oracle_gc"])
    _commit.model_check(ctx, faults=1)
    if not ctx.quick:
        _commit.model_check(ctx, faults=2, txns='{"t1", "t2", "t3", "t4"}')
    _commit.directed(ctx)
    _commit.replay_schedules(ctx, "edge", faults=1)
    if not ctx.quick:
        _commit.replay_schedules(ctx, "sim4", faults=2, txns='{"t1", "t2", "t3", "t4"}', sim=3000, depth=40)
    # the conflict window while the oracle's map is pruned, at the real GC interval (1024 publishes): the pruning step the
    # model explores with GcInterval = 2, scaled up (hook-free)
    s = core.run_driver("oracle_gc", [], timeout=900)
    if s["cases"] == 0:
        raise core.ToolError("oracle_gc ran no case")
    ctx.add_driver(s)
    _commit._report(ctx, s, "oracle_gc")
    ctx.cov["exhaustive"] = True
    ctx.cov["rule"] = "edge cover of the bounded Commit state graph + directed counterexamples of the pinned behaviour"
    ctx.assumptions += ["NoSpuriousConflict is claimed for fault-free executions only (DESIGN §7)",
                        "64-bit key fingerprint collisions in the oracle are not modelled"]


def replay(ctx, doc):
    _commit.replay(ctx, doc["replay"])
