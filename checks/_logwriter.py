"""spec/storage/LogWriter.tla: one commit-log segment behind its buffered writer with write / fsync failures.
The repository's behaviour (cut the failed record back, fsync, fresh writer) satisfies NoTraceOfFailed / AckedDurable /
SyncOwed; the pinned behaviour (leave the writer as it is) and the first version of the repair (no fsync of the cut
file) must still violate theirs. The binding to the code is the fault sweep of checks/_storage.py."""
from vlib import core, tlc

INVS = ["NoTraceOfFailed", "AckedDurable", "SyncOwed"]


def _cfg(on_failure, invs, max_txn, max_faults):
    return ("SPECIFICATION Spec\nCONSTANTS\n    MaxTxn = %d\n    MaxFaults = %d\n    OnFailure = \"%s\"\nINVARIANTS %s\n"
            "CHECK_DEADLOCK FALSE\n" % (max_txn, max_faults, on_failure, " ".join(invs)))


def model_check(ctx):
    r = tlc.run("storage", "LogWriter", "LogWriter_repo.cfg", cfg_text=_cfg("rollback", INVS, ctx.pick(4, 6), ctx.pick(2, 3)),
                timeout=900, coverage=False, workers=4, out_name="logwriter_%s" % ctx.pid)
    r["constants"] = ["MaxTxn=%d" % ctx.pick(4, 6), "MaxFaults=%d" % ctx.pick(2, 3), 'OnFailure="rollback"']
    r["invariants"] = INVS
    ctx.add_tlc(r)
    for variant, inv in (("leave", "NoTraceOfFailed"), ("rollback_nosync", "SyncOwed")):
        t = tlc.run("storage", "LogWriter", "LogWriter_%s.cfg" % variant, cfg_text=_cfg(variant, [inv], 4, 2), timeout=600,
                    coverage=False, workers=2, must_pass=False, out_name="logwriter_%s_%s" % (variant, ctx.pid))
        if inv not in t["violated"]:
            raise core.ToolError('LogWriter with OnFailure = "%s" no longer violates %s' % (variant, inv))
    ctx.cov["logwriter_pinned_variants_violate"] = ["leave: NoTraceOfFailed", "rollback_nosync: SyncOwed"]
