"""C05 — commits become visible atomically, in one real-time-consistent total order (see checks/_commit.py)."""
from checks import _commit
from vlib import core

MANIFEST = {
    "engine": _commit.ENGINE, "category": "model_checking",
    "text": ("AtomicVis (the horizon is never inside a batch and covers only complete batches), RealTime, PrefixVis are model "
             "checked; " + _commit.COMMON_TEXT + " C05 judges the probe reader begun after EVERY step of every schedule: what "
             "it sees is a whole-batch prefix of the commit order, never moves backwards, and includes every commit that has "
             "returned Ok; batches around the memtable capacity (rotation in the middle of an apply) are swept on a real Tree."),
    "design_ref": "DESIGN.md §4 C05", "note": _commit.COMMON_NOTE,
    "technique": "TLA+ model checking (TLC) + interleaving replay with probe readers on the real commit pipeline",
}


def run(ctx):
    core.build_harness(["commit_sched", "commit_size_sweep", "visibility_stress"])
    _commit.model_check(ctx, faults=1)
    _commit.replay_schedules(ctx, "edge", faults=1)
    _commit.size_sweep(ctx, ctx.pick(60, 600))
    _commit.visibility_stress(ctx, ctx.pick(3, 30))
    if not ctx.quick:
        _commit.replay_schedules(ctx, "sim4", faults=1, txns='{"t1", "t2", "t3", "t4"}', sim=3000, depth=40)
    ctx.cov["exhaustive"] = True
    ctx.cov["rule"] = "edge cover of the bounded Commit state graph, probe reader after every step"


def replay(ctx, doc):
    _commit.replay(ctx, doc["replay"])
