"""C11 machinery: spec/vlog (TLC) <-> harness vlog_run (real Tree), and the value-log crash sweep.

Three bindings of spec/vlog/Vlog.tla to the code:
  * scenario replay (spec -> impl): every transition TLC explores in VlogMC is exported with the observations the
    PROPERTY prescribes and executed on a real Tree by `vlog_run replay` (Reachable on the walked pointers, Intact on
    every read, conformance of the model's bookkeeping as drift);
  * counterexample replay: invariants the repository is known to break are checked through `Cex(..)`, the schedules
    TLC prints are replayed - reproduced => VIOLATION (or KNOWN-FINDING), not reproduced => the model is wrong;
  * crash images (impl -> property, aimed by the spec's crash actions): `vlog_run record` under shim/fsrec.so, images at
    file-system operation boundaries under process / power-loss models including byte-granular cuts of the value-log
    files, reopened by `vlog_run reopen` in a child process; and the recorded operation log itself is validated against
    spec/vlog/VlogTrace.tla (fsync-before-install, unlink only below the live minimum) by TLC.
"""
import json
import os
import random
import shutil
import subprocess
import time
from concurrent.futures import ProcessPoolExecutor

from checks import _storage
from vlib import core, fsimage, tlc

SUB = "vlog"
BASE = {"Keys": '{"k1", "k2"}', "Readers": '{"r1"}', "NLevels": 2, "FileCap": 1, "Versioning": "FALSE", "Finite": "FALSE",
        "UseIndex": "FALSE", "Granular": "FALSE", "SyncOnRotate": "TRUE", "CleanupRule": '"no_cursors"',
        "HeaderCheck": '"lenient"', "CommitChoices": '{"SetB", "SetS", "Del"}', "CursorKinds": '{"range"}',
        "MaxCommits": 3, "MaxFlushes": 2, "MaxCompactions": 1, "MaxReopens": 0, "MaxCrashes": 0, "MaxSteps": 8,
        "TwoPhase": "FALSE", "HandleSteps": "FALSE"}
SCENARIO_INVS = ["LiveReachable", "IndexReachable", "LiveDurable", "ReadsIntact", "LatestIntact", "CursorIntact",
                 "HistCursorIntact", "HistNowIntact", "ActiveInDir", "HandlesInDir", "OldestExact"]
CRASH_INVS = ["LiveReachable", "IndexReachable", "LiveDurable", "LatestIntact", "HistNowIntact", "Reopens", "ActiveInDir",
              "HandlesInDir"]
# the behaviour before the two repairs (56ef569, 302562c), kept as "teeth" runs: the model of the pinned behaviour must
# still produce its counterexamples, and they must not reproduce on the repaired code
PINNED = {"CleanupRule": '"min_live"', "HeaderCheck": '"strict"'}
JOBS = "12"


def _cfg(over, invariants=None, add=None):
    c = dict(BASE, **over)
    extra = list(add or [])
    if invariants:
        extra.append("INVARIANTS " + " ".join(invariants))
    return c, tlc.cfg_variant(SUB, "VlogMC.cfg", subst=c, drop=["INVARIANTS"], add=extra)


def model_check(ctx, name, invariants, actions=None, workers=None, cex=None, **over):
    """exhaustive check of the bounded model; the invariants are the property. `cex` = (Cex-invariant, label): an
    invariant the repository is known to break, checked through the Cex idiom in the same run; the number of violating
    states is returned in r["cex"]."""
    c, text = _cfg(over, invariants + ([cex[0]] if cex else []))
    r = tlc.run(SUB, "VlogMC", "VlogMC_%s.cfg" % name, cfg_text=text, timeout=3000, coverage=bool(actions), workers=workers,
                out_name="vlog_mc_%s_%s" % (name, ctx.tier))
    r["constants"] = ["%s=%s" % kv for kv in sorted(c.items())]
    r["invariants"] = invariants
    if actions:
        tlc.require_coverage(r, actions)
    ctx.add_tlc(r)
    if cex:
        r["cex"] = sum(1 for l in open(r["out"], errors="replace") if l.startswith('"CEX '))
        ctx.cov.setdefault("model_counterexamples", {})[cex[1]] = ctx.cov.get("model_counterexamples", {}).get(cex[1], 0) + r["cex"]
    os.remove(r["out"])
    return r


def counterexamples(ctx, name, cex_inv, limit=12, **over):
    """schedules leading to states that violate an invariant the repository is known to break (Cex idiom)"""
    c, text = _cfg(over, [cex_inv])
    r = tlc.run(SUB, "VlogMC", "VlogMC_%s.cfg" % name, cfg_text=text, timeout=3000, coverage=False,
                out_name="vlog_cex_%s_%s" % (name, ctx.tier))
    r["constants"] = ["%s=%s" % kv for kv in sorted(c.items())]
    r["invariants"] = [cex_inv]
    ctx.add_tlc(r)
    lines = [l for l in open(r["out"], errors="replace") if l.startswith('"CEX ')]
    os.remove(r["out"])
    lines.sort(key=len)          # shortest schedules first
    return lines[:limit], len(lines)


def _capped(ctx, sig, cap=3):
    """at most `cap` replay files per signature (one defect shows up in hundreds of scenarios / images)"""
    seen = ctx.cov.setdefault("violations_by_signature", {})
    key = json.dumps(sig, sort_keys=True)
    seen[key] = seen.get(key, 0) + 1
    return seen[key] > cap


def _report(ctx, s, driver_args):
    for kind, n in (s.get("violation_kinds") or {}).items():
        ctx.cov.setdefault("violation_kinds_seen", {})[kind] = ctx.cov.get("violation_kinds_seen", {}).get(kind, 0) + n
    for v in s["violations"]:
        sc = v.get("scenario") or {}
        ops = " ".join("%s(%s)" % (o["op"], ",".join(x for x in (o.get("a"), o.get("b")) if x)) for o in sc.get("ops", []))
        who = str(v.get("who", ""))
        sig = {"class": str(v.get("kind")), "cause": str(v.get("cause", "")),
               "reader": "pinned_hist" if "pinned_hist" in who else ("pinned_range" if "pinned_range" in who else
                                                                     ("latest" if who == "latest" else "open"))}
        detail = {k: v.get(k) for k in ("key", "seq", "want", "got", "file", "offset", "origin", "error", "message") if v.get(k) is not None}
        if _capped(ctx, sig):
            continue
        ctx.violation({"driver": "vlog_run", "args": driver_args, "scenario": {"ops": sc.get("ops"), "expect": sc.get("expect")}},
                      sig, "%s %s after %s" % (v.get("kind"), json.dumps(detail)[:300], ops))


def replay_file(ctx, path, driver_args, what):
    s = core.run_driver("vlog_run", ["replay", path] + driver_args + ["--jobs", JOBS], timeout=3000)
    if s["cases"] == 0:
        raise core.ToolError("no vlog scenarios to replay (%s)" % what)
    ctx.add_driver(s)
    ex = s.get("extra") or {}
    tot = ctx.cov.setdefault("size_classes_compared", {})
    for k, n in (ex.get("size_classes") or {}).items():
        tot[k] = tot.get(k, 0) + n
    for k, n in (ex.get("counters") or {}).items():
        ctx.cov["replay_" + k] = ctx.cov.get("replay_" + k, 0) + n
    _report(ctx, s, driver_args)
    return s


def export_and_replay(ctx, name, driver_args, sim=None, depth=None, cex=None, **over):
    """`cex` = (Cex-invariant, label, violation kind): the schedules of the states that break an invariant the repository
    is known to break are exported in the same run and must reproduce on the real engine as `violation kind`."""
    c, text = _cfg(over, [cex[0]] if cex else None, add=["ACTION_CONSTRAINT Export"])
    r = tlc.run(SUB, "VlogMC", "VlogMC_%s_x.cfg" % name, cfg_text=text, timeout=3000, coverage=False,
                out_name="vlog_x_%s_%s" % (name, ctx.tier), mode="sim" if sim else "bfs", sim=sim, depth=depth,
                seed=ctx.seed, workers=4 if sim else None)
    s = replay_file(ctx, r["out"], driver_args, name)
    if cex:
        n = sum(1 for l in open(r["out"], errors="replace") if l.startswith('"CEX '))
        ctx.cov.setdefault("model_counterexamples", {})[cex[1]] = n
        hit = (s.get("violation_kinds") or {}).get(cex[2], 0)
        if n and not hit:
            raise core.ToolError("the model breaks %s (%d states) but no schedule reproduces on the real engine as %s: the "
                                 "model no longer describes the code" % (cex[1], n, cex[2]))
        if hit and not n:
            ctx.drift(1, "the real engine shows %s but the model says %s holds" % (cex[2], cex[1]))
        core.log("[cex] %s: %d violating states in the model, %d scenarios reproduce it on the real engine" % (cex[1], n, hit))
    os.remove(r["out"])
    core.log("[replay] %s: %d scenarios, %d violations, %d drift (%s)" % (name, s["cases"], s["violation_count"],
                                                                        s.get("drift_count", 0), " ".join(driver_args)))
    return s


def teeth(ctx, name, cex_inv, label, driver_args, **over):
    """the model of the PINNED (pre-repair) behaviour must still break `label`; the schedules it prints are replayed on
    the real engine, where they must pass now (a reproduction is reported as a violation by the replay itself)"""
    lines, total = counterexamples(ctx, name, cex_inv, **dict(PINNED, **over))
    ctx.cov.setdefault("teeth", {})[label] = {"pinned_model_counterexamples": total, "replayed": len(lines)}
    if total == 0:
        raise core.ToolError("the model of the pinned behaviour no longer breaks %s: the teeth run is vacuous" % label)
    if driver_args is None:
        return total
    path = os.path.join(core.WORK, "vlog_teeth_%s_%d.ndjson" % (name, os.getpid()))
    with open(path, "w") as f:
        f.writelines(lines)
    s = core.run_driver("vlog_run", ["replay", path] + driver_args + ["--jobs", JOBS], timeout=3000)
    os.remove(path)
    if s["cases"] == 0:
        raise core.ToolError("teeth run %s replayed nothing" % name)
    # the expectations in these lines are the pinned model's: its bookkeeping differs from the repaired code by design
    s["drift_count"], s["drift"] = 0, []
    ctx.add_driver(s)
    _report(ctx, s, driver_args)
    ctx.cov["teeth"][label]["reproduced_on_repaired_code"] = s["violation_count"]
    core.log("[teeth] %s: %d counterexamples in the pinned model, %d replayed on the repaired code, %d reproduce" % (
        label, total, len(lines), s["violation_count"]))
    return total


# ---------------------------------------------------------------------------------------------------------------------
# crash sweep

class VFs(fsimage.FsState):
    """crash models of lib/vlib/fsimage.py plus models that single out the value-log files:
         vsynced : value-log files keep only what was fsynced, every other file keeps everything
         vcut:N  : value-log files keep what was fsynced plus N bytes, every other file keeps everything"""

    def content(self, r, model, rng=None):
        if model == "vsynced" or model.startswith("vcut:"):
            if not r.endswith(".vlog"):
                return bytes(self.files[r])
            cur = bytes(self.files[r])
            sy = self.synced.get(r, b"")
            if r in self.inplace or not cur.startswith(sy):
                return sy
            n = 0 if model == "vsynced" else int(model.split(":")[1])
            return cur[:len(sy) + min(n, len(cur) - len(sy))]
        return super().content(r, model, rng)

    def vlog_unsynced(self):
        out = {}
        for r, cur in self.files.items():
            if r.endswith(".vlog"):
                sy = self.synced.get(r, b"")
                if bytes(cur).startswith(sy) and len(cur) > len(sy):
                    out[r] = len(cur) - len(sy)
        return out


WORKLOADS = [
    # (options of the store, driver flags, transactions)
    ({"memtable": 32768, "levels": 2, "l0": 2, "thr": 256, "vmax": 4096}, ["--explicit"], 40),
    ({"memtable": 16384, "levels": 3, "l0": 2, "thr": 256, "vmax": 2048}, [], 45),
    ({"memtable": 32768, "levels": 2, "l0": 2, "thr": 64, "vmax": 32}, ["--explicit"], 30),
    ({"memtable": 24576, "levels": 2, "l0": 1, "thr": 1, "vmax": 3000, "full_checksum": True}, [], 40),
    ({"memtable": 32768, "levels": 2, "l0": 2, "versioning": True, "vmax": 1024}, ["--explicit"], 30),
    ({"memtable": 32768, "levels": 2, "l0": 2, "versioning": True, "index": True, "vmax": 2048}, ["--explicit", "--no-close"], 25),
]


def record(wdir, seed, opts, flags, txns, timeout=120):
    os.makedirs(wdir, exist_ok=True)
    db, log, meta = os.path.join(wdir, "db"), os.path.join(wdir, "ops0.log"), os.path.join(wdir, "meta0.json")
    for p in (log, meta):
        if os.path.exists(p):
            os.remove(p)
    env = dict(os.environ, FSREC_ROOT=db, FSREC_LOG=log, LD_PRELOAD=_storage.SHIM, RUST_BACKTRACE="0")
    cmd = [core.bin_path("vlog_run"), "record", "--dir", db, "--meta", meta, "--seed", str(seed), "--txns", str(txns),
           "--opts", json.dumps(opts)] + flags
    p = subprocess.run(cmd, env=env, stdout=subprocess.PIPE, stderr=subprocess.STDOUT, timeout=timeout, text=True, errors="replace")
    if not os.path.exists(meta):
        return None, {"driver_failed": (p.stdout or "")[-1500:], "exit": p.returncode}
    return fsimage.parse_log(log), json.load(open(meta))


def reopen(image, opts, meta_path, timeout=40):
    cmd = [core.bin_path("vlog_run"), "reopen", image, json.dumps(opts), meta_path, "--twice", "--probe"]
    try:
        p = subprocess.run(cmd, stdout=subprocess.PIPE, stderr=subprocess.PIPE, timeout=timeout, text=True, errors="replace",
                           env=dict(os.environ, RUST_BACKTRACE="0"))
    except subprocess.TimeoutExpired as e:
        err = e.stderr.decode(errors="replace") if isinstance(e.stderr, bytes) else (e.stderr or "")
        stages = [l for l in err.splitlines() if l.startswith("stage:")]
        return {"open": "hang", "stage": stages[-1] if stages else "?"}
    for line in (p.stdout or "").splitlines():
        if line.startswith("RESULT "):
            return json.loads(line[7:])
    return {"open": "crash:exit=%s %s" % (p.returncode, (p.stderr or "")[-300:].replace("\n", " "))}


def vlog_tickets(ops, budget, seed):
    """crash instants that matter to the value log. Always: the write that follows the creation of a value-log file (its
    header), both sides of every manifest switch, every unlink of a value-log file. Then, as the budget allows: around every
    other write / fsync of a value-log file, and the generic interesting instants."""
    must, hot = set(), set()
    fresh = set()
    for i, o in enumerate(ops):
        isv = o.p1.endswith(".vlog")
        if o.op == fsimage.OPEN and isv and (o.off & 1):
            fresh.add(o.p1)
            must.add(o.ticket)
        elif o.op == fsimage.WRITE and isv and o.p1 in fresh:
            fresh.discard(o.p1)
            must.add(o.ticket)
        elif o.op == fsimage.UNLINK and isv:
            must.add(o.ticket)
            if i > 0:
                must.add(ops[i - 1].ticket)
        elif o.op == fsimage.RENAME and "manifest" in o.p2:
            must.add(o.ticket)
            if i > 0:
                must.add(ops[i - 1].ticket)
        elif o.op in (fsimage.WRITE, fsimage.FSYNC) and isv:
            for j in range(max(0, i - 1), min(len(ops), i + 2)):
                hot.add(ops[j].ticket)
    rng = random.Random(seed)
    must = sorted(must)
    if len(must) > budget:
        # keep the first instants of every kind (early ones are the small, readable cases), sample the rest
        head, tail = must[:budget // 2], must[budget // 2:]
        rng.shuffle(tail)
        must = head + tail[:budget - len(head)]
    rest = sorted(hot - set(must))
    rng.shuffle(rest)
    room = max(0, budget - len(must))
    extra = rest[:room * 2 // 3]
    gen = [t for t in fsimage.interesting_tickets(ops, budget, seed) if t not in set(must) and t not in set(extra)]
    rng.shuffle(gen)
    return sorted(set(must) | set(extra) | set(gen[:max(0, room - len(extra))]))


def canonical_id(vid):
    """value id as `vlog_run reopen` reports it: a value too short to carry its whole tag has no transaction in its id"""
    txn, key, ln = vid.rsplit(":", 2)[0].split(":", 1)[0], vid.split(":")[1], int(vid.rsplit(":", 1)[1])
    tag = "%s:%s:%d|" % (txn, key, ln)
    return "short:%s:%d:%s" % (key, ln, tag[:ln]) if ln <= len(tag) else vid


def judge_image(res):
    """C11's share of what a reopened image shows: list of (class, cause, detail)"""
    out = []
    op = res.get("open", "")
    if op != "ok":
        cls = "reopen_hang" if op == "hang" else ("reopen_crash" if op.startswith("crash") else "reopen_refused")
        return [(cls, "", (op + " " + str(res.get("stage", "")))[:300])]
    for d in res.get("dangling") or []:
        out.append((d.get("kind"), "", json.dumps({k: d.get(k) for k in ("table", "file", "offset", "file_len", "key")})))
    for e in res.get("errors") or []:
        out.append((e.get("kind"), e.get("cause", ""), json.dumps(e)[:300]))
    if res.get("probe") not in (None, "ok"):
        out.append(("write_after_recovery_not_readable", "", str(res.get("probe"))[:300]))
    sec = res.get("second")
    if sec is not None and sec.get("open") == "ok":
        # (a second open that fails is C07's subject - unless the value log is what fails, see `vlog_refusal`)
        for e in sec.get("errors") or []:
            out.append(("second_" + str(e.get("kind")), e.get("cause", ""), json.dumps(e)[:300]))
    elif sec is not None and vlog_refusal(str(sec.get("open"))):
        out.append(("second_reopen_refused", "vlog", str(sec.get("open"))[:300]))
    return out


def vlog_refusal(msg):
    """is a refused open the value log's doing? Only used where the structural test (same image with complete value-log
    files opens) is not available: process-crash images and second opens. It decides which property reports the refusal
    (C07 reports all of them), not whether it is one."""
    return any(w in msg for w in ("VLog", "vlog", "File ID mismatch"))


def image_models(fs, o):
    """crash models for the instant after operation o"""
    models = ["process", "synced", "vsynced"]
    un = fs.vlog_unsynced()
    if un:
        m = max(un.values())
        # header torn at every position that matters, then first entry cut short, then all but one byte
        cuts = sorted({1, 3, 5, 9, 10, 30, 31, 32, 40, m // 2, m - 1} & set(range(1, m + 1)))
        models += ["vcut:%d" % c for c in cuts]
    else:
        models.append("mid")
    return models


def sweep_workload(task):
    wid, seed, opts, flags, txns, budget, keep_dir = task
    base = os.path.join(_storage.scratch(), "vsweep-%d-%s" % (os.getpid(), wid))
    shutil.rmtree(base, ignore_errors=True)
    out = {"wid": wid, "seed": seed, "opts": opts, "flags": flags, "images": 0, "ops": 0, "violations": [], "tickets": 0,
           "sibling": 0, "by_model": {}, "vlog_files_unlinked": 0, "vlog_files_created": 0, "trace": None}
    try:
        ops, meta = record(base, seed, opts, flags, txns)
        if ops is None:
            out["violations"].append({"class": "workload_driver_failed", "cause": "", "detail": json.dumps(meta)[:400]})
            return out
        if meta.get("open_failed"):
            out["violations"].append({"class": "reopen_refused", "cause": "", "detail": meta["open_failed"]})
            return out
        out["ops"] = len(ops)
        out["vlog_files_unlinked"] = sum(1 for o in ops if o.op == fsimage.UNLINK and o.p1.endswith(".vlog"))
        out["vlog_files_created"] = sum(1 for o in ops if o.op == fsimage.OPEN and (o.off & 1) and o.p1.endswith(".vlog"))
        mk = fsimage.marks(ops)
        states, _ = _storage.states_of(meta)
        states = [{k: canonical_id(v) for k, v in st.items()} for st in states]
        tickets = set(vlog_tickets(ops, budget, seed))
        out["tickets"] = len(tickets)
        db = os.path.join(base, "db")
        meta_path = os.path.join(base, "meta0.json")
        fs = VFs(db)
        out["trace"] = trace_events(ops, db)
        for o in ops:
            fs.apply(o)
            if o.ticket not in tickets:
                continue
            acked, synced, started = _storage.bounds(meta, mk, o.ticket, 1)
            for model in image_models(fs, o):
                img = os.path.join(base, "img")
                shutil.rmtree(img, ignore_errors=True)
                fs.materialize(img, model, seed=seed * 100003 + o.ticket)
                torn = sorted(os.path.getsize(os.path.join(img, "vlog", f)) for f in os.listdir(os.path.join(img, "vlog"))
                              if 0 < os.path.getsize(os.path.join(img, "vlog", f)) < 31) if os.path.isdir(os.path.join(img, "vlog")) else []
                res = reopen(img, meta["opts"], meta_path)
                out["images"] += 1
                out["torn_images"] = out.get("torn_images", 0) + (1 if torn else 0)
                out["by_model"][model.split(":")[0]] = out["by_model"].get(model.split(":")[0], 0) + 1
                found = judge_image(res)
                if found and found[0][0] == "reopen_refused" and model == "process" and not vlog_refusal(found[0][2]):
                    out["sibling"] += 1           # e.g. a half-created index file: C07 / C18
                    found = []
                if found and found[0][0].startswith("reopen_") and model != "process":
                    # whose failure is it? the same image with complete value-log files
                    ctl = os.path.join(base, "ctl")
                    shutil.rmtree(ctl, ignore_errors=True)
                    shutil.copytree(img, ctl)
                    for r in fs.files:
                        if r.endswith(".vlog"):
                            with open(os.path.join(ctl, r), "wb") as f:
                                f.write(bytes(fs.files[r]))
                    res2 = reopen(ctl, meta["opts"], meta_path)
                    shutil.rmtree(ctl, ignore_errors=True)
                    if res2.get("open") != "ok":
                        out["sibling"] += 1       # not the value log's doing: C07 reports it
                        found = []
                    else:
                        found = [(found[0][0], "vlog_file_state", found[0][2])]
                for cls, cause, detail in found:
                    v = {"class": cls, "cause": cause, "detail": detail, "ticket": o.ticket, "model": model,
                         "torn_header": bool(torn), "after": "%s %s" % (fsimage.NAMES.get(o.op), os.path.basename(o.p1))}
                    if len([x for x in out["violations"] if x["class"] == cls]) < 3:
                        keep = os.path.join(keep_dir, "w%s-s%d" % (wid, seed))
                        os.makedirs(keep, exist_ok=True)
                        for f in ("ops0.log", "meta0.json"):
                            if not os.path.exists(os.path.join(keep, f)):
                                shutil.copy(os.path.join(base, f), os.path.join(keep, f))
                        v["saved"] = keep
                    out["violations"].append(v)
                # what survived is C02/C03's subject; count what they would report so that it is not lost silently
                if res.get("open") == "ok" and not found:
                    lo = acked if model == "process" else (synced if model in ("synced", "mid") else 0)
                    scan = {k: v for k, v in (res.get("scan") or {}).items()}
                    if not any(states[n] == scan for n in range(min(lo, len(states) - 1), min(started, len(states) - 1) + 1)):
                        out["sibling"] += 1
    except Exception as e:   # tool trouble inside a worker: report, do not judge
        import traceback
        out["tool_error"] = "%s: %s\n%s" % (type(e).__name__, e, traceback.format_exc()[-1500:])
    finally:
        shutil.rmtree(base, ignore_errors=True)
    return out


def run_sweep(ctx, n_workloads, budget):
    core.build_harness(["vlog_run"])
    _storage.build_shim()
    keep = os.path.join(core.WORK, "replay", "vlog-%s" % ctx.pid)
    shutil.rmtree(keep, ignore_errors=True)
    tasks = []
    for i in range(n_workloads):
        opts, flags, txns = WORKLOADS[i % len(WORKLOADS)]
        tasks.append((i, ctx.seed * 1000 + i, opts, flags, txns, budget, keep))
    t0 = time.time()
    with ProcessPoolExecutor(max_workers=min(14, len(tasks))) as ex:
        results = list(ex.map(sweep_workload, tasks))
    for r in results:
        if r.get("tool_error"):
            raise core.ToolError("crash sweep worker failed: %s" % r["tool_error"])
    tot = {"workloads": len(results), "images": sum(r["images"] for r in results), "ops": sum(r["ops"] for r in results),
           "crash_instants": sum(r["tickets"] for r in results), "left_to_siblings": sum(r["sibling"] for r in results),
           "vlog_files_created": sum(r["vlog_files_created"] for r in results),
           "vlog_files_unlinked": sum(r["vlog_files_unlinked"] for r in results), "wall_s": round(time.time() - t0, 1), "by_model": {}}
    for r in results:
        for k, n in r["by_model"].items():
            tot["by_model"][k] = tot["by_model"].get(k, 0) + n
    if tot["images"] == 0:
        raise core.ToolError("crash sweep produced no images")
    if tot["vlog_files_unlinked"] == 0:
        raise core.ToolError("no value-log file was ever cleaned up in the crash workloads (vacuous sweep)")
    ctx.cov["crash_sweep"] = tot
    ctx.cov["traces_validated_against_impl"] += tot["images"]
    ctx.sample({"crash_workload": results[0]["opts"], "flags": results[0]["flags"], "seed": results[0]["seed"],
                "fs_operations": results[0]["ops"], "crash_instants": results[0]["tickets"], "images_reopened": results[0]["images"]})
    for r in results:
        for v in r["violations"]:
            sig = {"class": v["class"], "cause": v.get("cause", ""), "model": "process" if v.get("model") == "process" else "power",
                   "torn_header": bool(v.get("torn_header"))}
            if _capped(ctx, sig):
                continue
            ctx.violation({"driver": "crash_sweep", "saved": v.get("saved"), "ticket": v.get("ticket"), "model": v.get("model"),
                           "seed": r["seed"], "opts": r["opts"], "flags": r["flags"]}, sig,
                          "%s [%s, after ticket %s = %s, workload %s seed %d]: %s" % (
                              v["class"], v.get("model"), v.get("ticket"), v.get("after"), json.dumps(r["opts"]), r["seed"],
                              str(v.get("detail"))[:300]))
    core.log("[sweep] C11: %s" % json.dumps(tot))
    return results, tot


# ---------------------------------------------------------------------------------------------------------------------
# impl -> spec: the recorded operation log as a behaviour of VlogTrace

def trace_events(ops, db):
    """value-log relevant events of one recorded execution. The pointer set a manifest switch installs is taken from
    the walk the driver logged right after the maintenance call that made the switch (explicit workloads)."""
    def vid(p):
        b = os.path.basename(p)
        return int(b[:-5]) if b.endswith(".vlog") and b[:-5].isdigit() else None

    evs = [{"ev": "reset"}]
    pending = []        # indices of manifest events waiting for their pointer set
    in_maint = False
    for o in ops:
        f = vid(o.p1)
        if o.op == fsimage.OPEN and f is not None and (o.off & 1):
            evs.append({"ev": "vcreate", "f": f, "t": o.ticket})
        elif o.op == fsimage.WRITE and f is not None:
            evs.append({"ev": "vwrite", "f": f, "end": o.off + len(o.data), "t": o.ticket})
        elif o.op == fsimage.FSYNC and f is not None:
            evs.append({"ev": "vsync", "f": f, "t": o.ticket})
        elif o.op == fsimage.UNLINK and f is not None:
            evs.append({"ev": "vunlink", "f": f, "t": o.ticket})
        elif o.op == fsimage.RENAME and o.p2.endswith(".manifest"):
            if in_maint:
                evs.append({"ev": "manifest", "known": False, "ptrs": [], "t": o.ticket})
                pending.append(len(evs) - 1)
        elif o.op == fsimage.MARK:
            try:
                d = json.loads(o.data.decode())
            except Exception:
                continue
            if d.get("ev") == "maint_begin":
                in_maint, pending = True, []
            elif d.get("ev") == "maint_end":
                in_maint = False
            elif d.get("ev") == "state":
                w = d["walk"]
                ptrs = sorted({(p[1], p[2] + p[3]) for p in w["ptrs"] + w["index_ptrs"]})
                if len(pending) == 1:      # exactly one switch in this maintenance call: it installed these pointers
                    evs[pending[0]]["known"] = True
                    evs[pending[0]]["ptrs"] = [{"f": a, "end": b} for a, b in ptrs]
                pending = []
                evs.append({"ev": "state", "ptrs": [{"f": a, "end": b} for a, b in ptrs],
                            "files": sorted(x[0] for x in w["files"]), "t": o.ticket})
    return evs


def validate_traces(ctx, results):
    evs = []
    for r in results:
        for e in (r.get("trace") or []):
            evs.append(dict(e, w=r["wid"]))
    n_manifest = sum(1 for e in evs if e["ev"] == "manifest" and e["known"])
    n_unlink = sum(1 for e in evs if e["ev"] == "vunlink")
    if not evs or n_manifest == 0:
        raise core.ToolError("no manifest switch with a known pointer set in the recorded traces")
    path = os.path.join(core.WORK, "vlog_trace_%d.ndjson" % os.getpid())
    with open(path, "w") as f:
        for e in evs:
            f.write(json.dumps(e) + "\n")
    r = tlc.run(SUB, "VlogTrace", "VlogTrace.cfg", workers=1, deque=True, timeout=1200, coverage=False,
                env={"TRACE": path}, out_name="vlog_trace_%s" % ctx.tier)
    r["constants"] = ["TRACE=<recorded operation logs of %d workloads, %d events>" % (len(results), len(evs))]
    r["invariants"] = ["InstallSynced", "InstallResolves", "StateResolves", "UnlinkSafe"]
    ctx.add_tlc(r)
    mech, done = [], False
    for l in open(r["out"], errors="replace"):
        if l.startswith('"MECH '):
            mech.append(json.loads(json.loads(l)[5:]))
        elif l.startswith('"DONE '):
            done = True
    if not done:
        raise core.ToolError("the trace spec did not consume every recorded event (see %s)" % r["out"])
    os.remove(r["out"])
    os.remove(path)
    ctx.cov["trace_validation"] = {"events": len(evs), "manifest_switches_judged": n_manifest, "vlog_unlinks_judged": n_unlink,
                                   "mechanism_failures": len(mech)}
    # a mechanism invariant failed at a step of a REAL execution: the crash sweep reopens the images around every
    # manifest switch and unlink - only what those images show is a verdict; an unconfirmed failure is drift
    viol_at = {(x["wid"], v.get("ticket")) for x in results for v in x["violations"]}
    for m in mech[:20]:
        e = evs[m["n"] - 1]
        confirmed = any((e["w"], t) in viol_at for t in range(m["t"] - 3, m["t"] + 4))
        core.log("[trace] %s failed at ticket %d of workload %d (%s)" % (m["inv"], m["t"], e["w"],
                                                                         "confirmed by a crash image" if confirmed else "not confirmed"))
        if not confirmed:
            ctx.drift(1, "trace invariant %s failed at ticket %d of workload %d; no crash image around it shows a wrong answer"
                      % (m["inv"], m["t"], e["w"]))
    return r


# ---------------------------------------------------------------------------------------------------------------------
def replay(ctx, rp):
    if rp.get("driver") == "vlog_run":
        import tempfile
        with tempfile.NamedTemporaryFile("w", suffix=".ndjson", delete=False, dir=core.WORK) as f:
            f.write(json.dumps(rp["scenario"]) + "\n")
        s = core.run_driver("vlog_run", ["replay", f.name] + rp.get("args", []) + ["--jobs", "1"])
        os.remove(f.name)
        for v in s["violations"]:
            core.log("reproduced: %s" % json.dumps({k: v.get(k) for k in ("kind", "who", "key", "seq", "want", "got", "cause")}))
        _report(ctx, s, rp.get("args", []))
        return
    core.build_harness(["vlog_run"])
    saved = rp.get("saved")
    if not saved or not os.path.exists(os.path.join(saved, "ops0.log")):
        raise core.ToolError("the saved operation log of this replay is gone: %s" % saved)
    ops = fsimage.parse_log(os.path.join(saved, "ops0.log"))
    meta = json.load(open(os.path.join(saved, "meta0.json")))
    root = next(o.p1 for o in ops if o.op == fsimage.MKDIR)
    fs = VFs(root)
    for o in ops:
        fs.apply(o)
        if o.ticket == rp["ticket"]:
            break
    img = os.path.join(_storage.scratch(), "vreplay-img-%d" % os.getpid())
    shutil.rmtree(img, ignore_errors=True)
    fs.materialize(img, rp["model"], seed=rp["seed"] * 100003 + rp["ticket"])
    res = reopen(img, meta["opts"], os.path.join(saved, "meta0.json"))
    torn = [f for f in os.listdir(os.path.join(img, "vlog")) if 0 < os.path.getsize(os.path.join(img, "vlog", f)) < 31] \
        if os.path.isdir(os.path.join(img, "vlog")) else []
    shutil.rmtree(img, ignore_errors=True)
    core.log("replayed image: open=%s" % res.get("open"))
    for cls, cause, detail in judge_image(res):
        core.log("  %s %s %s" % (cls, cause, detail[:300]))
        if cls.startswith("reopen_") and rp["model"] != "process":
            cause = "vlog_file_state"
        ctx.violation(rp, {"class": cls, "cause": cause, "model": "process" if rp["model"] == "process" else "power",
                           "torn_header": bool(torn)}, "reproduced: " + cls)
