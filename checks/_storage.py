"""Shared by C02 / C03 / C07: crash-consistency sweep on the real engine.

A seeded workload runs on a real Tree under shim/fsrec.so (every file-system operation and every logical event in one
ordered log). For a set of crash instants (tickets) and crash models the directory is rebuilt as it was and reopened by
the real recovery code in a child process (`crash_reopen`); what comes back is judged against the abstract history:

  C07  the image opens; opening it twice gives the same content; a commit made after recovery is readable
  C03  the recovered content equals the result of applying a PREFIX of the commit order (atomic, no gaps, nothing
       deleted or overwritten inside the prefix reappears)
  C02  that prefix contains every transaction acknowledged before the crash instant (process model) / acknowledged
       with immediate durability or followed by a returned synced WAL flush (power-loss model)
"""
import json
import os
import shutil
import subprocess
import time
from concurrent.futures import ProcessPoolExecutor

from vlib import core, fsimage, tlc

SHIM = os.path.join(core.VERIF, "shim", "fsrec.so")


def scratch():
    base = "/dev/shm/verif-scratch" if os.path.isdir("/dev/shm") else os.path.join(core.WORK, "tmp")
    os.makedirs(base, exist_ok=True)
    return base


def build_shim():
    src = os.path.join(core.VERIF, "shim", "fsrec.c")
    if not os.path.exists(SHIM) or os.path.getmtime(SHIM) < os.path.getmtime(src):
        core.sh(["gcc", "-O2", "-shared", "-fPIC", "-o", SHIM, src, "-ldl", "-lpthread"])


def run_workload(wdir, seed, wargs, gen=0, first_txn=1, timeout=120, env_extra=None):
    """runs storage_run under the recorder; returns (ops, meta)"""
    os.makedirs(wdir, exist_ok=True)
    db = os.path.join(wdir, "db")
    log = os.path.join(wdir, "ops%d.log" % gen)
    meta = os.path.join(wdir, "meta%d.json" % gen)
    for p in (log, meta):
        if os.path.exists(p):
            os.remove(p)
    env = dict(os.environ, FSREC_ROOT=db, FSREC_LOG=log, LD_PRELOAD=SHIM, RUST_BACKTRACE="0")
    env.update(env_extra or {})
    cmd = [core.bin_path("storage_run"), "--dir", db, "--meta", meta, "--seed", str(seed), "--gen", str(gen),
           "--first-txn", str(first_txn)] + [str(a) for a in wargs]
    try:
        p = subprocess.run(cmd, env=env, stdout=subprocess.PIPE, stderr=subprocess.STDOUT, timeout=timeout, text=True,
                           errors="replace")
    except subprocess.TimeoutExpired:
        if env_extra:
            return None, {"hang": True}
        raise
    if not os.path.exists(meta):
        return None, {"driver_failed": (p.stdout or "")[-1500:], "exit": p.returncode}
    return fsimage.parse_log(log), json.load(open(meta))


def states_of(meta, base=None):
    """content after each prefix of the (sequential) commit order: list indexed by number of applied txns"""
    cur = dict(base or {})
    out = [dict(cur)]
    ids = [0]
    for t in meta["txns"]:
        if t["ok"]:
            for k, v in t["effect"].items():
                if v is None:
                    cur.pop(k, None)
                else:
                    cur[k] = v
        out.append(dict(cur))
        ids.append(t["txn"])
    return out, ids


def bounds(meta, mk, ticket, first_txn):
    """(acked, synced_acked, started) as indices into states for a crash after `ticket`"""
    acked = synced = started = 0
    pending_unsynced = 0
    for ev in mk:
        if ev["ticket"] > ticket:
            break
        if ev["ev"] == "commit_begin":
            started = ev["txn"] - first_txn + 1
        elif ev["ev"] == "commit_ack":
            acked = ev["txn"] - first_txn + 1
            if ev.get("sync"):
                synced = acked
        elif ev["ev"] == "commit_err":
            # a failed commit: its effect is not in `states`, any position is fine
            acked = max(acked, ev["txn"] - first_txn + 1)
        elif ev["ev"] == "flush_wal" and ev.get("sync"):
            synced = acked
    return acked, synced, max(started, acked)


def reopen(image, opts, probe=True, timeout=30):
    cmd = [core.bin_path("crash_reopen"), image, json.dumps(opts), "--twice"] + (["--probe"] if probe else [])
    try:
        p = subprocess.run(cmd, stdout=subprocess.PIPE, stderr=subprocess.PIPE, timeout=timeout, text=True, errors="replace",
                           env=dict(os.environ, RUST_BACKTRACE="0"))
    except subprocess.TimeoutExpired as e:
        err = e.stderr.decode(errors="replace") if isinstance(e.stderr, bytes) else (e.stderr or "")
        stages = [l for l in err.splitlines() if l.startswith("stage:")]
        return {"open": "hang", "stage": stages[-1] if stages else "?"}
    for line in (p.stdout or "").splitlines():
        if line.startswith("RESULT "):
            return json.loads(line[7:])
    return {"open": "crash:exit=%s %s" % (p.returncode, (p.stderr or "")[-300:].replace("\n", " "))}


def judge(res, states, lo, hi, probe=True):
    """returns list of (property, class, detail)"""
    out = []
    op = res.get("open", "")
    if op != "ok":
        cls = "reopen_hang" if op == "hang" else ("reopen_crash" if op.startswith("crash") else "reopen_refused")
        return [("C07", cls, (op + " " + str(res.get("stage", "")))[:300])]
    scan = res["scan"]
    match = [n for n in range(len(states)) if states[n] == scan]
    if not match:
        out.append(("C03", "recovered_state_is_no_prefix", "scan=%s" % json.dumps(scan)[:400]))
        # is an acknowledged write among what is wrong? (a key showing a value older than every state allowed)
        keys = set(scan)
        for st in states:
            keys |= set(st)
        for k in sorted(keys):
            allowed = {states[n].get(k) for n in range(lo, min(hi, len(states) - 1) + 1)}
            older = {states[n].get(k) for n in range(0, lo)}
            if scan.get(k) not in allowed and scan.get(k) in older:
                out.append(("C02", "acknowledged_commit_lost", "key %s shows %s, acknowledged prefix %d demands one of %s"
                            % (k, scan.get(k), lo, sorted(str(x) for x in allowed))))
                break
    else:
        if not any(lo <= n <= hi for n in match):
            if max(match) < lo:
                out.append(("C02", "acknowledged_commit_lost", "recovered prefix %d, acknowledged %d" % (max(match), lo)))
            else:
                out.append(("C03", "recovered_beyond_started", "recovered prefix %d, started %d" % (min(match), hi)))
    sec = res.get("second")
    if sec is not None:
        if sec.get("open") != "ok":
            out.append(("C07", "second_reopen_refused", str(sec.get("open"))[:300]))
        else:
            exp = dict(scan)
            if probe and res.get("probe") == "ok":
                exp["key00"] = "999999:key00:48"
                exp["zz-probe"] = "999999:zz-probe:48"
            if sec["scan"] != exp:
                out.append(("C07", "second_reopen_differs", "first=%s second=%s" % (json.dumps(exp)[:200], json.dumps(sec["scan"])[:200])))
    if probe and res.get("probe") not in (None, "ok"):
        out.append(("C07", "commit_after_recovery_shadowed_or_refused", str(res.get("probe"))[:300]))
    return out


def parse_manifest(data):
    """(table ids, log_number) of a manifest file image"""
    import struct
    if len(data) < 27:
        return None
    ver, next_id, log_number, last_seq = struct.unpack_from(">HQQQ", data, 0)
    off = 26
    nlev = data[off]
    off += 1
    ids = []
    for _ in range(nlev):
        (n,) = struct.unpack_from(">I", data, off)
        off += 4
        for _ in range(n):
            (tid,) = struct.unpack_from(">Q", data, off)
            off += 8
            ids.append(tid)
    return ids, log_number


def abstract_events(ops, fs_root):
    """the recorded operations as events of spec/storage/StorageTrace.tla, each tagged with its ticket"""
    import re
    ev = []
    cur = None          # transaction between commit_begin and commit_ack
    logged = set()      # (txn, seg) already reported
    fs = fsimage.FsState(fs_root)
    for o in ops:
        name = os.path.basename(o.p1)
        m_wal = re.match(r"^(\d+)\.wal$", name) if "/wal/" in o.p1 else None
        m_sst = re.match(r"^(\d+)\.sst$", name) if "/sstables/" in o.p1 else None
        if o.op == fsimage.MARK:
            try:
                e = json.loads(o.data.decode())
            except Exception:
                e = {}
            if e.get("ev") == "commit_begin":
                cur = e["txn"]
                ev.append({"ev": "Begin", "t": e["txn"], "ticket": o.ticket})
            elif e.get("ev") == "commit_ack":
                ev.append({"ev": "Ack", "t": e["txn"], "sync": bool(e.get("sync")), "ticket": o.ticket})
                cur = None
            elif e.get("ev") == "commit_err":
                cur = None
            elif e.get("ev") == "flush_wal" and e.get("sync"):
                ev.append({"ev": "FlushWal", "ticket": o.ticket})
        elif o.op == fsimage.WRITE and m_wal and cur is not None:
            seg = int(m_wal.group(1))
            if (cur, seg) not in logged:
                logged.add((cur, seg))
                ev.append({"ev": "Log", "t": cur, "seg": seg, "ticket": o.ticket})
        elif o.op == fsimage.FSYNC and m_wal:
            ev.append({"ev": "WalSync", "seg": int(m_wal.group(1)), "ticket": o.ticket})
        elif o.op == fsimage.OPEN and m_wal and (o.off & 1) and int(m_wal.group(1)) > 0:
            ev.append({"ev": "Rotate", "seg": int(m_wal.group(1)), "ticket": o.ticket})
        elif o.op == fsimage.UNLINK and m_wal:
            ev.append({"ev": "WalDelete", "seg": int(m_wal.group(1)), "ticket": o.ticket})
        elif o.op == fsimage.OPEN and m_sst and (o.off & 1):
            ev.append({"ev": "TabCreate", "id": int(m_sst.group(1)), "ticket": o.ticket})
        elif o.op == fsimage.FSYNC and m_sst:
            ev.append({"ev": "TabSync", "id": int(m_sst.group(1)), "ticket": o.ticket})
        elif o.op == fsimage.UNLINK and m_sst:
            ev.append({"ev": "TabDelete", "id": int(m_sst.group(1)), "ticket": o.ticket})
        elif o.op == fsimage.RENAME and o.p2.endswith(".manifest"):
            r = fs.rel(o.p1)
            pm = parse_manifest(bytes(fs.files.get(r, b""))) if r is not None else None
            if pm is not None:
                ev.append({"ev": "Manifest", "tables": pm[0], "log": pm[1], "ticket": o.ticket})
        fs.apply(o)
    return ev


def sweep_workload(task):
    """one workload end to end (runs in a worker process). Returns dict with counts and violations."""
    wid, seed, wargs, budget, models, keep_dir, gen2 = task
    base = os.path.join(scratch(), "sweep-%d-%s" % (os.getpid(), wid))
    shutil.rmtree(base, ignore_errors=True)
    out = {"wid": wid, "seed": seed, "args": wargs, "images": 0, "ops": 0, "violations": [], "tickets": 0, "acks": 0,
           "gen2_images": 0}
    try:
        ops, meta = run_workload(base, seed, wargs)
        if ops is None:
            out["violations"].append({"prop": "C17", "class": "workload_driver_failed", "detail": json.dumps(meta)[:400]})
            return out
        if meta.get("open_failed"):
            out["violations"].append({"prop": "C07", "class": "reopen_refused", "detail": meta["open_failed"]})
            return out
        out["ops"] = len(ops)
        mk = fsimage.marks(ops)
        out["acks"] = sum(1 for e in mk if e["ev"] == "commit_ack")
        states, _ = states_of(meta)
        out["events"] = abstract_events(ops, os.path.join(base, "db"))
        out["crash_obs"] = []
        tickets = set(fsimage.interesting_tickets(ops, budget, seed))
        out["tickets"] = len(tickets)
        db = os.path.join(base, "db")
        fs = fsimage.FsState(db)
        gen2_done = 0
        for o in ops:
            fs.apply(o)
            if o.ticket not in tickets:
                continue
            acked, synced, started = bounds(meta, mk, o.ticket, 1)
            for model in models:
                img = os.path.join(base, "img")
                shutil.rmtree(img, ignore_errors=True)
                fs.materialize(img, "process" if model == "process" else model, seed=seed * 100003 + o.ticket)
                lo = acked if model == "process" else synced
                res = reopen(img, meta["opts"])
                out["images"] += 1
                ok = res.get("open") == "ok"
                ms = [k for k in range(len(states)) if states[k] == res["scan"]] if ok else []
                out["crash_obs"].append({"ev": "Crash", "model": "process" if model == "process" else "power", "ok": ok,
                                         "ms": ms, "ticket": o.ticket, "variant": model})
                for prop, cls, detail in judge(res, states, lo, started):
                    v = {"prop": prop, "class": cls, "detail": detail, "ticket": o.ticket, "model": model, "lo": lo, "hi": started}
                    if len([x for x in out["violations"] if x["class"] == cls]) < 3:
                        # keep what is needed to replay this image
                        keep = os.path.join(keep_dir, "w%s-s%d" % (wid, seed))
                        os.makedirs(keep, exist_ok=True)
                        for f in ("ops0.log", "meta0.json"):
                            if not os.path.exists(os.path.join(keep, f)):
                                shutil.copy(os.path.join(base, f), os.path.join(keep, f))
                        v["saved"] = keep
                    out["violations"].append(v)
                # second generation: continue on the recovered store, crash again (C02 "any later session")
                if gen2 and gen2_done < gen2 and res.get("open") == "ok" and model == "process" and o.ticket % 7 == 0:
                    gen2_done += 1
                    out["gen2_images"] += sweep_gen2(base, img, seed, wargs, meta, res, out, keep_dir, wid)
                    # ... and the same crash image recovered by the next session itself, with a smaller memtable
                    imgp = os.path.join(base, "imgp")
                    shutil.rmtree(imgp, ignore_errors=True)
                    fs.materialize(imgp, "process")
                    out["gen2_images"] += sweep_gen2(base, imgp, seed + 1, wargs, meta, res, out, keep_dir, wid, direct=True)
                    shutil.rmtree(imgp, ignore_errors=True)
    except Exception as e:  # tool trouble inside a worker: report, do not judge
        out["tool_error"] = "%s: %s" % (type(e).__name__, e)
    finally:
        shutil.rmtree(base, ignore_errors=True)
    return out


def sweep_gen2(base, img, seed, wargs, meta, res, out, keep_dir, wid, direct=False):
    """the recovered image (after the probe commit and a clean close by crash_reopen) receives more commits under the
    recorder, then is crashed again; the base state is what the second open of crash_reopen reported.
    direct: `img` is the untouched crash image - the workload's own open IS the recovery (with half the memtable size, so
    that the replay has to split segments), commits follow without a close in between, then the crash."""
    sec = {"open": "ok", "scan": res["scan"]} if direct else (res.get("second") or {})
    if sec.get("open") != "ok":
        return 0
    g2 = os.path.join(base, "gen2")
    shutil.rmtree(g2, ignore_errors=True)
    os.makedirs(g2)
    shutil.copytree(img, os.path.join(g2, "db"))
    first = 1000
    args2 = [a for a in wargs]
    # fewer transactions in the second generation
    if "--txns" in args2:
        args2[args2.index("--txns") + 1] = "10"
    if direct:
        if "--memtable" in args2:
            i = args2.index("--memtable") + 1
            args2[i] = str(max(int(args2[i]) // 2, 12288))
        if "--no-close" not in args2:
            args2.append("--no-close")
    ops, meta2 = run_workload(g2, seed + 7, args2, gen=1, first_txn=first)
    if ops is None or meta2.get("open_failed"):
        out["violations"].append({"prop": "C07", "class": "reopen_refused", "detail": "generation 2: %s" % json.dumps(meta2)[:300]})
        return 0
    mk = fsimage.marks(ops)
    states, _ = states_of(meta2, base=sec["scan"])
    fs = fsimage.FsState(os.path.join(g2, "db"))
    # the files that existed before this generation: take them from the image (all of it counts as synced)
    for root, _d, files in os.walk(os.path.join(g2, "db")):
        pass
    n = 0
    tickets = set(fsimage.interesting_tickets(ops, 25, seed))
    # start state = the image directory itself
    pre = {}
    for root, dirs, files in os.walk(img):
        rel = os.path.relpath(root, img)
        rel = "" if rel == "." else rel
        fs.dirs.add(rel)
        for f in files:
            r = os.path.join(rel, f) if rel else f
            pre[r] = open(os.path.join(root, f), "rb").read()
    # crash_reopen modified the image (probe commit, close): re-read from g2/db before the run? the run already
    # happened on g2/db, so rebuild the pre-state by undoing is impossible - instead replay ops on the files as they
    # were in `img` AFTER crash_reopen (that is what g2/db started from)
    for r, data in pre.items():
        fs.files[r] = bytearray(data)
        fs.synced[r] = data
    for o in ops:
        fs.apply(o)
        if o.ticket not in tickets:
            continue
        acked, synced, started = bounds(meta2, mk, o.ticket, first)
        img2 = os.path.join(base, "img2")
        shutil.rmtree(img2, ignore_errors=True)
        fs.materialize(img2, "process")
        r2 = reopen(img2, meta2["opts"], probe=False)
        n += 1
        for prop, cls, detail in judge(r2, states, acked, started, probe=False):
            out["violations"].append({"prop": prop, "class": cls, "detail": "generation 2: " + detail, "ticket": o.ticket,
                                      "model": "process", "gen": 2})
    return n


WORKLOADS = [
    ["--txns", "30", "--memtable", "32768", "--levels", "3"],
    ["--txns", "30", "--memtable", "65536", "--levels", "2"],
    ["--txns", "40", "--memtable", "16384", "--levels", "3", "--vlog"],
    ["--txns", "25", "--memtable", "32768", "--levels", "2", "--versioning"],
    ["--txns", "30", "--memtable", "32768", "--levels", "1", "--no-close"],
    ["--txns", "35", "--memtable", "24576", "--levels", "7", "--l0", "1"],
    # scripted rotation / flush-one / compaction: several immutable memtables pending at the crash instants
    ["--txns", "40", "--memtable", "32768", "--levels", "3", "--manual"],
    ["--txns", "40", "--memtable", "16384", "--levels", "2", "--manual", "--vlog"],
    # the B+tree version index next to the tables (creation, flush order, recovery)
    ["--txns", "25", "--memtable", "32768", "--levels", "2", "--versioning", "--index"],
]


def run_sweep(ctx, n_workloads, budget, models, gen2=0):
    core.build_harness(["storage_run", "crash_reopen"])
    build_shim()
    keep = os.path.join(core.WORK, "replay", "storage-%s" % ctx.pid)
    shutil.rmtree(keep, ignore_errors=True)
    tasks = []
    for i in range(n_workloads):
        tasks.append((i, ctx.seed * 1000 + i, WORKLOADS[i % len(WORKLOADS)], budget, models, keep, gen2))
    t0 = time.time()
    results = []
    with ProcessPoolExecutor(max_workers=min(14, len(tasks))) as ex:
        for r in ex.map(sweep_workload, tasks):
            results.append(r)
    tot = {"workloads": len(results), "images": sum(r["images"] for r in results), "ops": sum(r["ops"] for r in results),
           "acks": sum(r["acks"] for r in results), "gen2_images": sum(r["gen2_images"] for r in results),
           "wall_s": round(time.time() - t0, 1)}
    for r in results:
        if r.get("tool_error"):
            raise core.ToolError("crash sweep worker failed: %s" % r["tool_error"])
    if tot["images"] == 0:
        raise core.ToolError("crash sweep produced no images")
    ctx.cov.setdefault("crash_sweep", []).append(dict(tot, models=models))
    ctx.cov["traces_validated_against_impl"] += tot["images"] + tot["gen2_images"]
    ctx.sample({"workload": results[0]["args"], "seed": results[0]["seed"], "fs_operations": results[0]["ops"],
                "crash_instants": results[0]["tickets"], "images_reopened": results[0]["images"]})
    nmine = 0
    for r in results:
        for v in r["violations"]:
            if v["prop"] != ctx.pid:
                ctx.cov["reported_by_sibling"] = ctx.cov.get("reported_by_sibling", 0) + 1
                continue
            nmine += 1
            sig = {"class": v["class"], "model": "power" if v.get("model") not in (None, "process") else "process"}
            ctx.violation({"driver": "crash_sweep", "saved": v.get("saved"), "ticket": v.get("ticket"), "model": v.get("model"),
                           "seed": r["seed"], "args": r["args"], "lo": v.get("lo"), "hi": v.get("hi")},
                          sig, "%s [%s, ticket %s, workload %s seed %d]: %s" % (v["class"], v.get("model"), v.get("ticket"),
                                                                                 " ".join(r["args"]), r["seed"], v["detail"][:300]))
    core.log("[sweep] %s: %s" % (ctx.pid, json.dumps(tot)))
    validate_traces(ctx, results)
    return tot


FAULT_TARGETS = [("write", "wal/"), ("fsync", "wal/"), ("write", "sstables/"), ("fsync", "sstables/"), ("write", "manifest/"),
                 ("fsync", "manifest/"), ("rename", "manifest/"), ("open", "wal/"), ("open", "sstables/"), ("write", "vlog/"),
                 ("fsync", "vlog/"), ("unlink", "wal/")]
FAULT_ERRS = ["5", "28", "short=3", "short=0"]      # EIO, ENOSPC, short writes
OPNAME = {fsimage.WRITE: "write", fsimage.FSYNC: "fsync", fsimage.RENAME: "rename", fsimage.OPEN: "open",
          fsimage.UNLINK: "unlink", fsimage.FTRUNC: "ftruncate"}


def fault_workload(task):
    """C15: one workload, many runs with one injected file-system failure each (position x kind x transient/persistent);
    after every run: nothing of a failed commit is visible, and the directory as it is at the end / right after the fault,
    reopened after a process crash or a power loss, holds every acknowledged transaction and nothing of a failed one."""
    import random
    wid, seed, wargs, nfaults, keep_dir = task[:5]
    fixed_specs = task[5] if len(task) > 5 else None
    base = os.path.join(scratch(), "fault-%d-%d" % (os.getpid(), wid))
    shutil.rmtree(base, ignore_errors=True)
    out = {"wid": wid, "seed": seed, "args": wargs, "violations": [], "runs": 0, "fired": 0, "images": 0, "failed_commits": 0,
           "sticky_after": 0, "targets": {}}
    rng = random.Random(seed)
    try:
        ops, meta = run_workload(os.path.join(base, "clean"), seed, wargs)
        if ops is None:
            out["tool_error"] = "baseline workload failed: %s" % json.dumps(meta)[:300]
            return out
        counts = {}
        for o in ops:
            name = OPNAME.get(o.op)
            if not name:
                continue
            for (op, sub) in FAULT_TARGETS:
                if op == name and sub in o.p1:
                    counts[(op, sub)] = counts.get((op, sub), 0) + 1
        targets = [t for t in FAULT_TARGETS if counts.get(t)]
        for i in range(len(fixed_specs) if fixed_specs else nfaults):
            if fixed_specs:
                spec = fixed_specs[i]
                op, sub = spec.split(":")[1], spec.split(":")[2]
                sticky = spec.endswith(":sticky")
            else:
                op, sub = targets[i % len(targets)]
                n = rng.randint(1, counts[(op, sub)])
                err = rng.choice(FAULT_ERRS if op == "write" else FAULT_ERRS[:2])
                sticky = rng.random() < 0.3
                spec = "%d:%s:%s:%s%s" % (n, op, sub, err, ":sticky" if sticky else "")
            wdir = os.path.join(base, "f%d" % i)
            ops2, meta2 = run_workload(wdir, seed, wargs, timeout=90, env_extra={"FSREC_FAIL": spec})
            out["runs"] += 1
            sig = {"fault_op": op, "fault_path": sub.rstrip("/"), "persistent": sticky}
            if ops2 is None:
                if meta2.get("hang"):
                    out["violations"].append(dict(sig, **{"class": "store_hangs_after_fault", "detail": "workload with %s did not finish within 90 s" % spec, "spec": spec}))
                else:
                    out["violations"].append(dict(sig, **{"class": "panic_or_abort_after_fault", "spec": spec,
                                                          "detail": "workload with %s died: %s" % (spec, json.dumps(meta2)[-400:])}))
                continue
            if meta2.get("open_failed"):
                continue
            fault_tickets = [o.ticket for o in ops2 if o.op == fsimage.FAULT]
            if not fault_tickets:
                continue
            out["fired"] += 1
            out["targets"]["%s %s" % (op, sub)] = out["targets"].get("%s %s" % (op, sub), 0) + 1
            mk = fsimage.marks(ops2)
            failed = {t["txn"] for t in meta2["txns"] if not t["ok"]}
            out["failed_commits"] += len(failed)
            for ev in mk:
                if ev.get("ev") == "violation":
                    out["violations"].append(dict(sig, **{"class": ev.get("kind"), "spec": spec, "detail": json.dumps(ev)[:300]}))
            states, _ = states_of(meta2)
            last = ops2[-1].ticket
            # crash instants: when no commit is in flight (right after an acknowledgement or a reported failure), from the
            # fault on - a commit that is still running when the crash comes may legitimately be there or not
            quiet = [ev["ticket"] for ev in mk if ev.get("ev") in ("commit_ack", "commit_err") and ev["ticket"] > fault_tickets[0]]
            tickets = sorted(set(quiet[:3] + rng.sample(quiet, min(3, len(quiet))) + quiet[-1:]))
            failed_at = {ev["txn"]: ev["ticket"] for ev in mk if ev.get("ev") == "commit_err"}
            begun_at = {ev["txn"]: ev["ticket"] for ev in mk if ev.get("ev") == "commit_begin"}
            logged_ok = {}
            for t, tk in failed_at.items():
                b = begun_at.get(t, tk)
                window = [x for x in ops2 if b < x.ticket < tk]
                first_fault = min([x.ticket for x in window if x.op == fsimage.FAULT] or [tk])
                # its record reached the log (and, if asked for, the disk) before anything failed
                wrote = {}
                for x in window:
                    if x.op == fsimage.WRITE and "/wal/" in x.p1 and x.ticket < first_fault:
                        wrote.setdefault(x.p1, x.ticket)
                    elif x.op == fsimage.FTRUNC and x.p1 in wrote:
                        del wrote[x.p1]                 # cut back again: that copy of the record is gone
                logged_ok[t] = bool(wrote)
            fs = fsimage.FsState(os.path.join(wdir, "db"))
            for o in ops2:
                fs.apply(o)
                if o.ticket not in tickets:
                    continue
                acked, synced, started = bounds(meta2, mk, o.ticket, 1)
                for model in ("process", "synced"):
                    img = os.path.join(base, "img")
                    shutil.rmtree(img, ignore_errors=True)
                    fs.materialize(img, model, seed=seed * 7 + o.ticket)
                    res = reopen(img, meta2["opts"])
                    out["images"] += 1
                    lo = acked if model == "process" else synced
                    verdicts = judge(res, states, lo, started)
                    if verdicts and res.get("open") == "ok":
                        # is what came back the history WITH the commits that had reported a failure by then?
                        # (those whose record stayed in the log: a failure while logging is rolled back since the repair)
                        gone = sorted(t for t, tk in failed_at.items() if tk <= o.ticket and logged_ok.get(t))
                        meta3 = dict(meta2, txns=[dict(t, ok=True) if t["txn"] in gone else t for t in meta2["txns"]])
                        states3, _ = states_of(meta3)
                        if gone and any(states3[k] == res["scan"] for k in range(lo, min(started, len(states3) - 1) + 1)):
                            # which phase did the failing commits fail in? after their record was completely logged (a
                            # rotation that fails inside apply) or while it was being logged
                            phase = "apply"
                            verdicts = [("C15", "failed_commit_replayed_after_reopen",
                                         "transactions %s reported an error (phase %s) and are back after the reopen" % (gone[:5], phase))]
                            sig = dict(sig, phase=phase)
                    for prop, cls, detail in verdicts:
                        out["violations"].append(dict(sig, **{"class": cls, "detail": "[%s, ticket %d of %d, %s] %s" % (model, o.ticket, last, spec, detail[:300]),
                                                              "spec": spec, "model": "power" if model != "process" else "process"}))
                    shutil.rmtree(img, ignore_errors=True)
            shutil.rmtree(wdir, ignore_errors=True)
    except Exception as e:
        import traceback
        out["tool_error"] = "%s: %s %s" % (type(e).__name__, e, traceback.format_exc()[-300:])
    finally:
        shutil.rmtree(base, ignore_errors=True)
    return out


def fault_sweep(ctx, n_workloads, nfaults):
    core.build_harness(["storage_run", "crash_reopen"])
    build_shim()
    tasks = [(i, ctx.seed * 2000 + i, WORKLOADS[i % len(WORKLOADS)], nfaults, None) for i in range(n_workloads)]
    results = []
    with ProcessPoolExecutor(max_workers=min(12, len(tasks))) as ex:
        for r in ex.map(fault_workload, tasks):
            results.append(r)
    for r in results:
        if r.get("tool_error"):
            raise core.ToolError("fault sweep worker failed: %s" % r["tool_error"])
    tot = {k: sum(r[k] for r in results) for k in ("runs", "fired", "images", "failed_commits")}
    tg = {}
    for r in results:
        for k, v in r["targets"].items():
            tg[k] = tg.get(k, 0) + v
    tot["targets"] = tg
    if tot["fired"] == 0:
        raise core.ToolError("no injected fault fired")
    ctx.cov["fault_sweep"] = tot
    ctx.cov["traces_validated_against_impl"] += tot["images"]
    for r in results:
        seen = {}
        for v in r["violations"]:
            key = (v["class"], v["fault_op"], v["fault_path"])
            seen[key] = seen.get(key, 0) + 1
            if seen[key] > 2:
                continue
            sig = {"class": v["class"], "fault": v.get("phase") or "io", "fault_op": v["fault_op"], "fault_path": v["fault_path"]}
            ctx.violation({"driver": "fault_sweep", "seed": r["seed"], "args": r["args"], "spec": v.get("spec")}, sig,
                          "%s after an injected %s failure on %s: %s" % (v["class"], v["fault_op"], v["fault_path"], v["detail"][:300]))
    core.log("[faults] %s: %s" % (ctx.pid, json.dumps(tot)))
    return tot


OBS_OWNER = {"Obs_Reopenable": "C07", "Obs_PrefixConsistent": "C03", "Obs_Durable": "C02", "Obs_NotFromTheFuture": "C03"}


def model_check(ctx):
    """TLC on the bounded Storage model: every reachable state is a crash instant under both crash models."""
    for variant, expect_ok in (("repo", True),):
        text = tlc.cfg_variant("storage", "StorageMC.cfg", subst={"MaxTxn": ctx.pick(3, 4), "MaxRot": ctx.pick(2, 3),
                                                                  "MaxCompact": ctx.pick(1, 2)})
        r = tlc.run("storage", "StorageMC", "StorageMC.cfg", cfg_text=text, timeout=3000, coverage=False,
                    out_name="storage_mc_%s_%s" % (ctx.pid, ctx.tier))
        r["constants"] = ["MaxTxn=%d" % ctx.pick(3, 4), "MaxRot=%d" % ctx.pick(2, 3), "MaxCompact=%d" % ctx.pick(1, 2),
                          'Variant="repo"', "MaxCrash=2", "RecCap=1", 'RecoverVariant="repo"']
        r["invariants"] = ["TypeOK", "Reopenable", "Durable", "Atomic", "Prefix"]
        ctx.add_tlc(r)
    # sessions: the pinned start-up (a split segment flushed in part, writer reopened on the old log number) must
    # still lose acknowledged transactions after a crash + recovery in the model
    # (and so must the first version of the repair, in which every part of a split segment still marked the whole
    # segment as flushed: a crash between two of these flushes)
    for rv in ("orig", "parts"):
        text = tlc.cfg_variant("storage", "StorageMC.cfg", subst={"RecoverVariant": '"%s"' % rv}, drop=["INVARIANTS"],
                               add=["INVARIANT Durable"])
        r = tlc.run("storage", "StorageMC", "StorageMC_recover_%s.cfg" % rv, cfg_text=text, timeout=600, coverage=False,
                    must_pass=False, out_name="storage_recover_%s_%s" % (rv, ctx.pid))
        if "Durable" not in r["violated"]:
            raise core.ToolError('the Storage model with RecoverVariant "%s" no longer violates Durable' % rv)
    # the model of the pinned behaviour must still exhibit the repaired defects (otherwise the model lost its teeth)
    for inv in ("Reopenable", "Durable", "Atomic", "Prefix"):
        text = tlc.cfg_variant("storage", "StorageMC.cfg", subst={"Variant": '"orig"'}, drop=["INVARIANTS"],
                               add=["INVARIANT " + inv])
        r = tlc.run("storage", "StorageMC", "StorageMC_orig_%s.cfg" % inv, cfg_text=text, timeout=600, coverage=False,
                    must_pass=False, out_name="storage_orig_%s_%s" % (inv, ctx.pid))
        if inv not in r["violated"]:
            raise core.ToolError('the Storage model of the pinned behaviour (Variant "orig") no longer violates %s' % inv)
        os.remove(r["out"])
    ctx.cov["model_teeth"] = 'Variant "orig" violates Reopenable, Durable, Atomic, Prefix (checked on this run)'


def validate_traces(ctx, results):
    """the recorded executions, abstracted to StorageTrace events with the crash observations merged in at their
    tickets, are validated by TLC: mechanism rules at every real step, Obs_* on every reopened image."""
    path = os.path.join(core.WORK, "storage_trace_%s.ndjson" % ctx.pid)
    nev = 0
    with open(path, "w") as f:
        for r in results:
            evs = list(r.get("events") or [])
            if not evs:
                continue
            merged = sorted(evs + list(r.get("crash_obs") or []), key=lambda e: (e["ticket"], 0 if e["ev"] != "Crash" else 1))
            f.write(json.dumps({"ev": "Reset", "run": r["wid"]}) + "\n")
            nev += 1
            for e in merged:
                f.write(json.dumps(e) + "\n")
                nev += 1
    if nev == 0:
        raise core.ToolError("no events to validate")
    rt = tlc.run("storage", "StorageTrace", "StorageTrace.cfg", timeout=3000, coverage=False, workers=1, deque=True,
                 env={"TRACE": path}, out_name="storage_trace_%s_%s" % (ctx.pid, ctx.tier))
    consumed = False
    fails = {}
    for line in open(rt["out"], errors="replace"):
        if line.startswith('"CONSUMED '):
            consumed = True
        elif line.startswith('"FAIL '):
            v = json.loads(json.loads(line)[len("FAIL "):])
            fails.setdefault(v["check"], []).append(v)
    if not consumed:
        raise core.ToolError("StorageTrace did not consume the whole trace (see %s)" % rt["out"])
    os.remove(rt["out"])
    os.remove(path)
    ctx.cov.setdefault("trace_validation", []).append(
        {"events": nev, "runs": len(results), "failed_checks": {k: len(v) for k, v in fails.items()}})
    ctx.cov["traces_validated_against_impl"] += len(results)
    by_wid = {r["wid"]: r for r in results}
    for name, vs in fails.items():
        if name.startswith("Obs_"):
            if OBS_OWNER.get(name) != ctx.pid:
                continue
            for v in vs[:5]:
                r = by_wid.get(v["run"], {})
                ctx.violation({"driver": "crash_sweep", "saved": None, "ticket": v["ev"].get("ticket"),
                               "model": v["ev"].get("variant"), "seed": r.get("seed"), "args": r.get("args")},
                              {"class": name, "model": v["ev"].get("model")},
                              "%s (judged by StorageTrace): recovered prefixes %s at ticket %s, model %s"
                              % (name, v["ev"].get("ms"), v["ev"].get("ticket"), v["ev"].get("model")))
        else:
            # a mechanism rule of the model does not hold in this execution: the model no longer describes the code,
            # or the code lost a safety step; the crash observations around it decide whether a property is broken
            ctx.drift(len(vs), "%s failed %d times, first: %s" % (name, len(vs), json.dumps(vs[0]["ev"])[:200]))


def replay(ctx, rp):
    core.build_harness(["crash_reopen"])
    saved = rp.get("saved")
    if not saved and rp.get("args") and rp.get("seed") is not None:
        # a violation of the second generation: run that workload's sweep again (both generations)
        core.build_harness(["storage_run", "crash_reopen"])
        build_shim()
        keep = os.path.join(core.WORK, "replay", "storage-%s-replay" % ctx.pid)
        r = sweep_workload((0, rp["seed"], rp["args"], 400, ["process", "synced", "mid"], keep, 6))
        if r.get("tool_error"):
            raise core.ToolError("replay of the workload failed: %s" % r["tool_error"])
        for v in r["violations"]:
            if v["prop"] == ctx.pid:
                ctx.violation(dict(rp, ticket=v.get("ticket")), {"class": v["class"], "model": "power" if v.get("model") not in (None, "process") else "process"},
                              "%s: %s" % (v["class"], v["detail"][:300]))
        return
    if not saved or not os.path.exists(os.path.join(saved, "ops0.log")):
        raise core.ToolError("the saved operation log of this replay is gone: %s" % saved)
    ops = fsimage.parse_log(os.path.join(saved, "ops0.log"))
    meta = json.load(open(os.path.join(saved, "meta0.json")))
    mk = fsimage.marks(ops)
    states, _ = states_of(meta)
    # the recorded paths are absolute: find the root
    root = None
    for o in ops:
        if o.op == fsimage.MKDIR:
            root = o.p1
            break
    fs = fsimage.FsState(root)
    for o in ops:
        fs.apply(o)
        if o.ticket == rp["ticket"]:
            break
    img = os.path.join(scratch(), "replay-img-%d" % os.getpid())
    shutil.rmtree(img, ignore_errors=True)
    fs.materialize(img, rp["model"], seed=rp["seed"] * 100003 + rp["ticket"])
    res = reopen(img, meta["opts"])
    shutil.rmtree(img, ignore_errors=True)
    acked, synced, started = bounds(meta, mk, rp["ticket"], 1)
    lo = acked if rp["model"] == "process" else synced
    core.log("replayed image: open=%s" % res.get("open"))
    for prop, cls, detail in judge(res, states, lo, started):
        core.log("  %s %s %s" % (prop, cls, detail[:300]))
        if prop == ctx.pid:
            ctx.violation(rp, {"class": cls, "model": "power" if rp["model"] != "process" else "process"}, "reproduced: " + cls)
