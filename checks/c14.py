"""C14 — checkpoint and restore reproduce the checkpointed state.

Spec: spec/ckpt/Checkpoint.tla (+CheckpointMC). The model keeps apart the files of the main directory (as objects
behind directory entries), the checkpoint directories, the state of the live process (memtable, sequence counter,
oracle, block cache keyed by table id / value-log (file, offset), value-log writer + handle cache, commit-log writer,
spawned clean-up tasks) and the ghost timeline. `Resets` says what restore_from_checkpoint resets in the live process.

  1. TLC checks CkptContent / RestoreExact / NoDiscardedTimeline / PostRestoreDurable / CommitsAccepted on every
     reachable state of the bounded model with Resets = AllResets (the repaired design satisfies the property),
  2. every transition TLC explores is exported as a scenario (edge cover) and `ckpt_run` replays it on a real Tree under
     a sweep of storage options (value log / versioning / version index on-off, 4 KiB..1 MiB block cache, flush on
     close, deferred clean-up tasks); every point read, scan, history read, the checkpoint directory opened as a
     database, and the reopened store are judged with what the PROPERTY prescribes (ghost state only),
  3. for every reset the pinned commit lacked (AllResets \\ PinnedResets in the spec) TLC derives a counterexample of the
     model `Resets = AllResets \\ {m}` and it is run on the real code. Where the code has the reset now (CodeResets) it
     must NOT reproduce (reproduced => VIOLATION: the repair is gone); where the code still lacks it, reproduced =>
     VIOLATION / known finding, not reproduced => conformance drift,
  4. random long behaviours of the same spec (-simulate; 3 keys, 2 checkpoints, several restores and reopens).

A violating scenario is attributed by experiment on the real code: it is re-run with single survivors of restore
taken out of the picture (1-byte block cache, no value log, no version index, clean-up tasks drained, checkpoint opened
on a copy); the minimal set that makes it pass is the structural signature (`needs`)."""
import json
import os
import re
import tempfile

from vlib import core, tlc

MANIFEST = {
    "engine": {"name": "ckpt", "path": "spec/ckpt",
               "kind_free_text": "TLA+ Checkpoint/CheckpointMC (TLC exhaustive + edge-cover export + counterexample export) "
                                 "-> harness ckpt_run on a real Tree (child-process pool)"},
    "category": "model_checking",
    "text": ("TLC checks on every reachable state of the bounded Checkpoint model (files as objects behind directory "
             "entries, checkpoint directories, live-process state incl. block cache / value-log writer and handles / "
             "version index / commit-log writer / spawned clean-up tasks, ghost timelines) that a checkpoint directory "
             "opened as a database reads the checkpointed state, that every read of the live store equals the current "
             "timeline (after a restore: checkpoint + later commits), that no read returns a value written only in a "
             "discarded timeline, that close + reopen reads the same, and that no commit is refused - for the design in "
             "which restore resets everything. Every explored transition is exported as a scenario and replayed on a "
             "real Tree under a sweep of storage options; point reads, forward/backward scans, history reads, the "
             "checkpoint directory opened standalone and the reopened store are judged by the ghost state. For every "
             "reset the code lacks TLC derives a counterexample that is run on the real code. Random long behaviours "
             "(-simulate) extend the depth. Violations are attributed by differential re-execution."),
    "design_ref": "DESIGN.md §4 C14",
    "note": ("Bounds: 2 keys (3 in random runs), set/delete commits of one key, <= 2-3 commits and <= 7-8 steps "
             "exhaustively, 1 checkpoint (2 in random runs), 1 restore (3), 1 reopen (2), whole-level compactions, one "
             "block per table in the model. No transaction is open across a restore; no commit races a checkpoint. "
             "Trusted: TLC, the driver's value encoding and judgement code."),
    "technique": "TLA+ model checking (TLC) + spec-to-implementation scenario replay with differential attribution",
}

SUB = "ckpt"
JOBS = int(os.environ.get("VERIF_CKPT_JOBS", "12"))
OPS = ["Commit", "Rotate", "Flush", "Compact", "Checkpoint", "Restore", "Reopen", "Probe", "OpenCkpt"]
INVARIANTS = ["TypeOK", "RestoreExact", "CkptContent", "NoDiscardedTimeline", "PostRestoreDurable", "CommitsAccepted"]

# which survivor of restore (driver's `needs`) a missing reset of the model corresponds to, and the
# model / driver configuration in which it matters
MECH = {
    "cache": dict(needs="block_cache", consts={"Vlog": "FALSE"}, flags=[]),
    "vlog": dict(needs="value_log", consts={"Vlog": "TRUE"}, flags=["--vlog"]),
    "index": dict(needs="version_index", consts={"Vlog": "TRUE", "Versioning": "TRUE", "Index": "TRUE"},
                  flags=["--versioning", "--index"]),
    "walgc": dict(needs="deferred_wal_cleanup", consts={"Vlog": "FALSE", "Drain": "FALSE"}, flags=["--no-drain"]),
    "walcopy": dict(needs="checkpoint_opened_in_place", consts={"Vlog": "FALSE"}, flags=[]),
    "memtable": dict(needs=None, consts={"Vlog": "FALSE"}, flags=[]),
    "oracle": dict(needs=None, consts={"Vlog": "FALSE"}, flags=[]),
}


def spec_sets():
    text = open(os.path.join(core.SPEC, SUB, "Checkpoint.tla")).read()

    def grab(name):
        m = re.search(r"^%s == \{([^}]*)\}" % name, text, re.M)
        if not m:
            raise core.ToolError("cannot find %s in Checkpoint.tla" % name)
        return set(re.findall(r'"(\w+)"', m.group(1)))
    return grab("AllResets"), grab("CodeResets"), grab("PinnedResets")


def consts_of(c):
    """model constants -> driver flags that must agree for zero-drift conformance"""
    flags = []
    if c.get("FlushOnClose", "FALSE") == "FALSE":
        flags.append("--no-flush-on-close")
    if c.get("Drain", "TRUE") == "FALSE":
        flags.append("--no-drain")
    return flags


def cfg_text(consts, add=None, drop=None):
    return tlc.cfg_variant(SUB, "CheckpointMC.cfg", subst=consts, add=add, drop=drop)


def model_check(ctx, name, consts):
    """Exhaustive check of the property on the repaired design (Resets = AllResets)."""
    c = dict(consts, Resets="MCAllResets")
    r = tlc.run(SUB, "CheckpointMC", "CheckpointMC_%s.cfg" % name, cfg_text=cfg_text(c), coverage=False, timeout=2400,
                workers=JOBS, out_name="c14_mc_%s_%s" % (name, ctx.tier))
    r["constants"] = ["%s=%s" % kv for kv in sorted(c.items())]
    r["invariants"] = INVARIANTS
    ctx.add_tlc(r)
    os.remove(r["out"])
    return r


def report(ctx, s, flags):
    """Driver summary -> verdicts: one ctx.violation per (needed survivor, symptom, place) with a replay file."""
    buckets = (s.get("extra") or {}).get("buckets") or {}
    tot = ctx.cov.setdefault("violation_buckets", {})
    for k, n in buckets.items():
        tot[k] = tot.get(k, 0) + n
    examples = (s.get("extra") or {}).pop("examples", None) or {}
    for v in s["violations"]:            # abort / hang recorded by the pool itself
        if v.get("kind") not in examples and v.get("kind") not in buckets:
            examples[v.get("kind")] = v
    for bucket, v in sorted(examples.items()):
        needs = v.get("needs") or ["unattributed"]
        body = {"driver": "ckpt_run", "scenario": v.get("scenario")}
        what = "%s at step %s (%s, %s, via %s): want %s got %s | needs %s | %s" % (
            v.get("symptom"), v.get("step"), v.get("where"), v.get("phase"), v.get("via"),
            json.dumps(v.get("want")), json.dumps(v.get("got", v.get("error", v.get("message"))))[:160],
            "+".join(needs), " ".join(o["op"] for o in (v.get("scenario") or {}).get("ops", [])))
        for m in needs:
            ctx.violation(body, {"needs": m, "symptom": v.get("symptom"), "where": v.get("where"),
                                 "vlog": bool(v.get("vlog")), "versioning": bool(v.get("versioning")),
                                 "index": bool(v.get("index"))}, what)
    missing = [k for k in buckets if k not in examples]
    if missing:
        raise core.ToolError("violation buckets without an example: %s" % missing)
    s["violations"] = []
    if (s.get("extra") or {}).get("tool_errors"):
        raise core.ToolError("ckpt_run reported tool errors: %s" % s["extra"].get("tool_error_example"))


def export_and_replay(ctx, name, consts, sweeps, sim=None, depth=None, require_ops=OPS):
    """The repaired design (Resets = AllResets): exhaustive check of the property on the bounded model and, in the
    same TLC run, export of its edge cover (or: random behaviours), replayed on the real code under each option set."""
    c = dict(consts, Resets="MCAllResets")
    text = cfg_text(c, drop=["INVARIANTS"] if sim else None, add=["ACTION_CONSTRAINT Export"])
    r = tlc.run(SUB, "CheckpointMC", "CheckpointMC_%s_x.cfg" % name, cfg_text=text, coverage=False, timeout=2400,
                out_name="c14_x_%s_%s" % (name, ctx.tier), mode="sim" if sim else "bfs", sim=sim, depth=depth,
                seed=ctx.seed, workers=4 if sim else JOBS)
    r["constants"] = ["%s=%s" % kv for kv in sorted(c.items())]
    r["invariants"] = [] if sim else INVARIANTS
    ctx.add_tlc(r)
    try:
        for flags in sweeps:
            fl = list(flags) + consts_of(c)
            s = core.run_driver("ckpt_run", [r["out"], "--jobs", JOBS] + fl, timeout=3000)
            if s["cases"] == 0:
                raise core.ToolError("no scenarios exported by TLC (%s)" % name)
            ex = s.get("extra") or {}
            absent = [o for o in require_ops if not ex.get("op_" + o) and not (o == "Rotate" and c.get("MaxRotates") == 0)]
            if absent:
                raise core.ToolError("operations never executed on the real code in %s: %s" % (name, absent))
            s["extra"] = dict(ex, flags=fl, export=name)
            ctx.add_driver(s)
            report(ctx, s, fl)
            core.log("[c14] %s %s: %d scenarios, %d steps, %d probes, %d checkpoint opens, %d violations, %d drift, %.1fs" % (
                name, " ".join(fl), s["cases"], s["steps"], ex.get("probes", 0), ex.get("ckpt_opens", 0),
                s["violation_count"], s.get("drift_count", 0), s["_wall_s"]))
    finally:
        if os.path.exists(r["out"]):
            os.remove(r["out"])
    return r


def directed(ctx, base):
    """For every reset the pinned commit lacked: a counterexample of the model that lacks only this reset, run on the
    real code. Repaired resets (in CodeResets): the counterexample must exist (teeth) and must not reproduce."""
    from concurrent.futures import ThreadPoolExecutor
    allr, coder, pinned = spec_sets()
    missing = sorted(allr - (coder & pinned))
    res = {}

    def search(m):
        c = dict(base, Resets="MCAllBut%s" % m.capitalize(), MaxOpens=2, **MECH[m]["consts"])
        text = cfg_text(c, drop=["INVARIANTS"], add=["INVARIANT CexAll"])
        r = tlc.run(SUB, "CheckpointMC", "CheckpointMC_cex_%s.cfg" % m, cfg_text=text, coverage=False, timeout=1200,
                    must_pass=False, workers=2, out_name="c14_cex_%s_%s" % (m, ctx.tier), xmx="3g")
        return m, c, r
    with ThreadPoolExecutor(max_workers=5) as ex:
        found = list(ex.map(search, missing))
    for m, c, r in found:
        info = MECH[m]
        lines = []
        for ln in open(r["out"], errors="replace"):
            if ln.startswith('"REPLAY '):
                lines.append(json.loads(ln)[len("REPLAY "):])
        os.remove(r["out"])
        if not lines:
            if r["errors"] or r["exit"] not in (0, 12):
                raise core.ToolError("TLC failed on the counterexample search for %s: %s" % (m, r["errors"][:2]))
            if m in coder:
                raise core.ToolError("the model without reset %r no longer violates the property: the directed "
                                     "regression scenario for this repaired defect is gone" % m)
            # the model without this reset satisfies the property within the bounds: nothing to direct
            res[m] = "no counterexample within bounds"
            ctx.drift(1, "model without reset %s satisfies the property within the bounds (spec lists it as missing)" % m)
            continue
        path = os.path.join(core.WORK, "c14_cex_%s_%d.ndjson" % (m, os.getpid()))
        with open(path, "w") as f:
            f.write("\n".join(lines[:3]) + "\n")
        fl = info["flags"] + [x for x in consts_of(c) if x not in info["flags"]]
        s = core.run_driver("ckpt_run", [path, "--jobs", 3] + fl, timeout=600)
        os.remove(path)
        s["extra"] = dict(s.get("extra") or {}, flags=fl, export="cex_" + m)
        needs_seen = set()
        for v in ((s.get("extra") or {}).get("examples") or {}).values():
            needs_seen.update(v.get("needs") or [])
        ctx.add_driver(s)
        report(ctx, s, fl)
        if m in coder:
            # repaired: report() above has turned any reproduction into a VIOLATION
            res[m] = "repaired: does not reproduce" if s["violation_count"] == 0 else \
                "REPRODUCED although the spec lists the reset as present (needs %s)" % "+".join(sorted(needs_seen))
        elif s["violation_count"] == 0 or (info["needs"] and info["needs"] not in needs_seen):
            res[m] = "not reproduced" + (" (other violations: needs %s)" % "+".join(sorted(needs_seen)) if needs_seen else "")
            ctx.drift(1, "the model lacks reset %r and predicts a violation; the real code does not show it "
                         "(update CodeResets in spec/ckpt/Checkpoint.tla)" % m)
        else:
            res[m] = "reproduced (needs %s)" % "+".join(sorted(needs_seen))
        core.log("[c14] directed counterexample for the model without reset %-8s: %s" % (m, res[m]))
    ctx.cov["directed_counterexamples"] = res
    ctx.cov["resets_missing_in_code_per_spec"] = sorted(allr - coder)


def run(ctx):
    core.build_harness(["ckpt_run"])
    q = ctx.quick
    base = dict(MaxSteps=7, MaxCommits=2, MaxRotates=1, MaxFlushes=2, MaxCompactions=1, MaxRestores=1,
                MaxReopens=1, MaxProbes=1, MaxOpens=2)
    # 1 + 2. the repaired design satisfies the property (exhaustive within the bounds); spec -> impl: the edge cover of
    # the same state graph is replayed on the real code under option sweeps
    small, mid = ["--cache", "4096", "--block", "128"], ["--cache", "65536"]
    vers = dict(Vlog="TRUE", Versioning="TRUE", Index="TRUE", FlushOnClose="TRUE")
    if q:
        export_and_replay(ctx, "edge", dict(base, Vlog="TRUE", MaxRotates=0), [[]])
        export_and_replay(ctx, "edge5", dict(base, Vlog="TRUE", MaxSteps=5, MaxCommits=3), [["--vlog"] + small])
        export_and_replay(ctx, "edgev", dict(base, MaxSteps=5, **vers), [["--versioning", "--index"]])
        export_and_replay(ctx, "edgend", dict(base, Vlog="FALSE", Drain="FALSE", MaxSteps=5, MaxRotates=0), [[]])
    else:
        model_check(ctx, "deep", dict(base, Vlog="TRUE", MaxSteps=9, MaxCommits=3, MaxRotates=0, MaxFlushes=3, MaxRestores=2))
        export_and_replay(ctx, "edge", dict(base, Vlog="TRUE", MaxSteps=8),
                          [[], ["--vlog"] + small, ["--ckpt-open", "copy"] + mid])
        export_and_replay(ctx, "edge3", dict(base, Vlog="TRUE", MaxSteps=6, MaxCommits=3),
                          [["--vlog", "--checksum"] + mid, small])
        export_and_replay(ctx, "edgef", dict(base, Vlog="TRUE", FlushOnClose="TRUE"), [["--vlog"]])
        export_and_replay(ctx, "edgev", dict(base, **vers), [["--versioning", "--index"], ["--versioning"] + small])
        export_and_replay(ctx, "edgend", dict(base, Vlog="FALSE", Drain="FALSE"), [[], ["--vlog"]])
    # 3. directed counterexamples for the resets the code lacks
    directed(ctx, dict(base, MaxSteps=8))
    # 4. random long behaviours of the same spec
    big = dict(KeySeq="MCKeySeq3", Ckpts='{"c1", "c2"}', MaxSteps=30, MaxCommits=12, MaxRotates=4, MaxFlushes=6, MaxCompactions=3,
               MaxRestores=3, MaxReopens=2, MaxProbes=6, MaxOpens=3)
    n = ctx.pick(120, 600)
    export_and_replay(ctx, "sim", dict(big, Vlog="TRUE"), [[], ["--vlog"] + small] if q else
                      [[], ["--vlog"] + small, ["--vlog"] + mid, ["--ckpt-open", "copy"] + small], sim=n, depth=30)
    export_and_replay(ctx, "simv", dict(big, **vers),
                      [["--versioning", "--index"]] if q else [["--versioning", "--index"], ["--versioning"] + small],
                      sim=n, depth=30)
    if not q:
        export_and_replay(ctx, "simnd", dict(big, Vlog="FALSE", Drain="FALSE"), [[], ["--vlog"]], sim=n, depth=30)
    ckpt_race(ctx)
    # the copies of a checkpoint are one cut (spec/ckpt/CheckpointCut.tla; the pinned "steps" variant as teeth)
    from checks import _ckptcut
    _ckptcut.checkpoint_cut(ctx)
    ctx.cov["exhaustive"] = True
    ctx.cov["rule"] = ("every transition TLC explores in the bounded Checkpoint model (hist hidden by VIEW) is exported as "
                       "a scenario and executed on a real Tree under each option set; scenarios that are prefixes of "
                       "others are merged (their observations are embedded)")
    ctx.assumptions += [
        "bounds: 2-3 keys, one-key set/delete transactions, <= %d steps exhaustively, 1 checkpoint (2 in random runs)" % ctx.pick(7, 8),
        "no transaction is open across a restore; checkpoints are taken while no commit is in flight (scenario replay: also no background work; ckpt_race: background flush / compaction running)",
        "background flush/compaction are kept idle (high L0 trigger); flush / compaction rounds go through the verif "
        "entry points that call the production code paths; a tokio current-thread runtime drives commits",
        "a reopen uses fresh Options (a new process would not share the block cache of the old one)",
        "history reads are judged with must/may sets (sets newer than the newest hard delete must be listed, any set "
        "of the current timeline may be, nothing else, never a value of a discarded timeline)",
    ]


CKPT_KINDS = ("checkpoint_failed", "checkpoint_unopenable", "checkpoint_holds_later_commit")


def ckpt_race(ctx, pid="C14"):
    """hook-free: checkpoints taken between bursts of commits - no commit in flight (as the property says), but the
    background flush and compaction tasks still busy with what the burst left behind. C14 judges the checkpoints (open,
    exactly the commits acknowledged before); C07 judges the live store (no commit or read error, reopens, nothing lost);
    C07 also runs it with checkpoints overlapping commits."""
    core.build_harness(["ckpt_race"])
    for i in range(ctx.pick(3, 12)):
        args = ["--commits", ctx.pick(12000, 20000), "--memtable", [16384, 32768, 65536][i % 3], "--checkpoints", 200]
        if pid == "C07" and i % 2 == 1:
            args.append("--overlap")
        s = core.run_driver("ckpt_race", args, timeout=900)
        ctx.add_driver(s)
        for v in s["violations"]:
            kind = str(v.get("kind"))
            mine = (kind in CKPT_KINDS or (kind != "reopen_refused" and "checkpoint" in str(v.get("what", "")))) == (pid == "C14")
            if not mine:
                ctx.cov["reported_by_sibling"] = ctx.cov.get("reported_by_sibling", 0) + 1
                continue
            ctx.violation({"driver": "ckpt_race", "args": [str(a) for a in args]},
                          {"needs": "concurrent_compaction", "symptom": kind} if pid == "C14" else {"class": kind, "driver": "ckpt_race"},
                          "%s: %s" % (kind, json.dumps({k: v[k] for k in v if k != "kind"})[:300]))
        ctx.cov["checkpoints_during_background_work"] = ctx.cov.get("checkpoints_during_background_work", 0) + s.get("cases", 0)


def replay(ctx, doc):
    rp = doc["replay"]
    if rp.get("driver") == "ckpt_race":
        ckpt_race(ctx, "C14")
        return
    with tempfile.NamedTemporaryFile("w", suffix=".ndjson", delete=False) as f:
        f.write(json.dumps(rp["scenario"]) + "\n")
    try:
        s = core.run_driver("ckpt_run", [f.name, "--jobs", 1])
    finally:
        os.remove(f.name)
    for v in s["violations"]:
        core.log("reproduced: %s" % json.dumps({k: v[k] for k in v if k != "scenario"})[:400])
    report(ctx, s, [])
