"""Shared by C01 / C06: spec/mvcc (physical arrangement, readers, compaction) <-> real Tree."""
import json
import os

from vlib import core, tlc

SUB = "mvcc"
BASE = {"Keys": '{"k1", "k2"}', "CommitKinds": '{"Set", "Del"}', "Readers": '{"r1", "r2"}', "NLevels": 2,
        "Versioning": "FALSE", "Variant": '"repo"', "RuleVariant": '"repo"', "MaxCommits": 3, "MaxFlushes": 2,
        "MaxCompactions": 1, "MaxSteps": 9, "MaxReopens": 0, "TwoStepBegin": "TRUE"}


def model_check(ctx, name, **over):
    c = dict(BASE, **over)
    text = tlc.cfg_variant(SUB, "MvccMC.cfg", subst=c)
    r = tlc.run(SUB, "MvccMC", "MvccMC_%s.cfg" % name, cfg_text=text, timeout=3000, coverage=False,
                out_name="mvcc_mc_%s_%s_%s" % (ctx.pid, name, ctx.tier))
    r["constants"] = ["%s=%s" % kv for kv in sorted(c.items())]
    r["invariants"] = ["SI", "Latest", "BeginWithin"]
    ctx.add_tlc(r)
    return r


def export_and_replay(ctx, name, driver_args, sim=None, depth=None, **over):
    c = dict(BASE, **over)
    text = tlc.cfg_variant(SUB, "MvccMC.cfg", subst=c, drop=["INVARIANTS"], add=["ACTION_CONSTRAINT Export"])
    r = tlc.run(SUB, "MvccMC", "MvccMC_%s_x.cfg" % name, cfg_text=text, timeout=3000, coverage=False,
                out_name="mvcc_x_%s_%s_%s" % (ctx.pid, name, ctx.tier),
                mode="sim" if sim else "bfs", sim=sim, depth=depth, seed=ctx.seed, workers=4 if sim else None)
    s = core.run_driver("mvcc_replay", [r["out"]] + driver_args + ["--jobs", "14"], timeout=3000)
    os.remove(r["out"])
    if s["cases"] == 0:
        raise core.ToolError("no mvcc scenarios exported (%s)" % name)
    ctx.add_driver(s)
    for v in s["violations"]:
        who = "latest" if v.get("who") == "latest" else "reader"
        ops = [o["op"] for o in (v.get("scenario") or {}).get("ops", [])]
        sig = {"class": "mvcc_" + str(v.get("kind")), "who": who}
        mine = (ctx.pid == "C01" and who == "reader") or (ctx.pid == "C06" and who == "latest") or \
            v.get("kind") in ("panic", "engine_error")
        if not mine and ctx.pid in ("C01", "C06"):
            # the sibling property reports this one; count it so that it is not silently lost
            ctx.cov.setdefault("reported_by_sibling", 0)
            ctx.cov["reported_by_sibling"] += 1
            continue
        ctx.violation({"driver": "mvcc_replay", "args": driver_args, "scenario": v.get("scenario")}, sig,
                      "%s by %s (want %s got %s) after %s" % (v.get("kind"), v.get("who"), v.get("want"), v.get("got"),
                                                               " ".join(ops)))
    return s


def replay(ctx, rp):
    import tempfile
    with tempfile.NamedTemporaryFile("w", suffix=".ndjson", delete=False, dir=core.WORK) as f:
        f.write(json.dumps(rp["scenario"]) + "\n")
    s = core.run_driver("mvcc_replay", [f.name] + rp.get("args", []) + ["--jobs", "1"])
    os.remove(f.name)
    for v in s["violations"]:
        core.log("reproduced: %s" % json.dumps({k: v.get(k) for k in ("kind", "who", "key", "want", "got")}))
        ctx.violation({"driver": "mvcc_replay", "args": rp.get("args", []), "scenario": v.get("scenario")},
                      {"class": "mvcc_" + str(v.get("kind")), "who": "latest" if v.get("who") == "latest" else "reader"},
                      "reproduced")
