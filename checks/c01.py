"""C01 — snapshot isolation, read side.

(a) spec/retention: the compaction retention rule, every case up to 3-4 versions of a key x snapshot sets x flags,
    executed on the REAL CompactionIterator; TLC evaluates ReadsPreserved on the real outputs.
(b) spec/mvcc: readers (two-step begin, shared horizons, pinned cursors) x commits x rotate/flush/compaction;
    TLC checks SI exhaustively on the bounded model and exports one scenario per explored transition, replayed
    on a real Tree with the begin window realised by the gate scheduler; every read of every open reader is judged."""
from checks import _mvcc, _retention
from vlib import core

MANIFEST = {
    "engine": {"name": "mvcc+retention", "path": "spec/mvcc, spec/retention",
               "kind_free_text": "TLA+ Mvcc/MvccMC + Retention/RetentionMC/RetentionTrace (TLC) -> harness mvcc_replay (real Tree, "
                                 "gate scheduler) and retention_run (real CompactionIterator)"},
    "category": "model_checking",
    "text": ("TLC checks SI (every open reader reads ReadAt(hist, k, its horizon) through point reads and pinned cursors) on "
             "every reachable state of the bounded Mvcc model - two-step begin, horizons shared by several transactions, "
             "cursors, rotate/flush/compaction at every level including the last - and ReadsPreserved on every retention case; "
             "the explored transitions are replayed on a real Tree (begin window held open by a gate in Transaction::new) and "
             "every retention case on the real CompactionIterator, with the property predicates evaluated on the real outputs."),
    "design_ref": "DESIGN.md §4 C01",
    "note": ("Bounds: 2 keys, <= 3 commits (Set/Del; thorough adds SoftDel/Replace, 3 levels, versioning, vlog), 2 readers, "
             "<= 2 flushes, <= 1-2 compactions, scenarios <= 7-9 steps; retention lists <= 3-4 versions. Commit is atomic in "
             "this model (apply+publish: see C05). Trusted: TLC, the drivers' comparison code, key/value byte mapping."),
    "technique": "TLA+ model checking (TLC) + schedule replay on the real engine + trace validation of real outputs",
}


def run(ctx):
    core.build_harness(["mvcc_replay", "retention_run"])
    _retention.run(ctx, "C01")
    if ctx.quick:
        _mvcc.model_check(ctx, "q", MaxSteps=8)
        _mvcc.export_and_replay(ctx, "race", ["--levels", "2"], Readers='{"r1"}', MaxSteps=7)
        _mvcc.export_and_replay(ctx, "shared", ["--levels", "2"], TwoStepBegin="FALSE", MaxCommits=2, MaxSteps=7)
        _mvcc.export_and_replay(ctx, "sim", ["--levels", "3", "--versioning", "--vlog"], sim=150, depth=14,
                                NLevels=3, Versioning="TRUE", CommitKinds='{"Set", "Del", "SoftDel", "Replace"}',
                                MaxCommits=5, MaxFlushes=3, MaxCompactions=3, MaxSteps=14)
    else:
        _mvcc.model_check(ctx, "t", MaxSteps=9)
        _mvcc.model_check(ctx, "t3", NLevels=3, MaxCompactions=2, MaxSteps=8, Readers='{"r1"}')
        _mvcc.export_and_replay(ctx, "race", ["--levels", "2"], Readers='{"r1"}', MaxSteps=8)
        _mvcc.export_and_replay(ctx, "shared", ["--levels", "2"], TwoStepBegin="FALSE", MaxCommits=2, MaxSteps=8)
        _mvcc.export_and_replay(ctx, "l3", ["--levels", "3"], NLevels=3, Readers='{"r1"}', TwoStepBegin="FALSE",
                                MaxCompactions=2, MaxSteps=8)
        _mvcc.export_and_replay(ctx, "vers", ["--levels", "2", "--versioning", "--vlog"], Versioning="TRUE",
                                Readers='{"r1"}', TwoStepBegin="FALSE", CommitKinds='{"Set", "Del", "Replace"}', MaxSteps=7)
        _mvcc.export_and_replay(ctx, "sim", ["--levels", "3", "--versioning", "--vlog"], sim=2500, depth=16,
                                NLevels=3, Versioning="TRUE", CommitKinds='{"Set", "Del", "SoftDel", "Replace"}',
                                MaxCommits=6, MaxFlushes=4, MaxCompactions=4, MaxSteps=16)
    ctx.cov["exhaustive"] = True
    ctx.cov["rule"] = "edge cover of the bounded Mvcc state graph + random behaviours (-simulate), each replayed on a real Tree"
    ctx.assumptions += ["commit is one atomic step in spec/mvcc (the pipeline's interleavings are C05's)",
                        "a reader's horizon may be any value between the call and the return of begin(); all its reads "
                        "must agree with one such value"]


def replay(ctx, doc):
    rp = doc["replay"]
    if rp.get("driver") == "retention_run":
        _retention.replay(ctx, rp, "C01")
    else:
        _mvcc.replay(ctx, rp)
