"""C06 — flush, compaction, caching and reopen never change query answers.

The expected answers in the scenarios exported from spec/mvcc are computed from the logical history alone
(ReadAt(hist, k, h)); rotate / flush / compaction / reopen steps are physical noise. So the same scenarios are replayed
under a sweep of storage configurations (level count 1..7, block size, compression, bloom filter, cache size, value
log) - metamorphic twins: every configuration must give the one answer the history prescribes.
TLC checks `Latest` (and SI) on the bounded model, where the physical arrangement and the retention rule are explicit."""
from checks import _mvcc, _retention
import json

from vlib import core

MANIFEST = {
    "engine": {"name": "mvcc+retention", "path": "spec/mvcc, spec/retention",
               "kind_free_text": "see C01"},
    "category": "model_checking",
    "text": ("TLC checks on every reachable state of the bounded Mvcc model (all placements of rotate / flush / compaction "
             "at every level incl. last-level tombstone dropping / clean reopen between commits of sets, hard and soft "
             "deletes and replaces) that the latest reader reads ReadAt(hist, k, visible); every explored transition and "
             "random long behaviours are replayed on real Trees under a sweep of storage options, where point reads and "
             "forward/backward scans of a fresh reader must equal the history's answer; the retention rule is checked "
             "case-exhaustively on the real CompactionIterator (latest reader and `below` versions)."),
    "design_ref": "DESIGN.md §4 C06",
    "note": ("Bounds: 2 keys, <= 3-6 commits, <= 2-4 flushes, <= 2-4 compaction rounds, <= 1 reopen; option sweep: level_count "
             "1/2/3/7, block 64/128/4096, snappy, bloom on/off, cache 0/default, vlog on/off, versioning on/off; directed: reopen with "
             "a different level_count (both directions). "
             "Compaction inputs in the model are whole levels (tiny key space)."),
    "technique": "TLA+ model checking (TLC) + scenario replay under option sweep (metamorphic) on the real engine",
}

KINDS = '{"Set", "Del", "SoftDel", "Replace"}'
SWEEP = [
    ["--levels", "1"],
    ["--levels", "2", "--vlog", "--cache", "0", "--block", "64"],
    ["--levels", "3", "--snappy", "--nobloom"],
    ["--levels", "7", "--versioning", "--block", "4096"],
]


def run(ctx):
    core.build_harness(["mvcc_replay", "retention_run"])
    _retention.run(ctx, "C06")
    common = dict(Readers="{}", CommitKinds=KINDS, NLevels=3, TwoStepBegin="FALSE", MaxReopens=1)
    if ctx.quick:
        _mvcc.model_check(ctx, "q", MaxCommits=3, MaxFlushes=2, MaxCompactions=2, MaxSteps=8, **common)
        _mvcc.export_and_replay(ctx, "edge", ["--levels", "3"], MaxCommits=3, MaxFlushes=2, MaxCompactions=2, MaxSteps=6,
                                **common)
        for i, sw in enumerate(SWEEP):
            _mvcc.export_and_replay(ctx, "sim%d" % i, sw, sim=100, depth=16, MaxCommits=6, MaxFlushes=4,
                                    MaxCompactions=4, MaxSteps=16,
                                    **dict(common, Versioning="TRUE" if "--versioning" in sw else "FALSE"))
    else:
        _mvcc.model_check(ctx, "t", MaxCommits=4, MaxFlushes=3, MaxCompactions=2, MaxSteps=9, **common)
        _mvcc.export_and_replay(ctx, "edge", ["--levels", "3"], MaxCommits=3, MaxFlushes=2, MaxCompactions=2, MaxSteps=8,
                                **common)
        _mvcc.export_and_replay(ctx, "edge2", ["--levels", "2", "--vlog", "--cache", "0"], MaxCommits=3, MaxFlushes=2,
                                MaxCompactions=2, MaxSteps=7, **dict(common, NLevels=2))
        for i, sw in enumerate(SWEEP):
            _mvcc.export_and_replay(ctx, "sim%d" % i, sw, sim=1500, depth=20, MaxCommits=8, MaxFlushes=5,
                                    MaxCompactions=5, MaxSteps=20,
                                    **dict(common, Versioning="TRUE" if "--versioning" in sw else "FALSE"))
    level_change(ctx)
    ctx.cov["exhaustive"] = True
    ctx.cov["option_sweep"] = SWEEP


def level_change(ctx):
    """directed: written with one level_count, reopened with another (2->4, 4->2, 3->7, 7->3, 1->3, 3->1), compactions at
    every level, another reopen: scans and point reads must stay those of the logical history"""
    s = core.run_driver("level_change", [], timeout=600)
    if s["cases"] == 0:
        raise core.ToolError("level_change ran no case")
    ctx.add_driver(s)
    for v in s["violations"]:
        ctx.violation({"driver": "level_change", "case": v.get("case")}, {"class": str(v.get("kind")), "level_change": True},
                      "%s: %s" % (v.get("kind"), json.dumps({k: v[k] for k in v if k != "kind"})[:400]))
    ctx.cov["rule"] = ("edge cover of the bounded Mvcc state graph (no readers, 4 write kinds, reopen) + random behaviours, "
                       "each replayed on real Trees under 4 option sets; answers must equal ReadAt(hist)")
    ctx.assumptions += ["background tasks are kept idle (high L0 trigger); flush/compaction rounds are driven through the "
                        "verif entry points that call the production code paths"]


def replay(ctx, doc):
    rp = doc["replay"]
    if rp.get("driver") == "retention_run":
        _retention.replay(ctx, rp, "C06")
    elif rp.get("driver") == "level_change":
        level_change(ctx)
    else:
        _mvcc.replay(ctx, rp)
