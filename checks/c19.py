"""C19 — one live instance per database directory.

Spec: spec/lock/Lock.tla (+LockMC). TLC checks OneLive / LiveHoldsLock / OnlyHolderTouches /
ReopenAfterRelease on every reachable state of the bounded Lock model (openers in one process and
across processes; build() and close() cut at the four gate sites of src/lockfile.rs; clones, Drop
inside / outside a runtime, SIGKILL / exit, damaged files) and exports one behaviour per explored
transition (an edge cover of the state graph); `lock_run` replays each of them with REAL processes on a
real database directory and judges every real outcome with the property (second open refused, refused
open leaves every file but LOCK byte-identical, live store keeps working, directory opens again after
close / drop / death, data survives). Random long behaviours (-simulate) and a hook-free race stress
(concurrent build() in threads and processes, build() hammering during close()) extend it."""
import json
import os
import tempfile

from vlib import core, tlc

MANIFEST = {
    "engine": {"name": "lock", "path": "spec/lock",
               "kind_free_text": "TLA+ Lock/LockMC (TLC exhaustive + edge-cover export) -> harness lock_run: "
                                 "behaviours replayed with real processes, gate-scheduled at src/lockfile.rs"},
    "category": "model_checking",
    "text": ("TLC checks at-most-one-live-store, live-store-owns-the-lock, only-the-owner-touches-files and "
             "reopen-after-release on every reachable state of the bounded Lock model (3 opener slots in 2 processes, "
             "clones, Drop inside/outside a tokio runtime, close() spawned by Drop, SIGKILL/exit, damaged manifest/WAL). "
             "Every transition TLC explores is exported as a behaviour and replayed with real child processes driven "
             "over pipes and parked at the gate sites lock_try / lock_acquired / lock_release / lock_released; after "
             "every step the directory digest is compared, after the last step a fresh process probes the directory, "
             "then everything is wound down and the directory must open again with all data. Random long behaviours "
             "of the same spec and a hook-free race stress extend the depth."),
    "design_ref": "DESIGN.md §4 C19",
    "note": ("Bounds: 3 slots (2 share a process), <= 2 handles per store, <= 1 damage per behaviour, edge cover to depth "
             "7-12 (full model) and 9-24 (model without the three known-defect triggers, thorough: its complete graph), "
             "random behaviours <= 40 steps. Trusted: TLC, flock(2), the driver's digest / ghost bookkeeping."),
    "technique": "TLA+ model checking (TLC) + spec-to-implementation behaviour replay with real processes",
}

SPEC_DIR = os.path.join(core.SPEC, "lock")
DRIVER_THREADS = int(os.environ.get("VERIF_LOCK_THREADS", "10"))

# every (operation, predicted outcome) pair of the model must have been executed on the real code
REQUIRED_PAIRS = {"OpenBegin:Parked", "LockTry:Ok", "LockTry:Refused", "Recover:Ok", "Commit:Ok", "DropHandle:Ok",
                  "CloseBegin:Parked", "Unlock:Parked", "CloseEnd:Ok", "AsyncCloseBegin:Parked", "Die:Ok"}
REQUIRED_PAIRS_FULL = REQUIRED_PAIRS | {"Recover:ErrDamage", "Commit:Err", "Clone:Ok", "CloseBegin:Ok",
                                        "AsyncCloseBegin:Ok", "Damage:Ok", "Repair:Ok", "RtRestart:Ok"}
MC_ACTIONS = ["DoOpenBegin", "DoLockTry", "DoRecover", "DoCommit", "DoClone", "DoDropHandle", "DoCloseBegin",
              "DoAsyncCloseBegin", "DoUnlock", "DoCloseEnd", "DoRtRestart", "DoDie", "DoDamage", "DoRepair"]

# the model without the triggers of the three defects the full model exhibits (see spec/lock/NOTES.md):
# no clones, Drop only inside a runtime, only the manifest is damaged
CLEAN = {"MaxHandles": 1, "Ctxs": '{"rt"}', "DamageKinds": '{"manifest"}'}


def leak_fixed():
    """LockMC.cfg says the lock leak is repaired in the code: no leak, so no RtRestart in the model."""
    return any(c.replace(" ", "") == "FixLeak=TRUE" for c in tlc._parse_cfg_constants(os.path.join(SPEC_DIR, "LockMC.cfg")))


def report(ctx, s, mode, extra_replay=None):
    """Driver summary -> verdicts. One ctx.violation per structural signature (with its count)."""
    groups = s.get("extra", {}).get("violation_groups")
    if groups is None:
        groups = [{"count": 1, "signature": v.get("signature"), "example": v} for v in s["violations"]]
    for g in groups:
        ex = g["example"]
        rp = {"driver": "lock_run", "mode": mode}
        if mode == "race":
            rp["race"] = ex.get("race")
        else:
            case = dict(ex.get("case") or {})
            case["idx"] = ex.get("case_idx", 0)
            rp["case"] = case
        rp.update(extra_replay or {})
        new = ctx.violation(rp, signature=g["signature"],
                            what="%dx %s: %s" % (g["count"], ex.get("kind"), ex.get("what")))
        if new and ex.get("kind") == "hang":
            ctx.cov["stopped_after_hang"] = True


def export_and_replay(ctx, name, max_steps, subst=None, sim=None, max_dies=None, required=frozenset(REQUIRED_PAIRS)):
    if ctx.cov.get("stopped_after_hang"):
        return None, None       # every further case would cost a full timeout; the verdict is clear
    sub = dict({"MaxSteps": max_steps}, **(subst or {}))
    if max_dies is not None:
        sub["MaxDies"] = max_dies
    text = tlc.cfg_variant("lock", "LockMC.cfg", subst=sub, add=["ACTION_CONSTRAINT Export"])
    r = tlc.run("lock", "LockMC", "LockMC_%s.cfg" % name, cfg_text=text, coverage=not sim, timeout=3000,
                out_name="c19_%s_%s" % (name, ctx.tier), workers=4,
                mode="sim" if sim else "bfs", sim=sim, depth=max_steps, seed=ctx.seed)
    if not sim:
        missing = [a for a in MC_ACTIONS if r["actions"].get(a, [0, 0])[1] == 0
                   and not (a in ("DoClone", "DoRtRestart") and subst) and not (a == "DoRtRestart" and leak_fixed())]
        if missing:
            raise core.ToolError("actions never taken in LockMC %s: %s" % (name, missing))
    args = [r["out"], "--threads", DRIVER_THREADS]
    if sim:
        args.append("--longest-only")
    s = core.run_driver("lock_run", args, timeout=3000)
    os.remove(r["out"])
    if s["cases"] == 0:
        raise core.ToolError("no behaviours exported by TLC (%s)" % name)
    seen = set(s["extra"].get("op_prediction_pairs", []))
    s["extra"] = dict(s["extra"], config=name, max_steps=max_steps)
    ex = dict(s["extra"])
    ex.pop("violation_groups", None)
    ctx.add_driver(dict(s, extra=ex))
    report(ctx, s, "replay")
    ctx.cov["op_outcome_pairs_on_real_code"] = sorted(set(ctx.cov.get("op_outcome_pairs_on_real_code", [])) | seen)
    # vacuity guard (only meaningful when the replay was not cut short by fresh violations)
    if not sim and not ctx.violations and not required <= seen:
        raise core.ToolError("model outcomes never exercised on the real code (%s): %s" % (name, sorted(required - seen)))
    return r, s


def race(ctx, rounds):
    if ctx.cov.get("stopped_after_hang"):
        return
    s = core.run_driver("lock_run", ["--race", rounds, "--seed", ctx.seed], timeout=3000)
    if s["cases"] == 0:
        raise core.ToolError("race stress ran no round")
    ctx.add_driver(s, traces=False)
    ctx.cov["race_rounds"] = ctx.cov.get("race_rounds", 0) + s["cases"]
    report(ctx, s, "race", {"rounds": rounds, "seed": ctx.seed})


def run(ctx):
    core.build_harness(["lock_run"])
    cfg = os.path.join(SPEC_DIR, "LockMC.cfg")
    # 1. exhaustive model check of the complete bounded model (no step bound: the graph is finite)
    r = tlc.run("lock", "LockMC", "LockMC.cfg", timeout=3000, out_name="c19_mc_" + ctx.tier, workers=8,
                coverage=not ctx.quick)
    r["constants"] = tlc._parse_cfg_constants(cfg)
    r["invariants"] = tlc._parse_cfg_list(cfg, "INVARIANT")
    ctx.add_tlc(r)
    # 2. the same model with the two proposed repairs switched on satisfies the invariants WITHOUT the
    #    known-defect escapes: the escapes describe exactly those defects and nothing else
    strict = ["TypeOK", "HolderIsSomebody", "LockedImpliesHolder", "OneLiveStrict", "LiveHoldsLockStrict",
              "OnlyHolderTouches", "ReopenAfterReleaseStrict"]
    text = tlc.cfg_variant("lock", "LockMC.cfg", subst={"FixCloneDrop": "TRUE", "FixLeak": "TRUE"},
                           drop=["INVARIANT"], add=["INVARIANTS " + " ".join(strict)])
    r2 = tlc.run("lock", "LockMC", "LockMC_fixed.cfg", cfg_text=text, timeout=3000, coverage=False,
                 out_name="c19_fixed_" + ctx.tier, workers=4)
    r2["constants"] = ["FixCloneDrop=TRUE", "FixLeak=TRUE"]
    r2["invariants"] = strict
    ctx.add_tlc(r2)
    # 2b. directed: a handle that was closed explicitly is dropped later, inside a runtime, while a new instance owns the
    #     directory (its Drop runs the shutdown a second time): nothing in the directory may change
    core.build_harness(["double_close"])
    s = core.run_driver("double_close", [], timeout=600)
    if s["cases"] == 0:
        raise core.ToolError("double_close ran no case")
    ctx.add_driver(s)
    for v in s["violations"]:
        ctx.violation({"driver": "double_close"}, {"class": str(v.get("kind")), "double_close": True},
                      "%s: %s" % (v.get("kind"), json.dumps({k: v[k] for k in v if k != "kind"})[:300]))
    # 3. spec -> impl: edge cover of the state graph replayed with real processes
    export_and_replay(ctx, "edge", ctx.pick(7, 12))
    export_and_replay(ctx, "clean", ctx.pick(9, 100), subst=CLEAN)
    seen = set(ctx.cov.get("op_outcome_pairs_on_real_code", []))
    need = REQUIRED_PAIRS_FULL - ({"RtRestart:Ok"} if leak_fixed() else set())
    if not ctx.violations and not need <= seen:
        raise core.ToolError("model outcomes never exercised on the real code: %s" % sorted(need - seen))
    # 4. long random behaviours of the same spec (TLC -simulate); only the maximal ones are replayed
    export_and_replay(ctx, "sim", 40, sim=ctx.pick(15, 500), max_dies=2)
    export_and_replay(ctx, "simclean", 40, sim=ctx.pick(15, 500), max_dies=2, subst=CLEAN)
    # 5. real races, no gates: concurrent build() in threads and processes, build() during close()
    race(ctx, ctx.pick(100, 3000))
    ctx.cov["exhaustive"] = True
    ctx.cov["rule"] = ("every transition TLC explores in the bounded Lock model (distinct states expanded once, hist "
                       "hidden by VIEW) is exported as a behaviour and executed with real processes; thorough: the "
                       "complete graph of the model without the three known-defect triggers")
    ctx.assumptions += [
        "bounds: 3 opener slots (o1,o2 in one process, o3 in another), <= 2 Tree handles per store, <= 1 damaged file per behaviour",
        "every slot is a thread with its own current-thread tokio runtime; two stores sharing one runtime are not explored",
        "the LOCK pid text is informational: excluded from the digest, compared as drift only (DESIGN §8 item 18)",
        "new empty directories created by a refused build() (mkdirs before the lock) are drift, not violations",
        "error *variants* are drift only; a refused build() is recognised by failing before the gate lock_acquired",
        "data: keys acknowledged before a close() that returned Ok, or read back by a later store, must survive; "
        "keys of a killed / dropped store may or may not (that is C02's business)",
        "crash = SIGKILL / exit of the process (advisory locks die with the process); power loss is not part of C19",
    ]


def replay(ctx, doc):
    rp = doc["replay"]
    if rp.get("mode") == "race":
        s = core.run_driver("lock_run", ["--race", rp.get("rounds", 150), "--seed", rp.get("seed", 1)])
        report(ctx, s, "race", {"rounds": rp.get("rounds", 150), "seed": rp.get("seed", 1)})
        return
    with tempfile.NamedTemporaryFile("w", suffix=".ndjson", delete=False) as f:
        f.write(json.dumps(rp["case"]) + "\n")
    s = core.run_driver("lock_run", [f.name, "--threads", 1])
    os.remove(f.name)
    report(ctx, s, "replay")
