"""C07 — the store can always reopen what it wrote (see checks/_storage.py)."""
from checks import _storage

MANIFEST = {
    "engine": {"name": "storage", "path": "spec/storage, shim/fsrec.c",
               "kind_free_text": "TLA+ Storage/StorageMC/StorageTrace (TLC); LD_PRELOAD file-system recorder -> crash images at operation boundaries under two crash models "
                                 "-> real recovery in a child process -> oracle from the abstract commit history"},
    "category": "model_checking",
    "text": ("Seeded workloads (tiny memtables so that rotation / flush / compaction / WAL clean-up run constantly; immediate and "
             "eventual durability mixed; explicit WAL flushes) run on a real Tree under a recorder of every file-system "
             "operation; for crash instants around every rename / unlink / fsync / create and every acknowledgement, the "
             "directory is rebuilt as of that instant under the process-crash and the power-loss model, reopened by the real "
             "recovery code, and must open without error, give the same content when opened a second time, accept a commit that is then "
             "readable (not shadowed by recovered data) also after another reopen; a sample of recovered images receives further "
             "commits and is crashed again. Level shapes come from level_count 1/2/3/7 with L0 triggers 1-2 (several tables on "
             "deeper levels, levels emptied by tombstone compaction)."),
    "design_ref": "DESIGN.md §4 C07",
    "note": ("Single committer per workload (the commit order is the issue order); 6 option sets; power-loss images: all unsynced "
             "appended bytes dropped / half of them kept; namespace operations kept in order as the property's crash model says. "
             "spec/storage/Storage.tla is model checked (every reachable state = a crash instant, both models; the model of the "
             "pinned behaviour must still violate all four invariants) and bound to the code by StorageTrace.tla, which "
             "validates the abstracted operation log of every workload: mechanism rules at every real step, Obs_* on every image."),
    "technique": "TLA+ model checking of the storage model (TLC) + trace validation of recorded executions + crash-image enumeration on the real engine",
}


def run(ctx):
    _storage.model_check(ctx)
    tot = _storage.run_sweep(ctx, ctx.pick(18, 96), ctx.pick(120, 2000), ["process", "synced", "mid"], gen2=ctx.pick(1, 4))
    # the live store while checkpoints are taken next to the background flush / compaction (public API only)
    from checks import c14, _ckptcut
    c14.ckpt_race(ctx, "C07")
    # one flusher per immutable memtable (spec/background/FlushQueue.tla; pinned variant as teeth), enforced on the real
    # engine with the flush task held at flush.written while create_checkpoint() runs
    _ckptcut.flush_queue(ctx)
    _ckptcut.flush_gate(ctx)
    ctx.cov["evaluations"] = tot["images"] + tot["gen2_images"]
    ctx.cov["distinct_nontrivial"] = tot["images"]
    ctx.cov["rule"] = ("one evaluation = one (workload, crash instant, crash model) image reopened by the real recovery code; "
                       "non-trivial = the image differs from every other by instant or model (counted: images of generation 1)")


def replay(ctx, doc):
    if doc["replay"].get("driver") == "ckpt_flush_gate":
        from checks import _ckptcut
        _ckptcut.flush_gate(ctx)
    elif doc["replay"].get("driver") == "ckpt_race":
        from checks import c14
        c14.ckpt_race(ctx, "C07")
    else:
        _storage.replay(ctx, doc["replay"])
