"""C16 — damaged files are detected, never served as data.

Spec: spec/integrity/Integrity.tla (+IntegrityMC). The spec lists the regions of the three file formats
(table file, commit-log segment, value-log file) and models open / get / scan / log replay as the code's
sequence of read - check - interpret steps over those regions, with one damaged region chosen in Init.
TLC checks NoUseBeforeVerify / NeverServeDamaged / WalPrefixOrError on every reachable state and exports,
per (file kind, region, operation), the outcomes the modelled control flow can produce: the *obligations*.
`damage_run` discharges them on real files: databases built from seeded workloads, every byte of every
table / log / value-log file altered (thorough: every bit), tables truncated at every block boundary, each
case opened and read through the public API in a child process; the oracle is the property's
(original data or an error; for the commit log: one prefix-consistent state or an error; a panic, an
abort or a hang is a violation). Observed outcome classes outside the spec's prediction that do not break
the property are conformance drift."""
import json
import os
import tempfile

from vlib import core, tlc

LEVEL = "fault_enumeration"

MANIFEST = {
    "engine": {"name": "integrity", "path": "spec/integrity",
               "kind_free_text": "TLA+ Integrity/IntegrityMC (TLC exhaustive: region/operation obligations + predicted "
                                 "outcomes) -> harness damage_run: byte/bit alteration and truncation sweep on real files, "
                                 "child-process open + get/scan/history oracle"},
    "category": "fault_enumeration",
    "text": ("TLC enumerates, for a bounded instance of the three file formats, every (damaged region, operation) pair of the "
             "modelled open/get/scan/log-replay control flow and checks that no region is interpreted before a check that "
             "covers it passed (modulo the gaps the cfg names as today's code), that each gap switch alone makes the "
             "invariants fail (teeth), that the three proposed fixes close them, and that every behaviour "
             "terminates. The harness builds real databases (small blocks, several tables on several levels, snappy, value "
             "log with full checksums, versioned history, two-segment and fragmented commit logs, both recovery modes), alters "
             "every byte (thorough: every bit, every value of structural bytes) of every table / log / value-log file and "
             "truncates tables at every block boundary; each case is opened and fully read in a child process with a "
             "timeout, and every answer is judged: original data or an error, never anything else, never a panic or hang."),
    "design_ref": "DESIGN.md §4 C16, §7",
    "note": ("Level fault_enumeration: the spec contributes the obligation list, the predicted outcome classes and the "
             "control-flow invariants; byte fidelity (CRC strength) is decided by the harness on real files. Bounds: databases "
             "of 15-90 keys, files of 0.3-66 KiB; single alteration per case. Commit-log oracle: a prefix-consistent state "
             "or an error (a dropped damaged tail is accepted). Out of scope: manifest file, B+tree index, VLogChecksumLevel::Disabled."),
    "technique": "TLA+ model checking (TLC) of region/operation control flow + exhaustive single-fault enumeration on real files",
}

ACTIONS = ["OpenFooter", "OpenTopIndex", "OpenMetaIndex", "OpenFilter", "OpenVlog", "OpenWalWriter", "ReplayHeader", "ReplayVerify",
           "ReplaySegmentEnd", "ReplayDone", "Choose", "GetMem", "GetFilter", "GetPartition", "GetData", "GetVlog",
           "ScanBlock", "ScanValues"]
# gaps of the control flow for which no bad outcome has been observed on real files (weaknesses, not defects)
LATENT = {"sst.footer_handle_unverified"}
FIXED = {"VerifyFilter": "TRUE", "CompressionRecordChecked": "TRUE", "RepairOnlyNewestSegment": "TRUE",
         "KnownGaps": '{"sst.footer_handle_unverified"}'}
BAD = ("wrong", "panic", "hang", "hole")


def _file_key(rec):
    return "wal@" + rec["mode"] if rec["file"] == "wal" else rec["file"]


def parse_export(path, pred, gaps):
    """pred[(file, region, op)] = set of outcome classes the model can produce."""
    n = 0
    with open(path, errors="replace") as f:
        for line in f:
            if not line.startswith('"REPLAY '):
                continue
            rec = json.loads(json.loads(line)[len("REPLAY "):])
            if rec["file"] == "none":
                continue
            n += 1
            fk, region = _file_key(rec), rec["region"]
            pred.setdefault((fk, region, "open"), set()).add("original" if rec["open"] == "ok" else rec["open"])
            if rec["open"] == "ok":
                if rec["file"] == "wal":
                    pred.setdefault((fk, region, "state"), set()).add(rec["log"])
                else:
                    pred.setdefault((fk, region, rec["op"]), set()).add(rec["res"])
            if rec["gap"] != "none" and (rec["tainted"] or rec["log"] == "hole" or rec["res"] in BAD or rec["open"] in BAD):
                gaps.setdefault(rec["gap"], set()).add((fk, region))
    return n


def model_region(file_key, region):
    """driver region label -> the spec's region name"""
    if region.startswith("truncate@"):
        return "truncate"
    if file_key.startswith("wal") and region.startswith("payload"):
        return "payload"
    return region


def run_model(ctx):
    deep = "FALSE" if ctx.quick else "TRUE"
    pred, gaps, exported = {}, {}, 0
    cfgp = os.path.join(core.SPEC, "integrity", "IntegrityMC.cfg")
    consts = [c for c in tlc._parse_cfg_constants(cfgp) if "<-" not in c]
    invs = tlc._parse_cfg_list(cfgp, "INVARIANT")
    # 1. today's code, both recovery modes: invariants, action coverage, obligations export
    for mode in ("repair", "absolute"):
        text = tlc.cfg_variant("integrity", "IntegrityMC.cfg", subst={"WalMode": '"%s"' % mode, "Deep": deep},
                               add=["ACTION_CONSTRAINT Export"])
        r = tlc.run("integrity", "IntegrityMC", "IntegrityMC_%s.cfg" % mode, cfg_text=text, timeout=900, workers=8,
                    out_name="c16_%s_%s" % (mode, ctx.tier))
        tlc.require_coverage(r, ACTIONS)
        r["constants"] = [c for c in consts if not c.startswith(("WalMode", "Deep"))] + ["WalMode=" + mode, "Deep=" + deep]
        r["invariants"] = invs
        ctx.add_tlc(r)
        exported += parse_export(r["out"], pred, gaps)
        os.remove(r["out"])
    if exported == 0:
        raise core.ToolError("TLC exported no obligations")
    # 2. teeth: each switch set to the unfixed behaviour (the other two fixed, nothing but the latent gap
    #    tolerated) must make the model violate an invariant - independent of what the cfg says about today
    teeth = {}
    for sw, unfixed in (("VerifyFilter", "FALSE"), ("CompressionRecordChecked", "FALSE"), ("RepairOnlyNewestSegment", "FALSE")):
        text = tlc.cfg_variant("integrity", "IntegrityMC.cfg", subst=dict(FIXED, **{sw: unfixed}))
        r = tlc.run("integrity", "IntegrityMC", "IntegrityMC_teeth_%s.cfg" % sw, cfg_text=text, timeout=600, workers=2,
                    coverage=False, must_pass=False, out_name="c16_teeth_" + ctx.tier)
        if not r["violated"]:
            raise core.ToolError("model with %s = %s violates nothing: the switch no longer models a gap" % (sw, unfixed))
        teeth["%s=%s" % (sw, unfixed)] = r["violated"]
    ctx.cov["model_invariants_violated_per_unfixed_switch"] = teeth
    # 3. the proposed fixes (verify the filter block, crc-check the compression record, repair only the
    #    newest segment) close every gap in the model
    for mode in ("repair", "absolute"):
        text = tlc.cfg_variant("integrity", "IntegrityMC.cfg", subst=dict(FIXED, WalMode='"%s"' % mode, Deep=deep))
        r = tlc.run("integrity", "IntegrityMC", "IntegrityMC_fixed_%s.cfg" % mode, cfg_text=text, timeout=900, workers=8,
                    coverage=False, out_name="c16_fixed_%s_%s" % (mode, ctx.tier))
        r["constants"] = ["%s=%s" % kv for kv in FIXED.items()] + ["WalMode=" + mode, "Deep=" + deep]
        r["invariants"] = invs
        ctx.add_tlc(r)
    # 4. every behaviour of the model ends (open refused or operation answered)
    r = tlc.run("integrity", "IntegrityMC", "IntegrityLive.cfg", timeout=600, workers=4, coverage=False,
                out_name="c16_live_" + ctx.tier)
    r["invariants"] = ["Terminates (temporal, WF_vars(Next))"]
    ctx.add_tlc(r)
    for f in ("c16_teeth_", "c16_live_", "c16_fixed_repair_", "c16_fixed_absolute_"):
        try:
            os.remove(os.path.join(core.WORK, "tlc", f + ctx.tier + ".out"))
        except OSError:
            pass
    return pred, gaps, exported


def build_shim():
    """fsync & co. as no-ops for the sweep's child processes (throw-away copies; see shim/nosync.c)."""
    src = os.path.join(core.VERIF, "shim", "nosync.c")
    out = os.path.join(core.WORK, "nosync.so")
    os.makedirs(core.WORK, exist_ok=True)
    try:
        if not os.path.exists(out) or os.path.getmtime(out) < os.path.getmtime(src):
            core.sh(["gcc", "-O2", "-shared", "-fPIC", "-o", out, src])
        return out
    except core.ToolError:
        return ""


def signature(v):
    sig = {k: v[k] for k in ("axis", "region", "kind", "op", "recovery", "later_segment", "new_type") if k in v}
    return sig


def report(ctx, s):
    for v in s["violations"]:
        d = v.get("detail", {})
        what = "%s %s in %s/%s (%s): %s" % (v.get("kind"), v.get("op"), v.get("axis"), v.get("region"),
                                           v["replay"].get("profile"), json.dumps(d)[:300])
        ctx.violation(v["replay"], signature=signature(v), what=what)


def run(ctx):
    core.build_harness(["damage_run"])
    pred, gaps, exported = run_model(ctx)
    shim = build_shim()
    s = core.run_driver("damage_run", ["run", "--tier", ctx.tier, "--seed", ctx.seed, "--workers", ctx.pick(8, 12),
                                       "--timeout", 30],
                        env={"DAMAGE_PRELOAD": shim}, timeout=ctx.pick(900, 3000))
    if s["cases"] == 0:
        raise core.ToolError("no damage cases executed")
    ctx.add_driver(s)
    report(ctx, s)

    # ---- obligations: every (file, region, op) the spec lists must have been exercised on real files
    obs = {}
    for o in s["extra"]["observed"]:
        key = (o["file"], model_region(o["file"], o["region"]), o["op"])
        for oc, n in o["outcomes"].items():
            obs.setdefault(key, {}).setdefault(oc, 0)
            obs[key][oc] += n
    missing = [k for k in pred if k not in obs and k[2] == "open"]
    if missing:
        raise core.ToolError("obligations of the spec not exercised on real files: %s" % missing[:6])
    drift = []
    for key, outcomes in sorted(obs.items()):
        p = pred.get(key)
        if p is None:
            if key[2] not in ("close",):
                drift.append("%s: observed %s, the spec has no such obligation" % ("/".join(key), dict(outcomes)))
            continue
        for oc in outcomes:
            if oc not in p and oc not in BAD:     # BAD outcomes are violations, reported above
                drift.append("%s: observed %s x%d, spec predicts %s" % ("/".join(key), oc, outcomes[oc], sorted(p)))
    # a gap the spec attributes to today's code but that no real case exhibits: the spec is behind the code
    for gap, where in sorted(gaps.items()):
        if gap in LATENT:
            continue
        seen = any(oc in BAD for k, outcomes in obs.items() if (k[0], k[1]) in where for oc in outcomes)
        if not seen:
            drift.append("gap %s is modelled (%s) but no real case exhibits it: update the switch in IntegrityMC.cfg"
                         % (gap, sorted(where)[:3]))
    for d in drift[:12]:
        ctx.drift(1, d)
    if len(drift) > 12:
        ctx.drift(len(drift) - 12, "... %d more" % (len(drift) - 12))

    discharged = [k for k in pred if k in obs]
    ctx.cov["evaluations"] = s["cases"]
    ctx.cov["distinct_nontrivial"] = s["extra"]["cases_with_observable_effect"]
    ctx.cov["rule"] = ("a case = (database profile, file, byte offset, alteration) with alteration one of: single bit flip, byte "
                       "overwrite / xor, truncation of a table at a region boundary; quick: every byte of every file once (structural "
                       "bytes three times, log record types all six values), thorough: every bit of every byte plus 0x00/0xff/random, "
                       "every other value of structural bytes; large log regions are strided. All cases are distinct by construction; "
                       "a case is non-trivial when the alteration had an observable effect on at least one operation (refused open, "
                       "error from get/scan/history/close, dropped log tail, or a violation) - alterations of bytes nobody reads "
                       "(footer padding, unvalidated header fields, unreferenced value-log entries) are trivial")
    ctx.cov["obligations"] = len(pred)
    ctx.cov["discharged"] = len(discharged)
    ctx.cov["obligations_exported_by_tlc"] = exported
    ctx.cov["distinct_positions"] = s["extra"]["distinct_positions"]
    ctx.cov["bytes_under_test"] = s["extra"]["bytes_under_test"]
    ctx.cov["profiles"] = s["extra"]["profiles"]
    ctx.cov["outcomes_per_region"] = s["extra"]["outcomes_per_region"]
    ctx.cov["predicted_vs_observed"] = [
        {"file": k[0], "region": k[1], "op": k[2], "predicted": sorted(pred[k]), "observed": obs.get(k, {})}
        for k in sorted(pred)]
    ctx.cov["modelled_gaps"] = {g: sorted("/".join(w) for w in where) for g, where in gaps.items()}
    ctx.cov["exhaustive"] = False
    ctx.assumptions += [
        "single alteration per case (one bit / one byte / one truncation), applied to a closed database",
        "commit-log files: the answers must be those of one state 'everything flushed + a prefix of the logged commits', or an "
        "error; a damaged tail that is dropped silently is accepted (C12/C02 territory), a commit missing in the middle is not",
        "value log judged with VLogChecksumLevel::Full only; manifest, LOCK, B+tree index files are not altered",
        "panic = caught unwind in the child; abort / kill by signal = child exit status; hang = no answer within 30 s",
        "child processes run with RLIMIT_AS 16 GiB (an allocation driven by a damaged length beyond that aborts) and with "
        "fsync turned into a no-op (LD_PRELOAD shim) - durability is not judged here",
        "byte fidelity (CRC strength) is decided by the harness on real files, not by the spec (DESIGN §7)",
    ]


def replay(ctx, doc):
    core.build_harness(["damage_run"])
    shim = build_shim()
    with tempfile.NamedTemporaryFile("w", suffix=".json", delete=False) as f:
        json.dump(doc, f)
    s = core.run_driver("damage_run", ["replay", f.name], env={"DAMAGE_PRELOAD": shim}, timeout=600)
    os.remove(f.name)
    core.log("[C16] replayed: %s" % json.dumps(s["extra"].get("result"))[:600])
    report(ctx, s)
