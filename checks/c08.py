"""C08 — inside a transaction: read-your-writes, savepoints, rollback, modes, commit order.

Spec: spec/txn/Txn.tla (+TxnMC). TLC checks RYW / SavepointExact / Discard / ModeErrors / CommitOrder on
every reachable state of the bounded model, and exports one program per explored transition (an edge
cover of the state graph); `txn_replay` runs each of them on a real surrealkv::Transaction and judges
the real return values and the view of concurrent / later transactions."""
import os

from vlib import core, tlc

MANIFEST = {
    "engine": {"name": "txn", "path": "spec/txn",
               "kind_free_text": "TLA+ Txn/TxnMC (TLC exhaustive + edge-cover export) -> harness txn_replay on real Transaction"},
    "category": "model_checking",
    "text": ("TLC checks read-your-writes, exact savepoints, discard, mode errors and commit order on every "
             "reachable state of the bounded Txn model (the code's write-set representation next to ghost "
             "variables that state the property); every transition TLC explores is exported as a program and "
             "executed on a real Transaction, with probe reads after the last step, a concurrent reader and a "
             "fresh reader after drop / commit. Long random behaviours of the same spec (-simulate) extend the depth."),
    "design_ref": "DESIGN.md §4 C08",
    "note": ("Bounds: 2-3 keys, 2 values, 2 explicit timestamps, savepoint depth <= 3, exhaustive programs <= 5 steps, "
             "random ones <= 30. Trusted: TLC, the key/value byte mapping in harness/src/keys.rs, the driver's comparison."),
    "technique": "TLA+ model checking (TLC) + spec-to-implementation transition replay",
}


def export_and_replay(ctx, max_steps, extra_cfg=None, name="edge", versioning=False, workers=None, sim=None):
    text = tlc.cfg_variant("txn", "TxnMC.cfg", subst=dict({"MaxSteps": max_steps}, **(extra_cfg or {})),
                           drop=["VIEW"], add=["VIEW ViewNoSteps", "ACTION_CONSTRAINT Export"])
    r = tlc.run("txn", "TxnMC", "TxnMC_%s.cfg" % name, cfg_text=text, coverage=False, timeout=3000,
                out_name="c08_%s_%s" % (name, ctx.tier), workers=workers,
                mode="sim" if sim else "bfs", sim=sim, depth=max_steps, seed=ctx.seed)
    s = core.run_driver("txn_replay", [r["out"]] + (["--versioning"] if versioning else []))
    if s["cases"] == 0:
        raise core.ToolError("no programs exported by TLC")
    ctx.add_driver(s)
    for v in s["violations"]:
        ctx.violation({"driver": "txn_replay", "versioning": versioning, "program": v.get("program")},
                      signature={"kind": v.get("kind")},
                      what="%s at step %s: want %s got %s" % (v.get("kind"), v.get("step"), v.get("want"), v.get("got")))
    os.remove(r["out"])
    return r, s


def run(ctx):
    core.build_harness(["txn_replay"])
    # 1. exhaustive model check of the bounded model, invariants on
    steps = ctx.pick(4, 5)
    text = tlc.cfg_variant("txn", "TxnMC.cfg", subst={"MaxSteps": steps})
    r = tlc.run("txn", "TxnMC", "TxnMC.cfg", cfg_text=text, timeout=3000, out_name="c08_mc_" + ctx.tier)
    r["constants"] = tlc._parse_cfg_constants(os.path.join(core.SPEC, "txn", "TxnMC.cfg")) + ["MaxSteps=%d" % steps]
    r["invariants"] = tlc._parse_cfg_list(os.path.join(core.SPEC, "txn", "TxnMC.cfg"), "INVARIANT")
    ctx.add_tlc(r)
    # 2. spec -> impl: edge cover of the state graph replayed on the real Transaction
    export_and_replay(ctx, ctx.pick(4, 5), name="edge")
    export_and_replay(ctx, ctx.pick(3, 4), name="edgev", versioning=True)
    # 3. three keys and savepoint depth 3
    export_and_replay(ctx, ctx.pick(3, 4), name="wide",
                      extra_cfg={"Keys": '{"k1", "k2", "k3"}', "MaxSp": 3, "Modes": '{"rw"}'})
    # 4. long random behaviours of the same spec (TLC -simulate); every prefix is a program
    export_and_replay(ctx, 30, name="sim", sim=ctx.pick(250, 5000), workers=4,
                      extra_cfg={"Keys": '{"k1", "k2", "k3"}', "MaxSp": 3, "Modes": '{"rw", "wo"}'})
    ctx.cov["exhaustive"] = True
    ctx.cov["rule"] = ("every transition TLC explores in the bounded Txn model (distinct states expanded once, "
                       "hist hidden by VIEW) is exported as a program and executed on a real Transaction")
    ctx.assumptions += [
        "bounds: 2-3 keys, 2 values, 2 explicit timestamps, savepoint depth <= 2-3, programs <= %d steps" % steps,
        "error *variants* are compared as drift only; the property fixes accept/reject, values and final views",
        "keys are mapped to byte strings that are prefixes of one another and contain 0x00/0xff; one value is empty",
    ]


def replay(ctx, doc):
    import json
    import tempfile
    rp = doc["replay"]
    with tempfile.NamedTemporaryFile("w", suffix=".ndjson", delete=False) as f:
        f.write(json.dumps(rp["program"]) + "\n")
    s = core.run_driver("txn_replay", [f.name] + (["--versioning"] if rp.get("versioning") else []))
    os.remove(f.name)
    for v in s["violations"]:
        ctx.violation({"driver": "txn_replay", "versioning": rp.get("versioning"), "program": v.get("program")},
                      signature={"kind": v.get("kind")}, what=str(v.get("kind")))
