"""C15 — a failed commit leaves no trace and does not poison later commits (pipeline part; see checks/_commit.py).
File-system level faults (short writes, ENOSPC, fsync errors) are the storage module's part."""
from checks import _commit
from vlib import core

MANIFEST = {
    "engine": _commit.ENGINE, "category": "model_checking",
    "text": ("FailedInvisible / LoserLeavesNothing are model checked with injected log-append and apply failures; "
             + _commit.COMMON_TEXT + " C15 judges: nothing of a commit that returned an error (conflict, injected log failure, "
             "injected apply failure, transaction larger than the memtable) is ever seen by the probe readers, by the final "
             "reader, or after close + reopen; later commits succeed and are recovered."),
    "design_ref": "DESIGN.md §4 C15",
    "note": _commit.COMMON_NOTE + " Faults are injected at the two failpoints of LsmCommitEnv (before the log append, before "
            "the apply); byte-level I/O faults are not injected by this check.",
    "technique": "TLA+ model checking (TLC) + interleaving replay with fault injection on the real commit pipeline",
}


def run(ctx):
    core.build_harness(["commit_sched", "commit_size_sweep"])
    _commit.model_check(ctx, faults=1)
    if not ctx.quick:
        _commit.model_check(ctx, faults=2)
    _commit.replay_schedules(ctx, "edge", faults=1)
    _commit.size_sweep(ctx, ctx.pick(90, 900))
    # the commit-log writer under write / fsync failures (spec/storage/LogWriter.tla; bound to the code by the fault sweep)
    from checks import _logwriter
    _logwriter.model_check(ctx)
    # injected file-system failures (LD_PRELOAD layer) at sampled positions of recorded workloads, then crash + reopen
    from checks import _storage
    _storage.fault_sweep(ctx, ctx.pick(8, 32), ctx.pick(12, 60))
    if not ctx.quick:
        _commit.replay_schedules(ctx, "f2", faults=2)
    ctx.cov["exhaustive"] = True
    ctx.cov["rule"] = "edge cover of the bounded Commit state graph with fault disjuncts; size sweep around the memtable capacity"


def replay(ctx, doc):
    if doc["replay"].get("driver") == "fault_sweep":
        from checks import _storage
        rp = doc["replay"]
        core.build_harness(["storage_run", "crash_reopen"])
        _storage.build_shim()
        r = _storage.fault_workload((0, rp["seed"], rp["args"], 0, None, [rp["spec"]]))
        for v in r["violations"]:
            ctx.violation(rp, {"class": v["class"], "fault": v.get("phase") or "io", "fault_op": v["fault_op"],
                               "fault_path": v["fault_path"]}, "%s: %s" % (v["class"], v["detail"][:300]))
    else:
        _commit.replay(ctx, doc["replay"])
