"""C18 — the B+tree index (src/bplustree/tree.rs) is a persistent ordered map.

Spec: spec/btree/BTree.tla (+BTreeMC, BTreeTrace). BTree.tla models the page file the way the code
handles it (leaf / internal nodes with real byte sizes, per-cell and per-key overflow chains, size
balanced splits, 35 % underflow, borrow / merge, trunk-page free list, header) next to the ghost
ordered map that states the property. TLC checks get / range / cursor answers, decodability of the
file (reopen) and the page ledger on every reachable state of bounded scenarios and exports one
program per explored transition; `btree_run` executes each of them on a real DiskBPlusTree under
both key orders and judges every answer and the page ledger (spec -> code). Seeded long random
programs run on the real tree, are judged the same way, and their recorded traces are validated
step by step against the spec by TLC (code -> spec)."""
import concurrent.futures as cf
import json
import os
import random
import re
import shutil
import tempfile

from vlib import core, tlc

MANIFEST = {
    "engine": {"name": "btree", "path": "spec/btree",
               "kind_free_text": ("TLA+ BTree/BTreeMC (TLC exhaustive + edge-cover export, -simulate) -> harness btree_run on "
                                  "real DiskBPlusTree; BTreeTrace validates recorded random runs")},
    "category": "model_checking",
    "text": ("BTree.tla is an implementation-shaped model of the page file (nodes with the real byte arithmetic, overflow "
             "chains, splits, borrow/merge, trunk-page free list) with a ghost ordered map; TLC checks that get / range / "
             "cursor answers, what is decodable from the file alone, and the page ledger (every page referenced exactly "
             "once, free count exact) agree with the map on every reachable state of bounded scenarios (two- and "
             "three-level trees, separators with overflow chains, keys larger than a page, a nearly full parent, the "
             "empty key) and, with a 256-byte page, of deeper ones. Every explored transition is exported and executed "
             "on a real DiskBPlusTree under the bytewise and the timestamp key order; each result is judged against the "
             "ordered map, the file against the page ledger (verif_page_accounting), a second instance reads the file "
             "back after every program; the spec's predicted page layout is compared as conformance drift. Seeded "
             "random programs of >= 2000 operations over skewed key sets (sizes around every threshold of the page "
             "format, entries larger than a page, bulk frees that need several trunk pages, reopen at random points) "
             "are judged the same way and their traces are validated against the spec by TLC."),
    "design_ref": "DESIGN.md §4 C18",
    "note": ("Bounds: exhaustive programs of 2-4 (quick) / 3-5 (thorough) operations from 8 preloaded scenarios over 3-7 "
             "active keys x 2-5 size classes, random spec behaviours to depth 40, random real runs of 2000-3000 operations. "
             "Trusted: TLC, the key/value byte mapping and the ordered-map oracle of the driver (cross-checked against the "
             "spec's map on every exported program), the read-only page walk in src/verif/btree_pages.rs."),
    "technique": "TLA+ model checking (TLC) + spec-to-implementation transition replay + trace validation",
}



def quirks():
    """The known deviations the spec currently models as-is: one line of spec/btree/BTreeMC.cfg
    (`Quirks = {...}`), shared by every configuration. Remove a name there when the code is repaired."""
    for line in open(os.path.join(core.SPEC, "btree", "BTreeMC.cfg")):
        m = re.match(r"^\s*Quirks\s*=\s*(\{.*\})\s*$", line)
        if m:
            return m.group(1)
    raise core.ToolError("no Quirks line in BTreeMC.cfg")



def _set(xs):
    return "{" + ", ".join(str(x) for x in xs) + "}"


def _evens(n):
    return [2 * i for i in range(1, n + 1)]


# name, Keys, KeyLenSeq, Pre, ActKeys, ActClasses, ProbeKeys, (steps quick, thorough), key orders
SCENARIOS = [
    dict(name="leaf", keys=range(1, 9), kl="KL_small8", pre="Pre_empty", act=[1, 2, 3, 4, 5, 6], cls=[1, 2, 3, 4, 5],
         probe=[1, 3, 6], steps=(2, 3)),
    dict(name="two", keys=range(1, 13), kl="KL_small12", pre="Pre_two", act=[2, 4, 5, 6, 10], cls=[1, 2, 3],
         probe=[2, 5, 10], steps=(3, 4)),
    dict(name="deep", keys=sorted(set(_evens(20)) | {7, 21}), kl="KL_big42", pre="Pre_deep", act=[2, 4, 6, 7, 22, 40],
         cls=[1, 3], probe=[2, 7, 40], steps=(2, 3)),
    dict(name="presplit", keys=sorted(set(_evens(12)) | {11, 23, 25, 27}), kl="KL_big42", pre="Pre_presplit", act=[2, 11, 23, 25, 27],
         cls=[1, 3], probe=[2, 11, 25], steps=(2, 3)),
    dict(name="deepdel", keys=sorted(set(_evens(20)) | {7}), kl="KL_big42", pre="Pre_deepdel", act=[4, 8, 12, 16, 18, 7],
         cls=[1], probe=[4, 7, 18], steps=(3, 5)),
    dict(name="sepchain", keys=range(1, 17), kl="KL_mixed16", pre="Pre_sepchain", act=[1, 2, 4, 5, 6, 9, 12], cls=[1, 3],
         probe=[2, 5, 12], steps=(2, 3)),
    dict(name="sepmerge", keys=range(1, 13), kl="KL_mixed16", pre="Pre_sepmerge", act=[2, 3, 5, 6], cls=[1, 3],
         probe=[2, 5, 6], steps=(2, 3)),
    dict(name="chainsplit", keys=range(1, 45), kl="KL_chain44", pre="Pre_chainsplit", act=[1, 41, 42], cls=[1],
         probe=[1, 20, 41], steps=(2, 3)),
    dict(name="fullparent", keys=range(1, 27), kl="KL_d3", pre="Pre_fullparent", act=[8, 9, 10, 13, 14], cls=[1, 3],
         probe=[8, 10, 14], steps=(3, 4)),
    dict(name="overpage", keys=range(1, 13), kl="KL_over12", pre="Pre_over", act=[2, 3, 4, 6, 10], cls=[1, 2, 4],
         probe=[2, 4, 10], steps=(2, 3)),
    dict(name="emptykey", keys=range(1, 7), kl="KL_empty6", pre="Pre_empty", act=[1, 2, 3], cls=[1, 3],
         probe=[1, 2], steps=(3, 4), cmp="bytewise"),
]

# random spec behaviours (TLC -simulate): scenario, ActKeys, ActClasses, depth, (num quick, thorough)
SIMS = [
    dict(name="two", act=range(1, 13), cls=[1, 2, 3, 4, 5], depth=40, num=(40, 600)),
    dict(name="deep", act=sorted(set(_evens(20)) | {7, 21}), cls=[1, 3], depth=40, num=(20, 150)),
    dict(name="sepchain", act=range(1, 17), cls=[1, 3], depth=30, num=(20, 300)),
]

# branches of the spec that the replayed programs must have exercised on the real tree (vacuity guard)
REQUIRED_BRANCHES = [
    "insert_fits", "overwrite", "overwrite_frees_chain", "delete_plain", "delete_frees_chain", "delete_absent",
    "cell_chain_written", "key_chain_written", "split_leaf", "split_leaf_on_overwrite", "split_internal", "new_root",
    "redist_leaf_from_left", "redist_leaf_from_right", "redist_internal_from_right", "redist_refused",
    "redist_refused_parent_full", "merge_leaf", "merge_internal", "merge_frees_sep_chain", "root_collapses", "alloc_extend",
    "alloc_extend_list_empty", "alloc_reuse", "free_first_trunk", "free_entry", "sep_with_chain_replaced", "reopen",
]


def scenario_cfg(sc, steps, export=True, act=None, cls=None, small=False, pinned=None, invariant=None):
    subst = {
        "Scenario": '"%s"' % sc["name"],
        "Keys": _set(sc["keys"]),
        "KeyLenSeq": sc["kl"],
        "Pre": sc["pre"],
        "ActKeys": _set(act if act is not None else sc["act"]),
        "ActClasses": _set(cls if cls is not None else sc["cls"]),
        "ProbeKeys": _set(sc["probe"]),
        "MaxSteps": steps,
    }
    if small:
        subst.update({"PageSize": 256, "TrunkCap": 3, "ValLenSeq": "VL_tiny"})
    add = ["ACTION_CONSTRAINT Export"] if export else []
    drop = None
    if pinned is not None:          # model of the behaviour before a repair ("teeth" runs)
        subst["Quirks"] = '{"%s"}' % pinned
        drop = ["INVARIANTS"]
        add.append("INVARIANTS " + invariant)
    return tlc.cfg_variant("btree", "BTreeMC.cfg", subst=subst, add=add, drop=drop), subst


def run_tlc(name, text, subst, tier, subdir="btree", module="BTreeMC", **kw):
    """One TLC run (invariants + export). A violated invariant of the *model* is not a verdict: the run is
    repeated with -continue so that every explored transition is still exported; the caller replays them and
    only a reproduction on the real tree counts (DESIGN §6)."""
    args = dict(cfg_text=text, coverage=False, timeout=kw.pop("timeout", 2400), out_name="c18_%s_%s" % (name, tier), xmx="4g",
                must_pass=False)
    r = tlc.run(subdir, module, "%s_%s.cfg" % (module, name), **args, **kw)
    if r["violated"]:
        core.log("[C18] model invariant %s violated in scenario %s: exporting with -continue, replay decides" % (r["violated"], name))
        model_violation = list(r["violated"])
        r = tlc.run(subdir, module, "%s_%s.cfg" % (module, name), extra=["-continue"], **args, **kw)
        r["model_violation"] = model_violation
    elif r["exit"] != 0 or r["errors"]:
        raise core.ToolError("TLC failed on scenario %s (exit %s): %s (see %s)" % (name, r["exit"], r["errors"][:3], r["out"]))
    r["constants"] = ["%s=%s" % (k, v) for k, v in sorted(subst.items())] + ["Quirks=" + quirks()]
    r["invariants"] = tlc._parse_cfg_list(os.path.join(core.SPEC, "btree", "BTreeMC.cfg"), "INVARIANT")
    return r


def gen_scenarios(ctx, n):
    """Seeded random preloads (mixed key lengths per user key, random inserts / overwrites / deletes) written as a
    TLA+ module next to copies of the spec; TLC then explores every program of a few steps around each of them."""
    rng = random.Random(ctx.seed * 7919 + 13)
    gdir = os.path.join(core.WORK, "tlcgen_%d" % os.getpid())
    shutil.rmtree(gdir, ignore_errors=True)
    os.makedirs(gdir)
    for f in ("BTree.tla", "BTreeMC.tla"):
        shutil.copy(os.path.join(core.SPEC, "btree", f), gdir)
    defs, scs = [], []
    for i in range(n):
        nk = rng.choice([12, 16, 20, 24])
        pair = [rng.choice([18, 18, 300, 960, 999, 1200, 1200, 5000]) for _ in range(nk // 2)]
        kl = [pair[j // 2] for j in range(nk)]
        pre, present = [], set()
        for _ in range(rng.randint(10, 36)):
            k = rng.randint(1, nk)
            if k in present and rng.random() < 0.3:
                pre.append('<<"D", %d, 0>>' % k)
                present.discard(k)
            else:
                pre.append('<<"I", %d, %d>>' % (k, rng.choice([1, 1, 2, 3, 3, 4, 5])))
                present.add(k)
        inside = sorted(present)
        outside = sorted(set(range(1, nk + 1)) - present)
        act = sorted(set(rng.sample(inside, min(3, len(inside))) + rng.sample(outside, min(2, len(outside)))))
        defs.append("KL_g%d == <<%s>>\nPre_g%d == <<%s>>" % (i, ", ".join(map(str, kl)), i, ", ".join(pre)))
        scs.append(dict(name="g%d" % i, keys=range(1, nk + 1), kl="KL_g%d" % i, pre="Pre_g%d" % i, act=act, cls=[1, 3],
                        probe=act[:3], steps=(2, 2)))
    with open(os.path.join(gdir, "BTreeGen.tla"), "w") as f:
        f.write("---- MODULE BTreeGen ----\nEXTENDS BTreeMC\n%s\n====\n" % "\n".join(defs))
    tlc.sany(os.path.join(gdir, "BTreeGen.tla"))
    return gdir, scs


def vacuous(ctx, what):
    """Vacuity guard. Cases end at their first violation, so after a violation the coverage counters say nothing
    about the tooling: the verdict stands and the guard only logs."""
    if ctx.violations:
        core.log("[C18] coverage guard skipped after violations: " + what)
    else:
        raise core.ToolError(what)


def flat_signature(f):
    """Structural signature of a driver finding: kind + flattened facts (never the free text)."""
    sig = {"kind": f.get("kind")}
    for k, v in (f.get("facts") or {}).items():
        if isinstance(v, dict):
            for k2, v2 in v.items():
                sig[k2] = v2
        else:
            sig[k] = v
    return sig


def report_violations(ctx, s, source):
    for v in s["violations"]:
        f = v["finding"]
        case = v.get("case")
        ctx.violation({"driver": "btree_run", "source": source, "case": case, "original": v.get("original")},
                      signature=flat_signature(f),
                      what="%s at step %s of %s: %s" % (f.get("kind"), f.get("step"), (case or {}).get("id"), f.get("detail")))
    # violations beyond the ones the driver kept in full: same kinds, counted
    extra = s["violation_count"] - len(s["violations"])
    if extra > 0:
        core.log("[C18] %s: %d further violations of kinds %s" % (source, extra, json.dumps(s["extra"].get("violation_kinds"))))


def replay_exports(ctx, outs, cmps):
    """spec -> code: every exported transition on the real tree."""
    merged = os.path.join(core.WORK, "tlc", "c18_export_%s.out" % ctx.tier)
    lines = 0
    with open(merged, "w") as w:
        for o in outs:
            with open(o, errors="replace") as f:
                for line in f:
                    if line.startswith('"REPLAY '):
                        w.write(line)
                        lines += 1
    if lines == 0:
        raise core.ToolError("no programs exported by TLC")
    s = core.run_driver("btree_run", ["tlc", merged, "--cmp", cmps, "--workers", str(min(core.NCPU, 12))], timeout=3000)
    os.remove(merged)
    if s["extra"].get("tool_errors"):
        raise core.ToolError("btree_run: %s" % json.dumps(s["extra"]["tool_errors"][:3]))
    if s["cases"] < lines:
        raise core.ToolError("btree_run executed %d cases for %d exported programs" % (s["cases"], lines))
    return s, lines


def validate_traces(ctx, tdir):
    """code -> spec: TLC replays the recorded runs on BTree.tla (BTreeTrace)."""
    files = sorted(f for f in os.listdir(tdir) if f.endswith(".ndjson"))
    base = tlc.cfg_variant("btree", "BTreeTrace.cfg", subst={"Quirks": quirks()})

    def one(fn):
        tag = fn.replace(".ndjson", "")
        r = tlc.run("btree", "BTreeTrace", "BTreeTrace_%s.cfg" % tag, cfg_text=base, workers=1, coverage=False, deque=True,
                    env={"TRACE": os.path.join(tdir, fn)}, timeout=1500, must_pass=False, out_name="c18_trace_%s" % tag)
        conf = None
        with open(r["out"], errors="replace") as f:
            for line in f:
                if line.startswith('"CONF '):
                    conf = json.loads(json.loads(line)[len("CONF "):])
        return fn, r, conf

    with cf.ThreadPoolExecutor(max_workers=6) as ex:
        results = list(ex.map(one, files))
    events = 0
    for fn, r, conf in results:
        hdr = json.loads(open(os.path.join(tdir, fn)).readline())
        obs = [v for v in r["violated"] if v.startswith("Obs_")]
        if obs:
            # the logged answer of the real tree is not the ordered map's answer
            ctx.violation({"driver": "btree_run", "source": "trace", "case_id": hdr.get("id"), "trace": fn},
                          signature={"kind": "trace_" + obs[0]}, what="trace %s (%s): %s violated" % (fn, hdr.get("id"), obs))
            continue
        if r["violated"] or r["errors"] or r["exit"] != 0 or conf is None:
            raise core.ToolError("trace validation failed on %s: %s %s (see %s)" % (fn, r["violated"], r["errors"][:2], r["out"]))
        events += conf["checked"]
        if conf["differs_at"]:
            ctx.drift(1, "trace %s (%s): page counts differ from the spec's at events %s" % (fn, hdr.get("id"), conf["differs_at"]))
        ctx.cov["transitions"] += r["generated"]
        os.remove(r["out"])
    return len(results), events


# repaired defects: (quirk name, scenario in which it shows itself, invariant that says it never does)
TEETH = [("sep_chain", "sepmerge", "TeethSep"), ("sep_chain", "overpage", "TeethSep"),
         ("cursor_empty_leaf", "fullparent", "TeethCursor"), ("range_excl_empty", "emptykey", "TeethRange")]


def teeth(ctx):
    """The model of each *pinned* (pre-repair) behaviour must still produce its counterexample, and the programs
    exported from it must not fail on the code as it is now (a failure here = the defect is back)."""
    done = []
    for quirk, scn, inv in TEETH:
        if quirk in quirks():
            continue                 # still modelled as the current behaviour: nothing to compare
        sc = next(s for s in SCENARIOS if s["name"] == scn)
        text, subst = scenario_cfg(sc, sc["steps"][0], pinned=quirk, invariant=inv)
        r = tlc.run("btree", "BTreeMC", "BTreeMC_teeth_%s_%s.cfg" % (quirk, scn), cfg_text=text, coverage=False, timeout=1200,
                    out_name="c18_teeth_%s_%s_%s" % (quirk, scn, ctx.tier), must_pass=False, extra=["-continue"], workers=4, xmx="4g")
        if inv not in r["violated"]:
            raise core.ToolError("the model of the pinned behaviour %s no longer violates %s in scenario %s (see %s)"
                                 % (quirk, inv, scn, r["out"]))
        s, lines = replay_exports(ctx, [r["out"]], sc.get("cmp", "both"))
        os.remove(r["out"])
        report_violations(ctx, s, "teeth:" + quirk)
        done.append({"pinned": quirk, "scenario": scn, "model_violates": inv, "programs": lines, "cases": s["cases"],
                     "failing_on_current_code": s["violation_count"], "model_says_defect_shows": s["extra"]["spec_known_cases"]})
        ctx.cov["transitions"] += r["generated"]
    ctx.cov["teeth"] = done


def run(ctx):
    core.build_harness(["btree_run"])
    quick = ctx.quick
    # 1. bounded scenarios: invariants of the model + export of every explored transition ----------
    jobs = []
    for sc in SCENARIOS:
        text, subst = scenario_cfg(sc, ctx.pick(*sc["steps"]))
        jobs.append((sc["name"], text, subst, dict(workers=ctx.pick(3, 4))))
    for sm in SIMS:
        sc = next(s for s in SCENARIOS if s["name"] == sm["name"])
        text, subst = scenario_cfg(sc, sm["depth"], act=sm["act"], cls=sm["cls"])
        jobs.append(("sim_" + sm["name"], text, subst,
                     dict(mode="sim", sim=ctx.pick(*sm["num"]), depth=sm["depth"], seed=ctx.seed, workers=2)))
    # seeded random preloads, every program of two steps around each
    gdir, gens = gen_scenarios(ctx, ctx.pick(3, 30))
    for sc in gens:
        text, subst = scenario_cfg(sc, 2)
        jobs.append((sc["name"], text, subst, dict(workers=2, subdir=os.path.relpath(gdir, core.SPEC), module="BTreeGen")))
    # the same module with a 256-byte page and 3 entries per trunk page: model only, deeper
    tinies = [("tiny", [1, 3, 5, 7], [1, 3])] + ctx.pick([], [("tiny2", [3, 4, 7, 8], [1, 2]), ("tiny3", [1, 2, 3, 9], [2, 3])])
    for tname, act, cls in tinies:
        tiny = dict(name=tname, keys=range(1, 11), kl="KL_tiny10", pre="Pre_empty", act=act, cls=cls, probe=[1, 3, 7])
        text, subst = scenario_cfg(tiny, ctx.pick(4, 5), export=False, small=True)
        jobs.append((tname, text, subst, dict(workers=ctx.pick(3, 4))))

    with cf.ThreadPoolExecutor(max_workers=ctx.pick(4, 3)) as ex:
        futs = [(name, ex.submit(run_tlc, name, text, subst, ctx.tier, **kw)) for name, text, subst, kw in jobs]
        results = [(name, f.result()) for name, f in futs]
    shutil.rmtree(gdir, ignore_errors=True)
    model_violations = [(name, r["model_violation"]) for name, r in results if r.get("model_violation")]
    outs_both, outs_bw = [], []
    for name, r in results:
        ctx.add_tlc(r)
        if name.startswith("tiny"):
            os.remove(r["out"])
            continue
        only_bw = any(s["name"] == name and s.get("cmp") == "bytewise" for s in SCENARIOS)
        (outs_bw if only_bw else outs_both).append(r["out"])

    # 2. spec -> code ---------------------------------------------------------------------------
    branches, exported = {}, 0
    for outs, cmps in ((outs_both, "both"), (outs_bw, "bytewise")):
        s, lines = replay_exports(ctx, outs, cmps)
        exported += lines
        ctx.add_driver(s)
        report_violations(ctx, s, "tlc")
        for b, n in s["extra"]["spec_branches"].items():
            branches[b] = branches.get(b, 0) + n
        st = s["extra"]["stats"]
        ctx.cov["shapes_compared"] = ctx.cov.get("shapes_compared", 0) + st["shapes_compared"]
        ctx.cov["shapes_equal"] = ctx.cov.get("shapes_equal", 0) + st["shapes_equal"]
        ctx.cov["spec_known_cases"] = ctx.cov.get("spec_known_cases", 0) + s["extra"]["spec_known_cases"]
        ctx.cov["spec_known_not_reproduced"] = ctx.cov.get("spec_known_not_reproduced", 0) + s["extra"]["spec_known_not_reproduced"]
    for o in outs_both + outs_bw:
        os.remove(o)
    if model_violations and not ctx.violations and not ctx.known_hits:
        raise core.ToolError("model invariants violated but nothing reproduced on the real tree: %s" % model_violations)
    ctx.cov["exported_programs"] = exported
    ctx.cov["spec_branches_replayed"] = branches
    missing = [b for b in REQUIRED_BRANCHES if branches.get(b, 0) == 0]
    if missing:
        vacuous(ctx, "branches of the spec never replayed on the real tree: %s" % missing)

    # 3. code -> spec: long random programs on the real tree, traces validated by TLC --------------
    tdir = os.path.join(core.WORK, "tmp", "c18_traces_%d" % os.getpid())
    os.makedirs(tdir, exist_ok=True)
    for f in os.listdir(tdir):
        os.remove(os.path.join(tdir, f))
    ncases, nops, ntrace = ctx.pick((36, 2000, 12), (720, 3000, 48))
    s = core.run_driver("btree_run", ["random", "--seed", ctx.seed, "--cases", ncases, "--ops", nops, "--trace-dir", tdir,
                                      "--trace-cases", ntrace, "--workers", min(core.NCPU, 12)], timeout=3000)
    if s["extra"].get("tool_errors"):
        raise core.ToolError("btree_run random: %s" % json.dumps(s["extra"]["tool_errors"][:3]))
    ctx.add_driver(s, traces=False)
    report_violations(ctx, s, "random")
    st = s["extra"]["stats"]
    ctx.cov["random"] = {"cases": s["cases"], "operations": s["steps"], "families": s["extra"]["families"], "stats": st}
    weak = [k for k, ok in (("three levels", st["max_height"] >= 3), ("two trunk pages", st["max_trunks"] >= 2),
                            ("key chains", st["key_chain_seen"] > 0), ("free-list reuse", st["free_reuse"] > 0),
                            ("reopen", st["reopens"] > 0), ("node merges", st["node_shrink"] > 0)) if not ok]
    if weak:
        vacuous(ctx, "random programs no longer reach: %s" % weak)
    ntr, events = validate_traces(ctx, tdir)
    ctx.cov["traces_validated_against_impl"] += ntr
    ctx.cov["trace_events_validated"] = events
    if ntr == 0:
        vacuous(ctx, "no trace was recorded")
    for f in os.listdir(tdir):
        os.remove(os.path.join(tdir, f))
    os.rmdir(tdir)

    # 4. repaired defects: pinned models keep their counterexamples, which do not reproduce any more
    teeth(ctx)

    ctx.cov["exhaustive"] = True
    ctx.cov["rule"] = ("every transition TLC explores in the bounded BTree scenarios (distinct states expanded once, history "
                       "hidden by VIEW) is exported as a program and executed on a real DiskBPlusTree under both key orders")
    ctx.assumptions += [
        "bounds: scenarios of spec/btree/BTreeMC.tla, programs of <= %s operations after the preload; random runs of %d operations"
        % ([ctx.pick(*sc["steps"]) for sc in SCENARIOS], nops),
        "model keys are mapped to byte strings of exactly the modelled length (bytewise: 2-byte rank + version byte + filler; "
        "timestamp order: user key + trailer + timestamp, versions of a user key ordered by descending timestamp)",
        "keys equal under the configured order but different in bytes count as one key; which bytes are returned is drift only",
        "inverted ranges are not generated (std BTreeMap panics on them; the property leaves them open)",
        "page-level predictions of the spec (page numbers, split points) are conformance drift, never a verdict",
        "crash consistency of the file is not part of C18 (writes go through at once; power-loss images belong to C02/C07)",
    ]


def replay(ctx, doc):
    rp = doc["replay"]
    case = rp.get("case")
    if case is None:
        raise core.ToolError("replay file carries no case (trace findings are re-run with the same VERIF_SEED)")
    with tempfile.NamedTemporaryFile("w", suffix=".json", delete=False) as f:
        json.dump({"case": case}, f)
    s = core.run_driver("btree_run", ["one", f.name])
    os.remove(f.name)
    report_violations(ctx, s, "replay")
