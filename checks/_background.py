"""C17 (background part): spec/background (writers / write stall / flush task / level task / close) <-> a real Tree.

  model_check   safety (FlushScheduled, CompactionScheduled, ImmBounded, NeverStuck) and liveness (CommitReturns,
                CloseReturns under weak fairness) of the protocol AS THE CODE IS NOW
  teeth         the model of the PINNED behaviour (wake-up skipped while the task runs; level chosen by score alone) must
                still produce its counterexamples; each becomes a directed schedule that is enforced on the real engine
                with the gate scheduler and must NOT reproduce there (it did on the pinned code: known_findings "fixed")
  replay        TLC's edge cover (+ long random behaviours) of the current model, enforced on the real engine step by step;
                the model state is compared after every schedule (drift), then everything is released and every commit()
                and close() must return (violation)
  stall_stress  hook-free: committers against tiny memtables, low stall limits and level targets of a few KiB
"""
import json
import os

from vlib import core, tlc

SUB = "background"

CURRENT = {"WakeRule": '"always"', "BottomRule": '"l0limit"', "LevelLoop": '"once"', "RegisterRule": '"first"', "MaxFail": 0}

# constants of a configuration and the matching driver arguments
CONFIGS = {
    "base": {"Writers": '{"w1", "w2"}', "MemLimit": 2, "L0Trigger": 2, "L0Limit": 2, "NLevels": 3, "T1": 2, "Mult": 2,
             "MaxCommits": 6},
    "flat": {"Writers": '{"w1", "w2"}', "MemLimit": 2, "L0Trigger": 2, "L0Limit": 2, "NLevels": 3, "T1": 2, "Mult": 1,
             "MaxCommits": 9},
    "wide": {"Writers": '{"w1", "w2", "w3"}', "MemLimit": 3, "L0Trigger": 2, "L0Limit": 3, "NLevels": 4, "T1": 1, "Mult": 2,
             "MaxCommits": 8},
}


def driver_args(c):
    return ["--mem-limit", c["MemLimit"], "--l0-trigger", c["L0Trigger"], "--l0-limit", c["L0Limit"],
            "--levels", c["NLevels"], "--t1", c["T1"], "--mult", c["Mult"]]


def _cfg(consts, invariants=None, properties=None, spec="Spec", extra=None):
    lines = ["SPECIFICATION %s" % spec, "CONSTANTS"]
    if spec == "MCSpec":
        consts = dict({"MaxSteps": 200, "AllowClose": "TRUE"}, **consts)
    for k, v in consts.items():
        lines.append("  %s = %s" % (k, v))
    if invariants:
        lines.append("INVARIANTS " + " ".join(invariants))
    if properties:
        lines.append("PROPERTIES " + " ".join(properties))
    lines += (extra or [])
    lines.append("CHECK_DEADLOCK FALSE")
    return "\n".join(lines) + "\n"


SAFETY = ["TypeOK", "FlushScheduled", "CompactionScheduled", "ImmBounded", "NeverStuck"]
LIVE = ["CommitReturns", "CloseReturns"]


def model_check(ctx):
    for name in (["base", "flat"] if ctx.quick else ["base", "flat", "wide"]):
        c = dict(CONFIGS[name], **CURRENT)
        if ctx.quick:
            c["MaxCommits"] = min(c["MaxCommits"], 6)
        r = tlc.run(SUB, "Background", "Background_%s.cfg" % name, cfg_text=_cfg(c, SAFETY, LIVE), timeout=3000,
                    coverage=False, out_name="bg_live_%s_%s" % (ctx.pid, name))
        r["constants"] = ["%s=%s" % kv for kv in c.items()]
        r["invariants"] = SAFETY + ["PROPERTY " + p + " (Spec with weak fairness of every task / writer / close step)" for p in LIVE]
        ctx.add_tlc(r)
        os.remove(r["out"])


def model_check_failures(ctx):
    """the same protocol with one injected flush / compaction failure (sticky background error, stall controller shut
    down): every commit still returns, close still returns"""
    c = dict(CONFIGS["base"], **CURRENT)
    c.update(MaxFail=1, MaxCommits=ctx.pick(4, 5))
    r = tlc.run(SUB, "Background", "Background_fail.cfg", cfg_text=_cfg(c, SAFETY, LIVE), timeout=3000, coverage=False,
                out_name="bg_live_%s_fail" % ctx.pid)
    r["constants"] = ["%s=%s" % kv for kv in c.items()]
    r["invariants"] = SAFETY + ["PROPERTY " + p for p in LIVE]
    ctx.add_tlc(r)
    os.remove(r["out"])


def _report(ctx, s, args):
    for v in s["violations"]:
        kind = str(v.get("kind"))
        sig = {"class": kind}
        body = {"driver": "bg_sched", "args": [str(a) for a in args], "case": {"ops": v.get("ops"), "obs": {}}}
        what = "%s: %s" % (kind, json.dumps({k: v[k] for k in v if k not in ("ops", "kind")})[:300])
        ctx.violation(body, sig, what)


def teeth(ctx):
    """counterexamples of the pinned behaviour -> directed schedules on the real engine"""
    n = 0
    for label, variant, cname in (("lost_wakeup", {"WakeRule": '"orig"'}, "base"),
                                  ("level0_starved", {"BottomRule": '"orig"'}, "flat"),
                                  # not a defect of the pinned code: the window the stall controller closes by creating
                                  # its Notified future before it reads the counts must stay closed
                                  ("stall_signal_lost", {"RegisterRule": '"late"'}, "base")):
        c = dict(CONFIGS[cname], **CURRENT)
        c.update(variant)
        c["MaxCommits"] = 9
        text = _cfg(c, ["CexNeverStuck"], spec="MCSpec", extra=["VIEW View", "ACTION_CONSTRAINT Eager"])
        r = tlc.run(SUB, "BackgroundMC", "BackgroundMC_cex_%s.cfg" % label, cfg_text=text, timeout=3000, coverage=False,
                    must_pass=False, workers=1, out_name="bg_cex_%s_%s" % (ctx.pid, label))
        cases = []
        for ln in open(r["out"], errors="replace"):
            if ln.startswith('"CEX '):
                d = json.loads(json.loads(ln)[len("CEX "):])
                cases.append({"ops": d["ops"], "obs": {}})
        os.remove(r["out"])
        if not cases:
            raise core.ToolError("the model of the pinned behaviour (%s) no longer produces its counterexample" % label)
        ctx.cov.setdefault("pinned_model_counterexamples", {})[label] = len(cases[0]["ops"])
        path = os.path.join(core.WORK, "bg_cex_%s_%s.ndjson" % (ctx.pid, label))
        with open(path, "w") as f:
            f.write(json.dumps(cases[0]) + "\n")
        args = driver_args(CONFIGS[cname])
        s = core.run_driver("bg_sched", ["--in", path] + args, timeout=600)
        os.remove(path)
        if s["cases"] != 1:
            raise core.ToolError("directed background schedule did not run")
        # the step results in these schedules are those of the PINNED model: differing from them is the point
        s["drift_count"], s["drift"] = 0, []
        ctx.add_driver(s)
        _report(ctx, s, args)
        n += 1
    ctx.cov["directed_background_counterexamples"] = n


def replay(ctx, doc):
    """./check C17 --replay: one recorded schedule"""
    path = os.path.join(core.WORK, "bg_replay_%s.ndjson" % os.getpid())
    with open(path, "w") as f:
        f.write(json.dumps(doc["case"]) + "\n")
    s = core.run_driver("bg_sched", ["--in", path] + doc.get("args", []), timeout=600)
    os.remove(path)
    ctx.add_driver(s)
    _report(ctx, s, doc.get("args", []))


def replay_schedules(ctx):
    plans = [("base", 9, None)] if ctx.quick else [("base", 11, None), ("flat", 9, None), ("wide", 8, None)]
    # long random behaviours: without close (stalls and wake-ups) and with it
    plans += [("flat", None, (ctx.pick(40, 500), 45, "FALSE")), ("wide", None, (ctx.pick(30, 400), 45, "FALSE")),
              ("base", None, (ctx.pick(20, 300), 45, "TRUE"))]
    exact = total = 0
    for cname, max_steps, sim in plans:
        c = dict(CONFIGS[cname], **CURRENT)
        if sim:
            c["MaxCommits"] = 12
            c["AllowClose"] = sim[2]
        else:
            c["MaxSteps"] = max_steps
        text = _cfg(c, SAFETY if not sim else None, spec="MCSpec",
                    extra=(["CONSTRAINT StepBound"] if not sim else []) + ["VIEW View", "ACTION_CONSTRAINT ExportEager"])
        r = tlc.run(SUB, "BackgroundMC", "BackgroundMC_x_%s_%s.cfg" % (cname, "sim" if sim else "bfs"), cfg_text=text,
                    timeout=3000, coverage=False, mode="sim" if sim else "bfs", sim=sim[0] if sim else None,
                    depth=sim[1] if sim else None, seed=ctx.seed, workers=4,
                    out_name="bg_x_%s_%s_%s" % (ctx.pid, cname, "sim" if sim else "bfs"))
        lines = [ln for ln in open(r["out"], errors="replace") if ln.startswith('"REPLAY ')]
        os.remove(r["out"])
        if sim:
            # every prefix of a random behaviour is printed: replay the long ones only (shorter ones are the edge cover's job)
            keep = []
            for ln in lines:
                n = ln.count('\\"a\\"')
                if n % 15 == 0 and n >= 15:
                    keep.append(ln)
            lines = keep
        if not lines:
            raise core.ToolError("no background schedules exported (%s)" % cname)
        path = os.path.join(core.WORK, "bg_sched_%s_%s.ndjson" % (ctx.pid, cname))
        with open(path, "w") as f:
            f.writelines(lines)
        if not sim:
            r["constants"] = ["%s=%s" % kv for kv in c.items()]
            r["invariants"] = SAFETY
            ctx.add_tlc(r)
        args = driver_args(CONFIGS[cname])
        s = core.run_driver("bg_sched", ["--in", path, "--jobs", 10] + args, timeout=3000)
        os.remove(path)
        ctx.add_driver(s)
        _report(ctx, s, args)
        exact += s.get("extra", {}).get("cases_conforming_exactly", 0)
        total += s["cases"]
        for k in ("cases_ending_with_a_stalled_writer", "stall_checks_that_stalled"):
            ctx.cov["background_" + k] = ctx.cov.get("background_" + k, 0) + s.get("extra", {}).get(k, 0)
    ctx.cov["background_schedules"] = total
    ctx.cov["background_schedules_conforming_exactly"] = exact
    if not ctx.cov.get("background_stall_checks_that_stalled"):
        raise core.ToolError("no background schedule ever stalled a writer: the stall / wake-up paths were not exercised")
    if total and exact * 10 < total * 9:
        # the model is supposed to describe the code: this much disagreement means the replay proves little
        raise core.ToolError("background model and engine disagree on %d of %d schedules" % (total - exact, total))


STRESS = [
    ["--level-bytes", 4096, "--l0-stall", 2, "--l0-trigger", 2, "--imm-stall", 2, "--committers", 2],
    ["--level-bytes", 65536, "--l0-stall", 4, "--l0-trigger", 2, "--imm-stall", 2, "--committers", 3],
    ["--level-bytes", 262144, "--l0-stall", 3, "--l0-trigger", 3, "--imm-stall", 3, "--committers", 2],
    ["--l0-stall", 8, "--l0-trigger", 2, "--imm-stall", 2, "--committers", 3],
]


def stall_stress(ctx):
    from checks import _commit
    for i, a in enumerate(STRESS if not ctx.quick else STRESS[:2] + STRESS[3:]):
        args = ["--commits", ctx.pick(2500, 12000), "--keyspace", 1000000, "--readers", 2, "--seed", ctx.seed + i] + a
        s = core.run_driver("visibility_stress", args, timeout=1200)
        ctx.add_driver(s)
        _commit._report(ctx, s, "visibility_stress", args)
