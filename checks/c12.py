"""C12 — commit log reads back as an exact prefix; repair keeps all valid records.

Spec: spec/wal/Wal.tla (+WalMC). The segment file is a sequence of cells (one per byte, tagged with the
fragment and role that wrote it); writer, reader, writer-open, repair and the start-up order of the store
are transcribed from src/wal/*.rs and src/lsm.rs, parametric in the block size. TLC checks RoundTrip /
PrefixOnDamage / RepairKeepsPrefix / ModeRule / AppendAfterOpen on every reachable state of the bounded
model (block size 16: every truncation cell, every damaged cell with every value class the code
distinguishes, both recovery orders and modes, an append after recovery) and exports every terminal case.
`wal_run cases` scales each case of the wal-module flow (read, repair, open the writer, append, read) to the real
32 KiB block and executes it on the real Wal / Reader / repair; the store's own start-up order and the two
recovery modes are code of src/lsm.rs and are bound by `wal_run store`;
`wal_run sweep` enumerates byte-level damage on real segments; `wal_run store` opens damaged directories
through TreeBuilder in both WalRecoveryMode settings. The real outputs are judged with the property
predicate only; differences to the spec's prediction are conformance drift."""
import json
import os
import shutil
import tempfile

from vlib import core, tlc

MANIFEST = {
    "engine": {"name": "wal", "path": "spec/wal",
               "kind_free_text": "TLA+ Wal/WalMC (TLC exhaustive, cell-level file model, terminal-case export) -> harness "
                                 "wal_run on the real Wal/Reader/repair and on TreeBuilder"},
    "category": "model_checking",
    "text": ("TLC checks round trip, prefix-on-damage, repair-keeps-prefix, the recovery-mode rule and append-after-open on "
             "every reachable state of the bounded Wal model (block size 16; every truncation offset and every damaged byte "
             "with every value class the code distinguishes; close/reopen sessions; LZ4 on/off; both start-up orders and "
             "recovery modes; an append after recovery; a repair_temp left by an interrupted repair). Every terminal case of "
             "the wal-module flow is exported, scaled structurally to the real 32 KiB block and executed on the real "
             "writer, reader and repair; enumerated truncation / byte / "
             "header-bit damage of real multi-block segments and damaged store directories opened through TreeBuilder in "
             "both WalRecoveryMode settings extend it. Outputs are judged by the property predicate; panics, aborts and "
             "hangs of the code under test are caught in child processes and reported."),
    "design_ref": "DESIGN.md §4 C12",
    "note": ("Bounds: block 16, <= 2-3 records of framed length 1..20 before the damage, one damage, one record after "
             "recovery. Byte fidelity is checked by the driver (payload bytes compared), not by the spec. Trusted: TLC, the "
             "driver's layout parser (used to aim damage, never to judge), the comparison code."),
    "technique": "TLA+ model checking (TLC) + spec-to-implementation case replay + fault enumeration on the real code",
}

# classes of violations the model exhibits under its `Quirks` (see spec/wal/NOTES.md). All four were repaired in
# surrealkv (known_findings.json: status fixed); spec/wal/WalMC.cfg therefore has Quirks = {} and Known = {}.
MODEL_CLASSES = ["meta_before_crc", "torn_tail_append", "writer_before_recovery", "repair_temp_reuse"]

PINNED_QUIRKS = '{"MetaBeforeCrc", "TornTailAppend", "WriterFirst", "RepairTempReuse"}'
PINNED_KNOWN = '{"meta_before_crc", "torn_tail_append", "writer_before_recovery", "repair_temp_reuse"}'

WORKERS = int(os.environ.get("VERIF_TLC_WORKERS", "8"))
THREADS = int(os.environ.get("VERIF_DRIVER_THREADS", "8"))


def scratch_root():
    base = "/dev/shm" if os.access("/dev/shm", os.W_OK) else os.path.join(core.WORK, "tmp")
    d = os.path.join(base, "verif-c12-%d" % os.getpid())
    os.makedirs(d, exist_ok=True)
    return d


def tier_cfgs(ctx):
    """(name, constant substitutions) of the exhaustive runs of this tier."""
    if ctx.quick:
        return [
            ("main", {"Lens": "{1, 2, 3, 8, 9, 10, 19}", "PostLens": "{3, 10}", "Lefts": "{0}"}),
            ("bytes", {"Lens": "{2, 9}", "Classes": '{"zero", "one"}', "Comps": '{"none"}', "PostLens": "{3}"}),
        ]
    return [
        ("main", {"Lens": "{%s}" % ", ".join(str(i) for i in range(1, 21)), "PostLens": "{3, 10}"}),
        ("bytes", {"Lens": "{2, 3, 9, 10, 12}", "Classes": '{"gen", "zero", "one"}', "Comps": '{"none"}', "PostLens": "{3}"}),
        ("three", {"Lens": "{2, 3, 9, 12}", "MaxRecs": "3", "MaxSess": "3", "PostLens": "{10}"}),
    ]


def guard(ctx, s, outcomes, needs, what):
    """Vacuity guard: the run must have exercised the named outcome families - unless it was cut short by
    aborts / hangs of the code under test (those are reported as violations, not as tool trouble)."""
    if ctx.violations or (s.get("extra", {}).get("counters") or {}).get("skipped_after_crash_budget"):
        return
    for need in needs:
        if not any(o.startswith(need) or o.startswith("left+" + need) for o in outcomes):
            raise core.ToolError("%s never produced an outcome %s*: %s" % (what, need, sorted(outcomes)))


def report(ctx, s, seen_classes):
    ctx.add_driver(s)
    for v in s["violations"]:
        sig = {"layer": v.get("layer", "wal"), "kind": v.get("kind"), "class": v.get("class", "")}
        if v.get("class"):
            seen_classes.add(v["class"])
        ctx.violation({"driver": "wal_run", "case": v.get("case")}, signature=sig,
                      what="%s [%s]: %s" % (v.get("kind"), v.get("class") or "unclassified", v.get("what")))
    # violations beyond the 20 the driver lists in full: count them per class through the counters
    listed = {}
    for v in s["violations"]:
        k = "viol:%s:%s" % (v.get("kind"), v.get("class", ""))
        listed[k] = listed.get(k, 0) + 1
    for k, n in (s.get("extra", {}).get("counters") or {}).items():
        if not k.startswith("viol:"):
            continue
        _, kind, cls = k.split(":", 2)
        if cls:
            seen_classes.add(cls)
        extra = n - listed.get(k, 0)
        if extra > 0 and k not in listed:
            # a class of violation none of whose members made it into the listed 20: must not be lost
            ctx.violation({"driver": "wal_run", "case": None, "note": "see driver counters; rerun with fewer cases"},
                          signature={"layer": "wal", "kind": kind, "class": cls},
                          what="%d violation(s) %s [%s] not listed individually" % (n, kind, cls or "unclassified"))


def run(ctx):
    core.build_harness(["wal_run"])
    scratch = scratch_root()
    seen = set()
    try:
        # 0. teeth: the model of the *pinned* (pre-fix) behaviour must still produce its counterexamples ...
        small = {"Lens": ctx.pick("{2, 9}", "{2, 3, 9, 12}"), "Classes": '{"gen", "zero", "one"}', "PostLens": "{3}"}
        text = tlc.cfg_variant("wal", "WalMC.cfg", subst=dict(small, Quirks=PINNED_QUIRKS, Known="{}"))
        t0 = tlc.run("wal", "WalMC", "WalMC_teeth.cfg", cfg_text=text, coverage=False, timeout=900,
                     out_name="c12_teeth_" + ctx.tier, workers=WORKERS, must_pass=False)
        os.remove(t0["out"])
        if not t0["violated"]:
            raise core.ToolError("the model of the pinned behaviour (Quirks=%s, Known={}) no longer violates any invariant: "
                                 "the spec has lost its teeth" % PINNED_QUIRKS)
        # ... and none of the cases that model calls violating may reproduce on the repaired code
        text = tlc.cfg_variant("wal", "WalMC.cfg", subst=dict(small, Quirks=PINNED_QUIRKS, Known=PINNED_KNOWN),
                               add=["ACTION_CONSTRAINT Export"])
        t1 = tlc.run("wal", "WalMC", "WalMC_pinned.cfg", cfg_text=text, coverage=False, timeout=900,
                     out_name="c12_pinned_" + ctx.tier, workers=WORKERS)
        s = core.run_driver("wal_run", ["cases", t1["out"], "--threads", THREADS, "--scratch", os.path.join(scratch, "pinned")],
                            timeout=3000)
        os.remove(t1["out"])
        pinned_bad = s["extra"]["counters"].get("model_violates", 0)
        if pinned_bad == 0:
            raise core.ToolError("the pinned model calls none of its exported cases violating")
        ctx.cov["teeth"] = {"pinned_quirks": PINNED_QUIRKS, "invariant_violated_by_pinned_model": t0["violated"],
                            "pinned_model_states": t1["distinct"], "cases_replayed": s["cases"],
                            "cases_the_pinned_model_calls_violating": pinned_bad,
                            "of_those_reproduced_on_the_code": s["violation_count"],
                            "prediction_mismatches_pinned_model_vs_code": s["extra"]["counters"].get("drift", 0)}
        s["drift_count"], s["drift"] = 0, []          # the pinned model is *expected* to mispredict the repaired code
        report(ctx, s, seen)                          # a reproduction is a VIOLATION (a fix was lost)

        # 1. the model of the code as it is: invariants + export of every terminal case, then replay
        model_cex = []
        total_cases = 0
        for name, subst in tier_cfgs(ctx):
            text = tlc.cfg_variant("wal", "WalMC.cfg", subst=subst, add=["ACTION_CONSTRAINT Export"])
            r = tlc.run("wal", "WalMC", "WalMC_%s.cfg" % name, cfg_text=text, coverage=False, timeout=1500,
                        out_name="c12_%s_%s" % (name, ctx.tier), workers=WORKERS, must_pass=False)
            if r["errors"] and not r["violated"]:
                raise core.ToolError("TLC failed on WalMC %s: %s (see %s)" % (name, r["errors"][:3], r["out"]))
            model_cex += r["violated"]
            r["constants"] = tlc._parse_cfg_constants(os.path.join(core.SPEC, "wal", "WalMC.cfg")) + \
                ["%s=%s" % kv for kv in subst.items()]
            r["invariants"] = tlc._parse_cfg_list(os.path.join(core.SPEC, "wal", "WalMC.cfg"), "INVARIANT")
            ctx.add_tlc(r)
            s = core.run_driver("wal_run", ["cases", r["out"], "--threads", THREADS, "--scratch", os.path.join(scratch, name)],
                                timeout=3000)
            if s["cases"] == 0:
                raise core.ToolError("no cases exported by TLC (%s)" % name)
            total_cases += s["cases"]
            report(ctx, s, seen)
            guard(ctx, s, set(s["extra"]["outcomes"]), ("none:", "trunc:", "byte:t:", "byte:d:"), "TLC cases (%s)" % name)
            if s["extra"]["counters"].get("layout_mismatch") or s["extra"]["counters"].get("unsteerable"):
                ctx.drift(1, "some TLC cases could not be scaled to the real block size: %s" % s["extra"]["counters"])
            os.remove(r["out"])

        # 2. enumerated byte-level damage on real segments (32 KiB blocks, multi-block records, LZ4)
        s = core.run_driver("wal_run", ["sweep", "--tier", ctx.tier, "--seed", ctx.seed, "--threads", THREADS,
                                        "--scratch", os.path.join(scratch, "sweep")], timeout=3000)
        report(ctx, s, seen)
        outcomes = set(s["extra"]["outcomes"])
        guard(ctx, s, outcomes, ("none:", "trunc:", "byte:t:", "byte:c:", "byte:l:", "byte:d:"), "sweep")
        if not ctx.violations and (not any(":rep:" in o for o in outcomes) or not any(":Eof:norep:" in o for o in outcomes)):
            raise core.ToolError("sweep: repair / clean-end paths not both exercised: %s" % sorted(outcomes))
        ctx.cov["sweep_cases"] = s["cases"]

        # 3. the store: damaged last segment, TreeBuilder in both recovery modes, commit, close, open again
        s = core.run_driver("wal_run", ["store", "--tier", ctx.tier, "--seed", ctx.seed, "--threads", THREADS,
                                        "--scratch", os.path.join(scratch, "store")], timeout=3000)
        report(ctx, s, seen)
        guard(ctx, s, set(s["extra"]["outcomes"]),
              ("abs:detected:refused", "tol:detected:open", "abs:silent:open", "tol:silent:open"), "store sweep")
        ctx.cov["store_cases"] = s["cases"]

        # a counterexample of the *model* must show on the real code, else the model is wrong
        if model_cex and not ctx.violations and not ctx.known_hits:
            raise core.ToolError("TLC found %s violated in the model but no violation reproduced on the real code" % model_cex)
        cfg_known = [c for c in MODEL_CLASSES
                     if any(('"%s"' % c) in line for line in open(os.path.join(core.SPEC, "wal", "WalMC.cfg"))
                            if line.strip().startswith("Known"))]
        missing = [c for c in cfg_known if c not in seen]
        if missing:
            ctx.drift(len(missing), "the model transcribes quirks whose violations the real code no longer shows: %s "
                                    "(remove them from Quirks/Known in spec/wal/WalMC.cfg)" % missing)
        ctx.cov["exhaustive"] = True
        ctx.cov["violation_classes_seen"] = sorted(seen)
        ctx.cov["rule"] = ("every terminal case of the bounded Wal model in the wal-module flow (appends x session splits x one "
                           "damage x leftover of an interrupted repair x later append) is exported by TLC and executed on the "
                           "real wal code at 32 KiB block size; the store's start-up order and both recovery modes are "
                           "model-checked and bound by enumerated damage of real store directories opened through "
                           "TreeBuilder; plus enumerated truncation/byte/bit damage of real multi-block segments")
        ctx.assumptions += [
            "bounds of the exhaustive model: block size 16, header 7, framed record lengths 1..20, <= 2-3 records, one damage",
            "damage = one truncation or one changed byte (the statement's single-byte / single-bit damage); CRC32 is taken "
            "to detect every such change of the bytes it covers",
            "recovery modes are judged at the store level (TreeBuilder); 'detected damage' = the wal reader reports corruption",
            "scratch files live on tmpfs (/dev/shm) when available: fsync cost, not behaviour, differs",
            "payload bytes are compared by the driver; the spec carries record identity and byte classes only (DESIGN 7)",
        ]
    finally:
        shutil.rmtree(scratch, ignore_errors=True)


def replay(ctx, doc):
    rp = doc["replay"]
    if rp.get("case") is None:
        raise core.ToolError("this replay file only records a count; rerun the check to obtain individual cases")
    scratch = scratch_root()
    try:
        with tempfile.NamedTemporaryFile("w", suffix=".json", delete=False) as f:
            json.dump(rp["case"], f)
        s = core.run_driver("wal_run", ["one", f.name, "--scratch", os.path.join(scratch, "one")])
        os.remove(f.name)
        for v in s["violations"]:
            ctx.violation({"driver": "wal_run", "case": v.get("case")},
                          signature={"layer": v.get("layer", "wal"), "kind": v.get("kind"), "class": v.get("class", "")},
                          what="%s [%s]: %s" % (v.get("kind"), v.get("class") or "unclassified", v.get("what")))
    finally:
        shutil.rmtree(scratch, ignore_errors=True)
