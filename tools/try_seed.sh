#!/bin/sh
# usage: tools/try_seed.sh <patch.diff> <check ids...>   : applies a seeded change to /repo, runs the checks (quick), reverts
P=$1; shift
cd /repo && git apply --check "$P" || { echo "patch does not apply"; exit 2; }
git -C /repo apply "$P"
for c in "$@"; do
  out=$(cd /verif && ./check $c --tier quick 2>&1); rc=$?
  echo "== $c exit=$rc  $(echo "$out" | grep -c '^VIOLATION') VIOLATION lines"
  echo "$out" | grep -A1 '^VIOLATION' | head -4
  echo "$out" | grep -E 'TOOL-ERROR|KNOWN-FINDING' | cut -c1-200 | head -3
done
git -C /repo checkout -- .
