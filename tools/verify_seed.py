#!/usr/bin/env python3
"""Independent confirmation of a seeded change: tools/verify_seed.py <seed-out-dir> <seeded-id>
In a scratch worktree of /repo (outside /repo and /verif): the demonstration passes on the clean tree, fails with the
patch, the patched tree compiles and the existing suite still passes. Writes /verif/seeded/<id>/{patch.diff,demo*,meta.json}."""
import json, os, re, shutil, subprocess, sys

src, sid = sys.argv[1].rstrip("/"), sys.argv[2]
BASE = sys.argv[3] if len(sys.argv) > 3 else "HEAD"   # revision the change was written against (when main has moved on)
meta = json.load(open(os.path.join(src, "meta.json")))
how = meta.get("demo_how_to_run", "")
WT = "/tmp/seedverify/%s/repo" % sid
TGT = "/tmp/seedverify/target"   # shared build cache across seeds
shutil.rmtree(os.path.dirname(WT), ignore_errors=True)
os.makedirs(os.path.dirname(WT), exist_ok=True)
subprocess.run(["git", "-C", "/repo", "worktree", "prune"], check=False)
subprocess.run(["git", "-C", "/repo", "worktree", "add", "-q", "--detach", WT, BASE], check=True)
env = dict(os.environ, CARGO_TARGET_DIR=TGT, RUST_BACKTRACE="0", CARGO_NET_OFFLINE="true")
needs_cfg = "surrealkv_verif" in how
if needs_cfg:
    env["RUSTFLAGS"] = "--cfg surrealkv_verif"
    env["CARGO_TARGET_DIR"] = TGT + "-verif"
m = re.search(r"src/test/(\w+)\.rs", how)
t = re.search(r"tests/(\w+)\.rs", how)
demo = os.path.join(src, "demo_test.rs")
if m:
    name = m.group(1)
    shutil.copy(demo, os.path.join(WT, "src/test/%s.rs" % name))
    gate = "#[cfg(all(test, surrealkv_verif))]" if needs_cfg else "#[cfg(test)]"
    with open(os.path.join(WT, "src/test/mod.rs"), "a") as f:
        f.write("\n%s\npub mod %s;\n" % (gate, name))
    cmd = ["cargo", "test", "--offline", "--lib", name, "--", "--test-threads", "1"]
elif t:
    name = t.group(1)
    os.makedirs(os.path.join(WT, "tests"), exist_ok=True)
    shutil.copy(demo, os.path.join(WT, "tests/%s.rs" % name))
    cmd = ["cargo", "test", "--offline", "--test", name, "--", "--test-threads", "1"]
else:
    print("cannot tell how to run the demo:", how); sys.exit(2)

def run(c, timeout=1800):
    p = subprocess.run(c, cwd=WT, env=env, stdout=subprocess.PIPE, stderr=subprocess.STDOUT, text=True, timeout=timeout)
    return p.returncode, p.stdout[-3000:]

res = {}
rc, out = run(cmd)
res["demo_clean"] = {"exit": rc, "tail": out[-600:]}
ap = subprocess.run(["git", "apply", os.path.join(src, "patch.diff")], cwd=WT, stdout=subprocess.PIPE, stderr=subprocess.STDOUT, text=True)
res["patch_applies"] = ap.returncode == 0
if ap.returncode == 0:
    rc2, out2 = run(cmd)
    res["demo_patched"] = {"exit": rc2, "tail": out2[-800:]}
    # existing suite with the patch (demo files removed so that only the repository's own tests run)
    if m:
        os.remove(os.path.join(WT, "src/test/%s.rs" % name))
        subprocess.run(["git", "checkout", "--", "src/test/mod.rs"], cwd=WT)
    else:
        shutil.rmtree(os.path.join(WT, "tests"), ignore_errors=True)
    env2 = dict(env); env2.pop("RUSTFLAGS", None); env2["CARGO_TARGET_DIR"] = TGT
    p = subprocess.run(["cargo", "nextest", "run", "--workspace", "--no-fail-fast", "--test-threads", "8", "--offline"], cwd=WT, env=env2,
                       stdout=subprocess.PIPE, stderr=subprocess.STDOUT, text=True, timeout=3600)
    summ = [l for l in p.stdout.splitlines() if "Summary" in l or l.strip().startswith("FAIL")]
    failed = sorted(set(re.findall(r"FAIL \[.*?\] \(.*?\) (\S+ \S+)", p.stdout)))
    res["suite_patched"] = {"exit": p.returncode, "summary": summ[-6:], "failed": failed}
    # timing-based task::tests are flaky under load: re-run the failed ones alone
    still = []
    for f in failed:
        tn = f.split()[-1]
        q = subprocess.run(["cargo", "test", "--offline", "--lib", tn], cwd=WT, env=env2, stdout=subprocess.PIPE, stderr=subprocess.STDOUT, text=True)
        if q.returncode != 0:
            still.append(tn)
    res["suite_failed_again_alone"] = still
ok = (res["demo_clean"]["exit"] == 0 and res.get("patch_applies") and res.get("demo_patched", {}).get("exit", 0) != 0
      and not res.get("suite_failed_again_alone"))
res["confirmed"] = bool(ok)
dst = "/verif/seeded/%s" % sid
os.makedirs(dst, exist_ok=True)
shutil.copy(os.path.join(src, "patch.diff"), dst)
shutil.copy(demo, dst)
meta_out = {"property": meta.get("property"), "summary": meta.get("summary"), "needs": meta.get("needs"),
            "demo_how_to_run": how, "author_ran": meta.get("ran"), "confirmation": res, "repo_head": subprocess.run(
                ["git", "-C", "/repo", "rev-parse", "--short", BASE], capture_output=True, text=True).stdout.strip()}
if os.path.exists(os.path.join(dst, "meta.json")):
    old = json.load(open(os.path.join(dst, "meta.json")))
    for k in ("detection",):
        if k in old:
            meta_out[k] = old[k]
json.dump(meta_out, open(os.path.join(dst, "meta.json"), "w"), indent=1)
subprocess.run(["git", "-C", "/repo", "worktree", "remove", "--force", WT], check=False)
shutil.rmtree(os.path.dirname(WT), ignore_errors=True)
print(sid, "confirmed" if ok else "NOT CONFIRMED", json.dumps({k: (v if not isinstance(v, dict) else v.get("exit")) for k, v in res.items()}))
