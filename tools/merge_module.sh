#!/bin/sh
# usage: tools/merge_module.sh <m>   : cherry-picks main..verif-<m> into /repo main, merges mod-<m> into /verif main,
# unions known_findings.json and rewrites the fix commit hashes.
set -e
M=$1
MAP=/tmp/merge_map_$M.txt; : > $MAP
cd /repo
[ -z "$(git status --porcelain)" ] || { echo "/repo not clean"; exit 2; }
for c in $(git rev-list --reverse main..verif-$M); do
  old=$(git rev-parse --short $c)
  git cherry-pick $c >/dev/null 2>&1 || { echo "cherry-pick of $old failed"; git cherry-pick --abort; exit 2; }
  new=$(git rev-parse --short HEAD)
  echo "$old $new" >> $MAP
  echo "repo: $old -> $new $(git log -1 --format=%s | cut -c1-90)"
done
cd /verif
git show main:known_findings.json > /tmp/kf_main_$M.json
git merge --no-ff --no-commit mod-$M >/dev/null 2>&1 || true
python3 - "$M" <<'P'
import json, sys, subprocess
m = sys.argv[1]
mainf = json.load(open('/tmp/kf_main_%s.json' % m))
theirs = json.loads(subprocess.run(['git', 'show', 'mod-%s:known_findings.json' % m], capture_output=True, text=True).stdout)
ids = {e['id'] for e in mainf['findings']}
mp = dict(l.split() for l in open('/tmp/merge_map_%s.txt' % m))
for e in theirs['findings']:
    if e['id'] in ids:
        continue
    for old, new in mp.items():
        if e.get('commit') == old:
            e['commit'] = new
        e['description'] = e.get('description', '').replace(old, new)
    mainf['findings'].append(e)
    print('finding added:', e['id'], e['status'], e.get('commit', ''))
json.dump(mainf, open('/verif/known_findings.json', 'w'), indent=1)
P
git add known_findings.json
git status --short | grep -E "^(UU|AA|DU|UD) " && { echo "unresolved conflicts"; exit 3; } || true
git commit -qm "merge $M module" && git log --oneline -1
