#!/usr/bin/env python3
"""Regenerates MANIFEST.json from checks/registry.py (claimed checks) and properties.jsonl (the rest -> not_applicable)."""
import importlib
import json
import os
import subprocess
import sys

HERE = os.path.dirname(os.path.dirname(os.path.abspath(__file__)))
sys.path.insert(0, HERE)
sys.path.insert(0, os.path.join(HERE, "lib"))
from checks import registry  # noqa: E402

props = [json.loads(l) for l in open(os.path.join(HERE, "properties.jsonl"))]
try:
    commits = subprocess.run(["git", "-C", "/repo", "log", "--format=%h %s", "3f8eb88..HEAD"], capture_output=True,
                             text=True).stdout.strip().splitlines()
except Exception:
    commits = []
hook_commits = [c.split()[0] for c in commits if c.split(None, 1)[1].startswith("verif:")]
m = {
    "version": 1,
    "setup_cmd": "./check --setup",
    "hooks": {
        "guard": "surrealkv_verif",
        "enable": "rustc cfg: harness/.cargo/config.toml sets rustflags = [\"--cfg\", \"surrealkv_verif\"]; "
                  "the drivers are built by every check from /repo's working tree with the cfg on",
        "baseline_off_cmd": registry.BASELINE_OFF,
        "source_commits": hook_commits,
        "add_only": True,
    },
    "engines": [],
    "checks": [],
    "not_applicable": [],
    "notes": "See DESIGN.md. exit 0 ok / 1 VIOLATION / 2 tool trouble. known_findings.json lists recorded defects.",
}
for p in props:
    pid = p["id"]
    c = None
    if os.path.exists(os.path.join(HERE, "checks", pid.lower() + ".py")):
        c = getattr(importlib.import_module("checks." + pid.lower()), "MANIFEST", None)
    if c is None:
        m["not_applicable"].append({"property_id": pid, "reason": registry.NOT_CLAIMED.get(
            pid, "no check registered yet: the specification module for this property is not built at this commit")})
        continue
    eng = next((e for e in m["engines"] if e["name"] == c["engine"]["name"]), None)
    if eng is None:
        eng = dict(c["engine"], serves_properties=[])
        m["engines"].append(eng)
    eng["serves_properties"].append(pid)
    m["checks"].append({
        "property_id": pid,
        "quick_cmd": "./check %s --tier quick" % pid,
        "thorough_cmd": "./check %s --tier thorough" % pid,
        "evidence_file": "evidence/%s.json" % pid,
        "replay_cmd_template": "./check %s --replay {path}" % pid,
        "engine": c["engine"]["name"],
        "level_claimed": {"category": c["category"], "text": c["text"], "design_ref": c["design_ref"]},
        "level_note": c["note"],
        "technique": c["technique"],
    })
json.dump(m, open(os.path.join(HERE, "MANIFEST.json"), "w"), indent=1)
print("MANIFEST.json: %d checks, %d not_applicable" % (len(m["checks"]), len(m["not_applicable"])))
