"""Shared machinery of the /verif checks: context, verdicts, evidence, known findings."""
import hashlib
import json
import os
import shutil
import subprocess
import sys
import time

VERIF = os.path.dirname(os.path.dirname(os.path.dirname(os.path.abspath(__file__))))
REPO = os.environ.get("VERIF_REPO", os.path.normpath(os.path.join(VERIF, "..", "repo")))
WORK = os.environ.get("VERIF_WORK", os.path.join(VERIF, "work"))
HARNESS = os.path.join(VERIF, "harness")
SPEC = os.path.join(VERIF, "spec")
NCPU = os.cpu_count() or 4


class ToolError(Exception):
    """Trouble with the tooling (build failure, TLC crash, timeout...): exit 2, never a verdict."""


def log(*a):
    print(*a, flush=True)


def sh(cmd, cwd=None, env=None, timeout=None, check=True, capture=True, stdin=None):
    e = dict(os.environ)
    e.setdefault("RUST_BACKTRACE", "0")
    e["CARGO_NET_OFFLINE"] = "true"
    if env:
        e.update(env)
    t0 = time.time()
    try:
        p = subprocess.run(cmd, cwd=cwd, env=e, timeout=timeout, shell=isinstance(cmd, str),
                           stdout=subprocess.PIPE if capture else None,
                           stderr=subprocess.STDOUT if capture else None,
                           input=stdin, text=True, errors="replace")
    except subprocess.TimeoutExpired:
        raise ToolError("timeout after %ss: %s" % (timeout, cmd))
    if check and p.returncode != 0:
        raise ToolError("command failed (%d): %s\n%s" % (p.returncode, cmd, (p.stdout or "")[-4000:]))
    p.wall = time.time() - t0
    return p


_built = set()


def build_harness(bins=None):
    """cargo build of the drivers against /repo's *current* working tree (hooks on)."""
    lock_src = os.path.join(REPO, "Cargo.lock")
    lock_dst = os.path.join(HARNESS, "Cargo.lock")
    if not os.path.exists(lock_dst):
        shutil.copy(lock_src, lock_dst)
    key = tuple(sorted(bins)) if bins else ("*",)
    if key in _built:
        return
    cmd = ["cargo", "build", "--release", "--offline", "-q"]
    for b in (bins or []):
        cmd += ["--bin", b]
    t0 = time.time()
    p = sh(cmd, cwd=HARNESS, check=False, timeout=1800)
    if p.returncode != 0:
        raise ToolError("harness build failed:\n" + (p.stdout or "")[-6000:])
    _built.add(key)
    log("[build] harness %s in %.1fs" % (",".join(bins or ["all"]), time.time() - t0))


def bin_path(name):
    return os.path.join(HARNESS, "target", "release", name)


def run_driver(name, args, timeout=3600, env=None, stdin=None, cwd=None):
    """Run a harness driver; returns its SUMMARY dict. Crash of the driver itself = tool error,
    except when the driver reports it as data."""
    build_harness([name])
    e = {"VERIF_WORK": os.path.join(WORK, "tmp")}
    if env:
        e.update(env)
    os.makedirs(e["VERIF_WORK"], exist_ok=True)
    p = sh([bin_path(name)] + [str(a) for a in args], cwd=cwd or VERIF, env=e, timeout=timeout,
           check=False, stdin=stdin)
    summ = None
    for line in (p.stdout or "").splitlines():
        if line.startswith("SUMMARY "):
            summ = json.loads(line[len("SUMMARY "):])
    if summ is None:
        raise ToolError("driver %s gave no summary (exit %s):\n%s" % (name, p.returncode, (p.stdout or "")[-3000:]))
    summ["_wall_s"] = p.wall
    summ["_exit"] = p.returncode
    return summ


class Findings:
    """known_findings.json: genuine defects recorded rather than repaired.
    An entry {property, id, status:"finding"|"fixed", signature:{...}, description}.
    A violation whose signature dict contains every key/value of a *finding* entry's signature is
    reported as KNOWN-FINDING and does not fail; `fixed` entries suppress nothing."""

    def __init__(self):
        p = os.path.join(VERIF, "known_findings.json")
        self.entries = json.load(open(p))["findings"] if os.path.exists(p) else []

    def match(self, pid, sig):
        if not isinstance(sig, dict):
            return None
        for e in self.entries:
            if e.get("status") != "finding" or e.get("property") != pid:
                continue
            want = e.get("signature", {})
            if want and all(sig.get(k) == v for k, v in want.items()):
                return e
        return None


class Ctx:
    def __init__(self, pid, tier, seed, replay=None):
        self.pid, self.tier, self.seed, self.replay = pid, tier, seed, replay
        self.t0 = time.time()
        self.level = "model_checking"
        self.cov = {"states": 0, "transitions": 0, "traces_validated_against_impl": 0, "samples": [],
                    "tlc_runs": [], "conformance_drift": 0, "known_findings_hit": []}
        self.assumptions = []
        self.violations = []      # unlisted violations (fail)
        self.known_hits = {}
        self.findings = Findings()
        os.makedirs(os.path.join(WORK, "replay"), exist_ok=True)

    @property
    def quick(self):
        return self.tier == "quick"

    def pick(self, quick, thorough):
        return quick if self.quick else thorough

    # ---- verdicts -------------------------------------------------------------------------
    def violation(self, replay_obj, signature=None, what=""):
        """Something observed on the real engine contradicts the property."""
        hit = self.findings.match(self.pid, signature or {})
        if hit is not None:
            if hit["id"] not in self.known_hits:
                self.known_hits[hit["id"]] = 0
                log("KNOWN-FINDING: property=%s %s [%s]" % (self.pid, hit.get("description", ""), hit["id"]))
            self.known_hits[hit["id"]] += 1
            return False
        body = json.dumps(replay_obj, sort_keys=True)
        h = hashlib.sha1(body.encode()).hexdigest()[:12]
        path = os.path.join(WORK, "replay", "%s-%s.json" % (self.pid, h))
        if path in self.violations:
            return True
        with open(path, "w") as f:
            json.dump({"property": self.pid, "signature": signature, "what": what, "replay": replay_obj}, f, indent=1)
        if len(self.violations) < 50:
            log("VIOLATION property=%s replay=%s" % (self.pid, path))
            if what:
                log("  " + what[:600])
        self.violations.append(path)
        return True

    def drift(self, n=1, what=""):
        self.cov["conformance_drift"] += n
        if what:
            log("CONFORMANCE-DRIFT property=%s %s" % (self.pid, what[:400]))

    def sample(self, s):
        if len(self.cov["samples"]) < 6:
            self.cov["samples"].append(s)

    def add_tlc(self, r):
        self.cov["states"] += r["distinct"]
        self.cov["transitions"] += r["generated"]
        self.cov["tlc_runs"].append({k: r[k] for k in ("module", "cfg", "mode", "generated", "distinct", "depth",
                                                       "wall_s", "constants", "actions", "invariants") if k in r})

    def add_driver(self, s, traces=True):
        if traces:
            self.cov["traces_validated_against_impl"] += s.get("cases", 0)
        self.cov.setdefault("driver_runs", []).append(
            {"driver": s.get("driver"), "cases": s.get("cases"), "steps": s.get("steps"),
             "violations": s.get("violation_count"), "drift": s.get("drift_count"),
             "wall_s": round(s.get("_wall_s", 0), 2), "extra": s.get("extra")})
        for x in s.get("samples", [])[:2]:
            self.sample(x)
        if s.get("drift_count"):
            self.drift(s["drift_count"], json.dumps(s.get("drift", [])[:2]))

    def write_evidence(self):
        self.cov["known_findings_hit"] = [{"id": k, "count": v} for k, v in self.known_hits.items()]
        ev = {"property_id": self.pid, "tier": self.tier, "seed": self.seed, "level": self.level,
              "coverage": self.cov, "assumptions": self.assumptions,
              "wall_s": round(time.time() - self.t0, 2), "violations": len(self.violations)}
        os.makedirs(os.path.join(VERIF, "evidence"), exist_ok=True)
        with open(os.path.join(VERIF, "evidence", self.pid + ".json"), "w") as f:
            json.dump(ev, f, indent=1, sort_keys=True)
