"""Rebuild crash images from an fsrec operation log (shim/fsrec.c).

Crash models (as in the statement of C02):
  process : every operation completed before the crash instant is kept;
  power   : namespace operations (create, rename, unlink, mkdir) are kept in order; of every regular file only the
            data covered by its last fsync is guaranteed - bytes appended since may be wholly or partly missing
            (variant "synced": none of them survive; "mid": half of them; "rand": a seeded cut per file);
            a file modified in place since its last fsync is taken in its synced state ("synced") or current state.
"""
import json
import os
import random
import struct

OPEN, WRITE, FSYNC, RENAME, UNLINK, FTRUNC, MKDIR, RMDIR, CLOSE, MARK, FAULT = range(1, 12)
NAMES = {1: "open", 2: "write", 3: "fsync", 4: "rename", 5: "unlink", 6: "ftruncate", 7: "mkdir", 8: "rmdir",
         9: "close", 10: "mark", 11: "fault"}


class Op:
    __slots__ = ("ticket", "op", "fd", "off", "res", "tid", "p1", "p2", "data")

    def __repr__(self):
        return "<%d %s %s %s off=%d len=%d>" % (self.ticket, NAMES.get(self.op), self.p1, self.p2, self.off, len(self.data))


def parse_log(path):
    d = open(path, "rb").read()
    i, ops = 0, []
    while i + 52 <= len(d):
        if d[i:i + 4] != b"FSR1":
            raise ValueError("bad record at %d in %s" % (i, path))
        o = Op()
        o.ticket, o.op, o.fd, o.off, o.res, o.tid, l1, l2, ln = struct.unpack_from("<QIiqqIIII", d, i + 4)
        i += 52
        o.p1 = d[i:i + l1].decode(errors="replace")
        i += l1
        o.p2 = d[i:i + l2].decode(errors="replace")
        i += l2
        o.data = d[i:i + ln]
        i += ln
        ops.append(o)
    return ops


def marks(ops):
    out = []
    for o in ops:
        if o.op == MARK:
            try:
                ev = json.loads(o.data.decode())
            except Exception:
                continue
            ev["ticket"] = o.ticket
            out.append(ev)
    return out


class FsState:
    """In-memory replica of the directory tree below `root` as the operation log builds it."""

    def __init__(self, root):
        self.root = root.rstrip("/")
        self.files = {}     # relpath -> bytearray (current content)
        self.synced = {}    # relpath -> bytes (content at last fsync) ; missing = never synced
        self.dirs = set()
        self.inplace = set()  # files overwritten in place since their last fsync

    def rel(self, p):
        if p == self.root:
            return ""
        if p.startswith(self.root + "/"):
            return p[len(self.root) + 1:]
        return None

    def apply(self, o):
        if o.op == MKDIR:
            r = self.rel(o.p1)
            if r is not None:
                self.dirs.add(r)
        elif o.op == RMDIR:
            r = self.rel(o.p1)
            self.dirs.discard(r)
        elif o.op == OPEN:
            r = self.rel(o.p1)
            if r is None:
                return
            if o.off & 1:       # created
                self.files[r] = bytearray()
                self.synced.pop(r, None)
            if o.off & 2:       # truncated
                self.files[r] = bytearray()
                self.inplace.add(r)
        elif o.op == WRITE:
            r = self.rel(o.p1)
            if r is None:
                return
            f = self.files.setdefault(r, bytearray())
            if o.off < len(f):
                self.inplace.add(r)
            if o.off > len(f):
                f.extend(b"\0" * (o.off - len(f)))
            f[o.off:o.off + len(o.data)] = o.data
        elif o.op == FTRUNC:
            r = self.rel(o.p1)
            if r is None:
                return
            f = self.files.setdefault(r, bytearray())
            if o.off < len(f):
                del f[o.off:]
                self.inplace.add(r)
            else:
                f.extend(b"\0" * (o.off - len(f)))
        elif o.op == FSYNC:
            r = self.rel(o.p1)
            if r is not None and r in self.files:
                self.synced[r] = bytes(self.files[r])
                self.inplace.discard(r)
        elif o.op == RENAME:
            a, b = self.rel(o.p1), self.rel(o.p2)
            if a is None:
                return
            if a in self.files:
                data = self.files.pop(a)
                sy = self.synced.pop(a, None)
                ip = a in self.inplace
                self.inplace.discard(a)
                if b is not None:
                    self.files[b] = data
                    if sy is not None:
                        self.synced[b] = sy
                    else:
                        self.synced.pop(b, None)
                    if ip:
                        self.inplace.add(b)
            elif a in self.dirs:
                # directory rename: move everything below
                self.dirs.discard(a)
                if b is not None:
                    self.dirs.add(b)
                for k in [k for k in self.files if k.startswith(a + "/")]:
                    nk = b + k[len(a):]
                    self.files[nk] = self.files.pop(k)
                    if k in self.synced:
                        self.synced[nk] = self.synced.pop(k)
                for k in [k for k in self.dirs if k.startswith(a + "/")]:
                    self.dirs.discard(k)
                    self.dirs.add(b + k[len(a):])
        elif o.op == UNLINK:
            r = self.rel(o.p1)
            if r is not None:
                self.files.pop(r, None)
                self.synced.pop(r, None)
                self.inplace.discard(r)

    def content(self, r, model, rng=None):
        cur = bytes(self.files[r])
        if model == "process" or r.endswith("LOCK"):
            return cur
        sy = self.synced.get(r, b"")
        if r in self.inplace or not cur.startswith(sy):
            # modified in place since the last fsync: old or new state as a whole
            if model == "synced":
                return sy
            if model == "rand":
                return sy if rng.random() < 0.5 else cur
            return cur
        extra = len(cur) - len(sy)
        if model == "synced":
            keep = 0
        elif model == "mid":
            keep = extra // 2
        elif model == "rand":
            keep = rng.choice([0, extra, rng.randint(0, extra)])
        else:
            keep = extra
        return cur[:len(sy) + keep]

    def materialize(self, dest, model="process", seed=0):
        rng = random.Random(seed)
        os.makedirs(dest, exist_ok=True)
        for d in sorted(self.dirs):
            if d:
                os.makedirs(os.path.join(dest, d), exist_ok=True)
        for r in sorted(self.files):
            p = os.path.join(dest, r)
            os.makedirs(os.path.dirname(p), exist_ok=True)
            with open(p, "wb") as f:
                f.write(self.content(r, model, rng))

    def unsynced_bytes(self):
        n = 0
        for r, cur in self.files.items():
            sy = self.synced.get(r, b"")
            n += max(0, len(cur) - len(sy)) if bytes(cur).startswith(sy) else len(cur)
        return n


def interesting_tickets(ops, budget, seed):
    """tickets worth crashing after: around every rename / unlink / fsync / truncate / create, every mark,
    plus a seeded sample of the rest."""
    hot = set()
    idx = {o.ticket: i for i, o in enumerate(ops)}
    for i, o in enumerate(ops):
        if o.op in (RENAME, UNLINK, FSYNC, FTRUNC, OPEN, MARK):
            for j in range(max(0, i - 2), min(len(ops), i + 3)):
                hot.add(ops[j].ticket)
    rng = random.Random(seed)
    rest = [o.ticket for o in ops if o.ticket not in hot]
    hot = sorted(hot)
    if len(hot) > budget:
        # keep namespace-op neighbourhoods first
        ns = set()
        for i, o in enumerate(ops):
            if o.op in (RENAME, UNLINK):
                for j in range(max(0, i - 2), min(len(ops), i + 3)):
                    ns.add(ops[j].ticket)
        others = [t for t in hot if t not in ns]
        rng.shuffle(others)
        hot = sorted(list(ns)[:budget] + others[:max(0, budget - len(ns))])
    else:
        rng.shuffle(rest)
        hot = sorted(hot + rest[:budget - len(hot)])
    return hot
