"""Running TLC and reading what it says."""
import os
import re
import shutil
import time

from .core import SPEC, WORK, NCPU, ToolError, sh, log

JAR = "/opt/veriftools/tla/tla2tools.jar:/opt/veriftools/tla/CommunityModules-deps.jar"


def _parse_cfg_constants(cfg_path):
    out, on = [], False
    for line in open(cfg_path):
        s = line.strip()
        if s.startswith("CONSTANT"):
            on = True
            s = s.split(None, 1)[1] if len(s.split(None, 1)) > 1 else ""
        elif re.match(r"^(INIT|NEXT|SPECIFICATION|INVARIANT|INVARIANTS|CONSTRAINT|VIEW|ACTION_CONSTRAINT|"
                      r"CHECK_DEADLOCK|PROPERTY|PROPERTIES|POSTCONDITION|SYMMETRY|ALIAS)\b", s):
            on = False
        if on and s and not s.startswith("\\*"):
            out.append(s)
    return out


def _parse_cfg_list(cfg_path, kw):
    out, on = [], False
    for line in open(cfg_path):
        s = line.strip()
        m = re.match(r"^(%s)S?\b(.*)$" % kw, s)
        if m:
            on = True
            s = m.group(2).strip()
        elif re.match(r"^[A-Z_]+\b", s) and s.split()[0] in (
                "INIT", "NEXT", "SPECIFICATION", "CONSTANT", "CONSTANTS", "CONSTRAINT", "VIEW", "ACTION_CONSTRAINT",
                "CHECK_DEADLOCK", "PROPERTY", "PROPERTIES", "POSTCONDITION", "SYMMETRY", "ALIAS", "INVARIANT",
                "INVARIANTS") and not m:
            on = False
        if on and s:
            out += s.split()
    return out


def run(subdir, module, cfg, workers=None, mode="bfs", sim=None, depth=None, timeout=1800, env=None,
        out_name=None, extra=None, xmx="8g", coverage=True, cfg_text=None, must_pass=True, deque=False, seed=None):
    """Run TLC on spec/<subdir>/<module>.tla with <cfg>. Returns a dict of statistics.
    must_pass: an invariant violation in the *model* is raised as ToolError unless the caller asks to see it."""
    d = os.path.join(SPEC, subdir)
    tag = "%s_%s_%d" % (module, os.path.splitext(os.path.basename(cfg))[0], os.getpid())
    meta = os.path.join(WORK, "tlc", tag)
    shutil.rmtree(meta, ignore_errors=True)
    os.makedirs(meta, exist_ok=True)
    cfg_path = os.path.join(d, cfg)
    if cfg_text is not None:
        cfg_path = os.path.join(meta, cfg)
        with open(cfg_path, "w") as f:
            f.write(cfg_text)
    out_path = os.path.join(WORK, "tlc", (out_name or tag) + ".out")
    jopts = "-Xss1g"
    if deque:
        jopts += " -Dtlc2.tool.queue.IStateQueue=StateDeque"
    libs = ":".join(os.path.join(SPEC, x) for x in sorted(os.listdir(SPEC)) if os.path.isdir(os.path.join(SPEC, x)))
    cmd = ["java", "-XX:+UseParallelGC", "-Xmx" + xmx, "-Xss1g", "-DTLA-Library=" + libs, "-cp", JAR, "tlc2.TLC",
           "-metadir", meta, "-noGenerateSpecTE", "-config", cfg_path]
    if deque:
        cmd.insert(1, "-Dtlc2.tool.queue.IStateQueue=StateDeque")
    w = workers or min(NCPU, 12)
    cmd += ["-workers", str(w)]
    if mode == "sim":
        cmd += ["-simulate", "num=%d" % (sim or 100), "-depth", str(depth or 50)]
        if seed is not None:
            cmd += ["-seed", str(seed)]
    elif coverage:
        cmd += ["-coverage", "1"]
    if extra:
        cmd += extra
    cmd.append(os.path.join(d, module + ".tla"))
    t0 = time.time()
    with open(out_path, "w") as f:
        import subprocess
        e = dict(os.environ)
        if env:
            e.update({k: str(v) for k, v in env.items()})
        try:
            p = subprocess.run(cmd, cwd=d, env=e, stdout=f, stderr=subprocess.STDOUT, timeout=timeout)
        except subprocess.TimeoutExpired:
            shutil.rmtree(meta, ignore_errors=True)
            raise ToolError("TLC timeout (%ss) on %s/%s %s" % (timeout, subdir, module, cfg))
    wall = time.time() - t0
    shutil.rmtree(meta, ignore_errors=True)
    res = {"module": module, "cfg": cfg, "mode": mode, "out": out_path, "wall_s": round(wall, 1), "exit": p.returncode,
           "generated": 0, "distinct": 0, "depth": 0, "violated": [], "errors": [], "actions": {},
           "constants": _parse_cfg_constants(os.path.join(d, cfg)) if cfg_text is None else [],
           "invariants": _parse_cfg_list(os.path.join(d, cfg), "INVARIANT") if cfg_text is None else []}
    act_re = re.compile(r"^<(\w+) line \d+, col \d+ to line \d+, col \d+ of module (\w+)>: (\d+):(\d+)")
    with open(out_path, errors="replace") as f:
        for line in f:
            if line.startswith('"'):
                continue
            m = re.search(r"(\d+) states generated, (\d+) distinct states found", line)
            if m:
                res["generated"], res["distinct"] = int(m.group(1)), int(m.group(2))
            m = re.search(r"The depth of the complete state graph search is (\d+)", line)
            if m:
                res["depth"] = int(m.group(1))
            m = re.search(r"Invariant (\w+) is violated", line)
            if m:
                if m.group(1) not in res["violated"]:
                    res["violated"].append(m.group(1))
            m = re.search(r"Action property (\w+) is violated|Temporal properties were violated", line)
            if m:
                if (m.group(1) or "temporal") not in res["violated"]:
                    res["violated"].append(m.group(1) or "temporal")
            if line.startswith("Error:") and "Invariant" not in line:
                res["errors"].append(line.strip())
            m = act_re.match(line)
            if m:
                a = res["actions"].setdefault(m.group(1), [0, 0])
                a[0] += int(m.group(3))
                a[1] += int(m.group(4))
            m = re.search(r"The number of states generated: (\d+)", line)   # simulation mode
            if m:
                res["generated"] = int(m.group(1))
    if res["errors"] and not res["violated"]:
        # Parse errors, evaluation errors, POSTCONDITION failures are reported by the caller if expected
        pass
    log("[tlc] %s/%s %s: %d generated, %d distinct, depth %d, %.1fs%s" % (
        subdir, module, cfg, res["generated"], res["distinct"], res["depth"], wall,
        (" VIOLATED " + ",".join(res["violated"])) if res["violated"] else ""))
    if must_pass:
        if res["violated"]:
            raise ToolError("model invariant violated in %s %s: %s (see %s)" % (module, cfg, res["violated"], out_path))
        if p.returncode != 0 or res["errors"]:
            raise ToolError("TLC failed on %s %s (exit %s): %s (see %s)" % (module, cfg, p.returncode, res["errors"][:3], out_path))
    return res


def require_coverage(res, actions):
    """Vacuity guard: every named action must have been taken at least once."""
    missing = [a for a in actions if res["actions"].get(a, [0, 0])[0] == 0]
    if missing:
        raise ToolError("actions never taken in %s %s: %s" % (res["module"], res["cfg"], missing))


def sany(path):
    libs = ":".join(os.path.join(SPEC, x) for x in sorted(os.listdir(SPEC)) if os.path.isdir(os.path.join(SPEC, x)))
    p = sh(["java", "-DTLA-Library=" + libs, "-cp", JAR, "tla2sany.SANY", os.path.basename(path)],
           cwd=os.path.dirname(path), check=False)
    if p.returncode != 0 or "Semantic errors" in (p.stdout or "") or "Parse Error" in (p.stdout or ""):
        raise ToolError("SANY rejects %s:\n%s" % (path, (p.stdout or "")[-2000:]))


def cfg_variant(subdir, cfg, subst=None, add=None, drop=None):
    """Text of spec/<subdir>/<cfg> with `NAME = value` constants replaced, lines dropped / added."""
    lines = open(os.path.join(SPEC, subdir, cfg)).read().splitlines()
    out = []
    for ln in lines:
        s = ln.strip()
        if drop and any(s.startswith(d) for d in drop):
            continue
        for k, v in (subst or {}).items():
            if re.match(r"^%s\s*(=|<-)" % re.escape(k), s):
                op = "<-" if "<-" in s.split(k, 1)[1][:4] else "="
                ln = "    %s %s %s" % (k, op, v)
        out.append(ln)
    out += (add or [])
    return "\n".join(out) + "\n"
