//! Result summary printed by drivers (one JSON object on the last stdout line).
use serde::Serialize;
use serde_json::Value;

#[derive(Serialize, Default)]
pub struct Summary {
	pub driver: String,
	pub cases: u64,
	pub steps: u64,
	/// property predicate failed on a real output: these decide
	pub violations: Vec<Value>,
	pub violation_count: u64,
	/// real output differs from the spec's prediction without breaking the property
	pub drift: Vec<Value>,
	pub drift_count: u64,
	pub samples: Vec<Value>,
	pub extra: serde_json::Map<String, Value>,
}

impl Summary {
	pub fn new(driver: &str) -> Self {
		Summary {
			driver: driver.to_string(),
			..Default::default()
		}
	}
	pub fn violation(&mut self, v: Value) {
		self.violation_count += 1;
		if self.violations.len() < 20 {
			self.violations.push(v);
		}
	}
	pub fn drift(&mut self, v: Value) {
		self.drift_count += 1;
		if self.drift.len() < 20 {
			self.drift.push(v);
		}
	}
	pub fn sample(&mut self, v: Value) {
		if self.samples.len() < 3 {
			self.samples.push(v);
		}
	}
	pub fn print(&self) {
		println!("SUMMARY {}", serde_json::to_string(self).unwrap());
	}
}
