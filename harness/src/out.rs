//! Result summary printed by drivers (one JSON object on the last stdout line).
use serde::Serialize;
use serde_json::Value;

#[derive(Serialize, Default)]
pub struct Summary {
	pub driver: String,
	pub cases: u64,
	pub steps: u64,
	/// property predicate failed on a real output: these decide
	pub violations: Vec<Value>,
	pub violation_count: u64,
	/// real output differs from the spec's prediction without breaking the property
	pub drift: Vec<Value>,
	pub drift_count: u64,
	pub samples: Vec<Value>,
	pub extra: serde_json::Map<String, Value>,
	/// violation_count broken down by v["kind"]; up to 5 examples of every kind are kept in `violations`
	pub violation_kinds: std::collections::BTreeMap<String, u64>,
	pub drift_kinds: std::collections::BTreeMap<String, u64>,
}

impl Summary {
	pub fn new(driver: &str) -> Self {
		Summary {
			driver: driver.to_string(),
			..Default::default()
		}
	}
	pub fn violation(&mut self, v: Value) {
		self.violation_count += 1;
		let kind = v.get("kind").and_then(|k| k.as_str()).unwrap_or("?").to_string();
		let n = self.violation_kinds.entry(kind).or_insert(0);
		*n += 1;
		if *n <= 5 && self.violations.len() < 60 {
			self.violations.push(v);
		}
	}
	pub fn drift(&mut self, v: Value) {
		self.drift_count += 1;
		let kind = v.get("kind").and_then(|k| k.as_str()).unwrap_or("?").to_string();
		let n = self.drift_kinds.entry(kind).or_insert(0);
		*n += 1;
		if *n <= 3 && self.drift.len() < 30 {
			self.drift.push(v);
		}
	}
	pub fn sample(&mut self, v: Value) {
		if self.samples.len() < 3 {
			self.samples.push(v);
		}
	}
	pub fn print(&self) {
		println!("SUMMARY {}", serde_json::to_string(self).unwrap());
	}
}
