//! Gate scheduler: lets a driver hold a thread of the code under test at a named
//! hook site (`surrealkv::verif::gate`) and release it later, so that an
//! interleaving chosen by TLC becomes a deterministic execution.
//!
//! A thread is only ever parked if it *asked* for it through `arm(site)` (thread
//! local), so unrelated threads and parallel scenarios are never affected.

use std::cell::RefCell;
use std::collections::HashMap;
use std::sync::{Arc, Condvar, Mutex};
use std::time::Duration;

use surrealkv::verif::Sink;

thread_local! {
	static ARMED: RefCell<Option<(&'static str, u64)>> = const { RefCell::new(None) };
}

#[derive(Default)]
struct Slot {
	parked: bool,
	released: bool,
}

#[derive(Default)]
pub struct GateSink {
	slots: Mutex<HashMap<u64, Slot>>,
	cv: Condvar,
	events: Mutex<Vec<(u64, &'static str, Vec<(&'static str, u64)>)>>,
	record: std::sync::atomic::AtomicBool,
}

impl GateSink {
	pub fn install() -> Arc<GateSink> {
		let s = Arc::new(GateSink::default());
		surrealkv::verif::set_sink(Some(s.clone() as Arc<dyn Sink>));
		s
	}

	pub fn set_record(&self, on: bool) {
		self.record.store(on, std::sync::atomic::Ordering::SeqCst);
	}

	pub fn take_events(&self) -> Vec<(u64, &'static str, Vec<(&'static str, u64)>)> {
		std::mem::take(&mut *self.events.lock().unwrap())
	}

	/// Called on the thread that should park: the next time it reaches `site` it
	/// waits for `release(token)`.
	pub fn arm(site: &'static str, token: u64) {
		ARMED.with(|a| *a.borrow_mut() = Some((site, token)));
	}

	pub fn disarm() {
		ARMED.with(|a| *a.borrow_mut() = None);
	}

	/// Wait until the thread holding `token` is parked (true) or `timeout` passes.
	pub fn wait_parked(&self, token: u64, timeout: Duration) -> bool {
		let g = self.slots.lock().unwrap();
		let (g, res) = self
			.cv
			.wait_timeout_while(g, timeout, |m| !m.get(&token).map(|s| s.parked).unwrap_or(false))
			.unwrap();
		drop(g);
		!res.timed_out()
	}

	pub fn release(&self, token: u64) {
		let mut g = self.slots.lock().unwrap();
		g.entry(token).or_default().released = true;
		self.cv.notify_all();
	}
}

impl Sink for GateSink {
	fn emit(&self, ticket: u64, site: &'static str, fields: &[(&'static str, u64)]) {
		if self.record.load(std::sync::atomic::Ordering::Relaxed) {
			self.events.lock().unwrap().push((ticket, site, fields.to_vec()));
		}
	}

	fn gate(&self, ticket: u64, site: &'static str, fields: &[(&'static str, u64)]) {
		self.emit(ticket, site, fields);
		let armed = ARMED.with(|a| {
			let mut a = a.borrow_mut();
			match *a {
				Some((s, t)) if s == site => {
					*a = None;
					Some(t)
				}
				_ => None,
			}
		});
		if let Some(token) = armed {
			let mut g = self.slots.lock().unwrap();
			g.entry(token).or_default().parked = true;
			self.cv.notify_all();
			let (mut g, _) = self
				.cv
				.wait_timeout_while(g, Duration::from_secs(60), |m| {
					!m.get(&token).map(|s| s.released).unwrap_or(false)
				})
				.unwrap();
			g.remove(&token);
		}
	}
}
