//! Gate scheduler: lets a driver hold threads of the code under test at named
//! hook sites (`surrealkv::verif::gate`) and release them one at a time, so that
//! an interleaving chosen by TLC becomes a deterministic execution.
//!
//! Two ways for a thread to take part (both thread-local, so unrelated threads and
//! parallel scenarios are never affected):
//!  * `arm(site, token)`   - park once, the next time this thread reaches `site`;
//!  * `enroll(token)`      - this thread is an *actor*: it parks at EVERY gate it
//!                           reaches until `release(token)`; `finish(token)` marks its end.
//! `arm_failpoint(name)` makes the named failpoint fire once on the calling thread.

use std::cell::RefCell;
use std::collections::HashMap;
use std::sync::{Arc, Condvar, Mutex};
use std::time::Duration;

use surrealkv::verif::Sink;

thread_local! {
	static ARMED: RefCell<Option<(&'static str, u64)>> = const { RefCell::new(None) };
	static ACTOR: RefCell<Option<u64>> = const { RefCell::new(None) };
	static FAILPOINTS: RefCell<Vec<&'static str>> = const { RefCell::new(Vec::new()) };
}

pub type Fields = Vec<(&'static str, u64)>;

#[derive(Default)]
struct Slot {
	parked: Option<(&'static str, Fields)>,
	released: bool,
	done: bool,
	/// the actor announced (emit) that it is about to block inside the library
	waiting: Option<(&'static str, Fields)>,
}

#[derive(Debug, Clone, PartialEq)]
pub enum Status {
	Parked(&'static str, Fields),
	Done,
	Timeout,
}

/// `Status` plus: the actor reported `site` by an event and is now blocked inside the library (not at a gate).
#[derive(Debug, Clone, PartialEq)]
pub enum StatusW {
	Parked(&'static str, Fields),
	Waiting(&'static str, Fields),
	Done,
	Timeout,
}

#[derive(Default)]
pub struct GateSink {
	slots: Mutex<HashMap<u64, Slot>>,
	cv: Condvar,
	events: Mutex<Vec<(u64, &'static str, Fields)>>,
	record: std::sync::atomic::AtomicBool,
	armed_for: Mutex<HashMap<u64, &'static str>>,
	/// site -> token: EVERY thread reaching `site` parks under `token` (background tasks, which run on threads the
	/// driver does not own)
	site_gates: Mutex<HashMap<&'static str, u64>>,
	/// sites at which actors do not park
	ignored: Mutex<Vec<&'static str>>,
	/// events that put an actor into `Status::Waiting`
	wait_events: Mutex<Vec<&'static str>>,
	/// everything runs freely (end of a scenario)
	free: std::sync::atomic::AtomicBool,
}

impl GateSink {
	pub fn install() -> Arc<GateSink> {
		let s = Arc::new(GateSink::default());
		// drivers written before this gate existed do not expect it; `clear_ignored` turns it on
		for site in ["stall.check", "stall.decided", "close.signalled", "close.drained", "close.stop_sent", "close.tasks_idle", "close.joined"] {
			s.ignore(site);
		}
		surrealkv::verif::set_sink(Some(s.clone() as Arc<dyn Sink>));
		s
	}

	pub fn set_record(&self, on: bool) {
		self.record.store(on, std::sync::atomic::Ordering::SeqCst);
	}

	/// Park every thread that reaches `site` (under `token`), until `free_run`.
	pub fn gate_site(&self, site: &'static str, token: u64) {
		self.site_gates.lock().unwrap().insert(site, token);
	}

	/// Actors run through `site` without parking.
	pub fn ignore(&self, site: &'static str) {
		self.ignored.lock().unwrap().push(site);
	}

	pub fn dump(&self) -> String {
		let g = self.slots.lock().unwrap();
		g.iter().map(|(t, s)| format!("{t}:{:?}/rel={}/done={}/wait={:?}", s.parked.as_ref().map(|p| p.0), s.released, s.done, s.waiting.as_ref().map(|p| p.0))).collect::<Vec<_>>().join(" ")
	}

	pub fn clear_ignored(&self) {
		self.ignored.lock().unwrap().clear();
	}

	/// Wait until the actor is parked at a gate or done.
	pub fn status(&self, token: u64, timeout: Duration) -> Status {
		let g = self.slots.lock().unwrap();
		let (g, res) = self
			.cv
			.wait_timeout_while(g, timeout, |m| match m.get(&token) {
				Some(s) => !(s.done || (s.parked.is_some() && !s.released)),
				None => true,
			})
			.unwrap();
		if res.timed_out() {
			return Status::Timeout;
		}
		let s = g.get(&token).unwrap();
		if s.done {
			Status::Done
		} else {
			let (site, f) = s.parked.clone().unwrap();
			Status::Parked(site, f)
		}
	}

	/// An `emit(site)` on an actor's thread marks the actor as waiting inside the library.
	pub fn wait_event(&self, site: &'static str) {
		self.wait_events.lock().unwrap().push(site);
	}

	/// Release everything now and in future: no gate parks any more.
	pub fn free_run(&self, on: bool) {
		self.free.store(on, std::sync::atomic::Ordering::SeqCst);
		if on {
			let mut g = self.slots.lock().unwrap();
			for s in g.values_mut() {
				s.released = true;
			}
			self.cv.notify_all();
		}
	}

	/// Forget all slots and site gates (between scenarios).
	pub fn reset(&self) {
		self.slots.lock().unwrap().clear();
		self.site_gates.lock().unwrap().clear();
		self.armed_for.lock().unwrap().clear();
	}

	pub fn take_events(&self) -> Vec<(u64, &'static str, Fields)> {
		std::mem::take(&mut *self.events.lock().unwrap())
	}

	pub fn arm(site: &'static str, token: u64) {
		ARMED.with(|a| *a.borrow_mut() = Some((site, token)));
	}

	pub fn disarm() {
		ARMED.with(|a| *a.borrow_mut() = None);
	}

	pub fn enroll(token: u64) {
		ACTOR.with(|a| *a.borrow_mut() = Some(token));
	}

	pub fn arm_failpoint(name: &'static str) {
		FAILPOINTS.with(|f| f.borrow_mut().push(name));
	}

	/// Make failpoint `name` fire once on the thread of actor `token` (callable from any thread).
	pub fn arm_failpoint_for(&self, token: u64, name: &'static str) {
		self.armed_for.lock().unwrap().insert(token, name);
	}

	/// The actor's thread is about to end (call from the actor thread, or for it).
	pub fn finish(&self, token: u64) {
		ACTOR.with(|a| *a.borrow_mut() = None);
		let mut g = self.slots.lock().unwrap();
		let s = g.entry(token).or_default();
		s.done = true;
		s.parked = None;
		self.cv.notify_all();
	}

	/// A gate of the harness itself (same parking rules as the hooks in the library).
	pub fn gate_here(&self, site: &'static str, fields: &[(&'static str, u64)]) {
		Sink::gate(self, 0, site, fields);
	}

	/// Wait until the thread holding `token` is parked (true) or `timeout` passes.
	pub fn wait_parked(&self, token: u64, timeout: Duration) -> bool {
		matches!(self.status(token, timeout), Status::Parked(..))
	}

	/// Wait until the actor is parked at a gate, blocked after a wait event, or done.
	pub fn status_w(&self, token: u64, timeout: Duration) -> StatusW {
		let g = self.slots.lock().unwrap();
		let (g, res) = self
			.cv
			.wait_timeout_while(g, timeout, |m| match m.get(&token) {
				Some(s) => !(s.done || (s.parked.is_some() && !s.released) || s.waiting.is_some()),
				None => true,
			})
			.unwrap();
		if res.timed_out() {
			return StatusW::Timeout;
		}
		let s = g.get(&token).unwrap();
		if s.done {
			StatusW::Done
		} else if let (Some((site, f)), false) = (s.parked.clone(), s.released) {
			StatusW::Parked(site, f)
		} else {
			let (site, f) = s.waiting.clone().unwrap();
			StatusW::Waiting(site, f)
		}
	}

	pub fn release(&self, token: u64) {
		let mut g = self.slots.lock().unwrap();
		g.entry(token).or_default().released = true;
		self.cv.notify_all();
	}

	pub fn forget(&self, token: u64) {
		self.slots.lock().unwrap().remove(&token);
	}

	fn park(&self, token: u64, site: &'static str, fields: &[(&'static str, u64)], persistent: bool) {
		if self.free.load(std::sync::atomic::Ordering::SeqCst) {
			return;
		}
		// A thread of a multi-thread tokio runtime (the engine's background tasks) must hand its run queue over before it
		// blocks: a task it has just woken sits in its LIFO slot, where no other worker can reach it.
		let on_worker = tokio::runtime::Handle::try_current()
			.map(|h| h.runtime_flavor() == tokio::runtime::RuntimeFlavor::MultiThread)
			.unwrap_or(false);
		if on_worker {
			tokio::task::block_in_place(|| self.park_wait(token, site, fields, persistent));
		} else {
			self.park_wait(token, site, fields, persistent);
		}
	}

	fn park_wait(&self, token: u64, site: &'static str, fields: &[(&'static str, u64)], persistent: bool) {
		let mut g = self.slots.lock().unwrap();
		{
			let s = g.entry(token).or_default();
			s.parked = Some((site, fields.to_vec()));
			s.released = false;
			s.waiting = None;
		}
		self.cv.notify_all();
		let (mut g, _) = self
			.cv
			.wait_timeout_while(g, Duration::from_secs(120), |m| {
				!m.get(&token).map(|s| s.released).unwrap_or(true) && !self.free.load(std::sync::atomic::Ordering::SeqCst)
			})
			.unwrap();
		if persistent {
			if let Some(s) = g.get_mut(&token) {
				s.parked = None;
			}
		} else {
			g.remove(&token);
		}
	}
}

impl Sink for GateSink {
	fn emit(&self, ticket: u64, site: &'static str, fields: &[(&'static str, u64)]) {
		if let Some(token) = ACTOR.with(|a| *a.borrow()) {
			if self.wait_events.lock().unwrap().contains(&site) {
				let mut g = self.slots.lock().unwrap();
				g.entry(token).or_default().waiting = Some((site, fields.to_vec()));
				self.cv.notify_all();
			}
		}
		if self.record.load(std::sync::atomic::Ordering::Relaxed) {
			self.events.lock().unwrap().push((ticket, site, fields.to_vec()));
		}
	}

	fn gate(&self, ticket: u64, site: &'static str, fields: &[(&'static str, u64)]) {
		self.emit(ticket, site, fields);
		if let Some(token) = ACTOR.with(|a| *a.borrow()) {
			if std::env::var("BG_DEBUG").is_ok() {
				eprintln!("{:?} gate {site} actor={token}", std::time::SystemTime::now().duration_since(std::time::UNIX_EPOCH).unwrap().as_millis() % 100000);
			}
			if !self.ignored.lock().unwrap().contains(&site) {
				self.park(token, site, fields, true);
			}
			return;
		}
		let site_token = self.site_gates.lock().unwrap().get(site).copied();
		if std::env::var("BG_DEBUG").is_ok() {
			eprintln!("{:?} gate {site} thread={:?} actor=None site_token={site_token:?} free={}", std::time::SystemTime::now().duration_since(std::time::UNIX_EPOCH).unwrap().as_millis() % 100000, std::thread::current().id(), self.free.load(std::sync::atomic::Ordering::SeqCst));
		}
		if let Some(token) = site_token {
			self.park(token, site, fields, true);
			return;
		}
		let armed = ARMED.with(|a| {
			let mut a = a.borrow_mut();
			match *a {
				Some((s, t)) if s == site => {
					*a = None;
					Some(t)
				}
				_ => None,
			}
		});
		if let Some(token) = armed {
			self.park(token, site, fields, false);
		}
	}

	fn failpoint(&self, name: &'static str, _fields: &[(&'static str, u64)]) -> bool {
		if let Some(token) = ACTOR.with(|a| *a.borrow()) {
			let mut m = self.armed_for.lock().unwrap();
			if m.get(&token) == Some(&name) {
				m.remove(&token);
				return true;
			}
		}
		FAILPOINTS.with(|f| {
			let mut f = f.borrow_mut();
			if let Some(i) = f.iter().position(|n| *n == name) {
				f.remove(i);
				true
			} else {
				false
			}
		})
	}
}
