//! C19 directed scenario: a handle that has been closed explicitly is dropped later (inside a runtime, which runs the
//! shutdown a second time) while a NEW instance owns the directory. Nothing in the directory may change because of it,
//! and the new instance's data (incl. version history) must stay intact.
//!
//! usage: double_close
use std::collections::BTreeMap;
use std::time::Duration;

use serde_json::json;
use surrealkv::{Options, TreeBuilder};
use verif_harness::out::Summary;

fn digest(dir: &std::path::Path, out: &mut BTreeMap<String, (u64, u64)>, root: &std::path::Path) {
	for e in std::fs::read_dir(dir).unwrap().flatten() {
		let p = e.path();
		if p.is_dir() {
			digest(&p, out, root);
		} else if let Ok(data) = std::fs::read(&p) {
			let mut h = 0xcbf29ce484222325u64;
			for b in &data {
				h = (h ^ *b as u64).wrapping_mul(0x100000001b3);
			}
			out.insert(p.strip_prefix(root).unwrap().to_string_lossy().to_string(), (data.len() as u64, h));
		}
	}
}

fn opts(path: &std::path::Path, versioning: bool) -> Options {
	let mut o = Options::new().with_path(path.to_path_buf()).with_max_memtable_size(4 << 20);
	o.level0_max_files = 64;
	let o = o.with_l0_stall_threshold(64).with_memtable_stall_threshold(64);
	if versioning {
		o.with_enable_vlog(true).with_vlog_value_threshold(0).with_versioning(true, 0).with_versioned_index(true)
	} else {
		o
	}
}

fn main() {
	verif_harness::quiet_panics();
	let mut sum = Summary::new("double_close");
	let rt = verif_harness::rt_multi(2);
	let _g = rt.enter();
	for versioning in [false, true] {
		for flush_on_close in [true, false] {
			sum.cases += 1;
			let case = json!({"versioning": versioning, "flush_on_close": flush_on_close});
			let dir = verif_harness::scratch_dir("dclose");
			let mk = || opts(dir.path(), versioning).with_flush_on_close(flush_on_close);
			let t1 = TreeBuilder::with_options(mk()).build().expect("open 1");
			for i in 0..40 {
				let mut t = t1.begin().unwrap();
				t.set(format!("a{i:03}").into_bytes(), vec![1u8; 300]).unwrap();
				rt.block_on(t.commit()).unwrap();
			}
			rt.block_on(t1.close()).expect("close 1");
			// a new instance takes the directory over
			let t2 = match TreeBuilder::with_options(mk()).build() {
				Ok(t) => t,
				Err(e) => {
					sum.violation(json!({"kind":"reopen_refused","error":e.to_string(),"case":case}));
					continue;
				}
			};
			for i in 0..200 {
				let mut t = t2.begin().unwrap();
				t.set(format!("b{i:03}").into_bytes(), vec![2u8; 300]).unwrap();
				rt.block_on(t.commit()).unwrap();
			}
			let _ = t2.verif_flush();
			std::thread::sleep(Duration::from_millis(100));
			let mut before = BTreeMap::new();
			digest(dir.path(), &mut before, dir.path());
			// the old, closed handle goes away now: inside a runtime its Drop runs the shutdown again
			drop(t1);
			std::thread::sleep(Duration::from_millis(300));
			let mut after = BTreeMap::new();
			digest(dir.path(), &mut after, dir.path());
			if before != after {
				let changed: Vec<String> = before
					.keys()
					.chain(after.keys())
					.filter(|k| before.get(*k) != after.get(*k))
					.cloned()
					.collect::<std::collections::BTreeSet<_>>()
					.into_iter()
					.collect();
				sum.violation(json!({"kind":"touched_while_other_live","changed":changed,"case":case,
					"detail":"dropping an already closed handle changed files of the directory the new instance owns"}));
			}
			// the new instance still works and survives a reopen
			let mut t = t2.begin().unwrap();
			t.set(b"zlast".to_vec(), b"v".to_vec()).unwrap();
			if let Err(e) = rt.block_on(t.commit()) {
				sum.violation(json!({"kind":"data_lost","detail":format!("commit on the live instance failed: {e}"),"case":case}));
			}
			let _ = rt.block_on(t2.close());
			drop(t2);
			match TreeBuilder::with_options(mk()).build() {
				Ok(t3) => {
					let r = t3.begin().unwrap();
					let mut missing = 0;
					for i in 0..200 {
						if r.get(format!("b{i:03}").as_bytes()).unwrap().is_none() {
							missing += 1;
						}
					}
					if missing > 0 || r.get(b"zlast").unwrap().is_none() {
						sum.violation(json!({"kind":"data_lost","missing":missing,"case":case}));
					}
					drop(r);
					let _ = rt.block_on(t3.close());
				}
				Err(e) => sum.violation(json!({"kind":"reopen_refused","error":e.to_string(),"case":case,"when":"after"})),
			}
			sum.sample(case);
		}
	}
	// ... and when the new instance has restored a checkpoint in between (its commit-log segments start again from the
	// checkpoint's numbers): the old handle's Drop must not clean them away
	for flush_on_close in [true, false] {
		sum.cases += 1;
		let case = json!({"restore_in_new_instance": true, "flush_on_close": flush_on_close});
		let base = verif_harness::scratch_dir("dclose");
		let dir = base.path().join("db");
		let ck = base.path().join("ck");
		let mk = || opts(&dir, false).with_flush_on_close(flush_on_close);
		let t1 = TreeBuilder::with_options(mk()).build().expect("open 1");
		let _ = t1.create_checkpoint(&ck);
		for i in 0..30 {
			let mut t = t1.begin().unwrap();
			t.set(format!("a{i:03}").into_bytes(), vec![1u8; 300]).unwrap();
			rt.block_on(t.commit()).unwrap();
			if i % 10 == 9 {
				let _ = t1.verif_flush();
			}
		}
		rt.block_on(t1.close()).expect("close 1");
		let t2 = TreeBuilder::with_options(mk()).build().expect("open 2");
		if let Err(e) = t2.restore_from_checkpoint(&ck) {
			sum.drift(json!({"kind":"restore_failed","error":e.to_string()}));
			continue;
		}
		for i in 0..5 {
			let mut t = t2.begin().unwrap();
			t.set(format!("c{i:03}").into_bytes(), vec![3u8; 100]).unwrap();
			rt.block_on(t.commit()).unwrap();
		}
		drop(t1);
		std::thread::sleep(Duration::from_millis(300));
		// crash of the new instance: what the files hold now
		let img = base.path().join("img");
		let _ = std::process::Command::new("cp").arg("-r").arg(&dir).arg(&img).status();
		match TreeBuilder::with_options(opts(&img, false)).build() {
			Ok(t3) => {
				let r = t3.begin().unwrap();
				let missing = (0..5).filter(|i| r.get(format!("c{i:03}").as_bytes()).unwrap().is_none()).count();
				if missing > 0 {
					sum.violation(json!({"kind":"data_lost","missing":missing,"case":case,
						"detail":"commits of the new instance are gone after the old, closed handle was dropped"}));
				}
				drop(r);
				let _ = rt.block_on(t3.close());
			}
			Err(e) => sum.violation(json!({"kind":"reopen_refused","error":e.to_string(),"case":case})),
		}
		let _ = rt.block_on(t2.close());
		sum.sample(case);
	}
	sum.print();
}
