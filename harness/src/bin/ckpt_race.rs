//! C14 / C07 hook-free scenario: create_checkpoint() between bursts of commits, i.e. while no commit is in flight but the
//! background flush and compaction tasks are still busy with what the burst left behind.
//! Every commit that was acknowledged must be readable afterwards and after a reopen; no commit may fail because of the
//! checkpoint; every checkpoint must open and hold exactly the commits acknowledged before it.
//! (--overlap: checkpoints are taken while commits are in flight as well; then only the live store is judged.)
//!
//! usage: ckpt_race [--commits N] [--memtable BYTES] [--checkpoints N]
use std::sync::atomic::{AtomicBool, AtomicU64, Ordering};
use std::sync::Arc;

use serde_json::json;
use surrealkv::{Options, TreeBuilder};
use verif_harness::out::Summary;

fn opts(path: &std::path::Path, memtable: usize) -> Options {
	let mut o = Options::new().with_path(path.to_path_buf()).with_max_memtable_size(memtable);
	o.level0_max_files = 4;
	o.with_l0_stall_threshold(24).with_memtable_stall_threshold(8)
}

fn main() {
	let args: Vec<String> = std::env::args().collect();
	let argval = |name: &str| args.iter().position(|a| a == name).and_then(|i| args.get(i + 1)).cloned();
	let commits: u64 = argval("--commits").map(|s| s.parse().unwrap()).unwrap_or(3000);
	let memtable: usize = argval("--memtable").map(|s| s.parse().unwrap()).unwrap_or(32 * 1024);
	let max_ckpt: u64 = argval("--checkpoints").map(|s| s.parse().unwrap()).unwrap_or(40);
	verif_harness::quiet_panics();
	let mut sum = Summary::new("ckpt_race");
	let base = verif_harness::scratch_dir("ckrace");
	let rt = verif_harness::rt_multi(4);
	let _g = rt.enter();
	let tree = TreeBuilder::with_options(opts(&base.path().join("db"), memtable)).build().expect("open");
	let acked = Arc::new(AtomicU64::new(0));
	let stop = Arc::new(AtomicBool::new(false));
	let overlap = args.iter().any(|a| a == "--overlap");
	let pause = Arc::new(AtomicBool::new(false));
	let paused = Arc::new(AtomicBool::new(false));
	let (t2, a2, s2, p2, pd2) = (tree.clone(), acked.clone(), stop.clone(), pause.clone(), paused.clone());
	let writer = std::thread::spawn(move || -> Option<String> {
		let rt = verif_harness::rt();
		for i in 1..=commits {
			while p2.load(Ordering::SeqCst) {
				pd2.store(true, Ordering::SeqCst);
				std::thread::sleep(std::time::Duration::from_micros(200));
			}
			pd2.store(false, Ordering::SeqCst);
			let mut t = t2.begin().unwrap();
			t.set(format!("k{i:07}").into_bytes(), vec![(i % 251) as u8; 400]).unwrap();
			if let Err(e) = rt.block_on(t.commit()) {
				s2.store(true, Ordering::SeqCst);
				return Some(format!("commit {i}: {e}"));
			}
			a2.store(i, Ordering::SeqCst);
		}
		s2.store(true, Ordering::SeqCst);
		None
	});
	let mut ckpts: Vec<(std::path::PathBuf, u64, u64)> = Vec::new();
	let mut n = 0u64;
	while !stop.load(Ordering::SeqCst) && n < max_ckpt {
		n += 1;
		let dir = base.path().join(format!("ck{n}"));
		if !overlap {
			// no commit in flight: the writer waits between two commits
			pause.store(true, Ordering::SeqCst);
			let w0 = std::time::Instant::now();
			while !paused.load(Ordering::SeqCst) && !stop.load(Ordering::SeqCst) {
				std::thread::sleep(std::time::Duration::from_micros(100));
				if w0.elapsed() > std::time::Duration::from_secs(60) {
					sum.violation(json!({"kind":"commit_never_returns","acknowledged":acked.load(Ordering::SeqCst),"checkpoints":n,
						"detail":"the committer did not come back from commit() within 60 s (both background tasks idle?)"}));
					sum.cases = ckpts.len() as u64;
					sum.print();
					std::process::exit(0);
				}
			}
		}
		let lo = acked.load(Ordering::SeqCst);
		match tree.create_checkpoint(&dir) {
			Ok(_) => ckpts.push((dir, lo, acked.load(Ordering::SeqCst) + 1)),
			Err(e) => sum.violation(json!({"kind":"checkpoint_failed","error":e.to_string(),"n":n})),
		}
		pause.store(false, Ordering::SeqCst);
		std::thread::sleep(std::time::Duration::from_millis(1));
	}
	// (a writer that never comes back is a violation, not a hung tool)
	let t0 = std::time::Instant::now();
	while !writer.is_finished() && t0.elapsed() < std::time::Duration::from_secs(60) {
		std::thread::sleep(std::time::Duration::from_millis(50));
	}
	if !writer.is_finished() {
		sum.violation(json!({"kind":"commit_never_returns","acknowledged":acked.load(Ordering::SeqCst),"checkpoints":n,
			"detail":"the committer is still inside commit() 60 s after the last checkpoint"}));
		sum.cases = ckpts.len() as u64;
		sum.print();
		std::process::exit(0);
	}
	let werr = writer.join().unwrap();
	if let Some(e) = werr {
		sum.violation(json!({"kind":"commit_error","error":e,"detail":"a commit failed while checkpoints were being taken","checkpoints":n}));
	}
	let last = acked.load(Ordering::SeqCst);
	let check = |t: &surrealkv::Tree, upto_lo: u64, upto_hi: u64, what: &str, sum: &mut Summary| {
		let r = match t.begin() {
			Ok(r) => r,
			Err(e) => {
				sum.violation(json!({"kind":"engine_error","error":e.to_string(),"what":what}));
				return;
			}
		};
		let mut first_missing = None;
		let mut beyond = None;
		for i in 1..=upto_hi.min(last + 1) {
			match r.get(format!("k{i:07}").as_bytes()) {
				Ok(Some(v)) if v == vec![(i % 251) as u8; 400] => {
					if first_missing.is_some() && beyond.is_none() {
						beyond = Some(i);
					}
				}
				Ok(Some(_)) => {
					sum.violation(json!({"kind":"wrong_content","i":i,"what":what}));
					return;
				}
				Ok(None) => {
					if first_missing.is_none() {
						first_missing = Some(i);
					}
				}
				Err(e) => {
					sum.violation(json!({"kind":"read_error","i":i,"error":e.to_string(),"what":what}));
					return;
				}
			}
		}
		if let Some(m) = first_missing {
			if m <= upto_lo {
				sum.violation(json!({"kind":"acknowledged_commit_lost","first_missing":m,"acknowledged_before":upto_lo,"what":what}));
			}
			if let Some(b) = beyond {
				sum.violation(json!({"kind":"recovered_state_is_no_prefix","first_missing":m,"present_after_it":b,"what":what}));
			}
		}
	};
	check(&tree, last, last, "live store after the run", &mut sum);
	let _ = rt.block_on(tree.close());
	drop(tree);
	match TreeBuilder::with_options(opts(&base.path().join("db"), memtable)).build() {
		Ok(t) => {
			check(&t, last, last, "store after close + reopen", &mut sum);
			let _ = rt.block_on(t.close());
		}
		Err(e) => sum.violation(json!({"kind":"reopen_refused","error":e.to_string()})),
	}
	let mut opened = 0u64;
	for (dir, lo, hi) in &ckpts {
		match TreeBuilder::with_options(opts(dir, memtable)).build() {
			Ok(t) => {
				opened += 1;
				if !overlap {
					check(&t, *lo, *hi, "checkpoint opened as a store", &mut sum);
					// exactly: nothing committed after it
					if let Ok(r) = t.begin() {
						if let Ok(Some(_)) = r.get(format!("k{:07}", *lo + 1).as_bytes()) {
							sum.violation(json!({"kind":"checkpoint_holds_later_commit","acknowledged_before": lo}));
						}
					}
				}
				let _ = rt.block_on(t.close());
			}
			Err(e) if !overlap => sum.violation(json!({"kind":"checkpoint_unopenable","error":e.to_string(),"acknowledged_before":lo})),
			Err(_) => {}
		}
	}
	sum.cases = ckpts.len() as u64;
	sum.steps = last;
	sum.extra.insert("checkpoints_opened".into(), json!(opened));
	sum.sample(json!({"commits": last, "checkpoints": ckpts.len(), "memtable": memtable}));
	sum.print();
}
