//! C17 conformance + liveness driver for spec/background/Background.tla.
//!
//! usage: bg_sched --in FILE.ndjson --mem-limit N --l0-trigger N --l0-limit N --levels N --t1 N --mult N [--jobs N]
//!
//! Every input line is {"ops":[{"a":Action,"w":writer|"-"}...], "obs":{...}} exported by TLC (BackgroundMC!Export): a
//! schedule of the background protocol and the model state after its last step. The schedule is enforced on a real Tree
//! with the gate scheduler:
//!   writer w      an actor thread; parks at stall.check (model "check"), commit.permit (model "permit"), reports
//!                 stall.wait (model "stalled"); `Write` releases it through the rest of commit()
//!   flush task    every thread reaching task.flush.start / one / idle parks (site gates, token 100)
//!   level task    task.level.start / idle (token 101)
//!   close         a thread running Tree::close()
//! One model unit = one flushed memtable: every commit carries two values (a low and a high key, so that all tables
//! overlap) that together fill more than half a memtable; max_bytes_for_level is set from the measured size of such a table.
//!
//! Judged on the real engine (VIOLATION): after the schedule everything is released and runs freely; every commit()
//! that was started must return and close() must return (C17), acknowledged commits must be readable.
//! Compared with the model (DRIFT only): immutable count, level sizes in units, where every actor stands.
use std::collections::HashMap;
use std::io::BufRead;
use std::sync::mpsc::{channel, Receiver, Sender};
use std::sync::Arc;
use std::time::Duration;

use serde_json::{json, Value};
use surrealkv::{Options, Tree, TreeBuilder};
use verif_harness::out::Summary;
use verif_harness::sched::{GateSink, Status, StatusW};

const MEMTABLE: usize = 64 * 1024;
const HALF_VALUE: usize = 18 * 1024;
const FLUSH: u64 = 100;
const LEVEL: u64 = 101;
const CLOSER: u64 = 200;
const STEP: Duration = Duration::from_secs(4);

#[derive(Clone)]
struct Cfg {
	mem_limit: usize,
	l0_trigger: usize,
	l0_limit: usize,
	levels: u8,
	t1: u64,
	mult: u64,
	unit: u64,
}

fn options(dir: &std::path::Path, c: &Cfg) -> Options {
	let mut o = Options::new().with_path(dir.to_path_buf()).with_max_memtable_size(MEMTABLE).with_level_count(c.levels);
	o.level0_max_files = c.l0_trigger;
	o.level_multiplier = c.mult as f64;
	// target of level 1 = (t1 - 1/2) units: "level holds t1 units" is then clearly over it, t1 - 1 clearly under
	o.max_bytes_for_level = (2 * c.t1 - 1) * c.unit / 2;
	o.with_l0_stall_threshold(c.l0_limit).with_memtable_stall_threshold(c.mem_limit)
}

fn value(n: u64, part: u8) -> Vec<u8> {
	// incompressible, reproducible
	let mut x = n.wrapping_mul(0x9E37_79B9_7F4A_7C15) ^ (part as u64) << 56 | 1;
	let mut v = Vec::with_capacity(HALF_VALUE);
	while v.len() < HALF_VALUE {
		x ^= x << 13;
		x ^= x >> 7;
		x ^= x << 17;
		v.extend_from_slice(&x.to_le_bytes());
	}
	v
}

fn keys(n: u64) -> (Vec<u8>, Vec<u8>) {
	(format!("a-{n:06}").into_bytes(), format!("z-{n:06}").into_bytes())
}

struct Writer {
	token: u64,
	cmd: Sender<u64>,
	res: Receiver<(u64, Result<(), String>)>,
	outstanding: Option<u64>,
	acked: Vec<u64>,
	last: &'static str,
}

fn spawn_writer(tree: Tree, token: u64, sink: Arc<GateSink>) -> Writer {
	let (ctx, crx) = channel::<u64>();
	let (rtx, rrx) = channel();
	std::thread::spawn(move || {
		let rt = verif_harness::rt();
		while let Ok(n) = crx.recv() {
			GateSink::enroll(token);
			let r = (|| -> Result<(), String> {
				let mut t = tree.begin().map_err(|e| e.to_string())?;
				let (a, z) = keys(n);
				t.set(a, value(n, 0)).map_err(|e| e.to_string())?;
				t.set(z, value(n, 1)).map_err(|e| e.to_string())?;
				rt.block_on(t.commit()).map_err(|e| e.to_string())
			})();
			sink.finish(token);
			if rtx.send((n, r)).is_err() {
				break;
			}
		}
	});
	Writer { token, cmd: ctx, res: rrx, outstanding: None, acked: Vec::new(), last: "none" }
}

fn levels_in_units(tree: &Tree, c: &Cfg) -> (usize, Vec<u64>) {
	let st = tree.verif_state();
	let mut lv = vec![0u64; c.levels as usize];
	for t in &st.tables {
		if (t.level as usize) < lv.len() {
			lv[t.level as usize] += if t.level == 0 { 1 } else { t.file_size };
		}
	}
	for (i, x) in lv.iter_mut().enumerate() {
		if i > 0 {
			*x = (*x + c.unit / 2) / c.unit;
		}
	}
	(st.immutables.len(), lv)
}

/// Size of the table one model unit becomes.
fn calibrate(c: &Cfg) -> u64 {
	let dir = verif_harness::scratch_dir("bgcal");
	let mut c0 = c.clone();
	c0.unit = 40 * 1024;
	c0.l0_limit = 64;
	c0.l0_trigger = 64;
	let tree = TreeBuilder::with_options(options(dir.path(), &c0)).build().expect("open");
	let rt = verif_harness::rt();
	let mut t = tree.begin().unwrap();
	let (a, z) = keys(1);
	t.set(a, value(1, 0)).unwrap();
	t.set(z, value(1, 1)).unwrap();
	rt.block_on(t.commit()).unwrap();
	tree.verif_rotate().expect("rotate");
	tree.verif_flush().expect("flush");
	let st = tree.verif_state();
	let sz = st.tables.iter().map(|t| t.file_size).max().unwrap_or(40 * 1024);
	let _ = rt.block_on(tree.close());
	sz
}

struct Outcome {
	viol: Vec<Value>,
	drift: Vec<Value>,
	steps: u64,
	stalls: u64,
	kinds: Vec<String>,
}

fn run_case(case: &Value, c: &Cfg, sink: &Arc<GateSink>) -> Result<Outcome, String> {
	let mut out = Outcome { viol: vec![], drift: vec![], steps: 0, stalls: 0, kinds: vec![] };
	let ops = case["ops"].as_array().ok_or("ops")?;
	let dir = verif_harness::scratch_dir("bg");
	sink.free_run(false);
	sink.reset();
	for s in ["task.flush.woken", "task.flush.start", "task.flush.one", "task.flush.idle"] {
		sink.gate_site(s, FLUSH);
	}
	for s in ["task.level.woken", "task.level.start", "task.level.idle"] {
		sink.gate_site(s, LEVEL);
	}
	let tree: Tree = TreeBuilder::with_options(options(dir.path(), c)).build().map_err(|e| format!("open: {e}"))?;
	let mut writers: HashMap<String, Writer> = HashMap::new();
	let mut next_n = 1u64;
	let mut close_rx: Option<Receiver<Result<(), String>>> = None;
	let mut closed: Option<Result<(), String>> = None;
	let mut aborted: Option<Value> = None;

	// the model starts with a wake-up of the level task pending (Core::new): it parks at task.level.start by itself
	for (i, op) in ops.iter().enumerate() {
		let a = op["a"].as_str().ok_or("a")?;
		let wname = op["w"].as_str().unwrap_or("-").to_string();
		out.steps += 1;
		if std::env::var("BG_DEBUG").is_ok() {
			eprintln!("{:?} step {i} {a} {wname}", std::time::SystemTime::now().duration_since(std::time::UNIX_EPOCH).unwrap().as_millis() % 100000);
		}
		let mut failure: Option<Value> = None;
		let mut fail = |what: &str, detail: Value| {
			failure = Some(json!({"kind": what, "step": i, "action": a, "detail": detail}));
		};
		match a {
			"Begin" => {
				let token = 1 + writers.len() as u64;
				let w = writers.entry(wname.clone()).or_insert_with(|| spawn_writer(tree.clone(), token, sink.clone()));
				sink.forget(w.token);
				let n = next_n;
				next_n += 1;
				w.outstanding = Some(n);
				w.cmd.send(n).map_err(|e| e.to_string())?;
				match sink.status(w.token, STEP) {
					Status::Parked("stall.check", _) => {}
					Status::Done => {
						// refused at the door (shutdown)
						if let Ok((n, r)) = w.res.recv_timeout(STEP) {
							w.outstanding = None;
							w.last = if r.is_ok() { "ok" } else { "err" };
							if r.is_ok() {
								w.acked.push(n);
							}
						}
					}
					other => fail("writer_not_at_stall_check", json!(format!("{other:?}"))),
				}
			}
			"Check" => {
				let w = writers.get_mut(&wname).ok_or("Check before Begin")?;
				sink.release(w.token);
				let want = op["r"].as_str().unwrap_or("-");
				let st = sink.status_w(w.token, STEP);
				let got = match &st {
					StatusW::Parked("commit.permit", _) => "permit",
					StatusW::Parked("stall.decided", _) => "decided",
					StatusW::Waiting("stall.wait", _) => "stalled",
					StatusW::Done => "idle",
					_ => "?",
				};
				if got == "decided" {
					out.stalls += 1;
				}
				if want != "-" && got != "?" && want != got {
					out.drift.push(json!({"kind":"stall_check_differs","step":i,"writer":wname,"model":want,"real":got}));
				}
				match st {
					StatusW::Parked("commit.permit", _) | StatusW::Parked("stall.decided", _) | StatusW::Waiting("stall.wait", _) => {}
					StatusW::Done => {
						if let Ok((n, r)) = w.res.recv_timeout(STEP) {
							w.outstanding = None;
							w.last = if r.is_ok() { "ok" } else { "err" };
							if r.is_ok() {
								w.acked.push(n);
							}
						}
					}
					other => fail("writer_lost_after_check", json!(format!("{other:?}"))),
				}
			}
			"Await" => {
				// from the decision to the wait: blocked in the stall (event stall.wait), or woken at once by a signal that
				// came in between and back at the stall check
				let w = writers.get_mut(&wname).ok_or("Await before Begin")?;
				let want = op["r"].as_str().unwrap_or("-");
				sink.release(w.token);
				let st = if want == "check" { match sink.status(w.token, STEP) {
					Status::Parked(s, f) => StatusW::Parked(s, f),
					Status::Done => StatusW::Done,
					Status::Timeout => sink.status_w(w.token, Duration::from_millis(10)),
				} } else { sink.status_w(w.token, STEP) };
				let got = match &st {
					StatusW::Parked("stall.check", _) => "check",
					StatusW::Waiting("stall.wait", _) => "stalled",
					_ => "?",
				};
				if want != "-" && want != got {
					if want == "check" && got == "stalled" {
						// the writer sleeps although the model says a signal is pending for it: a lost wake-up in the making;
						// the free run at the end decides
						fail("stalled_writer_not_woken", json!({"writer": wname, "status": format!("{st:?}")}));
					} else {
						out.drift.push(json!({"kind":"await_differs","step":i,"writer":wname,"model":want,"real":got,"status":format!("{st:?}")}));
					}
				}
			}
			"Write" => {
				let w = writers.get_mut(&wname).ok_or("Write before Begin")?;
				let mut guard = 0;
				let mut blocked = false;
				loop {
					sink.release(w.token);
					match sink.status(w.token, STEP) {
						Status::Done => break,
						Status::Parked(..) if guard < 40 => guard += 1,
						other => {
							fail("commit_blocked_mid_way", json!(format!("{other:?}")));
							blocked = true;
							break;
						}
					}
				}
				if !blocked {
					match w.res.recv_timeout(STEP) {
						Ok((n, r)) => {
							w.outstanding = None;
							w.last = if r.is_ok() { "ok" } else { "err" };
							if r.is_ok() {
								w.acked.push(n);
							}
						}
						Err(_) => fail("commit_result_missing", json!(null)),
					}
				}
			}
			"FNotified" | "LNotified" => {
				// happens by itself in the real code as soon as the permit exists
				let (tok, site) = if a == "FNotified" { (FLUSH, "task.flush.woken") } else { (LEVEL, "task.level.woken") };
				match sink.status(tok, STEP) {
					Status::Parked(s, _) if s == site => {}
					other => fail("task_not_woken", json!({"task": a, "status": format!("{other:?}")})),
				}
			}
			"FWake" | "LWake" => {
				let (tok, site) = if a == "FWake" { (FLUSH, "task.flush.start") } else { (LEVEL, "task.level.start") };
				sink.release(tok);
				if !stop_reached(ops, i) {
					match sink.status(tok, STEP) {
						Status::Parked(s, _) if s == site => {}
						other => fail("task_lost_after_wake", json!({"task": a, "status": format!("{other:?}")})),
					}
				}
			}
			"FFirst" | "FMore" => {
				sink.release(FLUSH);
				match sink.status(FLUSH, STEP) {
					Status::Parked("task.flush.one", _) | Status::Parked("task.flush.idle", _) => {}
					other => fail("flush_task_lost", json!(format!("{other:?}"))),
				}
			}
			"FIdle" => sink.release(FLUSH),
			"LRound" => {
				sink.release(LEVEL);
				match sink.status(LEVEL, Duration::from_secs(20)) {
					Status::Parked("task.level.idle", _) => {}
					other => fail("level_task_lost", json!(format!("{other:?}"))),
				}
			}
			"LIdle" => sink.release(LEVEL),
			"CloseBegin" => {
				let (tx, rx) = channel();
				let (t2, s2) = (tree.clone(), sink.clone());
				std::thread::spawn(move || {
					let rt = verif_harness::rt();
					GateSink::enroll(CLOSER);
					let r = rt.block_on(t2.close()).map_err(|e| e.to_string());
					s2.finish(CLOSER);
					let _ = tx.send(r);
				});
				close_rx = Some(rx);
				match sink.status(CLOSER, STEP) {
					Status::Parked("close.signalled", _) => {}
					other => fail("close_lost", json!(format!("{other:?}"))),
				}
			}
			"CloseDrain" | "CloseStop" | "CloseWaitRun" | "CloseJoin" => {
				let want = match a {
					"CloseDrain" => "close.drained",
					"CloseStop" => "close.stop_sent",
					"CloseWaitRun" => "close.tasks_idle",
					_ => "close.joined",
				};
				sink.release(CLOSER);
				match sink.status(CLOSER, STEP) {
					Status::Parked(s, _) if s == want => {}
					other => fail("close_lost", json!({"want": want, "status": format!("{other:?}")})),
				}
				if a == "CloseJoin" {
					// the rest of close() (flush on close, WAL, lock) has no model steps
					sink.release(CLOSER);
					match close_rx.as_ref().map(|r| r.recv_timeout(Duration::from_secs(20))) {
						Some(Ok(r)) => closed = Some(r),
						_ => fail("close_not_returned_after_join", json!(null)),
					}
				}
			}
			other => return Err(format!("unknown action {other}")),
		}
		if failure.is_none() {
			// writers woken by this step's signal must be back at their stall check before the schedule goes on
			for x in op["chk"].as_array().cloned().unwrap_or_default() {
				if let Some(w) = x.as_str().and_then(|n| writers.get(n)) {
					if w.outstanding.is_some() {
						match sink.status(w.token, STEP) {
							Status::Parked("stall.check", _) => {}
							other => {
								failure = Some(json!({"kind":"stalled_writer_not_woken","step":i,"action":a,"writer":x,"status":format!("{other:?}")}));
							}
						}
					}
				}
			}
		}
		if failure.is_some() {
			aborted = failure;
			break;
		}
	}

	let dbg = |what: &str| {
		if std::env::var("BG_DEBUG").is_ok() {
			eprintln!("{:?} phase {what}", std::time::SystemTime::now().duration_since(std::time::UNIX_EPOCH).unwrap().as_millis() % 100000);
		}
	};
	dbg("compare");
	// --- compare with the model (drift only) -------------------------------------------------------------------------
	let has_obs = case["obs"].as_object().map(|m| !m.is_empty()).unwrap_or(false);
	if aborted.is_none() && closed.is_none() && has_obs {
		// settle: a woken writer needs a moment to park again
		let obs = &case["obs"];
		for (name, w) in writers.iter() {
			let want = obs["wpc"][name].as_str().unwrap_or("idle");
			let got = match want {
				"check" => match sink.status(w.token, STEP) {
					Status::Parked("stall.check", _) => "check",
					Status::Parked("commit.permit", _) => "permit",
					Status::Done => "idle",
					_ => "?",
				},
				_ => match sink.status_w(w.token, Duration::from_millis(if w.outstanding.is_some() { 4000 } else { 1 })) {
					StatusW::Parked("stall.check", _) => "check",
					StatusW::Parked("commit.permit", _) => "permit",
					StatusW::Parked("stall.decided", _) => "decided",
					StatusW::Waiting(..) => "stalled",
					StatusW::Done => "idle",
					StatusW::Timeout if w.outstanding.is_none() => "idle",
					_ => "?",
				},
			};
			if got != want {
				out.drift.push(json!({"kind":"writer_state_differs","writer":name,"model":want,"real":got}));
			}
			let wl = obs["last"][name].as_str().unwrap_or("none");
			if wl != w.last {
				out.drift.push(json!({"kind":"commit_result_differs","writer":name,"model":wl,"real":w.last}));
			}
		}
		dbg("writers compared");
		let (imm, lv) = levels_in_units(&tree, c);
		dbg("levels read");
		let want_lv: Vec<u64> = (0..c.levels as usize).map(|i| obs["lv"][i.to_string()].as_u64().or_else(|| obs["lv"][i].as_u64()).unwrap_or(0)).collect();
		if imm as u64 != obs["imm"].as_u64().unwrap_or(0) {
			out.drift.push(json!({"kind":"immutables_differ","model":obs["imm"],"real":imm}));
		}
		if lv != want_lv {
			out.drift.push(json!({"kind":"levels_differ","model":want_lv,"real":lv}));
		}
		for (tok, field, sites) in [(FLUSH, "fpc", ["woken", "start", "one", "idle"].as_slice()), (LEVEL, "lpc", ["woken", "start", "idle"].as_slice())] {
			let want = obs[field].as_str().unwrap_or("wait");
			let got = match sink.status(tok, Duration::from_millis(if want == "wait" || want == "exit" { 30 } else { 3000 })) {
				Status::Parked(s, _) => s.rsplit('.').next().unwrap_or("?").to_string(),
				_ => "wait".to_string(),
			};
			// a waiting task with a permit wakes by itself: the model's ("wait", permit) is the real "start"
			let permit = obs[if field == "fpc" { "fpermit" } else { "lpermit" }].as_bool().unwrap_or(false);
			let want_real = if want == "wait" && permit { "woken" } else if want == "exit" { "wait" } else { want };
			if sites.contains(&want_real) || want_real == "wait" {
				if got != want_real {
					out.drift.push(json!({"kind":"task_state_differs","task":field,"model":want,"permit":permit,"real":got}));
				}
			}
		}
	}
	if let Some(mut a) = aborted.clone() {
		if std::env::var("BG_DEBUG").is_ok() {
			a["slots"] = json!(sink.dump());
			a["events"] = json!(sink.take_events().iter().map(|(t, s, _)| format!("{t}:{s}")).collect::<Vec<_>>());
		}
		out.drift.push(a);
	}

	// --- the property, on the real engine: run freely, everything must come to an end ----------------------------------
	dbg("free run");
	sink.free_run(true);
	for (name, w) in writers.iter_mut() {
		if let Some(n) = w.outstanding {
			match w.res.recv_timeout(Duration::from_secs(15)) {
				Ok((_, r)) => {
					w.outstanding = None;
					if r.is_ok() {
						w.acked.push(n);
					}
				}
				Err(_) => {
					let (imm, lv) = levels_in_units_timeout(&tree, c);
					out.viol.push(json!({"kind":"commit_never_returns","writer":name,"immutables":imm,"levels":lv,
						"detail":"commit() still inside the library 15 s after every gate was opened","aborted":aborted}));
					out.kinds.push("commit_never_returns".into());
				}
			}
		}
	}
	let hung = !out.viol.is_empty();
	if closed.is_none() && !hung {
		// acknowledged commits are readable
		if close_rx.is_none() {
			if let Ok(t) = tree.begin() {
				for w in writers.values() {
					for n in &w.acked {
						let (a, _) = keys(*n);
						match t.get(a) {
							Ok(Some(v)) if v == value(*n, 0) => {}
							other => out.viol.push(json!({"kind":"acknowledged_commit_unreadable","n":n,"got":format!("{:?}", other.map(|o| o.map(|v| v.len())))})),
						}
					}
				}
			}
		}
		let rx = close_rx.take().unwrap_or_else(|| {
			let (tx, rx) = channel();
			let t2 = tree.clone();
			std::thread::spawn(move || {
				let rt = verif_harness::rt();
				let _ = tx.send(rt.block_on(t2.close()).map_err(|e| e.to_string()));
			});
			rx
		});
		match rx.recv_timeout(Duration::from_secs(30)) {
			Ok(Ok(())) => {}
			Ok(Err(e)) => out.drift.push(json!({"kind":"close_error","error":e})),
			Err(_) => {
				out.viol.push(json!({"kind":"close_never_returns","detail":"close() did not return within 30 s with every gate open","aborted":aborted}));
				out.kinds.push("close_never_returns".into());
			}
		}
	}
	if hung || out.kinds.iter().any(|k| k == "close_never_returns") {
		// the tree's threads are stuck; keep the directory out of the way of its destructor
		std::mem::forget(tree);
		std::mem::forget(dir);
	}
	Ok(out)
}

/// true when the model has already executed CloseStop before step i (tasks exit instead of parking)
fn stop_reached(ops: &[Value], i: usize) -> bool {
	ops[..i].iter().any(|o| o["a"] == "CloseStop")
}

fn levels_in_units_timeout(tree: &Tree, c: &Cfg) -> (usize, Vec<u64>) {
	let (tx, rx) = channel();
	let (t2, c2) = (tree.clone(), c.clone());
	std::thread::spawn(move || {
		let _ = tx.send(levels_in_units(&t2, &c2));
	});
	rx.recv_timeout(Duration::from_secs(3)).unwrap_or((usize::MAX, vec![]))
}

fn main() {
	let args: Vec<String> = std::env::args().collect();
	let argval = |name: &str| args.iter().position(|a| a == name).and_then(|i| args.get(i + 1)).cloned();
	let num = |name: &str, d: u64| argval(name).map(|s| s.parse().unwrap()).unwrap_or(d);
	let input = argval("--in").unwrap_or_else(|| {
		eprintln!("usage: bg_sched --in FILE ...");
		std::process::exit(2)
	});
	let mut cfg = Cfg {
		mem_limit: num("--mem-limit", 2) as usize,
		l0_trigger: num("--l0-trigger", 2) as usize,
		l0_limit: num("--l0-limit", 2) as usize,
		levels: num("--levels", 3) as u8,
		t1: num("--t1", 2),
		mult: num("--mult", 2),
		unit: 0,
	};
	let jobs = num("--jobs", 1) as usize;
	let lines: Vec<String> = std::io::BufReader::new(std::fs::File::open(&input).unwrap_or_else(|e| {
		eprintln!("cannot read {input}: {e}");
		std::process::exit(2)
	}))
	.lines()
	.map_while(|l| l.ok())
	.filter(|l| !l.trim().is_empty())
	.collect();
	if jobs > 1 {
		// gates are process-wide: one scenario at a time per process; fan out over child processes
		let exe = std::env::current_exe().unwrap();
		let mut children = Vec::new();
		let chunk = lines.len().div_ceil(jobs).max(1);
		let tmp = verif_harness::scratch_dir("bgjobs");
		for (j, part) in lines.chunks(chunk).enumerate() {
			let f = tmp.path().join(format!("part{j}.ndjson"));
			std::fs::write(&f, part.join("\n")).unwrap();
			let mut cmd = std::process::Command::new(&exe);
			cmd.arg("--in").arg(&f).arg("--jobs").arg("1");
			for k in ["--mem-limit", "--l0-trigger", "--l0-limit", "--levels", "--t1", "--mult"] {
				if let Some(v) = argval(k) {
					cmd.arg(k).arg(v);
				}
			}
			children.push(cmd.stdout(std::process::Stdio::piped()).spawn().expect("spawn"));
		}
		let mut sum = Summary::new("bg_sched");
		for ch in children {
			let o = ch.wait_with_output().expect("child");
			let text = String::from_utf8_lossy(&o.stdout);
			let Some(line) = text.lines().rev().find(|l| l.starts_with("SUMMARY ")) else {
				sum.violation(json!({"kind":"driver_child_died","status":format!("{:?}", o.status)}));
				continue;
			};
			let v: Value = serde_json::from_str(&line[8..]).unwrap();
			sum.cases += v["cases"].as_u64().unwrap_or(0);
			sum.steps += v["steps"].as_u64().unwrap_or(0);
			for x in v["violations"].as_array().cloned().unwrap_or_default() {
				sum.violation(x);
			}
			for x in v["drift"].as_array().cloned().unwrap_or_default() {
				sum.drift(x);
			}
			// totals (examples are capped in the children)
			for (k, n) in v["violation_kinds"].as_object().cloned().unwrap_or_default() {
				let have = v["violations"].as_array().map(|a| a.iter().filter(|x| x["kind"] == k.as_str()).count() as u64).unwrap_or(0);
				let extra = n.as_u64().unwrap_or(0).saturating_sub(have);
				*sum.violation_kinds.entry(k).or_insert(0) += extra;
				sum.violation_count += extra;
			}
			for (k, n) in v["drift_kinds"].as_object().cloned().unwrap_or_default() {
				let have = v["drift"].as_array().map(|a| a.iter().filter(|x| x["kind"] == k.as_str()).count() as u64).unwrap_or(0);
				let extra = n.as_u64().unwrap_or(0).saturating_sub(have);
				*sum.drift_kinds.entry(k).or_insert(0) += extra;
				sum.drift_count += extra;
			}
			for x in v["samples"].as_array().cloned().unwrap_or_default() {
				sum.sample(x);
			}
			for (k, n) in v["extra"].as_object().cloned().unwrap_or_default() {
				let cur = sum.extra.get(&k).and_then(|x| x.as_u64()).unwrap_or(0);
				sum.extra.insert(k, json!(cur + n.as_u64().unwrap_or(0)));
			}
		}
		sum.print();
		return;
	}
	verif_harness::quiet_panics();
	let sink = GateSink::install();
	sink.clear_ignored();
	for s in ["commit.logged", "commit.applied", "commit.marked", "commit.published", "publish.dequeued", "commit.logfail", "txn.begin.loaded", "lock_try", "lock_acquired", "lock_release", "lock_released", "flush.written", "compact.written"] {
		sink.ignore(s);
	}
	sink.wait_event("stall.wait");
	sink.set_record(std::env::var("BG_DEBUG").is_ok());
	let rt = verif_harness::rt_multi(3);
	let _g = rt.enter();
	sink.free_run(true);
	cfg.unit = calibrate(&cfg);
	let mut sum = Summary::new("bg_sched");
	sum.extra.insert("unit_bytes".into(), json!(cfg.unit));
	let mut exact = 0u64;
	let mut stalled_seen = 0u64;
	let mut slowest = (0u64, json!(null));
	let mut stall_steps = 0u64;
	for line in &lines {
		let text: String = match serde_json::from_str::<String>(line) {
			Ok(s) => s,
			Err(_) => line.clone(),
		};
		let text = text.strip_prefix("REPLAY ").unwrap_or(&text);
		let case: Value = match serde_json::from_str(text) {
			Ok(v) => v,
			Err(e) => {
				eprintln!("bad line: {e}");
				std::process::exit(2)
			}
		};
		sum.cases += 1;
		let t0 = std::time::Instant::now();
		let res = run_case(&case, &cfg, &sink);
		let ms = t0.elapsed().as_millis() as u64;
		if ms > slowest.0 {
			slowest = (ms, case["ops"].clone());
		}
		match res {
			Ok(o) => {
				sum.steps += o.steps;
				stall_steps += o.stalls;
				if o.drift.is_empty() && o.viol.is_empty() {
					exact += 1;
				}
				if case["obs"]["wpc"].as_object().map(|m| m.values().any(|v| v == "stalled")).unwrap_or(false) {
					stalled_seen += 1;
				}
				for mut v in o.viol {
					v["ops"] = case["ops"].clone();
					sum.violation(v);
				}
				for mut d in o.drift {
					d["ops"] = case["ops"].clone();
					sum.drift(d);
				}
				if sum.samples.is_empty() && case["ops"].as_array().map(|a| a.len() > 6).unwrap_or(false) {
					sum.sample(json!({"ops": case["ops"], "model_state": case["obs"]}));
				}
			}
			Err(e) => {
				eprintln!("case failed: {e}");
				std::process::exit(2)
			}
		}
		if sum.violation_kinds.get("commit_never_returns").copied().unwrap_or(0) >= 3 {
			break; // each hung case costs 15 s and leaks its threads
		}
	}
	if std::env::var("BG_DEBUG").is_ok() {
		eprintln!("slowest case {} ms: {}", slowest.0, slowest.1);
	}
	sum.extra.insert("cases_conforming_exactly".into(), json!(exact));
	sum.extra.insert("cases_ending_with_a_stalled_writer".into(), json!(stalled_seen));
	sum.extra.insert("stall_checks_that_stalled".into(), json!(stall_steps));
	sum.print();
	std::process::exit(0);
}
