//! Opens a (reconstructed crash image of a) database directory with the real recovery code and prints
//! what it contains. Run as a child process with a timeout: a panic, abort or hang is data for the caller.
//!
//! usage: crash_reopen <dir> '<opts-json>' [--probe] [--twice]
//! output (one line): RESULT {"open":"ok"|"err:..","scan":{key:valueid},"probe":"ok"|..,"second":{...}|null}

use std::collections::BTreeMap;

use serde_json::{json, Value};
use surrealkv::{LSMIterator, Mode, Options, Tree, TreeBuilder};

fn value_id(v: &[u8]) -> String {
	match v.iter().position(|c| *c == b'|') {
		Some(p) => {
			let head = String::from_utf8_lossy(&v[..p]).to_string();
			// the id carries the length: a truncated / padded value shows up as a different id
			let declared: usize = head.rsplit(':').next().and_then(|s| s.parse().ok()).unwrap_or(usize::MAX);
			if declared == v.len() && body_ok(v, p) {
				head
			} else {
				format!("CORRUPT({head},len={})", v.len())
			}
		}
		None => format!("RAW({})", String::from_utf8_lossy(&v[..v.len().min(24)])),
	}
}

fn probe_value(key: &str) -> Vec<u8> {
	let len = 48usize;
	let mut v = format!("999999:{key}:{len}|").into_bytes();
	let mut x = 999999u64.wrapping_mul(0x9E3779B97F4A7C15) ^ (len as u64);
	while v.len() < len {
		x ^= x << 13;
		x ^= x >> 7;
		x ^= x << 17;
		v.push((x & 0xff) as u8);
	}
	v
}

fn body_ok(v: &[u8], p: usize) -> bool {
	let head = String::from_utf8_lossy(&v[..p]).to_string();
	let mut parts = head.split(':');
	let txn: u64 = parts.next().and_then(|s| s.parse().ok()).unwrap_or(0);
	let len = v.len();
	let mut x = txn.wrapping_mul(0x9E3779B97F4A7C15) ^ (len as u64);
	for b in &v[p + 1..] {
		x ^= x << 13;
		x ^= x >> 7;
		x ^= x << 17;
		if *b != (x & 0xff) as u8 {
			return false;
		}
	}
	true
}

fn scan(tree: &Tree) -> Result<BTreeMap<String, String>, String> {
	let t = tree.begin_with_mode(Mode::ReadOnly).map_err(|e| e.to_string())?;
	let mut it = t.range(b"\x00".to_vec(), b"\xff\xff\xff".to_vec()).map_err(|e| e.to_string())?;
	let mut m = BTreeMap::new();
	let mut ok = it.seek_first().map_err(|e| e.to_string())?;
	while ok && it.valid() {
		let k = String::from_utf8_lossy(it.key().user_key()).to_string();
		let v = it.value().map_err(|e| format!("value of {k}: {e}"))?;
		m.insert(k, value_id(&v));
		ok = it.next().map_err(|e| e.to_string())?;
	}
	// point reads must agree with the scan
	for (k, v) in m.clone() {
		match t.get(k.as_bytes()).map_err(|e| e.to_string())? {
			Some(b) if value_id(&b) == v => {}
			other => return Err(format!("get({k}) disagrees with scan: {:?} vs {v}", other.map(|b| value_id(&b)))),
		}
	}
	Ok(m)
}

fn options(dir: &str, o: &Value) -> Options {
	let memtable = o["memtable"].as_u64().unwrap_or(32768) as usize;
	let vlog = o["vlog"].as_bool().unwrap_or(false);
	let versioning = o["versioning"].as_bool().unwrap_or(false);
	let l0 = o["l0"].as_u64().unwrap_or(2) as usize;
	let mut opts = Options::new()
		.with_path(dir.into())
		.with_max_memtable_size(memtable)
		.with_level_count(o["levels"].as_u64().unwrap_or(3) as u8)
		.with_block_size(512)
		.with_enable_vlog(vlog || versioning);
	opts.level0_max_files = l0;
	let mut opts = opts.with_l0_stall_threshold(l0.max(2) * 4).with_memtable_stall_threshold(4);
	if versioning {
		opts = opts.with_versioning(true, 0).with_vlog_value_threshold(0);
		if o["index"].as_bool().unwrap_or(false) {
			opts = opts.with_versioned_index(true);
		}
	} else if vlog {
		opts = opts.with_vlog_value_threshold(256).with_vlog_max_file_size(memtable as u64);
	}
	if o["absolute"].as_bool().unwrap_or(false) {
		opts = opts.with_wal_recovery_mode(surrealkv::WalRecoveryMode::AbsoluteConsistency);
	}
	opts
}

fn main() {
	let args: Vec<String> = std::env::args().collect();
	let dir = &args[1];
	let o: Value = serde_json::from_str(&args[2]).expect("opts json");
	let probe = args.iter().any(|a| a == "--probe");
	let twice = args.iter().any(|a| a == "--twice");
	let rt = tokio::runtime::Builder::new_multi_thread().worker_threads(2).enable_all().build().unwrap();
	let _g = rt.enter();
	let mut out = json!({"open": "ok", "scan": null, "probe": null, "second": null});
	eprintln!("stage:open");
	match TreeBuilder::with_options(options(dir, &o)).build() {
		Err(e) => out["open"] = json!(format!("err:{e}")),
		Ok(tree) => {
			eprintln!("stage:scan");
			match scan(&tree) {
				Ok(m) => out["scan"] = json!(m),
				Err(e) => out["open"] = json!(format!("scan_err:{e}")),
			}
			eprintln!("stage:probe");
			if probe {
				// a commit made after recovery must be readable (not shadowed by older data), also after reopen
				let r = (|| -> Result<(), String> {
					let mut t = tree.begin().map_err(|e| e.to_string())?;
					t.set_durability(surrealkv::Durability::Immediate);
					t.set(b"key00", probe_value("key00")).map_err(|e| e.to_string())?;
					t.set(b"zz-probe", probe_value("zz-probe")).map_err(|e| e.to_string())?;
					rt.block_on(t.commit()).map_err(|e| format!("commit: {e}"))?;
					let r = tree.begin_with_mode(Mode::ReadOnly).map_err(|e| e.to_string())?;
					for k in [&b"key00"[..], &b"zz-probe"[..]] {
						match r.get(k).map_err(|e| e.to_string())? {
							Some(v) if v.starts_with(b"999999:") && value_id(&v).starts_with("999999:") => {}
							other => return Err(format!("probe write shadowed: {:?}", other.map(|v| String::from_utf8_lossy(&v[..v.len().min(30)]).to_string()))),
						}
					}
					Ok(())
				})();
				out["probe"] = json!(match r { Ok(()) => "ok".to_string(), Err(e) => e });
			}
			eprintln!("stage:close");
			let c = rt.block_on(tree.close());
			eprintln!("stage:closed");
			if let Err(e) = c {
				out["close"] = json!(e.to_string());
			}
			drop(tree);
			if twice {
				match TreeBuilder::with_options(options(dir, &o)).build() {
					Err(e) => out["second"] = json!({"open": format!("err:{e}")}),
					Ok(t2) => {
						match scan(&t2) {
							Ok(m) => out["second"] = json!({"open":"ok","scan":m}),
							Err(e) => out["second"] = json!({"open": format!("scan_err:{e}")}),
						}
						let _ = rt.block_on(t2.close());
					}
				}
			}
		}
	}
	println!("RESULT {}", out);
}
