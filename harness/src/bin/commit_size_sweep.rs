//! C15 / C05 / C07: transactions around and above the memtable capacity (no fault injection needed).
//!
//! usage: commit_size_sweep [--seed N] [--cases N]
//!
//! For a sweep of (memtable size, number of entries, value size) with the batch footprint from 0.3x to
//! 1.6x of the memtable: a store with earlier commits receives the big transaction, then small ones.
//! Judged (property, real engine):
//!   commit() = Ok  -> every entry readable at once, after more commits, and after close + reopen;
//!   commit() = Err -> no entry of it is ever visible: not at once, not after further commits (which
//!                     must still succeed or report a sticky background error), not after close + reopen;
//!   reopen must succeed either way (C07), twice, with identical content.
//! Runs each case in-process; a panic of the engine is a violation.

use std::collections::BTreeMap;

use rand::rngs::StdRng;
use rand::{Rng, SeedableRng};
use serde_json::json;
use surrealkv::{Mode, Options, Tree, TreeBuilder};
use verif_harness::out::Summary;

fn scan(tree: &Tree) -> Result<BTreeMap<Vec<u8>, Vec<u8>>, String> {
	use surrealkv::LSMIterator;
	let t = tree.begin_with_mode(Mode::ReadOnly).map_err(|e| e.to_string())?;
	let mut it = t.range(b"\x00".to_vec(), b"\xff\xff\xff".to_vec()).map_err(|e| e.to_string())?;
	let mut m = BTreeMap::new();
	let mut ok = it.seek_first().map_err(|e| e.to_string())?;
	while ok && it.valid() {
		m.insert(it.key().user_key().to_vec(), it.value().map_err(|e| e.to_string())?);
		ok = it.next().map_err(|e| e.to_string())?;
	}
	Ok(m)
}

fn copy_dir(from: &std::path::Path, to: &std::path::Path) {
	std::fs::create_dir_all(to).unwrap();
	for e in std::fs::read_dir(from).unwrap().flatten() {
		let (p, q) = (e.path(), to.join(e.file_name()));
		if p.is_dir() {
			copy_dir(&p, &q);
		} else {
			let _ = std::fs::copy(&p, &q);
		}
	}
}

fn run_case(memtable: usize, n: usize, vsize: usize, vlog: bool) -> Result<(bool, Vec<serde_json::Value>), String> {
	let mut viol = Vec::new();
	let dir = verif_harness::scratch_dir("size");
	let rt = verif_harness::rt();
	let _g = rt.enter();
	// fresh Options per store: a clone shares the block cache, and two stores with the same table ids must not
	let mk_opts = |path: &std::path::Path| {
		let mut opts = Options::new().with_path(path.to_path_buf()).with_max_memtable_size(memtable).with_enable_vlog(vlog);
		opts.level0_max_files = 64;
		opts.with_l0_stall_threshold(64).with_memtable_stall_threshold(64)
	};
	let opts = mk_opts(dir.path());
	let tree = TreeBuilder::with_options(opts.clone()).build().map_err(|e| format!("open: {e}"))?;
	let mut model: BTreeMap<Vec<u8>, Vec<u8>> = BTreeMap::new();
	// earlier small commits
	for i in 0..3u8 {
		let mut t = tree.begin().map_err(|e| e.to_string())?;
		let (k, v) = (vec![b'p', i], vec![i; 10]);
		t.set(k.clone(), v.clone()).map_err(|e| e.to_string())?;
		rt.block_on(t.commit()).map_err(|e| format!("small commit before: {e}"))?;
		model.insert(k, v);
	}
	// the big transaction
	let mut t = tree.begin().map_err(|e| e.to_string())?;
	let mut big: Vec<(Vec<u8>, Vec<u8>)> = Vec::new();
	for i in 0..n {
		let k = format!("big{:05}", i).into_bytes();
		let v = vec![(i % 251) as u8; vsize];
		t.set(k.clone(), v.clone()).map_err(|e| e.to_string())?;
		big.push((k, v));
	}
	let res = rt.block_on(t.commit());
	drop(t);
	let ok = res.is_ok();
	if ok {
		for (k, v) in &big {
			model.insert(k.clone(), v.clone());
		}
	}
	let check = |tree: &Tree, when: &str, model: &BTreeMap<Vec<u8>, Vec<u8>>, viol: &mut Vec<serde_json::Value>| {
		match scan(tree) {
			Ok(got) => {
				if &got != model {
					let extra = got.keys().filter(|k| !model.contains_key(*k)).count();
					let missing = model.keys().filter(|k| !got.contains_key(*k)).count();
					viol.push(json!({"kind": if !ok && extra > 0 {"failed_commit_visible"} else if ok && missing > 0 {"acknowledged_commit_incomplete"} else {"wrong_content"},
						"when": when, "commit_ok": ok, "extra_keys": extra, "missing_keys": missing,
						"error": res.as_ref().err().map(|e| e.to_string())}));
				}
			}
			Err(e) => viol.push(json!({"kind":"scan_error","when":when,"error":e})),
		}
	};
	check(&tree, "right_after", &model, &mut viol);
	// further commits must work (or a sticky background error is reported)
	for i in 0..3u8 {
		let mut t = tree.begin().map_err(|e| e.to_string())?;
		let (k, v) = (vec![b'q', i], vec![i; 2000]);
		t.set(k.clone(), v.clone()).map_err(|e| e.to_string())?;
		match rt.block_on(t.commit()) {
			Ok(()) => {
				model.insert(k, v);
			}
			Err(e) => {
				viol.push(json!({"kind":"later_commit_refused","error":e.to_string(),"big_commit_ok":ok}));
				break;
			}
		}
	}
	check(&tree, "after_more_commits", &model, &mut viol);
	// process crash at this instant: the files as they are now, opened by recovery (the commit log is replayed)
	{
		let img = verif_harness::scratch_dir("sizeimg");
		copy_dir(dir.path(), img.path());
		match TreeBuilder::with_options(mk_opts(img.path())).build() {
			Ok(t3) => {
				let before = viol.len();
				check(&t3, "after_crash", &model, &mut viol);
				for v in viol.iter_mut().skip(before) {
					if v["kind"] == "failed_commit_visible" {
						v["kind"] = json!("failed_commit_replayed_after_reopen");
					}
				}
				let _ = rt.block_on(t3.close());
			}
			Err(e) => viol.push(json!({"kind":"reopen_refused","round":"crash","error":e.to_string(),"big_commit_ok":ok})),
		}
	}
	rt.block_on(tree.close()).map_err(|e| format!("close: {e}"))?;
	drop(tree);
	for round in 0..2 {
		match TreeBuilder::with_options(mk_opts(dir.path())).build() {
			Ok(t2) => {
				check(&t2, if round == 0 { "after_reopen" } else { "after_second_reopen" }, &model, &mut viol);
				let _ = rt.block_on(t2.close());
			}
			Err(e) => {
				viol.push(json!({"kind":"reopen_refused","round":round,"error":e.to_string(),"big_commit_ok":ok}));
				break;
			}
		}
	}
	for v in viol.iter_mut() {
		v["case"] = json!({"memtable": memtable, "entries": n, "value_size": vsize, "vlog": vlog, "big_commit_ok": ok});
	}
	Ok((ok, viol))
}

fn main() {
	let args: Vec<String> = std::env::args().collect();
	let argval = |name: &str| args.iter().position(|a| a == name).and_then(|i| args.get(i + 1)).cloned();
	let seed: u64 = argval("--seed").map(|s| s.parse().unwrap()).unwrap_or(1);
	let cases: usize = argval("--cases").map(|s| s.parse().unwrap()).unwrap_or(60);
	let one: Option<String> = argval("--case");
	let one_is_none = one.is_none();
	verif_harness::quiet_panics();
	let mut rng = StdRng::seed_from_u64(seed);
	let mut sum = Summary::new("commit_size_sweep");
	let mut plan: Vec<(usize, usize, usize, bool)> = Vec::new();
	if let Some(c) = one {
		let v: serde_json::Value = serde_json::from_str(&c).expect("--case json");
		plan.push((v["memtable"].as_u64().unwrap() as usize, v["entries"].as_u64().unwrap() as usize,
			v["value_size"].as_u64().unwrap() as usize, v["vlog"].as_bool().unwrap_or(false)));
	} else {
		for i in 0..cases {
			let memtable = [32 * 1024usize, 64 * 1024, 256 * 1024][i % 3];
			// footprint factor 0.3 .. 1.6, denser around 1.0
			let f = match i % 4 {
				0 => rng.random_range(0.3..0.9),
				1 | 2 => rng.random_range(0.85..1.15),
				_ => rng.random_range(1.1..1.6),
			};
			let n = [1usize, 2, 3, 7, 40][rng.random_range(0..5)];
			let per = ((memtable as f64 * f) / n as f64) as usize;
			let vsize = per.saturating_sub(220).max(1);
			plan.push((memtable, n, vsize, i % 5 == 0));
		}
	}
	if one_is_none && !args.iter().any(|a| a == "--no-boundary") {
		// the acceptance boundary, found by bisection on the real engine, then every size in a band around it: the
		// sizes the engine accepts for logging but cannot apply (or the other way round) live within a few hundred bytes
		let mut band = 0u64;
		for (memtable, n) in [(32 * 1024usize, 1usize), (64 * 1024, 1), (64 * 1024, 3), (32 * 1024, 7)] {
			let (mut lo, mut hi) = (1usize, 2 * memtable / n);
			while hi - lo > 1 {
				let mid = (lo + hi) / 2;
				match verif_harness::catch(|| run_case(memtable, n, mid, false)) {
					Ok(Ok((true, _))) => lo = mid,
					_ => hi = mid,
				}
			}
			let step = (24 / n).max(1);
			let from = lo.saturating_sub(6 * step);
			for k in 0..48 {
				plan.push((memtable, n, from + k * step, false));
				band += 1;
			}
		}
		sum.extra.insert("boundary_band_cases".into(), json!(band));
	}
	let (mut oks, mut errs) = (0u64, 0u64);
	for (memtable, n, vsize, vlog) in plan {
		sum.cases += 1;
		match verif_harness::catch(|| run_case(memtable, n, vsize, vlog)) {
			Ok(Ok((ok, v))) => {
				if ok {
					oks += 1;
				} else {
					errs += 1;
				}
				for x in v {
					sum.violation(x);
				}
			}
			Ok(Err(e)) => sum.violation(json!({"kind":"engine_error","error":e,"case":{"memtable":memtable,"entries":n,"value_size":vsize,"vlog":vlog}})),
			Err(p) => sum.violation(json!({"kind":"panic","message":p,"case":{"memtable":memtable,"entries":n,"value_size":vsize,"vlog":vlog}})),
		}
		sum.sample(json!({"memtable":memtable,"entries":n,"value_size":vsize,"vlog":vlog}));
	}
	sum.extra.insert("big_commit_accepted".into(), json!(oks));
	sum.extra.insert("big_commit_refused".into(), json!(errs));
	sum.print();
}
