//! C12 driver: the commit log reads back as an exact prefix; repair keeps all valid records.
//!
//! Everything here runs the REAL surrealkv code (through `surrealkv::verif::wal` for the wal
//! module, through `TreeBuilder` for the store) and judges what it observes with the property
//! predicate only. The spec's predictions (TLC cases) are compared as conformance drift.
//!
//!   wal_run cases <tlc-output>  [--threads N] [--scratch DIR]      TLC-exported cases, scaled to 32 KiB blocks
//!   wal_run sweep --tier T --seed S [--threads N] [--scratch DIR]  enumerated byte-level damage of real segments
//!   wal_run store --tier T --seed S [--threads N] [--scratch DIR]  damaged directories opened through TreeBuilder
//!   wal_run one <replay.json> [--scratch DIR]                      one recorded case
//!   wal_run chunk / store-phase                                    (internal: child processes)
//!
//! A chunk (one base segment + many damage cases) is executed in a child process; a panic is
//! caught in the child, an abort or a hang is detected by the parent: all three are violations.

use std::collections::{BTreeMap, BTreeSet, VecDeque};
use std::io::{BufRead, BufReader, Read, Write};
use std::os::unix::fs::FileExt;
use std::path::{Path, PathBuf};
use std::process::{Command, Stdio};
use std::sync::{Arc, Mutex};
use std::time::{Duration, Instant};

use serde_json::{json, Value};
use surrealkv::verif::wal::{read_segment, repair_segment, ReadEnd, ReadOutcome, WalHandle, BLOCK_SIZE, HEADER_SIZE};
use verif_harness::out::Summary;

const SEG0: &str = "00000000000000000000.wal";

// ------------------------------------------------------------------------------------------------
// payloads

fn xorshift(s: &mut u64) -> u64 {
	*s ^= *s << 13;
	*s ^= *s >> 7;
	*s ^= *s << 17;
	*s
}

/// Payload bytes of one record. Classes (as in the spec): "gen" no byte is 0 or 1, "zero" all
/// bytes 0, "one" first byte 1, "c0" first byte 0, "rand" any bytes. `rep` > 0 makes the last
/// `rep` bytes a copy of the bytes before them (used to steer the LZ4 frame length).
fn payload(len: usize, cls: &str, seed: u64, rep: usize) -> Vec<u8> {
	let mut s = seed.wrapping_mul(0x9E37_79B9_7F4A_7C15) | 1;
	let mut v: Vec<u8> = match cls {
		"zero" => vec![0u8; len],
		"rand" => (0..len).map(|_| (xorshift(&mut s) >> 24) as u8).collect(),
		_ => (0..len).map(|_| 2 + ((xorshift(&mut s) >> 24) % 254) as u8).collect(),
	};
	if len > 0 {
		match cls {
			"one" => v[0] = 1,
			"c0" => v[0] = 0,
			_ => {}
		}
	}
	if rep > 0 && len >= 2 * rep {
		for i in 0..rep {
			v[len - rep + i] = v[len - 2 * rep + i];
		}
	}
	v
}

// ------------------------------------------------------------------------------------------------
// layout of an intact segment (used to *drive*: choose / scale damage positions, classify; never to judge)

#[derive(Clone, Debug)]
struct Frag {
	off: usize,
	len: usize,
	typ: u8,
}

fn parse_layout(b: &[u8]) -> Vec<Frag> {
	let mut v = Vec::new();
	let mut off = 0usize;
	while off < b.len() {
		let left = BLOCK_SIZE - off % BLOCK_SIZE;
		if left < HEADER_SIZE {
			off += left;
			continue;
		}
		if off + HEADER_SIZE > b.len() {
			break;
		}
		let len = u16::from_be_bytes([b[off + 4], b[off + 5]]) as usize;
		v.push(Frag {
			off,
			len,
			typ: b[off + 6],
		});
		off += HEADER_SIZE + len;
	}
	v
}

/// (fragment index, role) of a byte; role: c crc, l length, t type, d data, p padding.
fn role_of(frags: &[Frag], off: usize) -> (usize, char) {
	let mut last = 0usize;
	for (i, f) in frags.iter().enumerate() {
		if off < f.off {
			break;
		}
		last = i;
		if off < f.off + 4 {
			return (i, 'c');
		}
		if off < f.off + 6 {
			return (i, 'l');
		}
		if off < f.off + 7 {
			return (i, 't');
		}
		if off < f.off + 7 + f.len {
			return (i, 'd');
		}
	}
	(last, 'p')
}

// ------------------------------------------------------------------------------------------------
// base segments, written by the real Wal

fn clean_dir(dir: &Path) {
	let _ = std::fs::remove_dir_all(dir);
	std::fs::create_dir_all(dir).expect("create scratch dir");
}

fn seg(dir: &Path) -> PathBuf {
	dir.join(SEG0)
}

fn file_len(p: &Path) -> u64 {
	std::fs::metadata(p).map(|m| m.len()).unwrap_or(0)
}

/// Length of the framed form (LZ4 frame) of `p`, measured on the real writer.
fn framed_len(p: &[u8], dir: &Path) -> Result<usize, String> {
	clean_dir(dir);
	let mut w = WalHandle::open(dir, true)?;
	w.append(p)?;
	w.close()?;
	drop(w);
	let b = std::fs::read(seg(dir)).map_err(|e| e.to_string())?;
	Ok(parse_layout(&b).iter().filter(|f| f.typ != 9).map(|f| f.len).sum())
}

/// A payload of class gen whose LZ4 frame has exactly `target` bytes and does not start with 0/1.
fn lz4_payload(target: usize, seed: u64, dir: &Path) -> Option<Vec<u8>> {
	if target < 6 {
		return None;
	}
	for rep in [0usize, 5, 6, 7, 8, 9, 10, 12, 16] {
		// without a repeat the frame is 4 + 1 + n + (n >= 15 ? 1 + (n - 15) / 255 : 0)
		let mut n = target.saturating_sub(5 + target / 255);
		n = n.max(1) + if rep > 0 { rep } else { 0 };
		for _ in 0..12 {
			if n == 0 || (rep > 0 && n < 2 * rep) {
				break;
			}
			let p = payload(n, "gen", seed, rep);
			let f = framed_len(&p, dir).ok()?;
			if f == target {
				if n % 256 > 1 {
					return Some(p);
				}
				break;
			}
			if f < target {
				n += target - f;
			} else {
				n = n.saturating_sub(f - target);
			}
		}
	}
	None
}

struct Base {
	spec: Value,
	lz4: bool,
	payloads: Vec<Vec<u8>>, // accepted records
	ends: Vec<u64>,         // file size after each accepted append
	bytes: Vec<u8>,
	frags: Vec<Frag>,
}

fn rec_payload(r: &Value, lz4: bool, dir: &Path) -> Result<Vec<u8>, String> {
	let len = r["len"].as_u64().unwrap() as usize;
	let cls = r["cls"].as_str().unwrap_or("gen");
	let seed = r["seed"].as_u64().unwrap_or(1);
	if lz4 && r["framed"].as_bool().unwrap_or(false) {
		lz4_payload(len, seed, &dir.join("probe")).ok_or_else(|| format!("unsteerable lz4 frame length {len}"))
	} else {
		Ok(payload(len, cls, seed, 0))
	}
}

/// Err(("unsteerable", ..)) = the driver could not build the intended input (not a verdict);
/// Err(("violation", ..)) = the real code misbehaved while writing an intact log.
fn build_base(spec: &Value, dir: &Path) -> Result<Base, (String, Value)> {
	let lz4 = spec["lz4"].as_bool().unwrap_or(false);
	let wdir = dir.join("w");
	let mut pls: Vec<Vec<Vec<u8>>> = Vec::new();
	for s in spec["sessions"].as_array().unwrap() {
		let mut v = Vec::new();
		for r in s.as_array().unwrap() {
			v.push(rec_payload(r, lz4, dir).map_err(|e| ("unsteerable".to_string(), json!(e)))?);
		}
		pls.push(v);
	}
	clean_dir(&wdir);
	let mut payloads = Vec::new();
	let mut ends = Vec::new();
	let viol = |kind: &str, what: String| ("violation".to_string(), json!({"kind": kind, "what": what}));
	for sess in &pls {
		let r = verif_harness::catch(|| -> Result<(), (String, Value)> {
			let mut w = WalHandle::open(&wdir, lz4).map_err(|e| viol("open_intact_failed", e))?;
			for p in sess {
				let before = file_len(&seg(&wdir));
				match w.append(p) {
					Ok(()) => {
						if p.is_empty() {
							// accepted: must then be read back as an empty record
						}
						payloads.push(p.clone());
						ends.push(file_len(&seg(&wdir)));
					}
					Err(e) => {
						if !p.is_empty() {
							return Err(viol("append_failed", e));
						}
						if file_len(&seg(&wdir)) != before {
							return Err(viol("rejected_append_wrote", e));
						}
					}
				}
			}
			w.close().map_err(|e| viol("close_failed", e))?;
			Ok(())
		});
		match r {
			Ok(Ok(())) => {}
			Ok(Err(e)) => return Err(e),
			Err(p) => return Err(viol("panic", format!("writing an intact log: {p}"))),
		}
	}
	let bytes = std::fs::read(seg(&wdir)).unwrap_or_default();
	let frags = parse_layout(&bytes);
	Ok(Base {
		spec: spec.clone(),
		lz4,
		payloads,
		ends,
		bytes,
		frags,
	})
}

// ------------------------------------------------------------------------------------------------
// one wal-level case on the real code

#[derive(Clone, Debug)]
struct Dmg {
	kind: String, // none | trunc | byte
	off: usize,
	val: u8,
}

fn end_name(e: &ReadEnd) -> &'static str {
	match e {
		ReadEnd::Eof => "Eof",
		ReadEnd::Corruption {
			..
		} => "Corrupt",
		ReadEnd::Other(_) => "Other",
	}
}

fn read_or_missing(p: &Path) -> Result<ReadOutcome, String> {
	if !p.exists() {
		return Ok(ReadOutcome {
			records: vec![],
			offsets: vec![],
			end: ReadEnd::Eof,
		});
	}
	read_segment(p).map_err(|e| e.to_string())
}

#[derive(Default)]
struct Obs {
	dsize: usize,
	r1: Option<ReadOutcome>,
	stage_fail: String, // "" | wal_open | repair_failed
	fail_msg: String,
	repaired: bool,
	r2: Option<ReadOutcome>,
	r3: Option<ReadOutcome>,
	post_err: Option<String>,
	panic: Option<(String, String)>,
	leftover: usize, // records actually left behind by the simulated interrupted repair
}

/// `leftover` > 0: an earlier repair of this segment was interrupted (process crash) after it had copied
/// that many valid records into wal/repair_temp and before the rename.
fn run_case(base: &Base, dmg: &Dmg, order: &str, post: &[Vec<u8>], leftover: usize, dir: &Path) -> Obs {
	let mut o = Obs::default();
	clean_dir(dir);
	let path = seg(dir);
	let mut bytes = base.bytes.clone();
	match dmg.kind.as_str() {
		"trunc" => bytes.truncate(dmg.off),
		"byte" => bytes[dmg.off] = dmg.val,
		_ => {}
	}
	o.dsize = bytes.len();
	std::fs::write(&path, &bytes).expect("write damaged segment");
	let lz4 = base.lz4;
	let stage = std::cell::Cell::new("read1");
	let r = verif_harness::catch(|| {
		if leftover > 0 {
			stage.set("interrupted_repair");
			let r0 = read_or_missing(&path).expect("read damaged segment");
			if matches!(r0.end, ReadEnd::Corruption { .. }) && !r0.records.is_empty() {
				let tdir = dir.join("repair_temp");
				std::fs::create_dir_all(&tdir).expect("repair_temp");
				let mut t = WalHandle::open(&tdir, false).expect("open repair_temp wal");
				for rec in r0.records.iter().take(leftover) {
					t.append(rec).expect("append to repair_temp wal");
				}
				drop(t);
				o.leftover = leftover.min(r0.records.len());
			}
		}
		// (store order) CoreInner::new opens the writer first ...
		let mut w: Option<WalHandle> = None;
		if order == "open_first" {
			stage.set("wal_open");
			match WalHandle::open(dir, lz4) {
				Ok(h) => w = Some(h),
				Err(e) => {
					o.stage_fail = "wal_open".into();
					o.fail_msg = e;
				}
			}
		}
		// ... then the log is replayed
		stage.set("read1");
		let r1 = read_or_missing(&path).expect("read damaged segment");
		let corrupt = matches!(r1.end, ReadEnd::Corruption { .. });
		o.r1 = Some(r1);
		if !o.stage_fail.is_empty() {
			return;
		}
		if corrupt {
			stage.set("repair");
			match repair_segment(dir, 0) {
				Ok(()) => {
					o.repaired = true;
					stage.set("read2");
					o.r2 = Some(read_or_missing(&path).expect("read repaired segment"));
				}
				Err(e) => {
					o.stage_fail = "repair_failed".into();
					o.fail_msg = e;
					return;
				}
			}
		}
		if order != "open_first" {
			stage.set("wal_open");
			match WalHandle::open(dir, lz4) {
				Ok(h) => w = Some(h),
				Err(e) => {
					o.stage_fail = "wal_open".into();
					o.fail_msg = e;
					return;
				}
			}
		}
		stage.set("append");
		let mut h = w.take().unwrap();
		for p in post {
			if let Err(e) = h.append(p) {
				o.post_err = Some(e);
				break;
			}
		}
		stage.set("close");
		if let Err(e) = h.close() {
			o.post_err = Some(format!("close: {e}"));
		}
		drop(h);
		stage.set("read3");
		o.r3 = Some(read_or_missing(&path).expect("read final segment"));
	});
	if let Err(p) = r {
		o.panic = Some((stage.get().to_string(), p));
	}
	o
}

/// How many leading records are exactly the appended ones, and what the first other one is.
fn prefix_len(recs: &[Vec<u8>], want: &[Vec<u8>]) -> (usize, Option<&'static str>) {
	let mut i = 0;
	while i < recs.len() && i < want.len() && recs[i] == want[i] {
		i += 1;
	}
	if i == recs.len() {
		return (i, None);
	}
	let what = if want.iter().skip(i + 1).any(|w| *w == recs[i]) {
		"record_skipped"
	} else if want.iter().take(i).any(|w| *w == recs[i]) {
		"record_repeated_or_out_of_order"
	} else {
		"garbage"
	};
	(i, Some(what))
}

fn read_json(r: &Option<ReadOutcome>) -> Value {
	match r {
		None => Value::Null,
		Some(r) => json!({"n": r.records.len(), "lens": r.records.iter().take(8).map(|x| x.len()).collect::<Vec<_>>(),
			"end": end_name(&r.end),
			"msg": match &r.end { ReadEnd::Corruption{message, ..} => message.clone(), ReadEnd::Other(m) => m.clone(), _ => String::new() }}),
	}
}

struct Judged {
	violations: Vec<Value>, // {kind, class, what}
	drift: Vec<Value>,
	outcome: String,
}

fn judge(base: &Base, dmg: &Dmg, order: &str, post: &[Vec<u8>], o: &Obs) -> Judged {
	let mut v: Vec<(String, String)> = Vec::new();
	let mut drift = Vec::new();
	let n_all = base.payloads.len();
	let wb = match dmg.kind.as_str() {
		"none" => n_all,
		_ => base.ends.iter().filter(|e| (**e as usize) <= dmg.off).count(),
	};
	let (fi, role) = if dmg.kind == "none" || base.frags.is_empty() {
		(0, '-')
	} else {
		role_of(&base.frags, dmg.off.min(base.bytes.len().saturating_sub(1)))
	};
	let meta = dmg.kind == "byte"
		&& ((role == 't' && (dmg.val == 0 || dmg.val == 9)) || (role != 'p' && base.frags.get(fi).map(|f| f.typ) == Some(9)));
	let mut torn = false;
	if let Some((stage, msg)) = &o.panic {
		v.push(("panic".into(), format!("panic in {stage}: {msg}")));
	}
	// J1: the read of the damaged file
	let mut kept: Option<usize> = None;
	if let Some(r1) = &o.r1 {
		let (m, bad) = prefix_len(&r1.records, &base.payloads);
		if let Some(what) = bad {
			v.push(("not_a_prefix".into(), format!("read of damaged log: record {m} is {what}")));
		} else {
			if m < wb {
				v.push(("lost_record_before_damage".into(), format!("read returned {m} records, {wb} lie wholly before the damage")));
			}
			if dmg.kind == "none" && (m != n_all || r1.end != ReadEnd::Eof) {
				v.push(("roundtrip".into(), format!("intact log read back {m}/{n_all} records, end {}", end_name(&r1.end))));
			}
			kept = Some(m);
		}
		if let ReadEnd::Other(e) = &r1.end {
			drift.push(json!({"field": "r1.end", "got": e}));
		}
		let vend = r1.offsets.last().map(|x| *x as usize).unwrap_or(if base.lz4 && o.dsize >= 8 { 8 } else { 0 });
		torn = r1.end == ReadEnd::Eof && vend != o.dsize;
	}
	// open / repair refused (tolerant flow: damage is to be repaired, the log opened)
	if o.stage_fail == "wal_open" {
		v.push(("open_failed".into(), format!("Wal::open refused the damaged log: {}", o.fail_msg)));
	} else if o.stage_fail == "repair_failed" {
		v.push(("repair_failed".into(), o.fail_msg.clone()));
	}
	// J2: repair keeps exactly such a prefix
	if let Some(r2) = &o.r2 {
		let (m, bad) = prefix_len(&r2.records, &base.payloads);
		if let Some(what) = bad {
			v.push(("repair_not_a_prefix".into(), format!("repaired log: record {m} is {what}")));
			kept = None;
		} else {
			if m < wb {
				v.push(("repair_lost_record_before_damage".into(), format!("repaired log has {m} records, {wb} lie wholly before the damage")));
			}
			if let Some(m1) = kept {
				if m < m1 {
					v.push(("repair_lost_valid_record".into(), format!("reader returned {m1} valid records, repaired log has {m}")));
				}
			}
			if r2.end != ReadEnd::Eof {
				v.push(("repair_left_damage".into(), format!("repaired log still ends with {}", end_name(&r2.end))));
			}
			kept = Some(m);
		}
	}
	// J3: records appended after opening / repairing are read back on the next open
	if let Some(r3) = &o.r3 {
		if let Some(e) = &o.post_err {
			v.push(("append_after_open".into(), format!("append/close after recovery failed: {e}")));
		} else {
			let (m, _) = prefix_len(&r3.records, &base.payloads);
			let rest = &r3.records[m..];
			let ok = rest.len() == post.len() && rest.iter().zip(post.iter()).all(|(a, b)| a == b) && r3.end == ReadEnd::Eof;
			if !ok {
				v.push((
					"append_after_open".into(),
					format!(
						"after recovery {} record(s) were appended; next read: {} old + {} other record(s), end {}",
						post.len(),
						m,
						rest.len(),
						end_name(&r3.end)
					),
				));
			} else {
				if m < wb {
					v.push(("lost_record_before_damage".into(), format!("final read has {m} old records, {wb} lie wholly before the damage")));
				}
				if let Some(k) = kept {
					if k != m {
						drift.push(json!({"field": "kept", "after_recovery": k, "final": m}));
					}
				}
			}
		}
	}
	let r1c = o.r1.as_ref().map(|r| matches!(r.end, ReadEnd::Corruption { .. })).unwrap_or(false);
	let violations = v
		.into_iter()
		.map(|(kind, what)| {
			let class = if kind == "panic" {
				""
			} else if meta {
				"meta_before_crc"
			} else if o.leftover > 0 && o.repaired && (kind.starts_with("repair_") || kind == "append_after_open") {
				"repair_temp_reuse"
			} else if kind == "append_after_open" && !o.repaired && torn {
				"torn_tail_append"
			} else if order == "open_first" && ((kind == "append_after_open" && o.repaired) || (kind == "open_failed" && r1c)) {
				"writer_before_recovery"
			} else {
				""
			};
			json!({"kind": kind, "class": class, "what": what, "role": role.to_string()})
		})
		.collect();
	let outcome = format!(
		"{}{}:{}:{}:{}:{}:{}",
		if o.leftover > 0 { "left+" } else { "" },
		dmg.kind,
		role,
		o.r1.as_ref().map(|r| end_name(&r.end)).unwrap_or("-"),
		if o.repaired { "rep" } else { "norep" },
		o.stage_fail,
		o.r3.as_ref().map(|r| end_name(&r.end)).unwrap_or("-")
	);
	Judged {
		violations,
		drift,
		outcome,
	}
}

/// Spec prediction vs. real observation (conformance drift only).
fn compare_exp(exp: &Value, o: &Obs, tail_iso: bool, out: &mut Vec<Value>) {
	let mut d = |field: &str, want: Value, got: Value| {
		if want != got {
			out.push(json!({"field": field, "spec": want, "impl": got}));
		}
	};
	if let Some(r1) = &o.r1 {
		d("r1.n", json!(exp["r1"]["ids"].as_array().map(|a| a.len()).unwrap_or(0)), json!(r1.records.len()));
		d("r1.end", exp["r1"]["end"].clone(), json!(end_name(&r1.end)));
	}
	let fail = if o.stage_fail == "wal_open" { "wal_open" } else if o.stage_fail.is_empty() { "" } else { "other" };
	d("fail", exp["fail"].clone(), json!(fail));
	if !o.stage_fail.is_empty() {
		return;
	}
	d("repaired", exp["repaired"].clone(), json!(o.repaired));
	d("left", json!(exp["left"].as_u64().unwrap_or(0)), json!(o.leftover));
	if let Some(r2) = &o.r2 {
		d("r2.n", json!(exp["r2"]["ids"].as_array().map(|a| a.len()).unwrap_or(0)), json!(r2.records.len()));
		d("r2.end", exp["r2"]["end"].clone(), json!(end_name(&r2.end)));
	}
	// A cut inside the inflated (first) fragment of a block leaves a tail whose distance to the block
	// end is not the model's: whether the next append pads is then not comparable.
	if !tail_iso && !o.repaired {
		return;
	}
	if let Some(r3) = &o.r3 {
		d("r3.n", json!(exp["r3"]["ids"].as_array().map(|a| a.len()).unwrap_or(0)), json!(r3.records.len()));
		d("r3.end", exp["r3"]["end"].clone(), json!(end_name(&r3.end)));
	}
}

// ------------------------------------------------------------------------------------------------
// scaling of a spec position to the real segment

/// Model damage {kind, val, at:{frag, role, idx, flen}} -> real damage on `base`.
fn resolve_model_dmg(m: &Value, base: &Base) -> Result<Dmg, String> {
	let kind = m["kind"].as_str().unwrap().to_string();
	if kind == "none" {
		return Ok(Dmg {
			kind,
			off: 0,
			val: 0,
		});
	}
	let at = &m["at"];
	let fid = at["frag"].as_u64().unwrap() as usize;
	let first = if base.lz4 { 1 } else { 2 };
	if fid < first || fid - first >= base.frags.len() {
		return Err(format!("fragment {fid} not in the real layout ({} fragments)", base.frags.len()));
	}
	let f = &base.frags[fid - first];
	let idx = at["idx"].as_u64().unwrap() as usize;
	let role = at["role"].as_str().unwrap();
	let off = match role {
		"c" => f.off + idx - 1,
		"l" => f.off + 4 + idx - 1,
		"t" => f.off + 6,
		"d" => {
			let ml = at["flen"].as_u64().unwrap() as usize;
			if f.len < ml {
				return Err(format!("real fragment shorter ({}) than the model's ({ml})", f.len));
			}
			let k = if idx < (ml + 1) / 2 { idx } else { f.len - (ml - idx) };
			f.off + 7 + k
		}
		"p" => f.off + 7 + f.len + idx - 1,
		_ => return Err(format!("role {role}")),
	};
	if off >= base.bytes.len() {
		return Err(format!("offset {off} beyond the real segment ({})", base.bytes.len()));
	}
	if kind == "trunc" {
		return Ok(Dmg {
			kind,
			off,
			val: 0,
		});
	}
	let old = base.bytes[off];
	let mv = m["val"].as_i64().unwrap();
	let val = match role {
		"c" => old ^ 0x5a,
		"l" => {
			let v0 = at["flen"].as_i64().unwrap();
			if idx == 1 {
				old.wrapping_add(1)
			} else if mv > v0 {
				old.wrapping_add(1)
			} else {
				old.wrapping_sub(1)
			}
		}
		"t" => mv as u8,
		"d" => {
			if mv == 0 && old != 0 {
				0
			} else if mv == 0 {
				0x55 // (LZ4 frames contain zero bytes the model does not know about)
			} else if f.typ == 9 {
				2
			} else if old ^ 0x80 >= 2 {
				old ^ 0x80
			} else {
				0x81
			}
		}
		_ => 0x2a,
	};
	if val == old {
		return Err("damage value equals the old byte".into());
	}
	Ok(Dmg {
		kind,
		off,
		val,
	})
}

// ------------------------------------------------------------------------------------------------
// chunk execution (child process)

fn chunk_main(scratch: &Path, progress: &Path, start: usize) {
	verif_harness::quiet_panics();
	let mut input = String::new();
	std::io::stdin().read_to_string(&mut input).expect("read chunk");
	let chunk: Value = serde_json::from_str(&input).expect("chunk json");
	let prog = std::fs::OpenOptions::new().create(true).write(true).open(progress).expect("progress file");
	let _ = prog.write_at(&u64::MAX.to_le_bytes(), 0);
	let stdout = std::io::stdout();
	let emit = |tag: &str, v: Value| {
		let mut o = stdout.lock();
		let _ = writeln!(o, "{tag} {v}");
		let _ = o.flush();
	};
	let cases = chunk["cases"].as_array().unwrap();
	let mut counters: BTreeMap<String, u64> = BTreeMap::new();
	let mut outcomes: BTreeSet<String> = BTreeSet::new();
	let base = match build_base(&chunk["base"], scratch) {
		Ok(b) => b,
		Err((k, e)) => {
			if k == "violation" {
				emit("V", json!({"kind": e["kind"], "class": "", "what": e["what"], "case": {"base": chunk["base"], "b": 0, "cases": []}}));
				*counters.entry(format!("viol:{}:", e["kind"].as_str().unwrap_or("base"))).or_default() += 1;
			}
			*counters.entry(if k == "violation" { "base_failed".into() } else { "unsteerable".into() }).or_default() += cases.len() as u64;
			emit("RESULT", json!({"counters": counters, "outcomes": [], "done": cases.len()}));
			return;
		}
	};
	// structure check of the scaling (spec layout vs. real layout)
	let b = chunk["b"].as_u64().unwrap_or(0) as usize;
	if b > 0 {
		let delta = BLOCK_SIZE - b;
		let want = chunk["msize"].as_u64().unwrap() as usize + delta * chunk["zsum"].as_u64().unwrap() as usize;
		if want != base.bytes.len() || chunk["nf"].as_u64().unwrap() as usize != base.frags.len() {
			emit("D", json!({"field": "layout", "spec_size_scaled": want, "impl_size": base.bytes.len(),
				"spec_frags": chunk["nf"], "impl_frags": base.frags.len(), "base": chunk["base"]}));
			*counters.entry("layout_mismatch".into()).or_default() += cases.len() as u64;
			emit("RESULT", json!({"counters": counters, "outcomes": [], "done": cases.len()}));
			return;
		}
	}
	let dir = scratch.join("c");
	let mut samples = 0;
	for (i, c) in cases.iter().enumerate().skip(start) {
		let _ = prog.write_at(&(i as u64).to_le_bytes(), 0);
		let dmg = if c.get("m").is_some() {
			match resolve_model_dmg(&c["m"], &base) {
				Ok(d) => d,
				Err(e) => {
					*counters.entry("unscalable".into()).or_default() += 1;
					*counters.entry(format!("unscalable:{e}")).or_default() += 1;
					continue;
				}
			}
		} else {
			let d = &c["d"];
			Dmg {
				kind: d["kind"].as_str().unwrap().to_string(),
				off: d["off"].as_u64().unwrap_or(0) as usize,
				val: d["val"].as_u64().unwrap_or(0) as u8,
			}
		};
		if dmg.kind == "byte" && (dmg.off >= base.bytes.len() || base.bytes[dmg.off] == dmg.val) {
			*counters.entry("noop_damage".into()).or_default() += 1;
			continue;
		}
		if dmg.kind == "trunc" && dmg.off >= base.bytes.len() {
			*counters.entry("noop_damage".into()).or_default() += 1;
			continue;
		}
		let order = c["order"].as_str().unwrap_or("replay_first");
		let post: Vec<Vec<u8>> = c["post"]
			.as_array()
			.map(|a| a.iter().map(|r| payload(r["len"].as_u64().unwrap() as usize, r["cls"].as_str().unwrap_or("gen"), r["seed"].as_u64().unwrap_or(99), 0)).collect())
			.unwrap_or_default();
		let leftover = c["leftover"].as_u64().unwrap_or(0) as usize;
		let o = run_case(&base, &dmg, order, &post, leftover, &dir);
		let j = judge(&base, &dmg, order, &post, &o);
		*counters.entry("cases".into()).or_default() += 1;
		*counters.entry("steps".into()).or_default() += 3 + post.len() as u64;
		outcomes.insert(j.outcome.clone());
		let real_case = json!({"base": base.spec, "b": 0, "cases": [{"d": {"kind": dmg.kind, "off": dmg.off, "val": dmg.val}, "order": order, "post": c["post"], "leftover": leftover}]});
		let obs = json!({"r1": read_json(&o.r1), "fail": o.stage_fail, "repaired": o.repaired, "r2": read_json(&o.r2), "r3": read_json(&o.r3), "damaged_size": o.dsize});
		for mut v in j.violations {
			v["case"] = real_case.clone();
			v["obs"] = obs.clone();
			if let Some(m) = c.get("m") {
				v["model"] = m.clone();
			}
			let k = format!("viol:{}:{}", v["kind"].as_str().unwrap(), v["class"].as_str().unwrap());
			let n = counters.entry(k).or_default();
			*n += 1;
			if *n <= 3 {
				emit("V", v); // the rest of this kind in this chunk is only counted
			}
		}
		let mut drift = j.drift;
		if let Some(exp) = c.get("exp") {
			let tail_iso = dmg.kind != "trunc" || {
				let (fi, role) = role_of(&base.frags, dmg.off);
				let f = &base.frags[fi];
				role == 'p' || !(f.off % BLOCK_SIZE == 0 || (base.lz4 && f.off == 8))
			};
			if !tail_iso {
				*counters.entry("tail_not_isomorphic".into()).or_default() += 1;
			}
			compare_exp(exp, &o, tail_iso, &mut drift);
			// does the model call this case a violation of the property, and does the code?
			let mh = &exp["holds"];
			let model_ok = ["prefix", "repair", "append"].iter().all(|k| mh[*k].as_bool().unwrap_or(true));
			*counters.entry(if model_ok { "model_holds".into() } else { "model_violates".into() }).or_default() += 1;
		}
		for mut d in drift {
			d["case"] = real_case.clone();
			*counters.entry("drift".into()).or_default() += 1;
			if counters["drift"] <= 5 {
				emit("D", d);
			}
		}
		if samples < 1 && i % 97 == 0 {
			samples += 1;
			emit("S", json!({"case": real_case, "observed": obs, "wholly_before_damage": base.ends.iter().filter(|e| dmg.kind == "none" || (**e as usize) <= dmg.off).count()}));
		}
	}
	let _ = std::fs::remove_dir_all(scratch);
	emit("RESULT", json!({"counters": counters, "outcomes": outcomes, "done": cases.len()}));
}

// ------------------------------------------------------------------------------------------------
// parent side: pool of child processes

struct Agg {
	sum: Summary,
	counters: BTreeMap<String, u64>,
	outcomes: BTreeSet<String>,
	per_key: BTreeMap<String, u64>,
}

impl Agg {
	fn new(name: &str) -> Self {
		Agg {
			sum: Summary::new(name),
			counters: BTreeMap::new(),
			outcomes: BTreeSet::new(),
			per_key: BTreeMap::new(),
		}
	}
	/// Every violation is counted; up to 3 of each (layer, kind, class) are listed in full, so that a
	/// rare kind is never crowded out by a frequent one.
	fn violation(&mut self, v: Value) {
		let key = format!("{}:{}:{}", v["layer"].as_str().unwrap_or("wal"), v["kind"].as_str().unwrap_or("?"), v["class"].as_str().unwrap_or(""));
		let n = self.per_key.entry(key).or_default();
		*n += 1;
		if *n <= 3 {
			self.sum.violations.push(v);
		}
	}
}

/// Waits for the child. `progress`: file in which the child notes the case it is working on; a child
/// that stays on one case for `stall` is hung. None = killed (deadline or stall).
fn wait_child(child: &mut std::process::Child, deadline: Instant, progress: Option<&Path>, stall: Duration) -> Option<std::process::ExitStatus> {
	let mut last = u64::MAX - 1;
	let mut since = Instant::now();
	let mut polls = 0u32;
	loop {
		match child.try_wait() {
			Ok(Some(st)) => return Some(st),
			Ok(None) => {
				polls += 1;
				if let (Some(p), true) = (progress, polls % 64 == 0) {
					let mut buf = [0u8; 8];
					let cur = std::fs::File::open(p).and_then(|f| f.read_at(&mut buf, 0)).map(|_| u64::from_le_bytes(buf)).unwrap_or(u64::MAX - 1);
					if cur != last {
						last = cur;
						since = Instant::now();
					}
				}
				if Instant::now() > deadline || (progress.is_some() && since.elapsed() > stall) {
					let _ = child.kill();
					let _ = child.wait();
					return None;
				}
				std::thread::sleep(Duration::from_millis(3));
			}
			Err(_) => return None,
		}
	}
}

/// After this many aborts / hangs of the code under test the run stops early (each one is reported).
static CRASHES: std::sync::atomic::AtomicUsize = std::sync::atomic::AtomicUsize::new(0);
const CRASH_BUDGET: usize = 4;

fn run_chunk_in_child(chunk: &Value, scratch: &Path, agg: &Mutex<Agg>) {
	let exe = std::env::current_exe().unwrap();
	let n = chunk["cases"].as_array().unwrap().len();
	let mut start = 0usize;
	let progress = scratch.with_extension("prog");
	let input = chunk.to_string();
	let mut respawns = 0;
	let _ = std::fs::remove_file(&progress);
	while start < n.max(1) && respawns < 50 {
		if CRASHES.load(std::sync::atomic::Ordering::SeqCst) >= CRASH_BUDGET {
			let mut a = agg.lock().unwrap();
			*a.counters.entry("skipped_after_crash_budget".into()).or_default() += (n - start.min(n)) as u64;
			break;
		}
		let mut child = Command::new(&exe)
			.arg("chunk")
			.arg("--scratch")
			.arg(scratch)
			.arg("--progress")
			.arg(&progress)
			.arg("--start")
			.arg(start.to_string())
			.env("RUST_BACKTRACE", "0")
			.stdin(Stdio::piped())
			.stdout(Stdio::piped())
			.stderr(Stdio::null())
			.spawn()
			.expect("spawn chunk child");
		let mut stdin = child.stdin.take().unwrap();
		let inp = input.clone();
		let feeder = std::thread::spawn(move || {
			let _ = stdin.write_all(inp.as_bytes());
		});
		let stdout = child.stdout.take().unwrap();
		let reader = std::thread::spawn(move || {
			let mut lines = Vec::new();
			for l in BufReader::new(stdout).lines().map_while(Result::ok) {
				lines.push(l);
			}
			lines
		});
		let deadline = Instant::now() + Duration::from_millis(120_000 + (n - start.min(n)) as u64 * 100);
		let st = wait_child(&mut child, deadline, Some(&progress), Duration::from_secs(12));
		let _ = feeder.join();
		let lines = reader.join().unwrap_or_default();
		let mut finished = false;
		{
			let mut a = agg.lock().unwrap();
			for l in &lines {
				if let Some(x) = l.strip_prefix("V ") {
					if let Ok(v) = serde_json::from_str::<Value>(x) {
						a.violation(v);
					}
				} else if let Some(x) = l.strip_prefix("D ") {
					if let Ok(v) = serde_json::from_str::<Value>(x) {
						a.sum.drift(v);
					}
				} else if let Some(x) = l.strip_prefix("S ") {
					if let Ok(v) = serde_json::from_str::<Value>(x) {
						a.sum.sample(v);
					}
				} else if let Some(x) = l.strip_prefix("RESULT ") {
					if let Ok(v) = serde_json::from_str::<Value>(x) {
						finished = true;
						for (k, c) in v["counters"].as_object().unwrap() {
							*a.counters.entry(k.clone()).or_default() += c.as_u64().unwrap_or(0);
						}
						for o in v["outcomes"].as_array().unwrap() {
							a.outcomes.insert(o.as_str().unwrap().to_string());
						}
					}
				}
			}
		}
		if finished {
			break;
		}
		// the child died or hung: the case it was working on is the finding
		let mut buf = [0u8; 8];
		let idx = std::fs::File::open(&progress).and_then(|f| f.read_at(&mut buf, 0)).map(|_| u64::from_le_bytes(buf)).unwrap_or(u64::MAX);
		let kind = if st.is_none() { "hang" } else { "abort" };
		CRASHES.fetch_add(1, std::sync::atomic::Ordering::SeqCst);
		let mut a = agg.lock().unwrap();
		*a.counters.entry(format!("viol:{kind}:")).or_default() += 1;
		if idx == u64::MAX || idx as usize >= n {
			a.violation(json!({"kind": kind, "class": "", "what": format!("child {kind} outside a case (writing the intact log?)"),
				"case": {"base": chunk["base"], "b": chunk["b"], "msize": chunk["msize"], "zsum": chunk["zsum"], "nf": chunk["nf"], "cases": []}}));
			break;
		}
		let mut one = chunk.clone();
		one["cases"] = json!([chunk["cases"][idx as usize].clone()]);
		a.violation(json!({"kind": kind, "class": "", "what": format!("the code under test: {kind} ({:?})", st), "case": one}));
		*a.counters.entry("cases".into()).or_default() += 1;
		start = idx as usize + 1;
		respawns += 1;
	}
	let _ = std::fs::remove_file(&progress);
	let _ = std::fs::remove_dir_all(scratch);
}

fn run_pool(chunks: Vec<Value>, threads: usize, scratch: &Path, name: &str) -> Agg {
	let agg = Arc::new(Mutex::new(Agg::new(name)));
	let q = Arc::new(Mutex::new(chunks.into_iter().collect::<VecDeque<_>>()));
	let mut hs = Vec::new();
	for t in 0..threads {
		let q = Arc::clone(&q);
		let agg = Arc::clone(&agg);
		let sdir = scratch.join(format!("t{t}"));
		hs.push(std::thread::spawn(move || loop {
			let c = { q.lock().unwrap().pop_front() };
			match c {
				None => break,
				Some(c) => run_chunk_in_child(&c, &sdir, &agg),
			}
		}));
	}
	for h in hs {
		let _ = h.join();
	}
	Arc::try_unwrap(agg).ok().unwrap().into_inner().unwrap()
}

fn finish(mut a: Agg, extra: Vec<(&str, Value)>) {
	a.sum.cases = a.counters.get("cases").copied().unwrap_or(0);
	a.sum.violation_count = a.counters.iter().filter(|(k, _)| k.starts_with("viol:")).map(|(_, v)| *v).sum();
	a.sum.steps = a.counters.get("steps").copied().unwrap_or(0);
	a.sum.extra.insert("counters".into(), json!(a.counters));
	a.sum.extra.insert("distinct_outcomes".into(), json!(a.outcomes.len()));
	a.sum.extra.insert("outcomes".into(), json!(a.outcomes.iter().take(60).collect::<Vec<_>>()));
	for (k, v) in extra {
		a.sum.extra.insert(k.into(), v);
	}
	a.sum.print();
}

// ------------------------------------------------------------------------------------------------
// `cases`: TLC-exported cases

fn cases_main(file: &str, threads: usize, scratch: &Path) {
	let f = std::fs::File::open(file).unwrap_or_else(|e| {
		eprintln!("cannot open {file}: {e}");
		std::process::exit(2)
	});
	let mut groups: BTreeMap<String, (Value, Vec<Value>)> = BTreeMap::new();
	let mut lines = 0u64;
	let mut skipped_abs = 0u64;
	let mut dup_left = 0u64;
	for line in BufReader::new(f).lines() {
		let line = line.unwrap();
		let text: String = if line.starts_with("\"REPLAY ") {
			let s: String = serde_json::from_str(&line).unwrap();
			s["REPLAY ".len()..].to_string()
		} else if line.starts_with('{') {
			line
		} else {
			continue;
		};
		let c: Value = serde_json::from_str(&text).unwrap_or_else(|e| {
			eprintln!("bad case line: {e}");
			std::process::exit(2)
		});
		lines += 1;
		let b = c["b"].as_u64().unwrap() as usize;
		let delta = BLOCK_SIZE - b;
		let lz4 = c["comp"] == "lz4";
		let ops = c["ops"].as_array().unwrap();
		let dm = ops.iter().find(|o| o["op"] == "damage").expect("damage op");
		let rec = ops.iter().find(|o| o["op"] == "recover").expect("recover op");
		if rec["mode"] == "abs" || rec["order"] != "replay_first" {
			// The recovery mode and the store's start-up order (writer opened before replay) are code of
			// src/lsm.rs: they are bound at the store level (wal_run store), not re-enacted by this driver.
			skipped_abs += 1;
			continue;
		}
		let mut sessions: Vec<Vec<Value>> = vec![vec![]];
		let mut j = 0usize;
		for o in ops {
			match o["op"].as_str().unwrap() {
				"append" => {
					let z = dm["z"][j].as_u64().unwrap() as usize;
					let n = o["n"].as_u64().unwrap() as usize;
					sessions.last_mut().unwrap().push(json!({"len": n + delta * z, "cls": o["cls"], "seed": 11 + j as u64, "framed": lz4}));
					j += 1;
				}
				"append_empty" => sessions.last_mut().unwrap().push(json!({"len": 0, "cls": "gen", "seed": 0})),
				"reopen" => sessions.push(vec![]),
				_ => break,
			}
		}
		let base = json!({"lz4": lz4, "sessions": sessions});
		let zsum: u64 = dm["z"].as_array().unwrap().iter().map(|z| z.as_u64().unwrap()).sum();
		let post: Vec<Value> = ops.iter().filter(|o| o["op"] == "post").map(|o| json!({"len": o["n"], "cls": "gen", "seed": 777})).collect();
		let lf = rec["left"].as_u64().unwrap_or(0);
		if lf > 0 && c["exp"]["left"].as_u64().unwrap_or(0) == 0 {
			dup_left += 1; // no repair happened: the same case as with nothing left behind
			continue;
		}
		let case = json!({"m": {"kind": dm["kind"], "val": dm["val"], "at": dm["at"], "pos": dm["pos"]}, "order": rec["order"], "post": post, "leftover": lf, "exp": c["exp"]});
		let key = format!("{}|{}|{}|{}", base, dm["size"], zsum, dm["nf"]);
		groups
			.entry(key)
			.or_insert_with(|| (json!({"base": base, "b": b, "msize": dm["size"], "zsum": zsum, "nf": dm["nf"]}), Vec::new()))
			.1
			.push(case);
	}
	let mut chunks = Vec::new();
	let nbases = groups.len();
	for (_, (head, cases)) in groups {
		for part in cases.chunks(1500) {
			let mut c = head.clone();
			c["cases"] = json!(part);
			chunks.push(c);
		}
	}
	let a = run_pool(chunks, threads, scratch, "wal_run cases");
	finish(a, vec![("tlc_lines", json!(lines)), ("skipped_store_level_cases", json!(skipped_abs)), ("skipped_duplicate_leftover_cases", json!(dup_left)), ("bases", json!(nbases))]);
}

// ------------------------------------------------------------------------------------------------
// `sweep`: enumerated byte-level damage on real segments

fn sweep_bases(tier: &str, seed: u64) -> Vec<Value> {
	let bs = BLOCK_SIZE;
	let mut v = Vec::new();
	let mut s = seed.wrapping_mul(7919) | 1;
	let mut rnd = |m: usize| (xorshift(&mut s) % m as u64) as usize;
	let ks: Vec<usize> = if tier == "quick" { vec![0, 3, 6, 7] } else { (0..=7).collect() };
	for (bi, k) in ks.iter().enumerate() {
		// r1 ends k bytes before the block boundary; r2 small (after padding / header-only fragment);
		// r3 spans into the third block; r4 one byte; session split varies with the base
		let r1 = bs - HEADER_SIZE - k;
		let recs = vec![
			json!({"len": r1, "cls": "rand", "seed": 100 + bi}),
			json!({"len": 5 + rnd(20), "cls": "rand", "seed": 200 + bi}),
			json!({"len": bs + 100 + rnd(300), "cls": "rand", "seed": 300 + bi}),
			json!({"len": 1, "cls": "rand", "seed": 400 + bi}),
		];
		let sessions = match bi % 3 {
			0 => vec![recs.clone()],
			1 => recs.iter().map(|r| vec![r.clone()]).collect::<Vec<_>>(),
			_ => vec![recs[..2].to_vec(), recs[2..].to_vec()],
		};
		v.push(json!({"lz4": false, "sessions": sessions}));
	}
	// many small records of random sizes 1..300 (several per block), a refused empty append among them
	let mut recs = Vec::new();
	for i in 0..(if tier == "quick" { 40 } else { 160 }) {
		recs.push(json!({"len": 1 + rnd(300), "cls": "rand", "seed": 1000 + i}));
		if i == 3 {
			recs.push(json!({"len": 0, "cls": "gen", "seed": 0}));
		}
	}
	v.push(json!({"lz4": false, "sessions": [recs[..7].to_vec(), recs[7..].to_vec()]}));
	// payload classes the reader's type dispatch is sensitive to: all-zero payloads at block ends, first byte 0 / 1
	v.push(json!({"lz4": false, "sessions": [[
		{"len": bs - HEADER_SIZE - HEADER_SIZE - 5 - 3, "cls": "gen", "seed": 1},
		{"len": 5, "cls": "zero", "seed": 2},
		{"len": 40, "cls": "c0", "seed": 3},
		{"len": 40, "cls": "one", "seed": 4},
		{"len": 2 * bs, "cls": "zero", "seed": 5},
		{"len": 9, "cls": "gen", "seed": 6}]]}));
	// LZ4 segments: compressible and incompressible payloads, two sessions
	v.push(json!({"lz4": true, "sessions": [
		[{"len": 300, "cls": "zero", "seed": 1}, {"len": 257, "cls": "rand", "seed": 2}, {"len": 40000, "cls": "rand", "seed": 3}],
		[{"len": 256, "cls": "gen", "seed": 4}, {"len": 70000, "cls": "zero", "seed": 5}, {"len": 33, "cls": "rand", "seed": 6}]]}));
	if tier != "quick" {
		v.push(json!({"lz4": true, "sessions": [[{"len": 1, "cls": "gen", "seed": 1}], [{"len": bs - 20, "cls": "rand", "seed": 2}, {"len": 513, "cls": "rand", "seed": 3}]]}));
	}
	v
}

fn sweep_main(tier: &str, seed: u64, threads: usize, scratch: &Path) {
	let quick = tier == "quick";
	let bases = sweep_bases(tier, seed);
	let mut chunks = Vec::new();
	let mut s = seed.wrapping_mul(104729) | 1;
	let bdir = scratch.join("plan");
	let mut planned = 0u64;
	for (bi, spec) in bases.iter().enumerate() {
		let base = match build_base(spec, &bdir) {
			Ok(b) => b,
			Err((k, e)) => {
				if k == "violation" {
					// reported by the child that rebuilds it
					chunks.push(json!({"base": spec, "b": 0, "cases": [{"d": {"kind": "none"}, "order": "replay_first", "post": []}]}));
				} else {
					eprintln!("unsteerable sweep base {bi}: {e}");
				}
				continue;
			}
		};
		let size = base.bytes.len();
		// positions of interest: every header byte, 9 bytes around every fragment start / end, block boundaries,
		// all bytes of the last two records; elsewhere a stride with a seeded phase
		let mut pos: BTreeSet<usize> = BTreeSet::new();
		for f in &base.frags {
			for d in 0..(HEADER_SIZE + 9) {
				pos.insert(f.off + d);
			}
			for d in 0..9 {
				pos.insert((f.off + HEADER_SIZE + f.len).saturating_sub(d));
			}
		}
		let n = base.ends.len();
		let tail_from = if n >= 2 { base.ends[n - 2].saturating_sub(300) as usize } else { 0 };
		let tail_from = tail_from.max(size.saturating_sub(if quick { 1500 } else { 4000 }));
		for p in tail_from..size {
			pos.insert(p);
		}
		// thorough: every offset of the segments whose first record ends 0 / 6 / 7 bytes before the block
		// boundary and of the byte-class segment; a small stride elsewhere
		let stride = if quick { 41 } else if [0usize, 6, 7, 9].contains(&bi) { 1 } else { 7 };
		let mut p = (xorshift(&mut s) % stride as u64) as usize;
		while p < size {
			pos.insert(p);
			p += stride;
		}
		let pos: Vec<usize> = pos.into_iter().filter(|p| *p < size).collect();
		let mut cases = Vec::new();
		let post = json!([{"len": 1 + (xorshift(&mut s) % 60), "cls": "rand", "seed": 4242}, {"len": 10, "cls": "rand", "seed": 4243}]);
		let push = |d: Value, _hot: bool, cases: &mut Vec<Value>| {
			cases.push(json!({"d": d, "order": "replay_first", "post": post}));
		};
		push(json!({"kind": "none"}), true, &mut cases);
		for (pi, &p) in pos.iter().enumerate() {
			let (fi, role) = role_of(&base.frags, p);
			let hdr = role != 'd' && role != 'p';
			push(json!({"kind": "trunc", "off": p}), pi % 2 == 0 || hdr, &mut cases);
			let old = base.bytes[p];
			let mut vals: BTreeSet<u8> = BTreeSet::new();
			if hdr {
				for bit in 0..8 {
					vals.insert(old ^ (1 << bit)); // every single-bit damage of a header byte
				}
				vals.insert(0);
				vals.insert(0xff);
			} else {
				vals.insert(old ^ (1 << (xorshift(&mut s) % 8)));
				vals.insert(if old == 0 { 0xff } else { 0 });
				if !quick {
					vals.insert(old.wrapping_add(1));
				}
			}
			if role == 't' {
				let all: Vec<u8> = if quick && fi > 3 { (0..=10).collect() } else { (0..=255).collect() };
				vals.extend(all);
			}
			vals.remove(&old);
			for (vi, val) in vals.iter().enumerate() {
				push(json!({"kind": "byte", "off": p, "val": val}), hdr && vi % 4 == 0, &mut cases);
				if vi == 0 && pi % 5 == 0 {
					// the same damage, found after an earlier repair attempt was interrupted
					for (lf, order) in [(1, "replay_first"), (99, "replay_first")] {
						cases.push(json!({"d": {"kind": "byte", "off": p, "val": val}, "order": order, "post": post, "leftover": lf}));
					}
				}
			}
		}
		planned += cases.len() as u64;
		for part in cases.chunks(1200) {
			chunks.push(json!({"base": spec, "b": 0, "cases": part}));
		}
	}
	let _ = std::fs::remove_dir_all(&bdir);
	let nb = bases.len();
	let a = run_pool(chunks, threads, scratch, "wal_run sweep");
	finish(a, vec![("bases", json!(nb)), ("planned", json!(planned))]);
}

// ------------------------------------------------------------------------------------------------
// store level: damaged directories opened through TreeBuilder, both recovery modes

fn store_opts(path: &Path, abs: bool) -> surrealkv::Options {
	surrealkv::Options::new().with_path(path.to_path_buf()).with_flush_on_close(false).with_wal_recovery_mode(if abs {
		surrealkv::WalRecoveryMode::AbsoluteConsistency
	} else {
		surrealkv::WalRecoveryMode::TolerateCorruptedWithRepair
	})
}

fn store_key(i: usize) -> Vec<u8> {
	format!("key-{i:04}").into_bytes()
}

fn store_val(len: usize, i: usize) -> Vec<u8> {
	payload(len, "rand", 9000 + i as u64, 0)
}

/// One process = one life of the store. Prints `PHASE {json}`.
///   {"dir", "abs", "keys": [[index, value_len]..], "commit": [[index, value_len]..], "build": bool}
fn store_phase_main(arg: &str) {
	verif_harness::quiet_panics();
	let a: Value = serde_json::from_str(arg).expect("phase json");
	if let Some(p) = a["readseg"].as_str() {
		// what the wal reader says about a segment file (in a process of its own: it may hang or abort)
		let r = verif_harness::catch(|| read_segment(Path::new(p)));
		let out = match r {
			Ok(Ok(r)) => json!({"end": end_name(&r.end), "n": r.records.len(), "vend": r.offsets.last().copied().unwrap_or(0)}),
			Ok(Err(e)) => json!({"end": "Other", "n": 0, "vend": 0, "err": e.to_string()}),
			Err(p) => json!({"panic": p}),
		};
		println!("PHASE {out}");
		return;
	}
	let dir = PathBuf::from(a["dir"].as_str().unwrap());
	let abs = a["abs"].as_bool().unwrap_or(false);
	let rt = verif_harness::rt();
	let _g = rt.enter();
	let mut out = json!({"open": "ok"});
	let r = verif_harness::catch(|| {
		let tree = match surrealkv::TreeBuilder::with_options(store_opts(&dir, abs)).build() {
			Ok(t) => t,
			Err(e) => {
				out["open"] = json!("err");
				out["err"] = json!(e.to_string());
				return;
			}
		};
		// what is visible
		let mut vis = Vec::new();
		{
			let tx = tree.begin_with_mode(surrealkv::Mode::ReadOnly).expect("begin");
			for k in a["keys"].as_array().unwrap() {
				let i = k[0].as_u64().unwrap() as usize;
				let want = store_val(k[1].as_u64().unwrap() as usize, i);
				let s = match tx.get(store_key(i)) {
					Ok(Some(v)) => {
						if v == want {
							"ok"
						} else {
							"wrong"
						}
					}
					Ok(None) => "absent",
					Err(_) => "error",
				};
				vis.push(s);
			}
		}
		out["visible"] = json!(vis);
		let wal = dir.join("wal");
		let mut sizes = Vec::new();
		let mut commits = Vec::new();
		for k in a["commit"].as_array().unwrap() {
			let i = k[0].as_u64().unwrap() as usize;
			let mut tx = tree.begin().expect("begin");
			tx.set_durability(surrealkv::Durability::Immediate);
			tx.set(store_key(i), store_val(k[1].as_u64().unwrap() as usize, i)).expect("set");
			match rt.block_on(tx.commit()) {
				Ok(()) => commits.push("ok".to_string()),
				Err(e) => commits.push(format!("err: {e}")),
			}
			let mut segs: Vec<(String, u64)> = std::fs::read_dir(&wal)
				.map(|d| d.filter_map(|e| e.ok()).filter(|e| e.path().is_file()).map(|e| (e.file_name().to_string_lossy().to_string(), e.metadata().map(|m| m.len()).unwrap_or(0))).collect())
				.unwrap_or_default();
			segs.sort();
			sizes.push(json!(segs));
		}
		out["commits"] = json!(commits);
		out["wal_after_commit"] = json!(sizes);
		match rt.block_on(tree.close()) {
			Ok(()) => out["close"] = json!("ok"),
			Err(e) => out["close"] = json!(format!("err: {e}")),
		}
	});
	if let Err(p) = r {
		out["panic"] = json!(p);
	}
	println!("PHASE {out}");
}

fn run_phase(arg: &Value) -> Value {
	let exe = std::env::current_exe().unwrap();
	let mut child = Command::new(&exe)
		.arg("store-phase")
		.arg(arg.to_string())
		.env("RUST_BACKTRACE", "0")
		.env("RUST_LOG", "off")
		.stdout(Stdio::piped())
		.stderr(Stdio::null())
		.spawn()
		.expect("spawn store phase");
	let stdout = child.stdout.take().unwrap();
	let reader = std::thread::spawn(move || {
		let mut s = String::new();
		let _ = BufReader::new(stdout).read_to_string(&mut s);
		s
	});
	let st = wait_child(&mut child, Instant::now() + Duration::from_secs(12), None, Duration::from_secs(12));
	let s = reader.join().unwrap_or_default();
	for l in s.lines() {
		if let Some(x) = l.strip_prefix("PHASE ") {
			if let Ok(v) = serde_json::from_str::<Value>(x) {
				return v;
			}
		}
	}
	match st {
		None => json!({"hang": true}),
		Some(st) => json!({"abort": format!("{st:?}")}),
	}
}

fn copy_dir(src: &Path, dst: &Path) {
	std::fs::create_dir_all(dst).unwrap();
	for e in std::fs::read_dir(src).unwrap() {
		let e = e.unwrap();
		let p = e.path();
		let d = dst.join(e.file_name());
		if p.is_dir() {
			copy_dir(&p, &d);
		} else if e.file_name() != "LOCK" {
			std::fs::copy(&p, &d).unwrap();
		}
	}
}

struct StoreBase {
	dir: PathBuf,
	keys: Vec<(usize, usize)>, // (index, value_len)
	ends: Vec<u64>,            // size of the last segment after each commit
	segname: String,
	bytes: Vec<u8>,
	frags: Vec<Frag>,
}

fn build_store(dir: &Path, vlens: &[usize]) -> Result<StoreBase, String> {
	let _ = std::fs::remove_dir_all(dir);
	let keys: Vec<(usize, usize)> = vlens.iter().enumerate().map(|(i, l)| (i, *l)).collect();
	let r = run_phase(&json!({"dir": dir, "abs": false, "keys": [], "commit": keys.iter().map(|(i, l)| json!([i, l])).collect::<Vec<_>>()}));
	if r["open"] != "ok" || r["close"] != "ok" || r["commits"].as_array().map(|a| a.iter().any(|c| c != "ok")).unwrap_or(true) {
		return Err(format!("building the store failed: {r}"));
	}
	let sizes = r["wal_after_commit"].as_array().unwrap();
	let last = sizes.last().unwrap().as_array().unwrap();
	if last.len() != 1 {
		return Err(format!("expected one WAL segment, found {last:?}"));
	}
	let segname = last[0][0].as_str().unwrap().to_string();
	let ends = sizes.iter().map(|s| s[0][1].as_u64().unwrap()).collect();
	let bytes = std::fs::read(dir.join("wal").join(&segname)).map_err(|e| e.to_string())?;
	let frags = parse_layout(&bytes);
	Ok(StoreBase {
		dir: dir.to_path_buf(),
		keys,
		ends,
		segname,
		bytes,
		frags,
	})
}

/// One store-level case: damage the last segment, open in `mode`, look, commit, close, open again, look.
fn store_case(sb: &StoreBase, dmg: &Dmg, abs: bool, work: &Path) -> (Vec<Value>, String) {
	let _ = std::fs::remove_dir_all(work);
	copy_dir(&sb.dir, work);
	let segp = work.join("wal").join(&sb.segname);
	let mut bytes = sb.bytes.clone();
	match dmg.kind.as_str() {
		"trunc" => bytes.truncate(dmg.off),
		"byte" => bytes[dmg.off] = dmg.val,
		_ => {}
	}
	std::fs::write(&segp, &bytes).unwrap();
	let mut v: Vec<(String, String)> = Vec::new();
	// what the wal reader says about this file (defines "detected damage")
	let r1 = run_phase(&json!({"readseg": segp}));
	let detected = r1["end"] == "Corrupt";
	let n = sb.keys.len();
	let wb = if dmg.kind == "none" { n } else { sb.ends.iter().filter(|e| (**e as usize) <= dmg.off).count() };
	let keys: Vec<Value> = sb.keys.iter().map(|(i, l)| json!([i, l])).collect();
	let post = (1000usize, 77usize);
	let r1_crashed = r1.get("hang").is_some() || r1.get("abort").is_some() || r1.get("panic").is_some();
	let p1 = if r1_crashed { json!({}) } else { run_phase(&json!({"dir": work, "abs": abs, "keys": keys, "commit": [[post.0, post.1]]})) };
	let mut outcome = format!("{}:{}:", if abs { "abs" } else { "tol" }, if detected { "detected" } else { "silent" });
	let crash = |p: &Value, v: &mut Vec<(String, String)>, when: &str| -> bool {
		if p.get("hang").is_some() || p.get("abort").is_some() {
			CRASHES.fetch_add(1, std::sync::atomic::Ordering::SeqCst);
		}
		if p.get("hang").is_some() {
			v.push(("hang".into(), format!("{when}: no answer within 12 s")));
			true
		} else if p.get("abort").is_some() {
			v.push(("abort".into(), format!("{when}: process died: {}", p["abort"])));
			true
		} else if p.get("panic").is_some() {
			v.push(("panic".into(), format!("{when}: {}", p["panic"])));
			true
		} else {
			false
		}
	};
	let prefix_of = |p: &Value, v: &mut Vec<(String, String)>, when: &str, extra_ok: bool| -> Option<usize> {
		let vis: Vec<&str> = p["visible"].as_array().map(|a| a.iter().map(|x| x.as_str().unwrap_or("?")).collect()).unwrap_or_default();
		let m = vis.iter().take(n).take_while(|s| **s == "ok").count();
		if vis.iter().take(n).skip(m).any(|s| *s != "absent") {
			v.push(("not_a_prefix".into(), format!("{when}: visibility of the committed transactions {:?}", &vis[..n.min(vis.len())])));
			return None;
		}
		if m < wb {
			v.push(("lost_record_before_damage".into(), format!("{when}: {m} transactions visible, {wb} lie wholly before the damage")));
		}
		if extra_ok && vis.get(n) != Some(&"ok") {
			v.push(("append_after_open".into(), format!("{when}: the transaction committed after recovery is {:?}", vis.get(n))));
		}
		Some(m)
	};
	let mut repaired = false;
	let mut class_hint = "";
	if crash(&r1, &mut v, "wal read of the damaged segment") {
		// nothing else can be judged
	} else if !crash(&p1, &mut v, "open of the damaged store") {
		if p1["open"] == "ok" {
			outcome.push_str("open");
			if abs && detected {
				v.push(("absolute_opened_detected_damage".into(), "AbsoluteConsistency opened a log whose reader reports corruption".into()));
			}
			let after = std::fs::read(&segp).unwrap_or_default();
			repaired = after.len() < bytes.len() || !after.starts_with(&bytes);
			let m1 = prefix_of(&p1, &mut v, "after recovery", false);
			if p1["commits"][0] != "ok" || p1["close"] != "ok" {
				v.push(("append_after_open".into(), format!("commit/close after recovery: {} / {}", p1["commits"][0], p1["close"])));
			} else {
				// next life of the store, same mode
				let mut keys2 = keys.clone();
				keys2.push(json!([post.0, post.1]));
				let p2 = run_phase(&json!({"dir": work, "abs": abs, "keys": keys2, "commit": []}));
				if !crash(&p2, &mut v, "second open") {
					if p2["open"] != "ok" {
						outcome.push_str(":reopen_failed");
						v.push(("append_after_open".into(), format!("the store does not open after recovery + one commit: {}", p2["err"])));
					} else {
						outcome.push_str(":reopen");
						let m2 = prefix_of(&p2, &mut v, "second open", true);
						if let (Some(a), Some(b)) = (m1, m2) {
							if b < a {
								v.push(("lost_replayed_record".into(), format!("{a} transactions visible after recovery, {b} after the next open")));
							}
						}
					}
				}
			}
			let vend = r1["vend"].as_u64().unwrap_or(0) as usize;
			if !detected && vend != bytes.len() {
				class_hint = "torn";
			}
		} else {
			outcome.push_str("refused");
			if !abs {
				v.push(("open_failed".into(), format!("TolerateCorruptedWithRepair refused to open: {}", p1["err"])));
			} else if !detected {
				v.push(("absolute_refused_clean_log".into(), format!("AbsoluteConsistency refused a log the reader accepts: {}", p1["err"])));
			} else {
				// refused: the segment must be left alone
				let after = std::fs::read(&segp).unwrap_or_default();
				if after != bytes || work.join("wal").join("repair_temp").exists() {
					v.push(("absolute_modified_log".into(), "AbsoluteConsistency refused to open but changed the WAL directory".into()));
				}
			}
		}
	}
	let (fi, role) = if dmg.kind == "none" { (0, '-') } else { role_of(&sb.frags, dmg.off.min(sb.bytes.len() - 1)) };
	let _ = fi;
	let meta = dmg.kind == "byte" && role == 't' && (dmg.val == 0 || dmg.val == 9);
	let out = v
		.into_iter()
		.map(|(kind, what)| {
			let class = if ["panic", "hang", "abort"].contains(&kind.as_str()) {
				""
			} else if meta {
				"meta_before_crc"
			} else if kind == "append_after_open" && !repaired && class_hint == "torn" {
				"torn_tail_append"
			} else if (kind == "append_after_open" && repaired) || (kind == "open_failed" && detected) {
				"writer_before_recovery"
			} else {
				""
			};
			json!({"kind": kind, "class": class, "what": what, "layer": "store", "role": role.to_string()})
		})
		.collect();
	outcome.push_str(if repaired { ":repaired" } else { "" });
	let _ = std::fs::remove_dir_all(work);
	(out, outcome)
}

fn store_vlens(k: usize) -> Vec<usize> {
	// records are encoded batches (about 30 bytes of framing around the value): the second one ends
	// near the block boundary (steered by `calibrate`), the third one crosses into the next block
	vec![100, 0, 3000 + 40 * k, 1, 400]
}

fn store_main(tier: &str, seed: u64, threads: usize, scratch: &Path) {
	let quick = tier == "quick";
	let mut agg = Agg::new("wal_run store");
	// calibrate the batch framing: value length -> WAL record length
	let cal = match build_store(&scratch.join("cal"), &[100, 20000]) {
		Ok(b) => b,
		Err(e) => {
			eprintln!("{e}");
			std::process::exit(2);
		}
	};
	let over_small = cal.ends[0] as usize - HEADER_SIZE - 100;
	let over_big = (cal.ends[1] - cal.ends[0]) as usize - HEADER_SIZE - 20000;
	let ks: Vec<usize> = if quick { vec![0, 6, 7] } else { (0..=7).collect() };
	let mut bases = Vec::new();
	for k in ks {
		let mut vl = store_vlens(k);
		// record 2 must end k bytes before the first block boundary
		let used = HEADER_SIZE + over_small + vl[0];
		vl[1] = BLOCK_SIZE - k - used - HEADER_SIZE - over_big;
		match build_store(&scratch.join(format!("base{k}")), &vl) {
			Ok(b) => {
				if b.ends[1] as usize != BLOCK_SIZE - k {
					*agg.counters.entry("unsteered_bases".into()).or_default() += 1;
				}
				bases.push(b);
			}
			Err(e) => {
				eprintln!("{e}");
				std::process::exit(2);
			}
		}
	}
	let mut work: Vec<(usize, Dmg, bool)> = Vec::new();
	let mut s = seed.wrapping_mul(15485863) | 1;
	for (bi, b) in bases.iter().enumerate() {
		let size = b.bytes.len();
		let mut pos: BTreeSet<usize> = BTreeSet::new();
		for f in &b.frags {
			for d in 0..HEADER_SIZE + 2 {
				pos.insert(f.off + d);
			}
			for d in 0..3 {
				pos.insert((f.off + HEADER_SIZE + f.len).saturating_sub(d));
			}
		}
		for e in &b.ends {
			for d in 0..8 {
				pos.insert((*e as usize).saturating_sub(d));
				pos.insert(*e as usize + d);
			}
		}
		let stride = if quick { 67 } else { 53 };
		let mut p = (xorshift(&mut s) % stride as u64) as usize;
		while p < size {
			pos.insert(p);
			p += stride;
		}
		let pos: Vec<usize> = pos.into_iter().filter(|p| *p < size).collect();
		work.push((bi, Dmg { kind: "none".into(), off: 0, val: 0 }, false));
		work.push((bi, Dmg { kind: "none".into(), off: 0, val: 0 }, true));
		for (pi, &p) in pos.iter().enumerate() {
			let (_, role) = role_of(&b.frags, p);
			let thin = quick && (pi + bi) % 2 != 0 && role == 'd';
			if thin {
				continue;
			}
			for abs in [false, true] {
				work.push((bi, Dmg { kind: "trunc".into(), off: p, val: 0 }, abs));
			}
			let old = b.bytes[p];
			let mut vals: Vec<u8> = vec![old ^ (1 << (xorshift(&mut s) % 8))];
			if role == 't' {
				vals = vec![0, 1, 2, 3, 4, 5, 9, 0xff, old ^ 8];
			} else if role == 'l' || role == 'c' {
				vals.push(old ^ 0x80);
				vals.push(old.wrapping_add(1));
			}
			vals.sort();
			vals.dedup();
			for val in vals {
				if val == old {
					continue;
				}
				for abs in [false, true] {
					if quick && role != 't' && (abs as usize + pi) % 2 == 0 {
						continue;
					}
					work.push((bi, Dmg { kind: "byte".into(), off: p, val }, abs));
				}
			}
		}
	}
	let total = work.len();
	let q = Arc::new(Mutex::new(work.into_iter().collect::<VecDeque<_>>()));
	let bases = Arc::new(bases);
	let aggm = Arc::new(Mutex::new(agg));
	let mut hs = Vec::new();
	for t in 0..threads {
		let q = Arc::clone(&q);
		let bases = Arc::clone(&bases);
		let aggm = Arc::clone(&aggm);
		let wdir = scratch.join(format!("s{t}"));
		hs.push(std::thread::spawn(move || loop {
			let item = { q.lock().unwrap().pop_front() };
			let Some((bi, dmg, abs)) = item else { break };
			if CRASHES.load(std::sync::atomic::Ordering::SeqCst) >= CRASH_BUDGET {
				*aggm.lock().unwrap().counters.entry("skipped_after_crash_budget".into()).or_default() += 1;
				continue;
			}
			let sb = &bases[bi];
			let (viol, outcome) = store_case(sb, &dmg, abs, &wdir);
			let mut a = aggm.lock().unwrap();
			*a.counters.entry("cases".into()).or_default() += 1;
			*a.counters.entry("steps".into()).or_default() += 2;
			a.outcomes.insert(outcome.clone());
			let case = json!({"layer": "store", "vlens": sb.keys.iter().map(|k| k.1).collect::<Vec<_>>(),
				"d": {"kind": dmg.kind, "off": dmg.off, "val": dmg.val}, "abs": abs});
			if a.sum.samples.len() < 2 && dmg.kind != "none" {
				a.sum.sample(json!({"case": case, "outcome": outcome}));
			}
			for mut v in viol {
				v["case"] = case.clone();
				*a.counters.entry(format!("viol:{}:{}", v["kind"].as_str().unwrap(), v["class"].as_str().unwrap())).or_default() += 1;
				a.violation(v);
			}
		}));
	}
	for h in hs {
		let _ = h.join();
	}
	let a = Arc::try_unwrap(aggm).ok().unwrap().into_inner().unwrap();
	finish(a, vec![("planned", json!(total)), ("bases", json!(bases.len())), ("batch_overhead", json!([over_small, over_big]))]);
}

// ------------------------------------------------------------------------------------------------
// `one`: a recorded case

fn one_main(file: &str, scratch: &Path) {
	let doc: Value = serde_json::from_str(&std::fs::read_to_string(file).expect("read replay file")).expect("json");
	let c = if doc.get("replay").is_some() { doc["replay"]["case"].clone() } else { doc };
	if c["layer"] == "store" {
		let vl: Vec<usize> = c["vlens"].as_array().unwrap().iter().map(|x| x.as_u64().unwrap() as usize).collect();
		let sb = build_store(&scratch.join("base"), &vl).unwrap_or_else(|e| {
			eprintln!("{e}");
			std::process::exit(2)
		});
		let d = &c["d"];
		let dmg = Dmg {
			kind: d["kind"].as_str().unwrap().to_string(),
			off: d["off"].as_u64().unwrap_or(0) as usize,
			val: d["val"].as_u64().unwrap_or(0) as u8,
		};
		let (viol, outcome) = store_case(&sb, &dmg, c["abs"].as_bool().unwrap_or(false), &scratch.join("w"));
		let mut sum = Summary::new("wal_run one");
		sum.cases = 1;
		for mut v in viol {
			v["case"] = c.clone();
			sum.violation(v);
		}
		sum.extra.insert("outcome".into(), json!(outcome));
		sum.print();
		return;
	}
	let a = run_pool(vec![c], 1, scratch, "wal_run one");
	finish(a, vec![]);
}

fn main() {
	let args: Vec<String> = std::env::args().collect();
	let opt = |name: &str| args.iter().position(|a| a == name).and_then(|i| args.get(i + 1)).cloned();
	let threads: usize = opt("--threads").and_then(|s| s.parse().ok()).unwrap_or(8);
	let seed: u64 = opt("--seed").and_then(|s| s.parse().ok()).unwrap_or(1);
	let tier = opt("--tier").unwrap_or_else(|| "quick".into());
	let scratch = opt("--scratch").map(PathBuf::from).unwrap_or_else(|| {
		let base = std::env::var("VERIF_WORK").map(PathBuf::from).unwrap_or_else(|_| std::env::current_dir().unwrap().join("work").join("tmp"));
		base.join(format!("wal-{}", std::process::id()))
	});
	if args.len() < 2 {
		eprintln!("usage: wal_run cases|sweep|store|one ...");
		std::process::exit(2);
	}
	match args[1].as_str() {
		"chunk" => {
			let progress = PathBuf::from(opt("--progress").expect("--progress"));
			let start = opt("--start").and_then(|s| s.parse().ok()).unwrap_or(0);
			chunk_main(&scratch, &progress, start);
			return;
		}
		"store-phase" => {
			store_phase_main(&args[2]);
			return;
		}
		_ => {}
	}
	std::fs::create_dir_all(&scratch).expect("create scratch");
	match args[1].as_str() {
		"cases" => cases_main(&args[2], threads, &scratch),
		"sweep" => sweep_main(&tier, seed, threads, &scratch),
		"store" => store_main(&tier, seed, threads, &scratch),
		"one" => one_main(&args[2], &scratch),
		other => {
			eprintln!("unknown mode {other}");
			std::process::exit(2);
		}
	}
	let _ = std::fs::remove_dir_all(&scratch);
}
